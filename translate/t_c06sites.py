"""Tie T for C06: the table of every place in the multifilesystem storage where a file-system path is built or used.

Scanned: radicale/storage/multifilesystem/*.py, radicale/storage/multifilesystem_nolock.py, radicale/storage/__init__.py.
For every call of a SINK (open, os.replace/rename/remove/rmdir/makedirs/mkdir/listdir/scandir/stat/utime/..., os.path.exists/
isfile/isdir/getmtime/lexists..., TemporaryDirectory, shutil.*, pathutils.rename_exchange / RwLock, the base argument of
pathutils.path_to_filesystem, and the three reviewed helpers _atomic_write / _makedirs_synced / _sync_directory) the
PROVENANCE of each path argument is computed by a small syntactic abstract interpretation of the enclosing function
(flow-sensitive environment, joins at if/try/loops, guards `is_safe_filesystem_path_component(x)` / `check_token_name(x)`,
truthiness) and emitted as a term of `RV.Model.C06Prov.prov`:

    PRoot                    configuration.get("storage", "filesystem_folder" | "filesystem_cache_folder")
    PJoin b c                os.path.join(b, c)
    PPtf b                   pathutils.path_to_filesystem(b, <any string>)      (C06_to_fs: refuses or appends safe parts)
    PDir p / PBase p         os.path.dirname / basename
    PTmp p                   TemporaryDirectory(prefix=".Radicale.tmp-", dir=p)
    PRebase p                p.replace(collection-root folder, collection-cache folder)
    CLit s                   a string literal;  CChecked  a value that passed is_safe_filesystem_path_component on this path;
    CScan                    a name returned by os.scandir / os.listdir;  CToken  passed check_token_name / a sha256 hexdigest
    PParam f x               parameter x of the internal function f: every call of f in the scanned files is listed in
                             `calls` with the provenance of the argument (interprocedural, context-insensitive except for
                             one boolean flag parameter such as _get(verify_href=...))
    PEither a b              join of two control-flow paths
    PReviewed why            a hand-reviewed exception (table REVIEWED below) -- trusted, counted in the notes
    PUnknown why             anything else: FAIL CLOSED (sites_ok = false)

Parameters of PUBLIC storage methods (names not starting with "_": discover, upload, delete, move, get_multi, sync,
create_collection...) are arbitrary, attacker-chosen strings: they are PUnknown unless guarded or handed to
path_to_filesystem.  Result: coq/Gen/C06Sites.v (`calls`, `sites`), checked by `Gen_c06_sites_ok : sites_ok calls sites = true`.
"""
import ast
import glob
import hashlib
import os

FILES = ["radicale/storage/multifilesystem/*.py", "radicale/storage/multifilesystem_nolock.py", "radicale/storage/__init__.py"]

OS_SINKS = {"replace": 2, "rename": 2, "remove": 1, "rmdir": 1, "makedirs": 1, "mkdir": 1, "listdir": 1, "scandir": 1,
            "stat": 1, "lstat": 1, "utime": 1, "unlink": 1, "open": 1, "access": 1, "chmod": 1, "chown": 1, "link": 2,
            "symlink": 2, "walk": 1, "truncate": 1, "removedirs": 1, "renames": 2, "readlink": 1, "chdir": 1, "mkfifo": 1}
OSPATH_SINKS = {"exists", "lexists", "isfile", "isdir", "getmtime", "getsize", "islink", "getatime", "getctime", "ismount",
                "realpath", "samefile"}
PATHUTILS_SINKS = {"rename_exchange": 2, "RwLock": 1}
# reviewed helpers: their bodies are pinned by hash, calls of them are sites on argument 0
HELPERS = {"_atomic_write": "atomic_write", "_makedirs_synced": "makedirs_synced", "_sync_directory": "sync_directory"}
HELPER_HASH = {
    "_atomic_write": "e8d87f4e183be493",
    "_makedirs_synced": "ad876aee1cd72b9e",
    "_sync_directory": "a663984743f03dfd",
}
PASS_THROUGH = {"cast": 1, "sorted": 0, "list": 0, "iter": 0, "set": 0, "tuple": 0, "reversed": 0, "frozenset": 0}
ANY_STRING = {"strip_path", "unstrip_path", "sanitize_path"}

# hand-reviewed values: (callee name) -> reason.  The value is trusted to be one safe file-system component.
REVIEWED_CALLS = {
    "find_available_uid": "radicale.item.find_available_uid(exists_fn, suffix): uuid4 text + suffix, retried until "
                          "exists_fn (= not is_safe_free_href, which includes is_safe_filesystem_path_component) rejects it",
}
# hand-reviewed sites: (file, function, sink, ordinal among the function's sites of that sink) -> reason
REVIEWED_SITES = {
    ("httputils.py", "_serve_traversable", "os.path.isfile", 0):
        "probe for the packaged infcloud/index.html: literal substitution inside the path of the page being served",
}

# parameters of public functions nobody in the tree calls that are NOT request text (reviewed)
TRUSTED_ENTRY_PARAMS = {
    ("serve_folder", "index_file"): "deprecated plug-in API httputils.serve_folder: index file name chosen by the plug-in, not by a request",
}

UNK = "unk"


class Unsupported(Exception):
    pass


def unk(why):
    return (UNK, why)


def either(a, b):
    if a == b:
        return a
    if a[0] == "bot":
        return b
    if b[0] == "bot":
        return a
    if a[0] == "tup" and b[0] == "tup" and len(a[1]) == len(b[1]):
        return ("tup", tuple(either(x, y) for x, y in zip(a[1], b[1])))
    alts = []
    for t in flatten(a) + flatten(b):
        if t not in alts:
            alts.append(t)
    if len(alts) > 6:
        return unk("join of more than 6 alternatives")
    alts.sort(key=repr)
    out = alts[0]
    for t in alts[1:]:
        out = ("either", out, t)
    return out


def flatten(t):
    if t[0] == "either":
        return flatten(t[1]) + flatten(t[2])
    return [t]


def mentions_pub(t, v):
    if t == ("pub", v):
        return True
    return any(isinstance(x, tuple) and mentions_pub(x, v) for x in t[1:])


def strip_empty(t):
    alts = [x for x in flatten(t) if x != ("lit", "")]
    if not alts:
        return ("lit", "")
    out = alts[0]
    for x in alts[1:]:
        out = either(out, x)
    return out


def terminates(stmts):
    return bool(stmts) and isinstance(stmts[-1], (ast.Raise, ast.Return, ast.Continue, ast.Break))


class State:
    def __init__(self, env=None, checked=None):
        self.env = dict(env or {})
        self.checked = set(checked or ())

    def copy(self):
        return State(self.env, self.checked)

    def assign(self, v, t):
        for k, old in list(self.env.items()):
            if k != v and mentions_pub(old, v):
                self.env[k] = unk("built from %s before it was reassigned" % v)
        self.checked.discard(v)
        self.env[v] = t


def merge(a, b):
    if a is None:
        return b
    if b is None:
        return a
    out = State()
    for k in set(a.env) | set(b.env):
        out.env[k] = either(a.env.get(k, ("bot",)), b.env.get(k, ("bot",)))
    out.checked = a.checked & b.checked
    return out


class Program:
    FILES, BASE, MINFILES, APP, WEB = FILES, "radicale/storage", 12, False, False

    def __init__(self, repo):
        self.repo = repo
        self.funcs = {}      # key -> (file, qual, node)
        self.ret = {}
        self.yld = {}
        self.attr = {}
        self.calls = {}      # (f, x) -> list of terms
        self.sites = []
        self.checkers = {}   # local function name -> set of param names it checks
        self.nested = []
        self.pret, self.pyld, self.pattr = {}, {}, {}
        self.record = False
        self.trees = []
        for pat in self.FILES:
            for path in sorted(glob.glob(os.path.join(repo, pat))):
                with open(path) as fh:
                    self.trees.append((os.path.relpath(path, os.path.join(repo, self.BASE)), ast.parse(fh.read())))
        if len(self.trees) < self.MINFILES:
            raise Unsupported("sources not found below %s" % self.BASE)
        for fname, tree in self.trees:
            self.collect(fname, tree, "")

    # ---- function table
    def collect(self, fname, node, qual):
        for ch in ast.iter_child_nodes(node):
            if isinstance(ch, ast.ClassDef):
                self.collect(fname, ch, (qual + "." if qual else "") + ch.name)
            elif isinstance(ch, (ast.FunctionDef, ast.AsyncFunctionDef)):
                q = (qual + "." if qual else "") + ch.name
                self.funcs.setdefault(self.key_of(ch), []).append((fname, q, ch))

    @staticmethod
    def params(fn):
        a = fn.args
        if a.vararg or a.kwarg:
            names = [x.arg for x in a.posonlyargs + a.args + a.kwonlyargs]
        else:
            names = [x.arg for x in a.posonlyargs + a.args + a.kwonlyargs]
        return [n for n in names if n not in ("self", "cls")]

    def key_of(self, fn):
        if fn.name == "__init__":
            return "__init__/%d" % len(self.params(fn))
        return fn.name

    @staticmethod
    def flag_of(fn):
        a = fn.args
        pos = a.posonlyargs + a.args
        flags = []
        for arg, d in zip(pos[len(pos) - len(a.defaults):], a.defaults):
            if isinstance(d, ast.Constant) and isinstance(d.value, bool):
                flags.append((arg.arg, d.value))
        return flags[0] if len(flags) == 1 else None

    # ---- whole-program fixpoint
    def run(self):
        if not self.APP and not self.WEB:
            self.check_pins()
        prev = None
        for rnd in range(10):
            self.calls, self.sites = {}, []
            self.pret, self.pyld, self.pattr = self.ret, self.yld, self.attr
            self.ret, self.yld, self.attr = {}, {}, {}
            self.record = True
            for key in sorted(self.funcs):
                for fname, qual, fn in self.funcs[key]:
                    if fn.name in HELPERS or fn in self.nested:
                        continue
                    self.analyse(fname, qual, fn, State())
            snap = repr((sorted(self.ret.items()), sorted(self.yld.items()), sorted(self.attr.items()),
                         sorted((k, sorted(map(repr, v))) for k, v in self.calls.items())))
            if snap == prev:
                return
            prev = snap
        raise Unsupported("provenance tables did not stabilise")

    def check_pins(self):
        for name, want in HELPER_HASH.items():
            defs = self.funcs.get(name, [])
            if len(defs) != 1:
                raise Unsupported("reviewed helper %s: %d definitions" % (name, len(defs)))
            got = hashlib.sha256(ast.dump(defs[0][2]).encode()).hexdigest()[:16]
            if got != want:
                raise Unsupported("reviewed helper %s changed (body hash %s, reviewed %s)" % (name, got, want))

    # ---- per function
    def analyse(self, fname, qual, fn, closure):
        key = self.key_of(fn)
        st = closure.copy()
        public = not fn.name.startswith("_") and not self.WEB
        flag = self.flag_of(fn)
        for p in self.params(fn):
            if self.APP:
                st.assign(p, ("param", "do_*" if fn.name.startswith("do_") else key, p))
            elif flag and p == flag[0]:
                st.assign(p, unk("flag"))
            elif public:
                st.assign(p, ("pub", p))
            elif flag:
                st.assign(p, either(("param", key, "%s@%s=True" % (p, flag[0])), ("param", key, "%s@%s=False" % (p, flag[0]))))
            else:
                st.assign(p, ("param", key, p))
        ctx = {"file": fname, "qual": qual, "key": key, "flag": flag, "fn": fn, "nsite": {}}
        self.block(fn.body, st, ctx)
        # is this function a checker of one of its parameters?  (single return of a conjunction containing the guard)
        rets = [n for n in ast.walk(fn) if isinstance(n, ast.Return)]
        if len(rets) == 1 and rets[0].value is not None and len(fn.body) == 1:
            t, _f = self.facts(rets[0].value)
            t = {v for kind, v in t if kind == "safe"} & set(self.params(fn))
            if t:
                self.checkers[fn.name] = [self.params(fn).index(v) for v in t]

    def loop_body(self, stmts, st, ctx):
        """(state at the end of an iteration incl. `continue`, states at `break`)"""
        saved = ctx.get("breaks"), ctx.get("continues")
        ctx["breaks"], ctx["continues"] = [], []
        end = self.block(stmts, st, ctx)
        for c in ctx["continues"]:
            end = merge(end, c)
        brks = ctx["breaks"]
        ctx["breaks"], ctx["continues"] = saved
        return end, brks

    def block(self, stmts, st, ctx):
        """returns the state after the block, or None if control never falls through"""
        for s in stmts:
            st = self.stmt(s, st, ctx)
            if st is None:
                return None
        return st

    def apply_facts(self, st, fs):
        for kind, v in fs:
            if kind == "safe":
                st.checked.add(v)
                if st.env.get(v) != ("pub", v):
                    st.env[v] = ("checked",)
            elif kind == "token":
                st.assign(v, ("token",))
            elif kind == "nonempty" and v in st.env:
                st.env[v] = strip_empty(st.env[v])
            elif kind == "flag":
                name, val, ctx = v
                for p in self.params(ctx["fn"]):
                    if p != name and not any(isinstance(n, ast.Assign) and any(isinstance(t, ast.Name) and t.id == p for t in n.targets)
                                             for n in ast.walk(ctx["fn"])):
                        st.env[p] = ("param", ctx["key"], "%s@%s=%s" % (p, name, val))

    def facts(self, test, ctx=None):
        """(facts when true, facts when false); a fact is (kind, var)"""
        if isinstance(test, ast.UnaryOp) and isinstance(test.op, ast.Not):
            t, f = self.facts(test.operand, ctx)
            return f, t
        if isinstance(test, ast.BoolOp):
            parts = [self.facts(v, ctx) for v in test.values]
            if isinstance(test.op, ast.And):
                return set().union(*[p[0] for p in parts]), set()
            return set(), set().union(*[p[1] for p in parts])
        if isinstance(test, ast.Name):
            if ctx and ctx["flag"] and test.id == ctx["flag"][0]:
                return {("flag", (test.id, True, _H(ctx)))}, {("flag", (test.id, False, _H(ctx)))}
            return {("nonempty", test.id)}, set()
        if isinstance(test, ast.Call) and test.args and isinstance(test.args[0], ast.Name) and len(test.args) >= 1:
            f = test.func
            name = f.attr if isinstance(f, ast.Attribute) else f.id if isinstance(f, ast.Name) else None
            if name == "is_safe_filesystem_path_component" and len(test.args) == 1:
                return {("safe", test.args[0].id)}, set()
            if name == "check_token_name" and len(test.args) == 1:
                return {("token", test.args[0].id)}, set()
            if isinstance(f, ast.Name) and name in self.checkers:
                return {("safe", test.args[i].id) for i in self.checkers[name]
                        if i < len(test.args) and isinstance(test.args[i], ast.Name)}, set()
        return set(), set()

    def cond(self, test, st, ctx):
        """evaluate a condition (recording sites with short-circuit facts); returns (state if true, state if false)"""
        if isinstance(test, ast.BoolOp):
            cur = st.copy()
            for v in test.values:
                self.ev(v, cur, ctx)
                t, f = self.facts(v, ctx)
                self.apply_facts(cur, t if isinstance(test.op, ast.And) else f)
        else:
            self.ev(test, st, ctx)
        t, f = self.facts(test, ctx)
        a, b = st.copy(), st.copy()
        self.apply_facts(a, t)
        self.apply_facts(b, f)
        return a, b

    def stmt(self, s, st, ctx):
        if isinstance(s, (ast.FunctionDef, ast.AsyncFunctionDef)):
            if s not in self.nested:
                if self.funcs.get(s.name):
                    raise Unsupported("%s: local function %s shadows another function" % (ctx["qual"], s.name))
                self.nested.append(s)
                self.funcs[s.name] = [(ctx["file"], ctx["qual"] + "." + s.name, s)]
            self.analyse(ctx["file"], ctx["qual"] + "." + s.name, s, st)
            st.env[s.name] = unk("local function")
            return st
        if isinstance(s, ast.ClassDef):
            raise Unsupported("%s: nested class" % ctx["qual"])
        if isinstance(s, (ast.Assign, ast.AnnAssign)):
            if s.value is None:
                return st
            v = self.ev(s.value, st, ctx)
            for tgt in (s.targets if isinstance(s, ast.Assign) else [s.target]):
                self.bind(tgt, v, st, ctx)
            return st
        if isinstance(s, ast.AugAssign):
            self.ev(s.value, st, ctx)
            self.bind(s.target, unk("augmented assignment"), st, ctx)
            return st
        if self.APP and isinstance(s, ast.If) and not s.orelse and all(
                isinstance(b_, ast.Expr) and isinstance(b_.value, ast.Call) and isinstance(b_.value.func, ast.Attribute)
                and getattr(b_.value.func.value, "id", None) == "logger" for b_ in s.body[:-1]) and isinstance(s.test, ast.BoolOp) \
                and isinstance(s.test.op, ast.And) and len(s.test.values) == 2 and isinstance(s.test.values[0], ast.Name) \
                and isinstance(s.test.values[1], ast.UnaryOp) and isinstance(s.test.values[1].op, ast.Not) \
                and isinstance(s.test.values[1].operand, ast.Call) and isinstance(s.test.values[1].operand.func, ast.Attribute) \
                and s.test.values[1].operand.func.attr == "is_safe_path_component" \
                and [getattr(a, "id", None) for a in s.test.values[1].operand.args] == [s.test.values[0].id] \
                and isinstance(s.body[-1], ast.Assign) and len(s.body[-1].targets) == 1 \
                and getattr(s.body[-1].targets[0], "id", None) == s.test.values[0].id \
                and isinstance(s.body[-1].value, ast.Constant) and s.body[-1].value.value == "":
            # if v and not is_safe_path_component(v): v = ""      afterwards v is "" or a safe component
            st.assign(s.test.values[0].id, either(("lit", ""), ("safecomp",)))
            return st
        if isinstance(s, ast.If):
            a, b = self.cond(s.test, st, ctx)
            a = self.block(s.body, a, ctx)
            b = self.block(s.orelse, b, ctx)
            return merge(a, b)
        if isinstance(s, (ast.For, ast.AsyncFor)):
            it = self.ev(s.iter, st, ctx)
            rec, self.record = self.record, False
            once = st.copy()
            self.bind(s.target, self.elem(it, s.target), once, ctx)
            end1, brk1 = self.loop_body(s.body, once, ctx)
            self.record = rec
            loop = merge(st.copy(), end1)
            self.bind(s.target, self.elem(it, s.target), loop, ctx)
            end2, brk2 = self.loop_body(s.body, loop, ctx)
            out = merge(merge(st, end1), end2)
            if s.orelse and out is not None:
                out = self.block(s.orelse, out, ctx)
            for b_ in brk1 + brk2:
                out = merge(out, b_)
            return out
        if isinstance(s, ast.While):
            rec, self.record = self.record, False
            a, _b = self.cond(s.test, st.copy(), ctx)
            end1, brk1 = self.loop_body(s.body, a, ctx)
            self.record = rec
            loop = merge(st.copy(), end1)
            a, b = self.cond(s.test, loop, ctx)
            end2, brk2 = self.loop_body(s.body, a, ctx)
            out = b
            if s.orelse and out is not None:
                out = self.block(s.orelse, out, ctx)
            for b_ in brk1 + brk2:
                out = merge(out, b_)
            return out
        if isinstance(s, (ast.With, ast.AsyncWith)):
            for item in s.items:
                v = self.ev(item.context_expr, st, ctx)
                if item.optional_vars is not None:
                    self.bind(item.optional_vars, v, st, ctx)
            return self.block(s.body, st, ctx)
        if isinstance(s, ast.Try) or s.__class__.__name__ == "TryStar":
            before = st.copy()
            after = self.block(s.body, st, ctx)
            outs = []
            mid = merge(before, after)
            for h in s.handlers:
                hs = mid.copy()
                if h.name:
                    hs.assign(h.name, unk("exception"))
                outs.append(self.block(h.body, hs, ctx))
            if after is not None and s.orelse:
                after = self.block(s.orelse, after, ctx)
            outs.append(after)
            out = None
            for o in outs:
                out = merge(out, o)
            if s.finalbody:
                out = self.block(s.finalbody, out if out is not None else mid.copy(), ctx)
            return out
        if isinstance(s, ast.Return):
            if s.value is not None:
                v = self.resolve(self.ev(s.value, st, ctx), st)
                self.ret[ctx["key"]] = either(self.ret.get(ctx["key"], ("bot",)), v)
            return None
        if isinstance(s, (ast.Raise, ast.Continue, ast.Break)):
            for ch in ast.iter_child_nodes(s):
                if isinstance(ch, ast.expr):
                    self.ev(ch, st, ctx)
            if isinstance(s, ast.Break):
                ctx["breaks"].append(st.copy())
            if isinstance(s, ast.Continue):
                ctx["continues"].append(st.copy())
            return None
        if isinstance(s, ast.Assert):
            a, _b = self.cond(s.test, st, ctx)
            return a
        if isinstance(s, ast.Expr):
            self.ev(s.value, st, ctx)
            return st
        if isinstance(s, (ast.Pass, ast.Global, ast.Nonlocal, ast.Import, ast.ImportFrom)):
            return st
        if isinstance(s, ast.Delete):
            for t in s.targets:
                self.bind(t, unk("deleted"), st, ctx)
            return st
        raise Unsupported("%s:%d: statement %s" % (ctx["qual"], s.lineno, type(s).__name__))

    def elem(self, it, target):
        if it[0] == "pub" and isinstance(target, ast.Name):
            return ("pub", target.id)
        if it[0] == "pub":
            return unk("element of a public iterable")
        return it

    def bind(self, tgt, v, st, ctx):
        if isinstance(tgt, ast.Name):
            st.assign(tgt.id, v)
        elif isinstance(tgt, (ast.Tuple, ast.List)):
            alts = flatten(v)
            for i, e in enumerate(tgt.elts):
                if all(a[0] == "tup" and len(a[1]) == len(tgt.elts) for a in alts):
                    x = ("bot",)
                    for a in alts:
                        x = either(x, a[1][i])
                else:
                    x = unk("tuple unpacking")
                self.bind(e.value if isinstance(e, ast.Starred) else e, x, st, ctx)
        elif isinstance(tgt, ast.Attribute):
            self.ev(tgt.value, st, ctx)
            self.attr[tgt.attr] = either(self.attr.get(tgt.attr, ("bot",)), self.resolve(v, st))
        elif isinstance(tgt, ast.Subscript):
            self.ev(tgt.value, st, ctx)
            self.ev(tgt.slice, st, ctx)
        else:
            raise Unsupported("%s: assignment target %s" % (ctx["qual"], type(tgt).__name__))

    def resolve(self, t, st):
        if t[0] == "pub":
            return ("checked",) if t[1] in st.checked else unk("unchecked value of public parameter %s" % t[1])
        if t[0] == "tup":
            return ("tup", tuple(self.resolve(x, st) for x in t[1]))
        if t[0] in (UNK, "lit", "param", "reviewed"):
            return t
        return (t[0],) + tuple(self.resolve(x, st) if isinstance(x, tuple) else x for x in t[1:])

    def site(self, sink, node, t, st, ctx):
        if not self.record:
            return
        n = ctx["nsite"].get(sink, 0)
        ctx["nsite"][sink] = n + 1
        base = os.path.basename(ctx["file"]) if not ctx["file"].startswith("multifilesystem/") else ctx["file"][len("multifilesystem/"):]
        rk = (ctx["file"], ctx["qual"], sink, n)
        if rk in REVIEWED_SITES:
            t = ("reviewed", REVIEWED_SITES[rk])
        self.sites.append((ctx["file"], ctx["qual"], sink, node.lineno, self.resolve(t, st)))
        del base

    def call_entry(self, key, x, t, st):
        t = self.resolve(t, st)
        if t == ("param", key, x):
            return
        lst = self.calls.setdefault((key, x), [])
        if t not in lst:
            lst.append(t)

    # ---- expressions
    def ev(self, n, st, ctx):
        if isinstance(n, ast.Constant):
            if n.value is None:
                return ("none",)
            return ("lit", n.value) if isinstance(n.value, str) else unk("constant")
        if isinstance(n, ast.Name):
            return st.env.get(n.id, unk("name %s" % n.id))
        if isinstance(n, ast.Attribute):
            base = self.ev(n.value, st, ctx)
            if self.APP:
                return self.app_attribute(n, base)
            if n.attr == "name" and base == ("scanentry",):
                return ("scan",)
            if n.attr in ("path", "_path"):
                return unk("collection path")
            if n.attr in self.pattr:
                return self.pattr[n.attr]
            if isinstance(n.value, ast.Name) and n.value.id in ("os", "shutil") or (
                    isinstance(n.value, ast.Attribute) and n.value.attr == "path" and n.attr in OSPATH_SINKS):
                if n.attr in OS_SINKS or n.attr in OSPATH_SINKS or (isinstance(n.value, ast.Name) and n.value.id == "shutil"):
                    raise Unsupported("%s:%d: %s used as a value" % (ctx["qual"], n.lineno, n.attr))
            return unk("attribute %s" % n.attr)
        if isinstance(n, ast.Call):
            return self.call(n, st, ctx)
        if isinstance(n, ast.IfExp):
            a, b = self.cond(n.test, st, ctx)
            return either(self.ev(n.body, a, ctx), self.ev(n.orelse, b, ctx))
        if isinstance(n, ast.BoolOp):
            if self.APP:
                out = ("bot",)
                for v in n.values:
                    out = either(out, self.ev(v, st, ctx))
                return out
            self.cond(n, st, ctx)
            return unk("boolean")
        if self.APP and isinstance(n, ast.Subscript) and isinstance(n.slice, ast.Slice) and n.slice.upper is None and n.slice.step is None:
            if n.slice.lower is not None:
                self.ev(n.slice.lower, st, ctx)
            return ("suffix", self.ev(n.value, st, ctx))
        if self.APP and isinstance(n, ast.BinOp) and isinstance(n.op, ast.Mod) and isinstance(n.left, ast.Constant) and n.left.value == "/%s/":
            return ("userpath", self.ev(n.right, st, ctx))
        if isinstance(n, (ast.GeneratorExp, ast.ListComp, ast.SetComp)):
            inner = st.copy()
            for g in n.generators:
                it = self.ev(g.iter, inner, ctx)
                self.bind(g.target, self.elem(it, g.target), inner, ctx)
                for c in g.ifs:
                    a, _b = self.cond(c, inner, ctx)
                    inner = a
            return self.resolve(self.ev(n.elt, inner, ctx), inner)
        if isinstance(n, ast.Tuple):
            return ("tup", tuple(self.ev(e, st, ctx) for e in n.elts))
        if isinstance(n, (ast.List, ast.Set)):
            out = ("bot",)
            for e in n.elts:
                out = either(out, self.ev(e, st, ctx))
            return out if out != ("bot",) else unk("empty list")
        if isinstance(n, ast.Lambda):
            inner = st.copy()
            for a in n.args.args:
                inner.assign(a.arg, unk("lambda parameter"))
            self.ev(n.body, inner, ctx)
            return unk("lambda")
        if isinstance(n, (ast.Yield, ast.YieldFrom)):
            if n.value is not None:
                v = self.resolve(self.ev(n.value, st, ctx), st)
                self.yld[ctx["key"]] = either(self.yld.get(ctx["key"], ("bot",)), v)
            return unk("yield")
        if isinstance(n, ast.BinOp) and isinstance(n.op, ast.Add):
            a, b = self.ev(n.left, st, ctx), self.ev(n.right, st, ctx)
            return ("cat", a, b)
        if isinstance(n, ast.BinOp) and isinstance(n.op, ast.Mod) and isinstance(n.left, ast.Constant) and isinstance(
                n.left.value, str) and n.left.value.count("%") == 1 and n.left.value.count("%s") == 1 and not isinstance(n.right, ast.Tuple):
            pre, post = n.left.value.split("%s")
            return ("cat", ("lit", pre), ("cat", self.ev(n.right, st, ctx), ("lit", post)))
        if isinstance(n, ast.Starred):
            return self.ev(n.value, st, ctx)
        if isinstance(n, ast.DictComp):
            raise Unsupported("%s:%d: dict comprehension" % (ctx["qual"], n.lineno))
        for ch in ast.iter_child_nodes(n):
            if isinstance(ch, ast.expr):
                self.ev(ch, st, ctx)
            elif isinstance(ch, (ast.comprehension, ast.keyword)):
                raise Unsupported("%s:%d: %s" % (ctx["qual"], n.lineno, type(n).__name__))
        return unk(type(n).__name__)

    def call(self, n, st, ctx):
        f = n.func
        kw = {k.arg: k.value for k in n.keywords}
        if None in kw:
            raise Unsupported("%s:%d: **kwargs" % (ctx["qual"], n.lineno))
        dotted = []
        g = f
        while isinstance(g, ast.Attribute):
            dotted.append(g.attr)
            g = g.value
        dotted.append(g.id if isinstance(g, ast.Name) else "?")
        dotted.reverse()
        name = dotted[-1]
        args = list(n.args)

        def evargs():
            return [self.ev(a, st, ctx) for a in args], {k: self.ev(v, st, ctx) for k, v in kw.items()}

        if self.APP:
            r = self.app_call(n, st, ctx, f, dotted, name, args, kw, evargs)
            if r is not None:
                return r
            return self.generic_call(n, st, ctx, f, dotted, name, args, kw, evargs)
        if self.WEB:
            if name in ("files", "resource_filename") and dotted[0] in ("resources", "pkg_resources", "importlib"):
                evargs()
                return ("root",)
            if dotted == ["pathlib", "Path"] and len(args) == 1:
                return evargs()[0][0]
            if name == "joinpath" and isinstance(f, ast.Attribute) and len(args) == 1 and not kw:
                base = self.ev(f.value, st, ctx)
                v = self.ev(args[0], st, ctx)
                self.site("joinpath", n, v, st, ctx)
                return ("join", base, v)
            if dotted == ["str"] and len(args) == 1:
                return evargs()[0][0]
        # --- path constructors
        if dotted == ["os", "path", "join"]:
            vals, _ = evargs()
            if any(isinstance(a, ast.Starred) for a in args) or not vals:
                return unk("join(*args)")
            out = vals[0]
            for v in vals[1:]:
                out = ("join", out, v)
            return out
        if dotted[-2:] == ["pathutils", "path_to_filesystem"] or name == "path_to_filesystem":
            vals, _ = evargs()
            if len(vals) != 2:
                raise Unsupported("%s:%d: path_to_filesystem arity" % (ctx["qual"], n.lineno))
            self.site("path_to_filesystem", n, vals[0], st, ctx)
            return ("ptf", vals[0])
        if dotted == ["os", "path", "dirname"]:
            return ("dir", evargs()[0][0])
        if dotted == ["os", "path", "basename"]:
            return ("base", evargs()[0][0])
        if dotted[:2] == ["os", "path"] and name in ("split", "splitext", "normpath", "abspath", "relpath", "expanduser", "commonpath"):
            evargs()
            return unk("os.path.%s" % name)
        if name == "replace" and len(args) == 2 and dotted[0] != "os" and all(
                isinstance(a, ast.Call) and isinstance(a.func, ast.Attribute) for a in args) and (
                args[0].func.attr, args[1].func.attr) == ("_get_collection_root_folder", "_get_collection_cache_folder"):
            evargs()
            return ("rebase", self.ev(f.value, st, ctx))
        if name == "get" and dotted[-2:-1] == ["configuration"] and len(args) == 2 and all(isinstance(a, ast.Constant) for a in args):
            if (args[0].value, args[1].value) in (("storage", "filesystem_folder"), ("storage", "filesystem_cache_folder")):
                return ("root",)
            return unk("configuration value")
        if name == "hexdigest" and not args:
            self.ev(f.value, st, ctx)
            return ("token",)
        # --- sinks
        nsink = None
        if dotted[0] == "os" and len(dotted) == 2 and name in OS_SINKS:
            nsink = OS_SINKS[name]
        elif dotted[:2] == ["os", "path"] and len(dotted) == 3 and name in OSPATH_SINKS:
            nsink = 1
        elif dotted == ["open"]:
            nsink = 1
        elif dotted[0] == "shutil":
            nsink = len(args)
        elif dotted[0] == "pathutils" and name in PATHUTILS_SINKS:
            nsink = PATHUTILS_SINKS[name]
        elif name in HELPERS:
            nsink = 1
        elif dotted[0] in ("pathlib", "Path", "tempfile") or name in ("NamedTemporaryFile", "mkdtemp", "mkstemp", "TemporaryFile"):
            raise Unsupported("%s:%d: %s" % (ctx["qual"], n.lineno, ".".join(dotted)))
        if name == "TemporaryDirectory":
            vals, kws = evargs()
            if vals or set(kws) != {"prefix", "dir"} or kws["prefix"] != ("lit", ".Radicale.tmp-"):
                raise Unsupported("%s:%d: TemporaryDirectory of another shape" % (ctx["qual"], n.lineno))
            self.site("TemporaryDirectory", n, kws["dir"], st, ctx)
            return ("tmp", kws["dir"])
        if nsink is not None:
            vals, kws = evargs()
            if len(vals) < nsink:
                for k in ("path", "src", "dst", "file", "name"):
                    if k in kws:
                        vals.append(kws[k])
            if len(vals) < nsink or any(isinstance(a, ast.Starred) for a in args):
                raise Unsupported("%s:%d: %s arguments" % (ctx["qual"], n.lineno, name))
            label = HELPERS.get(name, ".".join(dotted))
            for v in vals[:nsink]:
                self.site(label, n, v, st, ctx)
            if name == "_atomic_write":      # uses the parent directory of its argument too
                self.site("atomic_write.parent", n, ("dir", vals[0]), st, ctx)
            if name == "listdir":
                return ("scan",)
            if name == "scandir":
                return ("scanentry",)
            return unk("result of %s" % name)
        if name == "map" and dotted == ["map"] and len(args) == 2 and isinstance(args[0], ast.Attribute) and args[0].attr in OSPATH_SINKS:
            v = self.ev(args[1], st, ctx)
            self.site("os.path.%s" % args[0].attr, n, v, st, ctx)
            return unk("map")
        # --- pass-through and library values
        if dotted == ["itertools", "chain"]:
            vals, _ = evargs()
            out = ("bot",)
            for v in vals:
                out = either(out, v)
            return out
        if len(dotted) == 1 and name in PASS_THROUGH and len(args) > PASS_THROUGH[name]:
            vals, _ = evargs()
            return vals[PASS_THROUGH[name]]
        if name in ANY_STRING:
            evargs()
            return unk("a path string (only path_to_filesystem may consume it)")
        if name in REVIEWED_CALLS:
            evargs()
            return ("reviewed", REVIEWED_CALLS[name])
        return self.generic_call(n, st, ctx, f, dotted, name, args, kw, evargs)

    def generic_call(self, n, st, ctx, f, dotted, name, args, kw, evargs):
        # --- calls of scanned functions: interprocedural entries
        target = None
        shift = 0
        if self.APP and name in self.funcs and self.funcs[name] and (len(dotted) == 1 or dotted[0] == "self") and not name.startswith("do_"):
            target = name
        elif self.APP and name == "Access":
            target = "__init__/3"
        elif self.APP:
            pass
        elif self.WEB and name in self.funcs and self.funcs[name] and name != "__init__" and dotted[0] not in ("os", "shutil"):
            target = name
        elif name == "_collection_class":
            target, shift = "__init__/3", 0
        elif name == "__init__" and isinstance(f, ast.Attribute) and isinstance(f.value, ast.Call):
            target, shift = "__init__/%d" % (len(args) + len(kw)), 0
        elif name in self.funcs and name.startswith("_") and name != "__init__" and (len(dotted) == 1 or dotted[0] != "os") or (
                len(dotted) == 1 and name in self.funcs and self.funcs[name] and self.funcs[name][0][2] in self.nested):
            target, shift = name, 0
        if target is not None and target in self.funcs and self.funcs[target]:
            vals, kws = evargs()
            if isinstance(f, ast.Attribute):
                self.ev(f.value, st, ctx)
            if any(isinstance(a, ast.Starred) for a in args):
                if not self.APP:
                    raise Unsupported("%s:%d: *args in a call of %s" % (ctx["qual"], n.lineno, name))
                for _fname, _q, fn in self.funcs[target]:
                    for p in self.params(fn):
                        self.call_entry(target, p, unk("*args"), st)
                return either(self.pret.get(target, ("bot",)), self.pyld.get(target, ("bot",)))
            for _fname, _q, fn in self.funcs[target]:
                ps = self.params(fn)
                flag = self.flag_of(fn)
                given = dict(zip(ps, vals[shift:]))
                given.update({k: v for k, v in kws.items() if k in ps})
                a_ = fn.args
                pos_ = [x for x in a_.posonlyargs + a_.args if x.arg not in ("self", "cls")]
                for arg_, d_ in list(zip(pos_[len(pos_) - len(a_.defaults):], a_.defaults)) + [
                        (x, d) for x, d in zip(a_.kwonlyargs, a_.kw_defaults) if d is not None]:
                    if arg_.arg not in given:
                        given[arg_.arg] = self.ev(d_, State(), ctx)
                fvals = ["True", "False"]
                if flag:
                    fnode = kw.get(flag[0])
                    if fnode is None and flag[0] in ps and ps.index(flag[0]) + shift < len(args):
                        fnode = args[ps.index(flag[0]) + shift]
                    if fnode is None:
                        fvals = [str(flag[1])]
                    elif isinstance(fnode, ast.Constant) and isinstance(fnode.value, bool):
                        fvals = [str(fnode.value)]
                for p, v in given.items():
                    if flag and p == flag[0]:
                        continue
                    if flag:
                        for fv in fvals:
                            self.call_entry(target, "%s@%s=%s" % (p, flag[0], fv), v, st)
                    else:
                        self.call_entry(target, p, v, st)
            return either(self.pret.get(target, ("bot",)), self.pyld.get(target, ("bot",)))
        if name == "Item" and "href" in kw:
            vals, kws = evargs()
            self.attr["href"] = either(self.attr.get("href", ("bot",)), self.resolve(kws["href"], st))
            return unk("Item")
        vals, kws = evargs()
        if isinstance(f, ast.Attribute):
            self.ev(f.value, st, ctx)
        elif not isinstance(f, ast.Name):
            self.ev(f, st, ctx)
        return unk("call of %s" % name)


class _H:
    """hashable wrapper so a ctx dict can travel inside a fact tuple"""
    def __init__(self, d):
        self.d = d

    def __getitem__(self, k):
        return self.d[k]

    def __hash__(self):
        return 0

    def __eq__(self, o):
        return isinstance(o, _H)


# ---------------------------------------------------------------- emission
def q(s):
    return '"' + s.replace('"', '""') + '"'


def coq(t):
    k = t[0]
    if k == "root":
        return "PRoot"
    if k == "join":
        return "(PJoin %s %s)" % (coq(t[1]), coq(t[2]))
    if k in ("ptf", "dir", "base", "tmp", "rebase"):
        return "(P%s %s)" % (k.capitalize(), coq(t[1]))
    if k == "lit":
        if any(ord(c) > 126 or ord(c) < 32 for c in t[1]):
            return "(PUnknown %s)" % q("non-ASCII literal")
        return "(CLit %s)" % q(t[1])
    if k == "checked":
        return "CChecked"
    if k == "scan":
        return "CScan"
    if k == "token":
        return "CToken"
    if k == "param":
        return "(PParam %s %s)" % (q(t[1]), q(t[2]))
    if k == "either":
        return "(PEither %s %s)" % (coq(t[1]), coq(t[2]))
    if k == "reviewed":
        return "(PReviewed %s)" % q(t[1][:60])
    if k == "none":
        return "PNone"
    if k == "bot":
        return "(PUnknown \"no value\")"
    if k == UNK:
        return "(PUnknown %s)" % q(str(t[1])[:70])
    return "(PUnknown %s)" % q("value of kind " + k)



# ================================================================= the static web pages
# radicale/httputils.py (serve_resource, _serve_traversable) and radicale/web/*.py: the second place where a request string
# reaches the file system.  A site is every `X.joinpath(arg)` (and every sink of the storage list); the argument must be a
# literal, or a value that passed is_safe_filesystem_path_component with NO transformation in between (a call such as
# unquote(part) after the check is PUnknown).  Parameters nobody in the scanned files passes (the `path` of web.get) are hostile.
class WebProgram(Program):
    FILES, BASE, MINFILES, APP, WEB = ["radicale/httputils.py", "radicale/web/*.py"], "radicale", 3, False, True


def web_table(repo):
    return table(repo, WebProgram)

# ================================================================= the application side
# Every call in radicale/app/*.py of a storage entry point that takes a path or a name, with the way the string was
# obtained.  role: "path" (discover, create_collection, acquire_lock(path=)), "name" (upload, delete, move, get_multi),
# "token" (sync: any text, validated by the storage, C06_token).
ENTRY = {"discover": (0, "path", "path"), "create_collection": (0, "href", "path"), "upload": (0, "href", "name"),
         "delete": (0, "href", "name"), "move": (2, "to_href", "name"), "get_multi": (0, "hrefs", "name"),
         "sync": (0, "old_token", "token")}
STORAGE_ATTRS = {"href", "uid", "etag"}            # attributes only storage objects have
OWN_PATH_RECEIVERS = {"access", "self"}            # receivers whose .path / .parent_path is the application's own attribute


class AppProgram(Program):
    FILES, BASE, MINFILES, APP = ["radicale/app/*.py"], "radicale/app", 10, True

    def app_attribute(self, n, base):
        if n.attr in STORAGE_ATTRS:
            return ("fromstorage",)
        if n.attr in ("path", "parent_path"):
            if isinstance(n.value, ast.Name) and n.value.id in OWN_PATH_RECEIVERS:
                return self.pattr.get(n.attr, ("bot",))
            return ("fromstorage",) if n.attr == "path" else unk("attribute parent_path of another object")
        return unk("attribute %s" % n.attr)

    def app_call(self, n, st, ctx, f, dotted, name, args, kw, evargs):
        if name in ("sanitize_path",):
            evargs()
            return ("san",)
        if name == "strip_path" and len(args) == 1:
            return ("strip", evargs()[0][0])
        if name == "unstrip_path" and args:
            return ("unstrip", evargs()[0][0])
        if dotted[:1] == ["posixpath"] and name in ("dirname", "basename") and len(args) == 1:
            return ("pdir" if name == "dirname" else "pbase", evargs()[0][0])
        if dotted == ["posixpath", "join"] and len(args) == 2:
            vals, _ = evargs()
            return ("pjoin", vals[0], vals[1])
        if name == "name_from_path":
            evargs()
            return ("namefp",)
        if name == "get" and dotted[-2:-1] == ["configuration"] and len(args) == 2:
            evargs()
            return ("config",)
        if name == "items" and not args and isinstance(f, ast.Attribute) and self.ev(f.value, st, ctx) == ("config",):
            return ("tup", (("config",), ("config",)))
        if dotted == ["getattr"] and len(args) >= 2 and isinstance(args[1], ast.BinOp) and isinstance(args[1].left, ast.Constant) \
                and args[1].left.value == "do_%s":
            evargs()
            return ("dofn",)
        if isinstance(f, ast.Name) and st.env.get(f.id) == ("dofn",):
            vals, _ = evargs()
            if len(vals) != 4 or kw:
                raise Unsupported("%s:%d: the gate calls the handler with another signature" % (ctx["qual"], n.lineno))
            self.call_entry("do_*", "path", vals[2], st)
            self.call_entry("do_*", "user", vals[3], st)
            return unk("response")
        if isinstance(f, ast.Attribute) and name in ENTRY:
            pos, kwname, role = ENTRY[name]
            vals, kws = evargs()
            self.ev(f.value, st, ctx)
            v = vals[pos] if pos < len(vals) else kws.get(kwname)
            if v is None:
                v = ("none",) if name in ("sync", "delete") else unk("argument not found")
            self.site(name + ":" + role, n, v, st, ctx)
            return ("storageobj",)
        if isinstance(f, ast.Attribute) and name == "acquire_lock":
            vals, kws = evargs()
            if "path" in kws:
                self.site("acquire_lock:path", n, kws["path"], st, ctx)
            if len(vals) > 2:
                self.site("acquire_lock:path", n, vals[2], st, ctx)
            return unk("lock")
        if len(dotted) == 1 and name in ("next", "iter", "list", "sorted", "set", "cast") and args:
            vals, _ = evargs()
            return vals[-1] if name == "cast" else vals[0]
        return None


def acoq(t):
    k = t[0]
    one = {"strip": "AStrip", "unstrip": "AUnstrip", "pdir": "ADirname", "pbase": "ABasename", "suffix": "ASuffix", "userpath": "AUserPath"}
    if k == "san":
        return "ASan"
    if k in one:
        return "(%s %s)" % (one[k], acoq(t[1]))
    if k in ("pjoin", "cat"):
        return "(%s %s %s)" % ("AJoin" if k == "pjoin" else "ACat", acoq(t[1]), acoq(t[2]))
    if k == "either":
        return "(AEither %s %s)" % (acoq(t[1]), acoq(t[2]))
    if k == "param":
        return "(AParam %s %s)" % (q(t[1]), q(t[2]))
    if k == "fromstorage" or k == "storageobj":
        return "AFromStorage"
    if k == "namefp":
        return "ANameFromPath"
    if k == "none":
        return "ANone"
    if k == "safecomp":
        return "ASafeComp"
    if k == "config":
        return "AConfig"
    if k == "lit" and all(31 < ord(c) < 127 for c in t[1]):
        return "(ALit %s)" % q(t[1])
    if k == UNK:
        return "(AUnknown %s)" % q(str(t[1])[:70])
    return "(AUnknown %s)" % q("value of kind " + k)


def app_table(repo):
    prog = AppProgram(repo)
    prog.run()
    sites = sorted(set(prog.sites), key=lambda s_: (s_[0], s_[3], s_[2], repr(s_[4])))
    need, todo, entries = set(), set(), {}
    for s_ in sites:
        params_of(s_[4], todo)
    while todo:
        fx = todo.pop()
        if fx in need:
            continue
        need.add(fx)
        entries[fx] = list(prog.calls.get(fx, []))
        for t in entries[fx]:
            params_of(t, todo)
    calls = []
    for fx in sorted(need):
        for t in entries[fx]:
            if (fx[0], fx[1], t) not in calls and t != ("param", fx[0], fx[1]):
                calls.append((fx[0], fx[1], t))
    return calls, sites


HEADER = """(* GENERATED by /verif/translate/t_c06sites.py from radicale/storage/{multifilesystem/*.py,multifilesystem_nolock.py,__init__.py}
   -- do not edit.  Regenerated from /repo's working tree on every check run (tie T). *)
From Coq Require Import List String NArith.
Import ListNotations.
Require Import RV.Model.C06Prov.
Open Scope string_scope.

"""


def params_of(t, acc):
    if t[0] == "param":
        acc.add((t[1], t[2]))
    for x in t[1:]:
        if isinstance(x, tuple):
            params_of(x, acc)
    return acc


def simplify(t, calls, depth=0):
    """sound rewriting before emission: a parameter all of whose call entries are literals is the join of those
    literals (that is what PParam denotes); concatenations of literals are folded, distributing over joins."""
    k = t[0]
    if k == "param" and depth < 4:
        ents = [simplify(e, calls, depth + 1) for e in calls.get((t[1], t[2]), [])]
        if ents and all(e[0] == "lit" for e in ents):
            out = ents[0]
            for e in ents[1:]:
                out = either(out, e)
            return out
        return t
    if k == "cat":
        a, b = simplify(t[1], calls, depth), simplify(t[2], calls, depth)
        out = ("bot",)
        for x in flatten(a):
            for y in flatten(b):
                if x[0] == "lit" and y[0] == "lit":
                    out = either(out, ("lit", x[1] + y[1]))
                else:
                    return unk("string concatenation")
        return out
    if k in (UNK, "lit", "reviewed", "param"):
        return t
    return (k,) + tuple(simplify(x, calls, depth) if isinstance(x, tuple) and x and isinstance(x[0], str) else x for x in t[1:])


def table(repo, cls=None):
    prog = (cls or Program)(repo)
    prog.run()
    sites = [(a, b, c, d, simplify(t, prog.calls)) for a, b, c, d, t in prog.sites]
    sites = sorted(set(sites), key=lambda s: (s[0], s[3], s[2], repr(s[4])))
    # only the call entries reachable from a site matter
    need, todo = set(), set()
    for s_ in sites:
        params_of(s_[4], todo)
    entries = {}
    while todo:
        fx = todo.pop()
        if fx in need:
            continue
        need.add(fx)
        entries[fx] = [simplify(t, prog.calls) for t in prog.calls.get(fx, [])]
        if not entries[fx]:
            entries[fx] = [("reviewed", TRUSTED_ENTRY_PARAMS[fx]) if fx in TRUSTED_ENTRY_PARAMS
                           else unk("parameter of an entry point (no call in the scanned files)")]
        for t in entries[fx]:
            params_of(t, todo)
    calls = []
    for (f, x) in sorted(need):
        for t in entries[(f, x)]:
            if (f, x, t) not in calls and t != ("param", f, x):
                calls.append((f, x, t))
    return calls, sites


def generate(repo, outdir):
    mod = "C06Sites"
    os.makedirs(outdir, exist_ok=True)
    try:
        calls, sites = table(repo)
        if len(sites) < 40:
            raise Unsupported("only %d sites found" % len(sites))
        text = HEADER
        text += "Definition calls : list (string * string * prov) := [\n" + ";\n".join(
            "  (%s, %s, %s)" % (q(f), q(x), coq(t)) for f, x, t in calls) + "\n].\n\n"
        text += "Definition sites : list site := [\n" + ";\n".join(
            "  mkSite %s %s %s %d%%N %s" % (q(f), q(fn), q(sink), line, coq(t)) for f, fn, sink, line, t in sites) + "\n].\n"
        wcalls, wsites = web_table(repo)
        if len(wsites) < 3:
            raise Unsupported("only %d web sites found" % len(wsites))
        text += "\nDefinition web_calls : list (string * string * prov) := [\n" + ";\n".join(
            "  (%s, %s, %s)" % (q(f), q(x), coq(t)) for f, x, t in wcalls) + "\n].\n\n"
        text += "Definition web_sites : list site := [\n" + ";\n".join(
            "  mkSite %s %s %s %d%%N %s" % (q(f), q(fn), q(sink), line, coq(t)) for f, fn, sink, line, t in wsites) + "\n].\n"
        acalls, asites = app_table(repo)
        if len(asites) < 15:
            raise Unsupported("only %d application sites found" % len(asites))
        text += "\nDefinition app_calls : list (string * string * aprov) := [\n" + ";\n".join(
            "  (%s, %s, %s)" % (q(f), q(x), acoq(t)) for f, x, t in acalls) + "\n].\n\n"
        text += "Definition app_sites : list asite := [\n" + ";\n".join(
            "  mkASite %s %s %s %s %d%%N %s" % (q(f), q(fn), q(sink.split(":")[0]), {"path": "RPath", "name": "RName", "token": "RToken"}[sink.split(":")[1]],
                                           line, acoq(t)) for f, fn, sink, line, t in asites) + "\n].\n"
    except (Unsupported, SyntaxError, OSError) as e:
        text = HEADER + "(* translation FAILED: %s *)\nDefinition calls : list (string * string * prov) := [].\n" \
                        "Definition sites : list site := [mkSite \"\" \"\" \"translation failed\" 0%%N (PUnknown \"translation failed\")].\n" \
                        "Definition web_calls : list (string * string * prov) := [].\n" \
                        "Definition web_sites : list site := [mkSite \"\" \"\" \"translation failed\" 0%%N (PUnknown \"translation failed\")].\n" \
                        "Definition app_calls : list (string * string * aprov) := [].\n" \
                        "Definition app_sites : list asite := [mkASite \"\" \"\" \"translation failed\" RPath 0%%N (AUnknown \"translation failed\")].\n" \
            % str(e).replace("*)", "* )")
        _write(os.path.join(outdir, mod + ".v"), text)
        return {mod: str(e)}
    _write(os.path.join(outdir, mod + ".v"), text)
    return {}


def _write(path, text):
    old = None
    if os.path.exists(path):
        with open(path) as fh:
            old = fh.read()
    if old != text:
        with open(path, "w") as fh:
            fh.write(text)


if __name__ == "__main__":
    import sys
    repo = sys.argv[1] if len(sys.argv) > 1 else "/repo"
    if len(sys.argv) > 2 and sys.argv[2] == "--dump":
        prog = Program(repo)
        for name in HELPER_HASH:
            d = prog.funcs.get(name, [])
            print("pin", name, hashlib.sha256(ast.dump(d[0][2]).encode()).hexdigest()[:16] if d else None)
        HELPER_HASH.clear()
        calls, sites = table(repo)
        for s in sites:
            print(s[0], s[1], s[2], s[3], coq(s[4]))
        print("--- calls")
        for f, x, t in calls:
            print(f, x, coq(t))
        print("=== web")
        wcalls, wsites = web_table(repo)
        for s in wsites:
            print(s[0], s[1], s[2], s[3], coq(s[4]))
        for f, x, t in wcalls:
            print("call", f, x, coq(t))
        print("=== app")
        acalls, asites = app_table(repo)
        for s in asites:
            print(s[0], s[1], s[2], s[3], acoq(s[4]))
        print("--- app calls")
        for f, x, t in acalls:
            print(f, x, acoq(t))
    else:
        print(generate(repo, sys.argv[2] if len(sys.argv) > 2 else "/tmp/c06gen"))
