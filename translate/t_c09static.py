"""C09 tie T (static facts): regenerates coq/Gen/C09Static.v from the current source with Python's ast.

Facts extracted (each becomes a `Gen_*` obligation in coq/Proofs/C09Static.v):
  lock_path          where the storage lock file lives: the argument of pathutils.RwLock(..) in
                     StoragePartLock.__init__ (storage/multifilesystem/lock.py) as a small path term
  lock_unlink_sites  every call that removes / renames / replaces a path mentioning ".Radicale.lock"
                     (radicale/storage/**, radicale/pathutils.py)
  atomic_write_tmp   how CollectionBase._atomic_write names its temporary file
  write_sites        every function of storage/multifilesystem/*.py that opens a file for writing
  lock_swallow_sites except clauses around the acquisition of the storage lock that do not re-raise
  shared_mutations   places in radicale/app/*.py (the objects shared by all serving threads) that assign to an
                     attribute of self outside __init__, or mutate / hand out a mutable object created in __init__
Shapes the scanner does not understand are emitted as LUnknown / TmpOther so that the obligation fails (fail closed).
"""
import ast
import glob
import os

MUTABLE_CTORS = {"list", "dict", "set", "bytearray", "deque", "BytesIO", "StringIO", "defaultdict", "OrderedDict",
                 "Counter", "array"}
MUTATORS = {"append", "extend", "insert", "pop", "remove", "clear", "update", "setdefault", "add", "discard", "write",
            "writelines", "seek", "truncate", "popitem", "sort", "reverse", "appendleft", "popleft", "__setitem__"}
REMOVERS = {("os", "remove"), ("os", "unlink"), ("os", "rename"), ("os", "replace"), ("os", "rmdir"), ("shutil", "rmtree"),
            ("pathutils", "rename_exchange"), ("os", "removedirs")}


def q(s):
    return '"' + s.replace('"', "'") + '"'


def dotted(node):
    if isinstance(node, ast.Name):
        return node.id
    if isinstance(node, ast.Attribute):
        d = dotted(node.value)
        return (d + "." + node.attr) if d else None
    return None


def is_self_attr(node, name=None):
    return (isinstance(node, ast.Attribute) and isinstance(node.value, ast.Name) and node.value.id == "self"
            and (name is None or node.attr == name))


def local_bindings(fn):
    env = {}
    for st in ast.walk(fn):
        if isinstance(st, ast.Assign) and len(st.targets) == 1 and isinstance(st.targets[0], ast.Name):
            env[st.targets[0].id] = st.value
    return env


# ---------------------------------------------------------------- lock path
def folder_term(node, env, depth=0):
    if depth > 5:
        return "LUnknownF"
    if is_self_attr(node, "_filesystem_folder"):
        return "(LF FStorage)"
    if is_self_attr(node, "_filesystem_cache_folder"):
        return "(LF FCache)"
    if isinstance(node, ast.BoolOp) and isinstance(node.op, ast.Or) and len(node.values) == 2:
        return "(LOr %s %s)" % (folder_term(node.values[0], env, depth + 1), folder_term(node.values[1], env, depth + 1))
    if isinstance(node, ast.Name) and node.id in env:
        return folder_term(env[node.id], env, depth + 1)
    return "LUnknownF"


def path_term(node, env, depth=0):
    if depth > 5:
        return "(LUnknown %s)" % q("too deep")
    if isinstance(node, ast.Name) and node.id in env:
        return path_term(env[node.id], env, depth + 1)
    if (isinstance(node, ast.Call) and dotted(node.func) == "os.path.join" and len(node.args) == 2
            and isinstance(node.args[1], ast.Constant) and isinstance(node.args[1].value, str)):
        return "(LJoin %s %s)" % (folder_term(node.args[0], env), q(node.args[1].value))
    return "(LUnknown %s)" % q(ast.unparse(node)[:60])


def lock_path(repo):
    src = open(os.path.join(repo, "radicale/storage/multifilesystem/lock.py")).read()
    tree = ast.parse(src)
    for cls in ast.walk(tree):
        if isinstance(cls, ast.ClassDef) and cls.name == "StoragePartLock":
            for fn in cls.body:
                if isinstance(fn, ast.FunctionDef) and fn.name == "__init__":
                    env = local_bindings(fn)
                    for st in ast.walk(fn):
                        if (isinstance(st, ast.Assign) and len(st.targets) == 1 and is_self_attr(st.targets[0], "_lock")
                                and isinstance(st.value, ast.Call) and dotted(st.value.func) in ("pathutils.RwLock", "RwLock")
                                and len(st.value.args) == 1):
                            return path_term(st.value.args[0], env)
    return "(LUnknown %s)" % q("self._lock = pathutils.RwLock(..) not found in StoragePartLock.__init__")


# ---------------------------------------------------------------- who removes the lock file
def mentions_lock(node, tainted):
    for n in ast.walk(node):
        if isinstance(n, ast.Constant) and isinstance(n.value, str) and ".Radicale.lock" in n.value and n.value.rstrip(".") == ".Radicale.lock":
            return True
        if isinstance(n, ast.Name) and n.id in tainted:
            return True
        if is_self_attr(n, "_lock_path"):
            return True
    return False


def lock_unlink_sites(repo):
    out = []
    files = glob.glob(os.path.join(repo, "radicale/storage/**/*.py"), recursive=True) + [os.path.join(repo, "radicale/pathutils.py")]
    for f in sorted(files):
        tree = ast.parse(open(f).read())
        for fn in ast.walk(tree):
            if not isinstance(fn, (ast.FunctionDef, ast.AsyncFunctionDef)):
                continue
            tainted = set()
            for name, val in local_bindings(fn).items():
                if mentions_lock(val, set()):
                    tainted.add(name)
            for n in ast.walk(fn):
                if isinstance(n, ast.Call):
                    d = dotted(n.func) or ""
                    parts = tuple(d.split(".")[-2:])
                    if parts in REMOVERS and any(mentions_lock(a, tainted) for a in list(n.args) + [k.value for k in n.keywords]):
                        out.append("%s:%s:%s" % (os.path.relpath(f, repo), fn.name, d))
    return sorted(set(out))


# ---------------------------------------------------------------- temporary names of _atomic_write
def atomic_write_tmp(repo):
    tree = ast.parse(open(os.path.join(repo, "radicale/storage/multifilesystem/base.py")).read())
    for fn in ast.walk(tree):
        if isinstance(fn, ast.FunctionDef) and fn.name == "_atomic_write":
            env = local_bindings(fn)
            fresh = None
            for w in ast.walk(fn):
                if isinstance(w, ast.With):
                    for it in w.items:
                        if (isinstance(it.context_expr, ast.Call) and (dotted(it.context_expr.func) or "").endswith("TemporaryDirectory")
                                and isinstance(it.optional_vars, ast.Name)):
                            fresh = it.optional_vars.id

            def under_fresh(node):
                node = env.get(node.id, node) if isinstance(node, ast.Name) else node
                return (fresh is not None and isinstance(node, ast.Call) and dotted(node.func) == "os.path.join"
                        and node.args and isinstance(node.args[0], ast.Name) and node.args[0].id == fresh)
            opens = [c for c in ast.walk(fn) if isinstance(c, ast.Call) and dotted(c.func) == "open"]
            reps = [c for c in ast.walk(fn) if isinstance(c, ast.Call) and dotted(c.func) in ("os.replace", "os.rename")]
            if opens and reps and all(under_fresh(c.args[0]) for c in opens) and all(under_fresh(c.args[0]) for c in reps):
                return "TmpFreshDir"
            if any((dotted(c.func) or "").endswith("mkstemp") for c in ast.walk(fn) if isinstance(c, ast.Call)):
                return "TmpMkstemp"
            if opens:
                a = opens[0].args[0]
                a = env.get(a.id, a) if isinstance(a, ast.Name) else a
                if isinstance(a, ast.Call) and dotted(a.func) == "os.path.join":
                    return "TmpFixedSibling"
            return "TmpOther"
    return "TmpOther"


def write_sites(repo):
    out = set()
    for f in sorted(glob.glob(os.path.join(repo, "radicale/storage/multifilesystem/*.py"))):
        tree = ast.parse(open(f).read())
        mod = os.path.basename(f)[:-3]
        for fn in ast.walk(tree):
            if not isinstance(fn, (ast.FunctionDef, ast.AsyncFunctionDef)):
                continue
            for c in ast.walk(fn):
                if isinstance(c, ast.Call) and dotted(c.func) in ("open", "os.open", "io.open"):
                    mode = c.args[1] if len(c.args) > 1 else next((k.value for k in c.keywords if k.arg == "mode"), None)
                    if dotted(c.func) == "os.open":
                        flags = ast.unparse(c.args[1]) if len(c.args) > 1 else "0"
                        if flags.strip() in ("0", "os.O_RDONLY"):
                            continue
                        out.add("%s.%s" % (mod, fn.name))
                        continue
                    if mode is None:
                        continue            # default mode "r"
                    if isinstance(mode, ast.Constant) and isinstance(mode.value, str) and not set(mode.value) & set("wax+"):
                        continue
                    out.add("%s.%s" % (mod, fn.name))
    return sorted(out)


# ---------------------------------------------------------------- shared mutable state of the application objects
def shared_mutations(repo):
    files = sorted(glob.glob(os.path.join(repo, "radicale/app/*.py")))
    trees = [(os.path.basename(f)[:-3], ast.parse(open(f).read())) for f in files]
    mutable = set()
    for mod, tree in trees:
        for cls in ast.walk(tree):
            if isinstance(cls, ast.ClassDef):
                for fn in cls.body:
                    if isinstance(fn, ast.FunctionDef) and fn.name == "__init__":
                        for st in ast.walk(fn):
                            if isinstance(st, (ast.Assign, ast.AnnAssign)):
                                tg = st.targets[0] if isinstance(st, ast.Assign) else st.target
                                v = st.value
                                if is_self_attr(tg) and v is not None and (
                                        isinstance(v, (ast.List, ast.Dict, ast.Set, ast.ListComp, ast.DictComp, ast.SetComp))
                                        or (isinstance(v, ast.Call) and (dotted(v.func) or "").split(".")[-1] in MUTABLE_CTORS)):
                                    mutable.add(tg.attr)
    out = set()
    for mod, tree in trees:
        for cls in ast.walk(tree):
            if not isinstance(cls, ast.ClassDef):
                continue
            for fn in cls.body:
                if not isinstance(fn, (ast.FunctionDef, ast.AsyncFunctionDef)) or fn.name == "__init__":
                    continue
                where = "%s.%s" % (cls.name, fn.name)
                alias = {}
                for st in ast.walk(fn):
                    if isinstance(st, ast.Assign) and len(st.targets) == 1 and isinstance(st.targets[0], ast.Name) \
                            and is_self_attr(st.value) and st.value.attr in mutable:
                        alias[st.targets[0].id] = st.value.attr

                def shared(node):
                    if is_self_attr(node) and node.attr in mutable:
                        return node.attr
                    if isinstance(node, ast.Name) and node.id in alias:
                        return alias[node.id]
                    return None
                for n in ast.walk(fn):
                    targets = []
                    if isinstance(n, ast.Assign):
                        targets = n.targets
                    elif isinstance(n, (ast.AugAssign, ast.AnnAssign)):
                        targets = [n.target]
                    elif isinstance(n, ast.Delete):
                        targets = n.targets
                    for tg in targets:
                        for t in (tg.elts if isinstance(tg, (ast.Tuple, ast.List)) else [tg]):
                            base = t.value if isinstance(t, ast.Subscript) else t
                            if is_self_attr(base):
                                out.add("assign:%s:%s" % (where, base.attr))
                            elif isinstance(t, ast.Subscript) and shared(base):
                                out.add("mutate:%s:%s" % (where, shared(base)))
                    if isinstance(n, ast.Call):
                        if isinstance(n.func, ast.Attribute) and shared(n.func.value) and n.func.attr in MUTATORS:
                            out.add("mutate:%s:%s" % (where, shared(n.func.value)))
                        for a in list(n.args) + [k.value for k in n.keywords]:
                            if shared(a):
                                out.add("escape:%s:%s" % (where, shared(a)))
    return sorted(out)


# ---------------------------------------------------------------- a failed lock acquisition must fail the request
def lock_swallow_sites(repo):
    """try statements of pathutils.RwLock.acquire / the storage's acquire_lock (both back-ends) whose body takes the lock
    (calls .acquire / enter_context / flock / lock_file_ex / wait_for) and that have an except clause without `raise`."""
    out = []
    for rel in ("radicale/pathutils.py", "radicale/storage/multifilesystem/lock.py", "radicale/storage/multifilesystem_nolock.py"):
        tree = ast.parse(open(os.path.join(repo, rel)).read())
        for fn in ast.walk(tree):
            if not isinstance(fn, (ast.FunctionDef, ast.AsyncFunctionDef)) or fn.name not in ("acquire", "acquire_lock", "_acquire_cache_lock"):
                continue
            for t in ast.walk(fn):
                if not isinstance(t, ast.Try):
                    continue
                takes = False
                for st in t.body:
                    for c in ast.walk(st):
                        if isinstance(c, ast.Call):
                            name = (dotted(c.func) or "").split(".")[-1]
                            if name in ("acquire", "enter_context", "flock", "lock_file_ex", "wait_for", "lockf"):
                                takes = True
                if not takes:
                    continue
                for h in t.handlers:
                    if not any(isinstance(n, ast.Raise) for n in ast.walk(h)):
                        out.append("%s:%s:line %d: except %s without raise" % (rel, fn.name, h.lineno, ast.unparse(h.type) if h.type else ""))
    return sorted(out)


def coq_list(l):
    return "[" + "; ".join(q(x) for x in l) + "]"


def generate(repo, outdir):
    errs = {}
    try:
        body = [
            "(* REGENERATED on every run by translate/t_c09static.py from radicale/storage/multifilesystem/{lock,base,*}.py,",
            "   radicale/pathutils.py, radicale/app/*.py -- do not edit. *)",
            "From Coq Require Import List String.",
            "Import ListNotations.",
            "Require Import RV.Model.StaticFacts.",
            "Open Scope string_scope.",
            "",
            "(* the argument of pathutils.RwLock(..) in StoragePartLock.__init__ *)",
            "Definition lock_path : lpath := %s." % lock_path(repo),
            "(* calls that remove / rename / replace a path naming the storage lock file *)",
            "Definition lock_unlink_sites : list string := %s." % coq_list(lock_unlink_sites(repo)),
            "(* how CollectionBase._atomic_write names its temporary file *)",
            "Definition atomic_write_tmp : tmpname := %s." % atomic_write_tmp(repo),
            "(* functions of storage/multifilesystem that open a file for writing *)",
            "Definition write_sites : list string := %s." % coq_list(write_sites(repo)),
            "(* radicale/app: assignments to self.* outside __init__, mutation / handing out of mutable objects made in __init__ *)",
            "Definition shared_mutations : list string := %s." % coq_list(shared_mutations(repo)),
            "(* except clauses that swallow a failed acquisition of the storage lock (the request would run unlocked) *)",
            "Definition lock_swallow_sites : list string := %s." % coq_list(lock_swallow_sites(repo)),
            "",
        ]
        text = "\n".join(body)
    except Exception as e:  # noqa
        errs["C09Static"] = "scanner crashed: %r" % (e,)
        text = ("From Coq Require Import List String.\nImport ListNotations.\nRequire Import RV.Model.StaticFacts.\nOpen Scope string_scope.\n"
                "Definition lock_path : lpath := LUnknown \"scanner crashed\".\nDefinition lock_unlink_sites : list string := [\"scanner crashed\"].\n"
                "Definition atomic_write_tmp : tmpname := TmpOther.\nDefinition write_sites : list string := [\"scanner crashed\"].\n"
                "Definition shared_mutations : list string := [\"scanner crashed\"].\n"
                "Definition lock_swallow_sites : list string := [\"scanner crashed\"].\n")
    os.makedirs(outdir, exist_ok=True)
    p = os.path.join(outdir, "C09Static.v")
    old = open(p).read() if os.path.exists(p) else None
    if old != text:
        with open(p, "w") as f:
            f.write(text)
    return errs
