(* C01 -- Stored data follows the DAV object model for every request history.
   Statements only.  `handle` (Model/Handlers.v) IS the ideal in-memory DAV store: an association of
   collection paths to (type, properties, items).  The theorems say what it holds after each kind of request
   (last successful write wins, deleted / moved-away names are gone, a replaced collection contains only the
   new objects, nothing else appears or disappears).  That the real server answers every request of every
   generated history with the outcome class and listing this model predicts, and leaves the same store on
   disk -- for both file-system back-ends and all cache layouts -- is the correspondence run of checks/C01.py. *)
From Coq Require Import List NArith Bool.
Import ListNotations.
Require Import RV.Lib.PyStr RV.Model.Store RV.Model.Handlers RV.Proofs.HandlersInv RV.Proofs.HandlersStore.
Open Scope N_scope.

Theorem C01_put_item_last_write_wins : forall cfg pol s p ct b im inm s' o,
  store_inv s ->
  do_put cfg pol s p ct b im inm = (s', (S201, PEtag (EtItem o))) ->
  exists pc,
    lookup s (parent p) = Some pc
    /\ resolve s' p = NItem (mkColl (c_tag pc) (c_props pc) (assoc_set (c_items pc) (last_name p) o)) o
    /\ (forall q, q <> parent p -> lookup s' q = lookup s q)
    /\ (forall n, n <> last_name p -> assoc (assoc_set (c_items pc) (last_name p) o) n = assoc (c_items pc) n).
Proof. exact put_item_effect. Qed.
Print Assumptions C01_put_item_last_write_wins.

Theorem C01_put_whole_replaces : forall cfg pol s p ct b im inm s' newc,
  do_put cfg pol s p ct b im inm = (s', (S201, PEtag (EtColl newc))) ->
  lookup s' p = Some newc
  /\ c_props newc = []
  /\ (exists tg objs, validate b true tg = Some objs /\ newc = mkColl tg [] (items_of_objs objs))
  /\ (forall q, is_prefix p q = true -> q <> p -> lookup s' q = None)
  /\ (forall q, is_prefix p q = false -> lookup s' q = lookup s q).
Proof. exact put_whole_effect. Qed.
Print Assumptions C01_put_whole_replaces.

Theorem C01_delete_gone : forall cfg pol s p im s',
  do_delete cfg pol s p im = (s', (S200, PNone)) ->
  (exists c, resolve s p = NColl c /\ (forall q, is_prefix p q = true -> q <> [] -> lookup s' q = None)
             /\ (forall q, is_prefix p q = false -> lookup s' q = lookup s q))
  \/ (exists pc o, resolve s p = NItem pc o
        /\ lookup s' (parent p) = Some (mkColl (c_tag pc) (c_props pc) (assoc_del (c_items pc) (last_name p)))
        /\ assoc (assoc_del (c_items pc) (last_name p)) (last_name p) = None
        /\ (forall n, n <> last_name p -> assoc (assoc_del (c_items pc) (last_name p)) n = assoc (c_items pc) n)
        /\ (forall q, q <> parent p -> lookup s' q = lookup s q)).
Proof. exact delete_effect. Qed.
Print Assumptions C01_delete_gone.

Theorem C01_move : forall pol s p dr dout to ow s' r,
  store_inv s ->
  do_move pol s p dr dout to ow = (s', r) -> is_error (fst r) = false ->
  exists fc o,
    resolve s p = NItem fc o
    /\ resolve s' to = NItem (match lookup s' (parent to) with Some c => c | None => fc end) o
    /\ (p <> to -> resolve s' p = NNothing)
    /\ (forall q, q <> parent p -> q <> parent to -> lookup s' q = lookup s q).
Proof. exact move_effect. Qed.
Print Assumptions C01_move.

Theorem C01_mkcol : forall pol s p x s',
  do_mkcol pol s p x = (s', (S201, PNone)) ->
  exists c, lookup s' p = Some c /\ c_items c = [] /\ lookup s p = None /\ (forall q, q <> p -> lookup s' q = lookup s q).
Proof. exact mkcol_effect. Qed.
Print Assumptions C01_mkcol.

Theorem C01_mkcalendar : forall pol s p x s',
  do_mkcalendar pol s p x = (s', (S201, PNone)) ->
  exists c, lookup s' p = Some c /\ c_items c = [] /\ c_tag c = TCal /\ lookup s p = None
            /\ (forall q, q <> p -> lookup s' q = lookup s q).
Proof. exact mkcalendar_effect. Qed.
Print Assumptions C01_mkcalendar.

Theorem C01_proppatch : forall pol s p x s',
  do_proppatch pol s p x = (s', (S207, PNone)) ->
  exists c c', lookup s p = Some c /\ lookup s' p = Some c' /\ c_tag c' = c_tag c /\ c_items c' = c_items c
            /\ (forall q, q <> p -> lookup s' q = lookup s q).
Proof. exact proppatch_effect. Qed.
Print Assumptions C01_proppatch.

(* whatever succeeded or failed on the way: a failed request changes nothing, an observer never does *)
Theorem C01_failed_requests_change_nothing : forall cfg pol u s r,
  is_error (fst (snd (handle cfg pol u s r))) = true -> fst (handle cfg pol u s r) = ensure_home pol s u.
Proof. exact handle_error_unchanged. Qed.
Print Assumptions C01_failed_requests_change_nothing.

Theorem C01_observers_pure : forall cfg pol u s r,
  match r with RGet _ | RPropfind _ _ | RMultiget _ _ _ | RQuery _ _ _ => True | _ => False end ->
  fst (handle cfg pol u s r) = ensure_home pol s u.
Proof. exact observers_pure. Qed.
Print Assumptions C01_observers_pure.

Theorem C01_get_reads_store : forall pol s p o, do_get pol s p = (S200, PItem o) -> exists pc, resolve s p = NItem pc o.
Proof. exact get_item_reads_store. Qed.
Print Assumptions C01_get_reads_store.

Theorem C01_export_reads_store : forall pol s p t l, do_get pol s p = (S200, PExport t l) ->
  exists c, lookup s p = Some c /\ c_tag c = t /\ l = map snd (c_items c).
Proof. exact get_export_reads_store. Qed.
Print Assumptions C01_export_reads_store.

(* ------------------------------------------------------------------------------------------------
   Refinement: the multifilesystem layout (L1: Model/Fs.v + Model/StorageOps.v, the step programs whose
   system-call sequences are compared with strace of the real server by checks/C02.py and checks/C12.py)
   REFINES this ideal store (L0).  Repr.R s sigma: on every data path the directory tree s shows exactly
   the collections, properties and items of sigma (a directory per collection, a file per item, the props
   file; cache / history / temp / lock files unconstrained).  Everything below is qualified because
   Fs.v and Store.v both define path / name / node. *)
Require RV.Lib.Prog RV.Model.Fs RV.Model.StorageOps RV.Model.Repr.
Require RV.Proofs.FsInv RV.Proofs.C12Final RV.Proofs.C02Units RV.Proofs.C02Final RV.Proofs.C02Req.
Require RV.Proofs.ReprProofs RV.Proofs.ReprUnits RV.Proofs.ReprFinal RV.Proofs.ReprE2E RV.Proofs.ReprExample.

(* The data view determines the L0 store (up to the order of association lists): two ideal stores
   represented by one directory tree hold the same collections, tags, properties and items. *)
Theorem C01_refine_functional : forall s s1 s2, Repr.R s s1 -> Repr.R s s2 -> store_inv s1 -> store_inv s2 ->
  forall p, Repr.coll_equiv (lookup s1 p) (lookup s2 p).
Proof. exact ReprProofs.R_functional. Qed.
Print Assumptions C01_refine_functional.

(* ... and every ideal store has a representing tree. *)
Theorem C01_refine_total : forall sigma, Repr.R (Repr.fs_of sigma) sigma.
Proof. exact ReprProofs.R_fs_of. Qed.
Print Assumptions C01_refine_total.

(* Temp directories, stale cache and history entries, lock files never matter. *)
Theorem C01_refine_residue : forall s s' sigma, Repr.R s sigma -> Fs.abs_eq s' s -> Repr.R s' sigma.
Proof. exact ReprProofs.R_abs. Qed.
Print Assumptions C01_refine_residue.

(* One storage operation u run as its step program, under EVERY fault oracle (calls failing, the process
   killed anywhere): if the ideal effect of u on the tree represents sigma', then the run ends in a tree
   that represents sigma or sigma' (nothing in between), and a normal end means sigma'. *)
Theorem C01_refine_unit : forall lay u s0 sigma sigma' (o : Prog.oracle Fs.errno),
  Repr.R s0 sigma -> C12Final.unit_wf u -> C12Final.dirs_exist (C02Final.unit_dirs02 u) s0 -> Fs.fs_inv_weak s0 ->
  (forall s', C02Units.dpost (C02Units.ideal u s0) s' -> Repr.R s' sigma') ->
  ReprFinal.refines sigma sigma' (StorageOps.machine_run o (StorageOps.unit_prog lay u) (Prog.start s0)).
Proof. exact ReprFinal.refine_unit. Qed.
Print Assumptions C01_refine_unit.

(* The same for a whole request program (reads with cache side effects, then the operation). *)
Theorem C01_refine_request : forall lay rq u s0 sigma sigma' (o : Prog.oracle Fs.errno),
  Repr.R s0 sigma -> C02Req.unit_of rq = Some u -> C12Final.request_wf rq ->
  C12Final.dirs_exist (C02Req.request_dirs02 rq) s0 -> Fs.fs_inv_weak s0 ->
  (forall s', C02Units.dpost (C02Units.ideal u s0) s' -> Repr.R s' sigma') ->
  ReprFinal.refines sigma sigma' (StorageOps.machine_run o (StorageOps.request_prog lay rq) (Prog.start s0)).
Proof. exact ReprFinal.refine_request. Qed.
Print Assumptions C01_refine_request.

(* End to end with the handler functions of this model: whenever do_put / do_move / do_delete / the gate's
   home creation change the ideal store from sigma to sigma', there is a storage operation whose step
   program, from any tree representing sigma and under every fault oracle, ends in a tree representing
   sigma or sigma', and sigma' on a normal end. *)
Theorem C01_refine_put : forall cfg pol s sigma p ct b im inm sigma' resp,
  Repr.R s sigma -> store_inv sigma -> Fs.fs_inv_weak s ->
  do_put cfg pol sigma p ct b im inm = (sigma', resp) -> is_error (fst resp) = false ->
  ReprE2E.served sigma sigma' s.
Proof. exact ReprE2E.e2e_put. Qed.
Print Assumptions C01_refine_put.

Theorem C01_refine_move : forall pol s sigma p dr dout to ow sigma' resp,
  Repr.R s sigma -> store_inv sigma -> Fs.fs_inv_weak s -> p <> to ->
  do_move pol sigma p dr dout to ow = (sigma', resp) -> is_error (fst resp) = false ->
  ReprE2E.served sigma sigma' s.
Proof. exact ReprE2E.e2e_move. Qed.
Print Assumptions C01_refine_move.

Theorem C01_refine_delete : forall cfg pol s sigma p im sigma' resp,
  Repr.R s sigma -> store_inv sigma -> Fs.fs_inv_weak s -> p <> [] ->
  do_delete cfg pol sigma p im = (sigma', resp) -> is_error (fst resp) = false ->
  ReprE2E.served sigma sigma' s.
Proof. exact ReprE2E.e2e_delete. Qed.
Print Assumptions C01_refine_delete.

Theorem C01_refine_home : forall pol s sigma user,
  Repr.R s sigma -> store_inv sigma -> Fs.fs_inv_weak s ->
  ensure_home pol sigma user = sigma \/ ReprE2E.served sigma (ensure_home pol sigma user) s.
Proof. exact ReprE2E.e2e_home. Qed.
Print Assumptions C01_refine_home.

(* Non-vacuity: the tree obtained by RUNNING home creation, MKCALENDAR and a PUT of the step programs from the
   empty storage folder represents the store the handler model reaches on the same history. *)
Theorem C01_refine_nonvacuous :
  Repr.R ReprExample.ex_s3 ReprExample.ex_sig3 /\ store_inv ReprExample.ex_sig3 /\ Fs.fs_inv_weak ReprExample.ex_s3
  /\ (exists c, lookup ReprExample.ex_sig3 [10; 20] = Some c /\ c_items c = [(100, ReprExample.ex_ob)])
  /\ Fs.look ReprExample.ex_s3 (Repr.fp [10; 20; 100]) = Some (Fs.F (Repr.ocode ReprExample.ex_ob))
  /\ Fs.look ReprExample.ex_s3 (Repr.fp [10; 20] ++ [Fs.Props]) = Some (Fs.F (Repr.pcode TCal [])).
Proof. exact ReprExample.R_nonvacuous. Qed.
Print Assumptions C01_refine_nonvacuous.

(* A whole request as dispatched by `handle` (home creation by the gate, then the method), for EVERY request
   kind except DELETE of the root collection and MOVE of a path onto itself: each of the two stages either leaves
   the ideal store as it is or is served by one storage operation that refines it (ReprHandle.step_ok), and the
   invariant is kept, so the statement chains over request histories. *)
Require RV.Proofs.ReprHandle.
Theorem C01_refine_handle : forall cfg pol user s sigma r sigma' resp,
  Repr.R s sigma -> store_inv sigma -> Fs.fs_inv_weak s -> ReprHandle.covered r ->
  handle cfg pol user sigma r = (sigma', resp) ->
  let sigma1 := ensure_home pol sigma user in
  ReprHandle.step_ok sigma sigma1 s /\
  store_inv sigma1 /\
  (forall s1, Repr.R s1 sigma1 -> Fs.fs_inv_weak s1 -> ReprHandle.step_ok sigma1 sigma' s1) /\
  store_inv sigma'.
Proof. exact ReprHandle.handle_refines. Qed.
Print Assumptions C01_refine_handle.

(* Whole request histories.  run_units lay us s runs the storage operations us one after the other WITHOUT faults and
   is Some s' when each of them ends normally.  For every covered history of the handler model there are storage
   operations such that, whenever they all end normally, the resulting tree represents exactly the ideal store after
   the history.  (Partial: "ends normally" is a hypothesis here; it is proved for MKCOL/home creation, PROPPATCH,
   DELETE of a collection and MKCALENDAR below, and checked by evaluation in the example; for operations with cache
   tails -- upload, delete item, move -- a fault-free run can still raise when a reserved cache path is occupied by
   a file, ReprProgress.upload_raises_when_cache_is_a_file, so their progress needs an invariant on reserved paths
   that is not proved.) *)
Require RV.Proofs.ReprHistory RV.Proofs.ReprProgress.
Theorem C01_refine_history_partial : forall cfg pol user lay rs s sigma sigma' outs,
  Repr.R s sigma -> store_inv sigma -> Fs.fs_inv_weak s -> Forall ReprHandle.covered rs ->
  run_history cfg pol user sigma rs = (sigma', outs) ->
  exists us, forall s', ReprHistory.run_units lay us s = Some s' -> Repr.R s' sigma' /\ Fs.fs_inv_weak s'.
Proof. exact ReprHistory.history_refines. Qed.
Print Assumptions C01_refine_history_partial.

(* Non-vacuity, by evaluation on both sides: home creation, MKCALENDAR, PUT, MOVE, PUT, DELETE from the empty storage
   folder -- every operation ends normally and the resulting tree represents the handler model's store. *)
Theorem C01_refine_history_example :
  ReprHistory.hx_sig6 = ReprHistory.hx_sigma /\
  exists s', ReprHistory.run_units ReprExample.ex_lay ReprHistory.hx_units ReprExample.ex_s0 = Some s'
    /\ Repr.R s' ReprHistory.hx_sigma /\ store_inv ReprHistory.hx_sigma /\ Fs.fs_inv_weak s'
    /\ Fs.look s' (Repr.fp [10; 20; 102]) = Some (Fs.F (Repr.ocode ReprHistory.hx_ob2))
    /\ Fs.look s' (Repr.fp [10; 20; 100]) = None /\ Fs.look s' (Repr.fp [10; 20; 101]) = None.
Proof. exact ReprHistory.history_example. Qed.
Print Assumptions C01_refine_history_example.

(* Progress of fault-free runs, for the operations without cache tails. *)
Theorem C01_progress_mkdir : forall lay p s0, p <> [] -> Fs.fs_inv_weak s0 -> Fs.look s0 (Fs.parent p) = Some Fs.D ->
  (Fs.look s0 p = None \/ Fs.look s0 p = Some Fs.D) ->
  snd (StorageOps.machine_run Prog.no_fault (StorageOps.unit_prog lay (StorageOps.UMkdir p)) (Prog.start s0)) = Prog.ONorm.
Proof. exact ReprProgress.mkdir_progress. Qed.
Print Assumptions C01_progress_mkdir.

Theorem C01_progress_set_meta : forall lay c pv s0, c <> [] -> Fs.fs_inv_weak s0 -> Fs.look s0 c = Some Fs.D ->
  Fs.look s0 (c ++ [Fs.Tmp 0]) = None -> Fs.look s0 (c ++ [Fs.Props]) <> Some Fs.D ->
  snd (StorageOps.machine_run Prog.no_fault (StorageOps.unit_prog lay (StorageOps.USetMeta c pv)) (Prog.start s0)) = Prog.ONorm.
Proof. exact ReprProgress.set_meta_progress. Qed.
Print Assumptions C01_progress_set_meta.

Theorem C01_progress_delete_coll : forall lay par x s0, Fs.fs_inv_weak s0 -> Fs.look s0 (par ++ [x]) = Some Fs.D ->
  Fs.look s0 (par ++ [Fs.Tmp 0]) = None -> x <> Fs.Tmp 0 ->
  snd (StorageOps.machine_run Prog.no_fault (StorageOps.unit_prog lay (StorageOps.UDeleteColl (par ++ [x]))) (Prog.start s0)) = Prog.ONorm.
Proof. exact ReprProgress.delete_coll_progress. Qed.
Print Assumptions C01_progress_delete_coll.

Theorem C01_progress_create : forall lay par x pv s0, Fs.fs_inv_weak s0 -> Fs.look s0 par = Some Fs.D -> par <> [] ->
  Fs.look s0 (par ++ [Fs.Tmp 0]) = None -> x <> Fs.Tmp 0 ->
  snd (StorageOps.machine_run Prog.no_fault (StorageOps.unit_prog lay (StorageOps.UCreate (par ++ [x]) None pv)) (Prog.start s0)) = Prog.ONorm.
Proof. exact ReprProgress.create_progress. Qed.
Print Assumptions C01_progress_create.

(* Whole request histories, UNCONDITIONALLY (default cache layout lay0).  CL s: a well-formed tree whose reserved paths are
   clean (no temp residue; the cache folders are directories and their entries files) -- what fault-free runs leave
   behind; ReprClean.CL_empty: the empty storage folder is clean.  Every fault-free storage operation the handlers issue
   ends normally from a clean tree and leaves a clean tree (progress), so for every covered history there are storage
   operations whose fault-free run ends in a tree representing exactly the ideal store after the history. *)
Require RV.Proofs.ReprClean RV.Proofs.ReprTotal.
Theorem C01_refine_history : forall cfg pol user rs s sigma sigma' outs,
  Repr.R s sigma -> store_inv sigma -> ReprClean.CL s -> Forall ReprHandle.covered rs ->
  run_history cfg pol user sigma rs = (sigma', outs) ->
  exists us s', ReprHistory.run_units ReprProgress.lay0 us s = Some s' /\ Repr.R s' sigma' /\ ReprClean.CL s'.
Proof. exact ReprTotal.history_total. Qed.
Print Assumptions C01_refine_history.

Theorem C01_refine_history_from_empty : forall cfg pol user rs sigma' outs,
  Forall ReprHandle.covered rs ->
  run_history cfg pol user empty_store rs = (sigma', outs) ->
  exists us s', ReprHistory.run_units ReprProgress.lay0 us ReprExample.ex_s0 = Some s' /\ Repr.R s' sigma' /\ ReprClean.CL s'.
Proof. exact ReprTotal.history_total_empty. Qed.
Print Assumptions C01_refine_history_from_empty.

(* One request, with progress: as C01_refine_handle, each stage now also ends normally from a clean tree. *)
Theorem C01_refine_handle_total : forall cfg pol user s sigma r sigma' resp,
  Repr.R s sigma -> store_inv sigma -> Fs.fs_inv_weak s -> ReprHandle.covered r ->
  handle cfg pol user sigma r = (sigma', resp) ->
  let sigma1 := ensure_home pol sigma user in
  ReprTotal.pstep_ok sigma sigma1 s /\ store_inv sigma1 /\
  (forall s1, Repr.R s1 sigma1 -> Fs.fs_inv_weak s1 -> ReprTotal.pstep_ok sigma1 sigma' s1) /\ store_inv sigma'.
Proof. exact ReprTotal.handle_total. Qed.
Print Assumptions C01_refine_handle_total.

(* ---------------------------------------------------------------------------------------------------------
   "... and nothing else appears or disappears", over whole histories: an item stays exactly as stored until a
   request addresses it.  [leaves p r]: r is not a PUT or DELETE of p or of a collection above p, not a MOVE from
   or onto p, not a MKCOL/MKCALENDAR on p's name.  Every other request -- carried out or refused, of any kind, on
   siblings, on other collections, on p's own collection's properties -- leaves the content at p as it is.
   --------------------------------------------------------------------------------------------------------- *)
Require RV.Proofs.C01Stable RV.Lib.Item.
Import RV.Proofs.C01Stable RV.Lib.Item.

Theorem C01_item_stable : forall cfg pol user s r p o,
  item_at s p o -> leaves p r = true -> item_at (fst (handle cfg pol user s r)) p o.
Proof. exact handle_stable. Qed.
Print Assumptions C01_item_stable.

Theorem C01_history_stable : forall cfg pol user rs s p o,
  item_at s p o -> forallb (leaves p) rs = true -> item_at (fst (run_history cfg pol user s rs)) p o.
Proof. exact history_stable. Qed.
Print Assumptions C01_history_stable.

(* read your writes across unrelated traffic: after a successful item PUT of o at p and ANY history that does not
   address p, a GET by anybody who may read p returns o. *)
Theorem C01_read_your_writes : forall cfg pol s p ct b im inm s1 o rs pol' user',
  store_inv s ->
  do_put cfg pol s p ct b im inm = (s1, (S201, PEtag (EtItem o))) ->
  forallb (leaves p) rs = true ->
  check pol' p lr NoItem = true -> check pol' p lr IsItem = true ->
  do_get pol' (fst (run_history cfg pol user' s1 rs)) p = (S200, PItem o).
Proof. exact read_your_writes. Qed.
Print Assumptions C01_read_your_writes.

(* non-vacuity: /10/20/100 holds ex_ob; a sibling PUT, a PROPPATCH of its calendar, a MKCALENDAR next to it, a DELETE
   of the sibling, a MOVE between two other names and a refused DELETE of another user's home all leave it; and the
   hypothesis is needed: a DELETE of the calendar removes it. *)
Example C01_stable_nonvacuous :
  let pol := fun _ : path => [82; 87; 114; 119] in
  let rs := [RPut [10; 20; 101] CTNone (BCal [mkObj 5 CEvent 7]) CNone false;
             RProppatch [10; 20] (XProps TRNone [(1, Some 2)]);
             RMkcalendar [10; 21] XNone;
             RMove [10; 20; 101] true [10; 20; 102] false;
             RDelete [10; 20; 102] CNone;
             RDelete [11] CNone] in
  item_at ReprExample.ex_sig3 [10; 20; 100] ReprExample.ex_ob
  /\ forallb (leaves [10; 20; 100]) rs = true
  /\ map fst (snd (run_history (mkConfig true true) pol (Some 10) ReprExample.ex_sig3 rs)) = [S201; S207; S201; S201; S200; S404]
  /\ leaves [10; 20; 100] (RDelete [10; 20] CNone) = false
  /\ resolve (fst (handle (mkConfig true true) pol (Some 10) ReprExample.ex_sig3 (RDelete [10; 20] CNone))) [10; 20; 100] = NNothing.
Proof.
  cbv zeta. split; [eexists; vm_compute; reflexivity|]. repeat split; vm_compute; reflexivity.
Qed.

(* ---------------------------------------------------------------------------------------------------------
   "Each request is answered with the outcome class that this model predicts": tie T between the handler model and
   the do_ methods of radicale/app at the level of outcome codes.  Gen/Skeleton.v is regenerated from the source on
   every run; the sequence of its return sites per method must equal the recorded one (Proofs/HandlersSkel.v,
   lemmas Gen_rets_X -- a change that adds, removes or reorders an outcome breaks one of them).
   --------------------------------------------------------------------------------------------------------- *)
Require RV.Proofs.HandlersSkel.
Import RV.Proofs.HandlersSkel.

(* for all stores, policies, configurations and requests the model answers with one of these codes ... *)
Theorem C01_outcome_codes_sound :
  (forall cfg pol s p im, In (code_of (fst (snd (do_delete cfg pol s p im)))) delete_codes)
  /\ (forall pol s p x, In (code_of (fst (snd (do_mkcol pol s p x)))) mkcol_codes)
  /\ (forall pol s p x, In (code_of (fst (snd (do_mkcalendar pol s p x)))) mkcalendar_codes)
  /\ (forall pol s p dr dout to ow, In (code_of (fst (snd (do_move pol s p dr dout to ow)))) move_codes)
  /\ (forall pol s p x, In (code_of (fst (snd (do_proppatch pol s p x)))) proppatch_codes)
  /\ (forall cfg pol s p ct b im inm, In (code_of (fst (snd (do_put cfg pol s p ct b im inm)))) put_codes)
  /\ (forall pol s p, In (code_of (fst (do_get pol s p))) get_codes)
  /\ (forall pol s p d, In (code_of (fst (do_propfind pol s p d))) propfind_codes)
  /\ (forall pol s p cal hs, In (code_of (fst (do_multiget pol s p cal hs))) multiget_codes)
  /\ (forall pol s p k flt, In (code_of (fst (do_query pol s p k flt))) query_codes).
Proof.
  exact (conj delete_codes_sound (conj mkcol_codes_sound (conj mkcalendar_codes_sound (conj move_codes_sound
        (conj proppatch_codes_sound (conj put_codes_sound (conj get_codes_sound (conj propfind_codes_sound (conj multiget_codes_sound query_codes_sound))))))))).
Qed.
Print Assumptions C01_outcome_codes_sound.

(* ... each of which is a return site of the real method, and what the real method returns beyond them is an
   environment failure the model does not cover (400 unreadable body, 408 time-out, 500, 507 disk full) ... *)
Theorem C01_outcome_codes_tied :
  tied RV.Gen.Skeleton.sk_do_DELETE delete_codes = true /\ tied RV.Gen.Skeleton.sk_do_MKCOL mkcol_codes = true
  /\ tied RV.Gen.Skeleton.sk_do_MKCALENDAR mkcalendar_codes = true /\ tied RV.Gen.Skeleton.sk_do_MOVE move_codes = true
  /\ tied RV.Gen.Skeleton.sk_do_PROPPATCH proppatch_codes = true /\ tied RV.Gen.Skeleton.sk_do_PUT put_codes = true
  /\ tied RV.Gen.Skeleton.sk_do_GET get_codes = true /\ tied RV.Gen.Skeleton.sk_do_PROPFIND propfind_codes = true
  /\ tied RV.Gen.Skeleton.sk_do_REPORT multiget_codes = true /\ tied RV.Gen.Skeleton.sk_do_REPORT query_codes = true.
Proof. exact codes_tied_to_code. Qed.
Print Assumptions C01_outcome_codes_tied.

(* ... and each of which the model produces on some input (non-vacuity of the code lists; PUT's 500 excepted). *)
Theorem C01_outcome_codes_reached : forall c, In c delete_codes ->
  exists cfg pol p im, code_of (fst (snd (do_delete cfg pol sA p im))) = c.
Proof.
  intros c Hc. destruct (reached_spec _ _ c (proj1 codes_reached) Hc) as (st & Hin & He).
  apply in_map_iff in Hin. destruct Hin as ([[[cfg pol] p] im] & Hst & _). exists cfg, pol, p, im. cbn [fst snd] in Hst.
  rewrite Hst. exact He.
Qed.
Print Assumptions C01_outcome_codes_reached.

(* ... and nothing appears: a name under which nothing is stored stays free until a request addresses it (a PUT of it
   or of a collection above it, a MOVE onto it, a MKCOL / MKCALENDAR on it); the only thing the server creates by
   itself is the requesting user's home collection /<user>/ (third hypothesis: p is not that name). *)
Require RV.Proofs.C01Absent.
Import RV.Proofs.C01Absent.

Theorem C01_name_stays_free : forall cfg pol user s r p,
  absent s p -> leaves p r = true -> user <> Some (last_name p) \/ parent p <> [] \/ p = [] ->
  absent (fst (handle cfg pol user s r)) p.
Proof. exact handle_absent. Qed.
Print Assumptions C01_name_stays_free.

Theorem C01_history_absent : forall cfg pol user rs s p,
  absent s p -> forallb (leaves p) rs = true -> user <> Some (last_name p) \/ parent p <> [] \/ p = [] ->
  absent (fst (run_history cfg pol user s rs)) p.
Proof. exact history_absent. Qed.
Print Assumptions C01_history_absent.

(* non-vacuity: /10/20/105 is free in the example store and stays free through requests on its siblings, its calendar
   and other collections; the home exception is real: the first request of user 12 creates /12/. *)
Example C01_absent_nonvacuous :
  let pol := fun _ : path => [82; 87; 114; 119] in
  let rs := [RPut [10; 20; 101] CTNone (BCal [mkObj 5 CEvent 7]) CNone false;
             RProppatch [10; 20] (XProps TRNone [(1, Some 2)]);
             RMove [10; 20; 101] true [10; 20; 102] false;
             RDelete [10; 20; 100] CNone;
             RMkcalendar [10; 21] XNone] in
  absent ReprExample.ex_sig3 [10; 20; 105]
  /\ forallb (leaves [10; 20; 105]) rs = true
  /\ map fst (snd (run_history (mkConfig true true) pol (Some 10) ReprExample.ex_sig3 rs)) = [S201; S207; S201; S200; S201]
  /\ absent ReprExample.ex_sig3 [12]
  /\ resolve (fst (handle (mkConfig true true) pol (Some 12) ReprExample.ex_sig3 (RGet [10]))) [12] = NColl (mkColl TNone [] []).
Proof. cbv zeta. repeat split; vm_compute; reflexivity. Qed.
