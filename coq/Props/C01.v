(* C01 -- Stored data follows the DAV object model for every request history.
   Statements only.  `handle` (Model/Handlers.v) IS the ideal in-memory DAV store: an association of
   collection paths to (type, properties, items).  The theorems say what it holds after each kind of request
   (last successful write wins, deleted / moved-away names are gone, a replaced collection contains only the
   new objects, nothing else appears or disappears).  That the real server answers every request of every
   generated history with the outcome class and listing this model predicts, and leaves the same store on
   disk -- for both file-system back-ends and all cache layouts -- is the correspondence run of checks/C01.py. *)
From Coq Require Import List NArith Bool.
Import ListNotations.
Require Import RV.Lib.PyStr RV.Model.Store RV.Model.Handlers RV.Proofs.HandlersInv RV.Proofs.HandlersStore.
Open Scope N_scope.

Theorem C01_put_item_last_write_wins : forall cfg pol s p ct b im inm s' o,
  store_inv s ->
  do_put cfg pol s p ct b im inm = (s', (S201, PEtag (EtItem o))) ->
  exists pc,
    lookup s (parent p) = Some pc
    /\ resolve s' p = NItem (mkColl (c_tag pc) (c_props pc) (assoc_set (c_items pc) (last_name p) o)) o
    /\ (forall q, q <> parent p -> lookup s' q = lookup s q)
    /\ (forall n, n <> last_name p -> assoc (assoc_set (c_items pc) (last_name p) o) n = assoc (c_items pc) n).
Proof. exact put_item_effect. Qed.
Print Assumptions C01_put_item_last_write_wins.

Theorem C01_put_whole_replaces : forall cfg pol s p ct b im inm s' newc,
  do_put cfg pol s p ct b im inm = (s', (S201, PEtag (EtColl newc))) ->
  lookup s' p = Some newc
  /\ c_props newc = []
  /\ (exists tg objs, validate b true tg = Some objs /\ newc = mkColl tg [] (items_of_objs objs))
  /\ (forall q, is_prefix p q = true -> q <> p -> lookup s' q = None)
  /\ (forall q, is_prefix p q = false -> lookup s' q = lookup s q).
Proof. exact put_whole_effect. Qed.
Print Assumptions C01_put_whole_replaces.

Theorem C01_delete_gone : forall cfg pol s p im s',
  do_delete cfg pol s p im = (s', (S200, PNone)) ->
  (exists c, resolve s p = NColl c /\ (forall q, is_prefix p q = true -> q <> [] -> lookup s' q = None)
             /\ (forall q, is_prefix p q = false -> lookup s' q = lookup s q))
  \/ (exists pc o, resolve s p = NItem pc o
        /\ lookup s' (parent p) = Some (mkColl (c_tag pc) (c_props pc) (assoc_del (c_items pc) (last_name p)))
        /\ assoc (assoc_del (c_items pc) (last_name p)) (last_name p) = None
        /\ (forall n, n <> last_name p -> assoc (assoc_del (c_items pc) (last_name p)) n = assoc (c_items pc) n)
        /\ (forall q, q <> parent p -> lookup s' q = lookup s q)).
Proof. exact delete_effect. Qed.
Print Assumptions C01_delete_gone.

Theorem C01_move : forall pol s p dr dout to ow s' r,
  store_inv s ->
  do_move pol s p dr dout to ow = (s', r) -> is_error (fst r) = false ->
  exists fc o,
    resolve s p = NItem fc o
    /\ resolve s' to = NItem (match lookup s' (parent to) with Some c => c | None => fc end) o
    /\ (p <> to -> resolve s' p = NNothing)
    /\ (forall q, q <> parent p -> q <> parent to -> lookup s' q = lookup s q).
Proof. exact move_effect. Qed.
Print Assumptions C01_move.

Theorem C01_mkcol : forall pol s p x s',
  do_mkcol pol s p x = (s', (S201, PNone)) ->
  exists c, lookup s' p = Some c /\ c_items c = [] /\ lookup s p = None /\ (forall q, q <> p -> lookup s' q = lookup s q).
Proof. exact mkcol_effect. Qed.
Print Assumptions C01_mkcol.

Theorem C01_mkcalendar : forall pol s p x s',
  do_mkcalendar pol s p x = (s', (S201, PNone)) ->
  exists c, lookup s' p = Some c /\ c_items c = [] /\ c_tag c = TCal /\ lookup s p = None
            /\ (forall q, q <> p -> lookup s' q = lookup s q).
Proof. exact mkcalendar_effect. Qed.
Print Assumptions C01_mkcalendar.

Theorem C01_proppatch : forall pol s p x s',
  do_proppatch pol s p x = (s', (S207, PNone)) ->
  exists c c', lookup s p = Some c /\ lookup s' p = Some c' /\ c_tag c' = c_tag c /\ c_items c' = c_items c
            /\ (forall q, q <> p -> lookup s' q = lookup s q).
Proof. exact proppatch_effect. Qed.
Print Assumptions C01_proppatch.

(* whatever succeeded or failed on the way: a failed request changes nothing, an observer never does *)
Theorem C01_failed_requests_change_nothing : forall cfg pol u s r,
  is_error (fst (snd (handle cfg pol u s r))) = true -> fst (handle cfg pol u s r) = ensure_home pol s u.
Proof. exact handle_error_unchanged. Qed.
Print Assumptions C01_failed_requests_change_nothing.

Theorem C01_observers_pure : forall cfg pol u s r,
  match r with RGet _ | RPropfind _ _ | RMultiget _ _ _ => True | _ => False end ->
  fst (handle cfg pol u s r) = ensure_home pol s u.
Proof. exact observers_pure. Qed.
Print Assumptions C01_observers_pure.

Theorem C01_get_reads_store : forall pol s p o, do_get pol s p = (S200, PItem o) -> exists pc, resolve s p = NItem pc o.
Proof. exact get_item_reads_store. Qed.
Print Assumptions C01_get_reads_store.

Theorem C01_export_reads_store : forall pol s p t l, do_get pol s p = (S200, PExport t l) ->
  exists c, lookup s p = Some c /\ c_tag c = t /\ l = map snd (c_items c).
Proof. exact get_export_reads_store. Qed.
Print Assumptions C01_export_reads_store.
