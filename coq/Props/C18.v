(* C18 -- Every name the server hands out or accepts round-trips through URL encoding.
   Only statements; each closed by `exact` of a lemma from Proofs/, followed by Print Assumptions.

   Gen/UrlGen.v (make_href, the Location value of httputils.redirect) is REGENERATED from the source on
   every run; Model/Url.v is tied to the code by the correspondence runs of checks/C18.py.
   Strings are lists of code points.  Vocabulary (definitions in Model/Url.v, Proofs/UrlPath.v, UrlParse.v):
     sane_path p      sanitize_path p = p: "/" + "/".join(safe components) [+ "/"]  -- every path handed to a handler
     sane_prefix b    b = "" or (sanitize_path b = b and b does not end with "/")   -- a normalised script name
     wf_quoted h      h is ( unreserved | "/" | "%" HEX HEX )* with upper-case hex digits
     valid_cp c       c is a Unicode scalar value (not a surrogate, <= 0x10FFFF)
     host_char c      printable ASCII other than / ? # [ ]
     origin_form t    t starts with "/" but not "//", has no '#' and no TAB/CR/LF
   The model is the code AFTER the fixes notes/fixes/C18-1..4 (see notes/C18.md); the witnesses of the
   repaired defects are kept as theorems about the `_legacy` definitions. *)
From Coq Require Import List NArith Bool String.
Import ListNotations.
Require Import RV.Lib.PyStr RV.Model.Path RV.Model.Url.
Require Import RV.Proofs.PathProofs RV.Proofs.UrlPath RV.Proofs.UrlParse RV.Proofs.UrlBase RV.Proofs.C18Final.
Require RV.Gen.UrlGen.
Open Scope list_scope. Open Scope N_scope.

(* Percent coding alone, for ALL byte strings: unquote_to_bytes (quote_from_bytes b) = b. *)
Theorem C18_unquote_quote_bytes : forall b, forallb is_byte b = true -> unquote_to_bytes (quote_from_bytes b) = b.
Proof. exact c18_unquote_quote_bytes. Qed.
Print Assumptions C18_unquote_quote_bytes.

(* UTF-8: decoding with errors='replace' (CPython's decoder) undoes encoding with errors='strict'. *)
Theorem C18_utf8_roundtrip : forall s b, utf8_encode s = Some b -> utf8_decode b = s /\ forallb is_byte b = true.
Proof. exact c18_utf8_roundtrip. Qed.
Print Assumptions C18_utf8_roundtrip.

(* The key fact, for ALL strings: quote(s) is defined exactly for strings of Unicode scalar values
   (otherwise UnicodeEncodeError), and whenever it is defined unquote(quote(s)) = s. *)
Theorem C18_unquote_quote : forall s,
  (forallb valid_cp s = true <-> quote s <> None) /\ (forall q, quote s = Some q -> unquote q = s).
Proof. exact c18_unquote_quote. Qed.
Print Assumptions C18_unquote_quote.

(* Every href (multistatus bodies, principal / home-set properties: all go through make_href) and every
   Location header is a correctly percent-encoded URL path, for EVERY base prefix and path; and for a
   normalised prefix and a sanitised path a URL parser takes all of it for the path
   (no scheme, no authority, no query, no fragment). *)
Theorem C18_href_wellformed :
  (forall base p h, UrlGen.make_href base p = Some h -> wf_quoted h = true)
  /\ (forall loc l, UrlGen.redirect_location loc = Some l -> wf_quoted l = true)
  /\ (forall base p h, sane_prefix base -> sane_path p -> UrlGen.make_href base p = Some h ->
        urlsplit h = UOk {| u_scheme := []; u_netloc := []; u_path := h |}).
Proof. exact c18_href_wellformed. Qed.
Print Assumptions C18_href_wellformed.

(* An href exists exactly when prefix and path consist of Unicode scalar values. *)
Theorem C18_href_defined : forall base p, forallb valid_cp (base ++ p) = true <-> UrlGen.make_href base p <> None.
Proof. exact c18_href_defined. Qed.
Print Assumptions C18_href_defined.

(* The paths hrefs are made for are sanitised paths: an item of the collection parts/ named `name`,
   and a collection. *)
Theorem C18_item_uri_sane : forall parts name, parts <> [] -> Forall safe parts -> safe name ->
  unstrip_path (posix_join (join [slash] parts) name) false = render (parts ++ [name])
  /\ sane_path (render (parts ++ [name])).
Proof. exact c18_item_uri_sane. Qed.
Print Assumptions C18_item_uri_sane.

Theorem C18_collection_uri_sane : forall parts, Forall safe parts ->
  unstrip_path (join [slash] parts) true = render parts ++ (match parts with [] => [] | _ => [slash] end)
  /\ sane_path (render parts ++ (match parts with [] => [] | _ => [slash] end)).
Proof. exact c18_collection_uri_sane. Qed.
Print Assumptions C18_collection_uri_sane.

(* Request line.  An emitted href sent back as request target (with or without a query string) is decoded by
   server.py to prefix + path, and _handle_request called by a reverse proxy that forwards the full path
   hands exactly `p` to the handler; without a prefix this holds in every mode. *)
Theorem C18_request_line : forall base p h, sane_prefix base -> sane_path p -> UrlGen.make_href base p = Some h ->
  pathinfo_of_target h = base ++ p
  /\ (forall query, pathinfo_of_target (h ++ qmark :: query) = base ++ p)
  /\ request_path true base (base ++ p) = p
  /\ (base = [] -> forall rp, request_path rp base (base ++ p) = p).
Proof. exact c18_request_line. Qed.
Print Assumptions C18_request_line.

(* The same on the REGENERATED value flow of _handle_request (Gen/UrlGen.v: every step between environ["PATH_INFO"]
   and the `path` argument of the handlers, translated from the source on each run): the emitted href, with or
   without a query, is handed to the handler as `p`.  A further decoding step in that flow breaks the translation. *)
Theorem C18_request_line_regenerated : forall base p h query, sane_prefix base -> sane_path p ->
  UrlGen.make_href base p = Some h ->
  UrlGen.request_path true base (pathinfo_of_target h) = p
  /\ UrlGen.request_path true base (pathinfo_of_target (h ++ qmark :: query)) = p
  /\ (base = [] -> forall rp, UrlGen.request_path rp base (pathinfo_of_target h) = p).
Proof. exact c18_request_line_regenerated. Qed.
Print Assumptions C18_request_line_regenerated.

(* Request line when the prefix was removed in front of Radicale (WSGI container with SCRIPT_NAME, or the
   documented proxy set-ups, which strip the location): the handler gets `p` -- unless the request comes from a
   reverse proxy, a prefix is in force and `p` itself lies below a top-level collection spelled like the whole
   prefix.  In that case Radicale cannot tell a stripped from an unstripped path and strips again:
   FULL statement (not provable): forall rp base p, sane_path p -> request_path rp base p = p. *)
Theorem C18_request_line_stripped_outside_known : forall rp base p, sane_path p -> ambiguous rp base p = false ->
  request_path rp base p = p.
Proof. exact c18_request_line_stripped. Qed.
Print Assumptions C18_request_line_stripped_outside_known.

Theorem C18_request_line_stripped_refuted : exists base p, sane_prefix base /\ sane_path p /\
  request_path true base p <> p.
Proof. exact c18_request_line_stripped_refuted. Qed.
Print Assumptions C18_request_line_stripped_refuted.

(* Multiget: an emitted href sent back in a REPORT body denotes `p`. *)
Theorem C18_multiget : forall base p h, sane_prefix base -> sane_path p -> UrlGen.make_href base p = Some h ->
  decode_multiget base h = DOk p.
Proof. exact c18_multiget. Qed.
Print Assumptions C18_multiget.

(* Destination: an emitted href made absolute with this server's scheme://host[:port] denotes `p`. *)
Theorem C18_destination : forall sn base p h sch host,
  sane_prefix base -> sane_path p -> UrlGen.make_href base p = Some h ->
  http_scheme sch -> forallb host_char host = true -> netloc_with_port sch host = Some sn ->
  decode_destination sn base (sch ++ str "://" ++ host ++ h) = DOk p.
Proof. exact c18_destination. Qed.
Print Assumptions C18_destination.

(* The three reading sites decode alike, for EVERY URL u (not only emitted ones):
   Destination = multiget whenever the Destination names this server; *)
Theorem C18_same_decoding_destination : forall sn base u,
  match urlsplit u with
  | UOk x => match netloc_with_port (u_scheme x) (u_netloc x) with
             | Some wp => if eqs wp sn then decode_destination sn base u = decode_multiget base u
                          else decode_destination sn base u = DRemote
             | None => decode_destination sn base u = DRaise
             end
  | UValueError => decode_destination sn base u = DRaise /\ decode_multiget base u = DRaise
  | UOutside => decode_destination sn base u = DOutside /\ decode_multiget base u = DOutside
  end.
Proof. exact c18_same_decoding_dest. Qed.
Print Assumptions C18_same_decoding_destination.

(* multiget = request line (followed by the same prefix rule) for every origin-form target; *)
Theorem C18_same_decoding_request_line : forall base t, origin_form t ->
  decode_multiget base t = strip_base base (sanitize_path (pathinfo_of_target t)).
Proof. exact c18_same_decoding_target. Qed.
Print Assumptions C18_same_decoding_request_line.

(* and the prefix rule of _handle_request behind a reverse proxy is that of the other two sites. *)
Theorem C18_same_prefix_rule : forall base pathinfo, nonempty base = true ->
  request_path true base pathinfo =
  match strip_base base (sanitize_path pathinfo) with DOk r => r | _ => sanitize_path pathinfo end.
Proof. exact c18_request_path_strip. Qed.
Print Assumptions C18_same_prefix_rule.

(* The base prefix _handle_request selects (from [server] script_name -- which Application.__init__ only accepts when
   cfg_ok: empty, or leading and no trailing slash --, X-Script-Name or SCRIPT_NAME) is "" or starts with "/" and does
   not end with "/"; anything else is answered 400 / 500 before a handler runs. *)
Theorem C18_base_prefix_shape : forall cfg rp x s b, cfg_ok cfg -> select_base cfg rp x s = BOk b ->
  b = [] \/ (startswith b [slash] = true /\ endswith b [slash] = false).
Proof. exact c18_base_prefix_shape. Qed.
Print Assumptions C18_base_prefix_shape.

(* Witnesses of the repaired defects (the code before the fixes, replayed by checks/C18.py on the real server). *)
Theorem C18_witness_move_unquote :
  decode_destination_legacy (str "h:80") [] (str "http://h/u/cal/b%20c.ics") = DOk (str "/u/cal/b%20c.ics")
  /\ decode_destination (str "h:80") [] (str "http://h/u/cal/b%20c.ics") = DOk (str "/u/cal/b c.ics")
  /\ decode_multiget [] (str "http://h/u/cal/b%20c.ics") = DOk (str "/u/cal/b c.ics").
Proof. exact c18_witness_move_unquote. Qed.
Print Assumptions C18_witness_move_unquote.

Theorem C18_witness_params :
  decode_multiget_legacy [] (str "/u/cal/a;b.ics") = DOk (str "/u/cal/a")
  /\ decode_multiget [] (str "/u/cal/a;b.ics") = DOk (str "/u/cal/a;b.ics")
  /\ sanitize_path (pathinfo_of_target (str "/u/cal/a;b.ics")) = str "/u/cal/a;b.ics".
Proof. exact c18_witness_params. Qed.
Print Assumptions C18_witness_params.

Theorem C18_witness_prefix_boundary :
  request_path_legacy true (str "/radicale") (str "/radicale2/cal/") = str "2/cal/"
  /\ request_path true (str "/radicale") (str "/radicale2/cal/") = str "/radicale2/cal/"
  /\ request_path_legacy true (str "/radicale") (str "/radicale") = []
  /\ request_path true (str "/radicale") (str "/radicale") = str "/"
  /\ decode_multiget_legacy (str "/radicale") (str "http://h/radicale") = DOk []
  /\ decode_multiget (str "/radicale") (str "http://h/radicale") = DOk (str "/").
Proof. exact c18_witness_prefix_boundary. Qed.
Print Assumptions C18_witness_prefix_boundary.

(* The hypotheses above are satisfiable together, by a name using the property's character set. *)
Theorem C18_example :
  let base := str "/my app" in
  let p := [47; 117; 47; 99; 97; 108; 47; 98; 32; 99; 59; 37; 63; 35; 233; 8364; 128512; 46; 105; 99; 115] in
  let h := str "/my%20app/u/cal/b%20c%3B%25%3F%23%C3%A9%E2%82%AC%F0%9F%98%80.ics" in
  sane_prefix base /\ sane_path p /\ UrlGen.make_href base p = Some h
  /\ http_scheme (str "https") /\ forallb host_char (str "dav.example.org") = true
  /\ netloc_with_port (str "https") (str "dav.example.org") = Some (str "dav.example.org:443")
  /\ decode_destination (str "dav.example.org:443") base (str "https://dav.example.org" ++ h) = DOk p
  /\ origin_form h /\ ambiguous true base p = false.
Proof. exact c18_example. Qed.
Print Assumptions C18_example.
