(* placeholder, replaced below *)
From Coq Require Import List NArith Bool.
Import ListNotations.
Require Import RV.Lib.PyStr RV.Model.Path RV.Model.Url.
Open Scope N_scope.
Theorem C18_stub : unquote [] = [].
Proof. exact eq_refl. Qed.
Print Assumptions C18_stub.
