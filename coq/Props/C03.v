(* C03 -- No request reads or changes anything the rights policy does not grant.
   Statements only.  Model: Model/Handlers.v for an ARBITRARY policy function `pol : path -> permissions`
   (the rights back-end for the requesting user), arbitrary configuration, user, store and request.
   Access.check is tied to app/base.py by translation (Gen/AccessGen.v, lemma Gen_access_check_eq). *)
From Coq Require Import List NArith Bool.
Import ListNotations.
Require Import RV.Lib.PyStr RV.Lib.Item RV.Model.Store RV.Model.Access RV.Model.Handlers
               RV.Proofs.HandlersInv RV.Proofs.HandlersRights RV.Proofs.HandlersNI RV.Proofs.HandlersQuery RV.Proofs.GenEqAccess.
Require RV.Gen.AccessGen.
Open Scope N_scope.

(* the model's Access.check IS the regenerated one *)
Theorem C03_access_check_is_the_code : forall perms pperms path ppath permission item,
  AccessGen.access_check perms pperms path ppath permission item
  = access_check perms pperms (eqs path ppath) permission item.
Proof. exact Gen_access_check_eq. Qed.
Print Assumptions C03_access_check_is_the_code.

(* C03_read + C03_confine, for whole histories: if two stores agree outside a set of subtrees in which the
   policy gives the user no permission at all (and whose parent grants neither r nor w), every response of
   every request history is the same on both. *)
Theorem C03_noninterference : forall cfg pol u ds a b rs,
  Forall (dark_root pol) ds ->
  filter (fun qc => negb (covered ds (fst qc))) a = filter (fun qc => negb (covered ds (fst qc))) b ->
  snd (run_history cfg pol u a rs) = snd (run_history cfg pol u b rs).
Proof. exact c03_noninterference. Qed.
Print Assumptions C03_noninterference.

(* C03_write: a change of stored data needs the matching write permission *)
Theorem C03_put : forall cfg pol s p ct b im inm s' r,
  do_put cfg pol s p ct b im inm = (s', r) ->
  s' = s
  \/ (exists o, r = (S201, PEtag (EtItem o)) /\ has lw (pol (parent p)) = true /\ is_root p = false)
  \/ (exists c, r = (S201, PEtag (EtColl c)) /\ has (wperm (c_tag c)) (pol p) = true
        /\ (if permit_overwrite cfg then has lo (pol p) = false else has lO (pol p) = true)).
Proof. exact put_needs_permission. Qed.
Print Assumptions C03_put.

Theorem C03_delete : forall cfg pol s p im,
  fst (do_delete cfg pol s p im) = s
  \/ (exists pc o, resolve s p = NItem pc o /\ has lw (pol (parent p)) = true)
  \/ (exists c, resolve s p = NColl c /\ has (wperm (c_tag c)) (pol p) = true
        /\ (if permit_delete cfg then has ld (pol p) = false else has lD (pol p) = true)).
Proof. exact delete_needs_permission. Qed.
Print Assumptions C03_delete.

Theorem C03_move : forall pol s p dr dout to ow s' r,
  do_move pol s p dr dout to ow = (s', r) ->
  s' = s \/ (has lw (pol (parent p)) = true /\ has lw (pol (parent to)) = true).
Proof. exact move_needs_permission. Qed.
Print Assumptions C03_move.

Theorem C03_mkcol : forall pol s p x s' r,
  do_mkcol pol s p x = (s', r) -> s' = s \/ exists c, lookup s' p = Some c /\ has (wperm (c_tag c)) (pol p) = true.
Proof. exact mkcol_needs_permission. Qed.
Print Assumptions C03_mkcol.

Theorem C03_mkcalendar : forall pol s p x s' r, do_mkcalendar pol s p x = (s', r) -> s' = s \/ has lw (pol p) = true.
Proof. exact mkcalendar_needs_permission. Qed.
Print Assumptions C03_mkcalendar.

Theorem C03_proppatch : forall pol s p x s' r,
  do_proppatch pol s p x = (s', r) -> s' = s \/ exists c, resolve s p = NColl c /\ has (wperm (c_tag c)) (pol p) = true.
Proof. exact proppatch_needs_permission. Qed.
Print Assumptions C03_proppatch.

Theorem C03_home : forall pol s u, ensure_home pol s u = s \/ exists n, u = Some n /\ has lW (pol [n]) = true.
Proof. exact home_needs_permission. Qed.
Print Assumptions C03_home.

(* C03_denied *)
Theorem C03_denied : forall cfg pol u s r,
  fst (snd (handle cfg pol u s r)) = S403NA -> fst (handle cfg pol u s r) = ensure_home pol s u.
Proof. exact denied_changes_nothing. Qed.
Print Assumptions C03_denied.

(* C03_payload: object content needs r (or i for a direct GET of the whole collection);
   names, ETags and properties need r/w -- R/W for plain collections *)
Theorem C03_get_item : forall pol s p o, do_get pol s p = (S200, PItem o) -> has lr (pol (parent p)) = true /\ is_root p = false.
Proof. exact get_item_needs_r. Qed.
Print Assumptions C03_get_item.

Theorem C03_get_export : forall pol s p t l, do_get pol s p = (S200, PExport t l) -> has lr (pol p) = true \/ has li (pol p) = true.
Proof. exact get_export_needs_r_or_i. Qed.
Print Assumptions C03_get_export.

Theorem C03_propfind : forall pol s p d l,
  do_propfind pol s p d = (S207, PListing l) -> forall e, In e l -> entry_visible pol e.
Proof. exact propfind_entries_visible. Qed.
Print Assumptions C03_propfind.

Theorem C03_multiget : forall pol s p cal hs l,
  do_multiget pol s p cal hs = (S207, PListing l) -> forall q o w, In (EItemE q o w) l -> has lr (pol (parent q)) = true.
Proof. exact multiget_entries_need_r. Qed.
Print Assumptions C03_multiget.

(* ---- the other REPORTs (calendar-query, addressbook-query, sync-collection, free-busy-query): `RQuery p k flt`,
   flt = the request's filter as an arbitrary predicate on stored objects.  C03_noninterference above already covers
   them (it quantifies over every request, hence over every filter); the single-request form: *)
Theorem C03_query_noninterference : forall cfg pol u ds a b p k flt,
  Forall (dark_root pol) ds ->
  filter (fun qc => negb (covered ds (fst qc))) a = filter (fun qc => negb (covered ds (fst qc))) b ->
  snd (handle cfg pol u a (RQuery p k flt)) = snd (handle cfg pol u b (RQuery p k flt)).
Proof.
  intros cfg pol u ds a b p k flt Hds H.
  pose proof (c03_noninterference cfg pol u ds a b [RQuery p k flt] Hds H) as Hn. cbn [run_history] in Hn.
  destruct (handle cfg pol u a (RQuery p k flt)), (handle cfg pol u b (RQuery p k flt)). cbn [snd] in *. congruence.
Qed.
Print Assumptions C03_query_noninterference.

(* they are observers *)
Theorem C03_query_pure : forall cfg pol u s p k flt,
  fst (handle cfg pol u s (RQuery p k flt)) = ensure_home pol s u.
Proof. exact query_pure. Qed.
Print Assumptions C03_query_pure.

(* inversion: an item is answered only if it is a stored member of a collection on which the policy grants r
   (the letter report.py tests through access.check("r", target)), and only if it passes the filter *)
Theorem C03_query : forall pol s p k flt l,
  do_query pol s p k flt = (S207, PListing l) ->
  forall q o w, In (EItemE q o w) l ->
    has lr (pol (parent q)) = true
    /\ (exists c, lookup s (parent q) = Some c /\ In (last_name q, o) (c_items c) /\ q = parent q ++ [last_name q])
    /\ (forall sel, flt = Some sel -> sel o = true).
Proof. exact query_entries_need_r. Qed.
Print Assumptions C03_query.

Theorem C03_freebusy : forall pol s p flt l,
  do_query pol s p QFreeBusy flt = (S200, PBusy l) ->
  exists cp c sel, (cp = p \/ cp = parent p /\ is_root p = false) /\ lookup s cp = Some c /\ c_tag c = TCal
    /\ has lr (pol cp) = true /\ flt = Some sel
    /\ forall o, In o l -> In o (map snd (c_items c)) /\ is_event o = true /\ sel o = true.
Proof. exact freebusy_needs_r. Qed.
Print Assumptions C03_freebusy.

Theorem C03_query_denied_first : forall pol s p k flt,
  check pol p lr NoItem = false -> do_query pol s p k flt = (S403NA, PNone).
Proof. exact query_denied_first. Qed.
Print Assumptions C03_query_denied_first.
