(* C09 -- Concurrent requests behave as if executed one at a time.
   Only statements; each closed by `exact` of a lemma from Proofs/, followed by Print Assumptions.

   Reading guide.
   Model/Conc.v: a request is a program  pre ; Acquire m ; body ; Release ; post  (possibly several such
   sections in sequence) over a shared state; [Step u k] is one storage step inside a section, [Tau] a step that
   touches no storage.  A schedule is a list of thread numbers; [exec sch c = Some c'] means the schedule is
   ADMITTED: every Acquire happened when the abstract readers-writer lock allowed it ("any number of readers
   or exactly one writer" -- the specification that C11 proves of the real lock classes).
   [wf obs None p] are the hypotheses on a request p:
     - every storage step lies inside a critical section, no nested acquisition       (C10),
     - steps under the shared lock leave the data [obs s] unchanged                     (C10, writers table),
     - what a step does to the data, and how the thread continues, depend on the data only -- not on the
       disposable cache that readers also write                                       (C13).
   [acq_order sch c] = the threads in the order in which they acquired the lock.
   [precedes sch a b] = every step of a comes before every step of b (a finished before b started).
   Model/ConcHandlers.v instantiates this with the handlers of Model/Handlers.v ([hbody] = the handler inside its
   own section, [handle_pre] = gate + handler executed alone = the sequential specification; with no
   predefined collections it is C01's [handle]) and with the request gate in both forms: [breq_prog false]
   = the unchanged code (home check under r, creation under w WITHOUT looking again), [breq_prog true] = the
   repaired code (re-check under w, notes/fixes/C09-home-recheck.patch). *)
From Coq Require Import List NArith Bool Permutation.
Import ListNotations.
Require Import RV.Model.Conc RV.Proofs.ConcProofs.
Require Import RV.Model.Store RV.Model.Handlers RV.Model.HandlersCanon RV.Proofs.HandlersInv
               RV.Model.ConcHandlers RV.Proofs.ConcHandlersProofs.
Require RV.Model.LockDiscipline RV.Model.SectionShape RV.Proofs.C09Skeleton RV.Gen.Skeleton.

(* ---------------------------------------------------------------- the general theorems (any state, any steps) *)

(* Critical sections are atomic: every admitted schedule that runs well-formed requests to completion is
   matched by the machine [areach] that executes one WHOLE section at a time, in lock-acquisition order --
   same data at the end, same responses.  No bound on threads, steps or sections. *)
Theorem C09_sections_atomic :
  forall (St Resp D : Type) (obs : St -> D) (progs : list (prog St Resp)) (s0 : St) (sch : list nat)
         (c' : Conc.config St Resp) (rs : list Resp),
    Forall (wf obs None) progs ->
    exec sch (init s0 progs) = Some c' -> finished c' rs ->
    exists a', areach (s0, progs) (acq_order sch (init s0 progs)) a' /\
               obs (fst a') = obs (fst c') /\
               Forall2 (fun pa r => norm pa = Ret r) (snd a') rs.
Proof. exact sections_atomic. Qed.
Print Assumptions C09_sections_atomic.

(* The property for requests with ONE critical section: for every admitted schedule the requests executed
   one at a time ([serial], each request alone via [run_prog]) in the order of lock acquisition give the same
   responses and the same data; that order is a permutation of the requests, is embedded in the schedule,
   and respects real-time precedence. *)
Theorem C09_serializable :
  forall (St Resp D : Type) (obs : St -> D) (progs : list (prog St Resp)) (s0 : St) (sch : list nat)
         (c' : Conc.config St Resp) (rs : list Resp),
    Forall (wf obs None) progs -> Forall (one_section (St:=St) (Resp:=Resp)) progs ->
    exec sch (init s0 progs) = Some c' -> finished c' rs ->
    let order := acq_order sch (init s0 progs) in
    Permutation order (seq 0 (length progs)) /\
    subseq order sch /\
    (forall a b, In a order -> In b order -> a <> b -> precedes sch a b -> before a b order) /\
    obs (fst (serial progs order s0)) = obs (fst c') /\
    map fst (snd (serial progs order s0)) = order /\
    (forall i r, In (i, r) (snd (serial progs order s0)) -> nth_error rs i = Some r).
Proof. exact serializable. Qed.
Print Assumptions C09_serializable.

(* ---------------------------------------------------------------- the handlers *)

(* the sequential specification used below is C01's [handle] when no predefined collections are configured *)
Theorem C09_spec_is_handle : forall cfg pol user s r, handle_pre [] cfg pol user s r = handle cfg pol user s r.
Proof. exact handle_pre_nil. Qed.
Print Assumptions C09_spec_is_handle.

(* every handler section satisfies the hypotheses (obs = the whole ideal store), readers do not change the store *)
Theorem C09_handlers_wellformed : forall cfg pol r,
  wf oid None (hsec cfg pol r) /\ one_section (hsec cfg pol r) /\
  (forall s, run_prog (hsec cfg pol r) s = hbody cfg pol s r) /\
  (hmode r = Rd -> forall s, fst (hbody cfg pol s r) = s).
Proof. intros cfg pol r. exact (conj (hsec_wf cfg pol r) (conj (hsec_one cfg pol r)
         (conj (run_prog_hsec cfg pol r) (fun H s => hbody_reader cfg pol s r H)))). Qed.
Print Assumptions C09_handlers_wellformed.

(* C09_serializable instantiated: requests that do not pass the gate (no user) against [handle] *)
Theorem C09_handlers_serializable : forall cfg (reqs : list (policy * request)) s0 sch c' rs,
  let progs := map (fun pr => hsec cfg (fst pr) (snd pr)) reqs in
  exec sch (init s0 progs) = Some c' -> finished c' rs ->
  let order := acq_order sch (init s0 progs) in
  Permutation order (seq 0 (length reqs)) /\
  subseq order sch /\
  (forall a b, In a order -> In b order -> a <> b -> precedes sch a b -> before a b order) /\
  fst (serial progs order s0) = fst c' /\
  map fst (snd (serial progs order s0)) = order /\
  (forall i r, In (i, r) (snd (serial progs order s0)) -> nth_error rs i = Some r) /\
  (forall i pr s, nth_error reqs i = Some pr ->
     run_prog (nth i progs (Ret (S500, PNone))) s = handle cfg (fst pr) None s (snd pr)).
Proof. exact handlers_serializable. Qed.
Print Assumptions C09_handlers_serializable.

(* ---------------------------------------------------------------- the gate of the UNCHANGED code: refuted (DESIGN F8) *)
(* predefined_collections configured, two first requests of one user: B = PROPFIND passes the home check,
   A = PUT creates the home, stores an event and is answered 201, B re-creates the predefined calendar.
   The acknowledged event is gone although the only other request is a read; no serial order explains it. *)
Theorem C09_home_creation_refuted :
  let progs := map (breq_prog false rf_pre rf_cfg) rf_reqs in
  exists c' rs,
    exec rf_sched (init empty_store progs) = Some c' /\ finished c' rs /\
    nth_error rs 0 = Some (S201, PEtag (EtItem rf_event)) /\
    resolve (fst c') [10; 20; 100]%N = NNothing /\
    ~ exists order, Permutation order (seq 0 2) /\
        fst (serial_handle rf_pre rf_cfg rf_reqs order empty_store) = fst c' /\
        (forall i r, In (i, r) (snd (serial_handle rf_pre rf_cfg rf_reqs order empty_store)) -> nth_error rs i = Some r).
Proof. exact home_creation_refuted. Qed.
Print Assumptions C09_home_creation_refuted.

(* Why the defect needs predefined_collections: without them the w section of the unchanged gate is
   create_collection(home) = makedirs, a no-op on an existing home, and the unchanged gate is serialisable as well. *)
Theorem C09_unchanged_gate_without_predefined :
  forall cfg u pol (rq : list request) s0 sch c' rs,
  let reqs := map (fun r => (Some u, pol, r)) rq in
  store_inv s0 -> may_create pol u = true ->
  (forall r, In r rq -> spares_home u r) ->
  exec sch (init s0 (map (breq_prog false [] cfg) reqs)) = Some c' -> finished c' rs ->
  exists order,
    Permutation order (seq 0 (length rq)) /\
    subseq order sch /\
    (forall a b, In a order -> In b order -> a <> b -> precedes sch a b -> before a b order) /\
    fst (serial_handle [] cfg reqs order s0) = fst c' /\
    map fst (snd (serial_handle [] cfg reqs order s0)) = order /\
    (forall i r, In (i, r) (snd (serial_handle [] cfg reqs order s0)) -> nth_error rs i = Some r).
Proof. exact unchanged_gate_without_predefined. Qed.
Print Assumptions C09_unchanged_gate_without_predefined.

(* ---------------------------------------------------------------- the REPAIRED gate *)
(* Any number of concurrent requests of ONE user -- including the very first ones, predefined collections
   configured, any initial store -- provided none of them deletes the root or the home itself: equivalent
   to [handle_pre] one request at a time in an order that respects real time. *)
Theorem C09_fixed_gate_single_principal :
  forall pre cfg u pol (rq : list request) s0 sch c' rs,
  let reqs := map (fun r => (Some u, pol, r)) rq in
  store_inv s0 ->
  (forall r, In r rq -> spares_home u r) ->
  exec sch (init s0 (map (breq_prog true pre cfg) reqs)) = Some c' -> finished c' rs ->
  exists order,
    Permutation order (seq 0 (length rq)) /\
    subseq order sch /\
    (forall a b, In a order -> In b order -> a <> b -> precedes sch a b -> before a b order) /\
    fst (serial_handle pre cfg reqs order s0) = fst c' /\
    map fst (snd (serial_handle pre cfg reqs order s0)) = order /\
    (forall i r, In (i, r) (snd (serial_handle pre cfg reqs order s0)) -> nth_error rs i = Some r).
Proof. exact fixed_gate_single_principal. Qed.
Print Assumptions C09_fixed_gate_single_principal.

(* Requests of any number of users (and anonymous ones) in the steady state: every requesting user's home
   exists (or the user may not create one) and no request deletes the root or a requesting user's home. *)
Theorem C09_fixed_gate_stable_homes :
  forall pre cfg (reqs : list breq) s0 sch c' rs,
  homes_ok reqs s0 ->
  (forall b b' u, In b reqs -> In b' reqs -> fst (fst b) = Some u -> spares_home u (snd b')) ->
  exec sch (init s0 (map (breq_prog true pre cfg) reqs)) = Some c' -> finished c' rs ->
  exists order,
    Permutation order (seq 0 (length reqs)) /\
    subseq order sch /\
    (forall a b, In a order -> In b order -> a <> b -> precedes sch a b -> before a b order) /\
    fst (serial_handle pre cfg reqs order s0) = fst c' /\
    map fst (snd (serial_handle pre cfg reqs order s0)) = order /\
    (forall i r, In (i, r) (snd (serial_handle pre cfg reqs order s0)) -> nth_error rs i = Some r).
Proof. exact fixed_gate_stable_homes. Qed.
Print Assumptions C09_fixed_gate_stable_homes.

(* The abstract form of both (Proofs/ConcProofs.v, gate_serializable): check under r, provisioning under w with a
   re-check, then a one-section handler; hypotheses on an invariant set of states. *)
Theorem C09_gate_serializable :
  forall (St Resp D : Type) (obs : St -> D) (qs : list (greq St Resp)) (progs : list (prog St Resp)) (s0 : St)
         (Inv : St -> Prop),
    Forall2 (fun p q => norm p = gprog q \/ (norm p = norm (g_H q) /\ forall s, g_absent q s = false)) progs qs ->
    (forall q, In q qs -> wf obs None (g_H q)) ->
    (forall q, In q qs -> one_section (g_H q)) ->
    (forall q s s', In q qs -> obs s = obs s' -> g_absent q s = g_absent q s') ->
    (forall q s s', In q qs -> obs s = obs s' -> obs (g_P q s) = obs (g_P q s')) ->
    (forall q s, In q qs -> obs (g_g1 q s) = obs s) ->
    (forall s s', obs s = obs s' -> Inv s -> Inv s') ->
    (forall q s, In q qs -> Inv s -> Inv (g_P q s)) ->
    (forall q s, In q qs -> Inv s -> Inv (fst (run_prog (g_H q) s))) ->
    Inv s0 ->
    (forall q q' s, In q qs -> In q' qs -> Inv s -> g_absent q s = g_absent q' s) ->
    (forall q q' s, In q qs -> In q' qs -> Inv s -> g_absent q s = true -> obs (g_P q s) = obs (g_P q' s)) ->
    (forall q s, In q qs -> Inv s -> g_absent q s = false -> obs (g_P q s) = obs s) ->         (* the re-check *)
    (forall q s, In q qs -> Inv s -> g_absent q (g_P q s) = false) ->
    (forall q q' s, In q qs -> In q' qs -> Inv s -> g_absent q s = false ->
                    g_absent q (fst (run_prog (g_H q') s)) = false) ->
    forall (sch : list nat) (c' : Conc.config St Resp) (rs : list Resp),
    exec sch (init s0 progs) = Some c' -> finished c' rs ->
    exists order,
      Permutation order (seq 0 (length progs)) /\
      subseq order sch /\
      (forall a b, In a order -> In b order -> a <> b -> precedes sch a b -> before a b order) /\
      obs (fst (spec_serial qs order s0)) = obs (fst c') /\
      map fst (snd (spec_serial qs order s0)) = order /\
      (forall i r, In (i, r) (snd (spec_serial qs order s0)) -> nth_error rs i = Some r).
Proof. exact gate_serializable. Qed.
Print Assumptions C09_gate_serializable.

(* ---------------------------------------------------------------- what remains false also after the repair *)
(* The full request-level statement, visibly: EVERY batch through the repaired gate is serialisable.  It is
   refuted: gate and handler are separate critical sections, so a request whose home is deleted (by another
   client of the same user) between its home check and its handler answers 409 where both serial orders
   answer 201.  No data is lost, no partial state is visible (C09_sections_atomic holds for it).  Recorded as
   a known finding; the two theorems above are the statement outside this class. *)
Theorem C09_request_level_refuted : ~ request_level_full.
Proof. exact request_level_refuted. Qed.
Print Assumptions C09_request_level_refuted.

Theorem C09_gate_handler_split_witness :
  let progs := map (breq_prog true [] rf_cfg) sp_reqs in
  exists c' rs,
    store_inv sp_store /\
    exec sp_sched (init sp_store progs) = Some c' /\ finished c' rs /\
    nth_error rs 1 = Some (S409, PNone) /\
    ~ exists order, Permutation order (seq 0 2) /\
        (forall i r, In (i, r) (snd (serial_handle [] rf_cfg sp_reqs order sp_store)) -> nth_error rs i = Some r).
Proof. exact gate_handler_split_refuted. Qed.
Print Assumptions C09_gate_handler_split_witness.

(* ---------------------------------------------------------------- tie to the current source (regenerated skeleton) *)
(* The verified checker: acceptance implies, for EVERY trace of a skeleton term, that the lock acquisitions of
   the request form a prefix of  R W hm | R hm | hm  and that inside an exclusive section nothing is written
   before the state has been re-read under that lock. *)
Theorem C09_section_checker_sound : forall hm s, SectionShape.check09 hm s = true ->
  forall t, LockDiscipline.trace_of s t -> SectionShape.sections_ok hm t.
Proof. exact C09Skeleton.check09_sound. Qed.
Print Assumptions C09_section_checker_sound.

(* all twelve requests (gate + handler) of the source as it is today, with the handler modes the model uses *)
Theorem C09_request_sections :
  forall name s, In (name, s) Skeleton.requests ->
  forall t, LockDiscipline.trace_of s t -> SectionShape.sections_ok (SectionShape.mode_of_method name) t.
Proof. exact C09Skeleton.requests_sections_ok. Qed.
Print Assumptions C09_request_sections.

(* The hypothesis of C09_serializable, as a checked fact about the source: every do_* handler on its own has ONE
   critical section, in the mode the model uses, containing ALL its storage events, and under the exclusive lock
   it re-reads before it writes.  (A handler that tests under one lock and acts under another is rejected.) *)
Theorem C09_handler_checker_sound : forall hm s, SectionShape.check09h hm s = true ->
  forall t, LockDiscipline.trace_of s t -> SectionShape.one_section_ok hm t.
Proof. exact C09Skeleton.check09h_sound. Qed.
Print Assumptions C09_handler_checker_sound.

Theorem C09_handlers_one_section :
  forall name s, In (name, s) Skeleton.handlers ->
  forall t, LockDiscipline.trace_of s t -> SectionShape.one_section_ok (SectionShape.mode_of_method name) t.
Proof. exact C09Skeleton.handlers_one_section. Qed.
Print Assumptions C09_handlers_one_section.

(* ---------------------------------------------------------------- static facts the argument rests on (regenerated, tie T) *)
From Coq Require Import String.
Require RV.Model.StaticFacts RV.Proofs.C09Static RV.Gen.C09Static.

(* Several server processes sharing one storage folder exclude each other only if they lock THE SAME file: the lock
   file of the current source is <filesystem_folder>/.Radicale.lock whatever the cache folder is, and no code of the
   storage layer removes, renames or replaces it (a removed lock file = later requests lock a new inode). *)
Theorem C09_lock_file_identity : forall c1 c2,
  StaticFacts.storage_folder c1 = StaticFacts.storage_folder c2 ->
  StaticFacts.lock_file c1 C09Static.lock_path = StaticFacts.lock_file c2 C09Static.lock_path /\
  StaticFacts.lock_file c1 C09Static.lock_path = Some (StaticFacts.storage_folder c1, ".Radicale.lock"%string).
Proof. exact C09Static.lock_file_identity. Qed.
Print Assumptions C09_lock_file_identity.

Theorem C09_lock_file_never_unlinked : C09Static.lock_unlink_sites = [].
Proof. exact C09Static.Gen_lock_never_unlinked. Qed.
Print Assumptions C09_lock_file_never_unlinked.

(* Readers are not side-effect free: under the SHARED lock they write cache and sync-token files through
   _atomic_write.  With fresh temporary names (the current source: TemporaryDirectory) two concurrent writers of
   one target never disturb each other, under every interleaving of their open / write / rename steps; with one
   fixed temporary name a rename fails (500) or a truncated file is published. *)
Theorem C09_atomic_write_fresh :
  C09Static.atomic_write_tmp = StaticFacts.TmpFreshDir /\
  forall sch, In sch StaticFacts.aw_merges ->
    StaticFacts.aw_good "token"%string ".tmp-a/token"%string ".tmp-b/token"%string sch = true.
Proof. exact (conj C09Static.Gen_atomic_write_fresh C09Static.atomic_write_fresh_ok). Qed.
Print Assumptions C09_atomic_write_fresh.

Theorem C09_atomic_write_fixed_name_refuted :
  (exists sch, In sch StaticFacts.aw_merges /\
     StaticFacts.aw_run "token"%string sch StaticFacts.aw_empty (StaticFacts.new_writer ".tmp-token"%string 1%N)
                        (StaticFacts.new_writer ".tmp-token"%string 2%N) = None) /\
  (exists sch fs a b, In sch StaticFacts.aw_merges /\
     StaticFacts.aw_run "token"%string (firstn 4 sch) StaticFacts.aw_empty (StaticFacts.new_writer ".tmp-token"%string 1%N)
                        (StaticFacts.new_writer ".tmp-token"%string 2%N) = Some (fs, a, b) /\
     StaticFacts.target_content "token"%string (Some (fs, a, b)) = Some 0%N).
Proof. exact C09Static.atomic_write_fixed_refuted. Qed.
Print Assumptions C09_atomic_write_fixed_name_refuted.

(* The objects shared by all serving threads (radicale/app) carry no per-request state: nothing is assigned to self
   outside __init__, no mutable object made in __init__ is written later (the two listed entries are reviewed:
   a per-request Access object, a dict that is only read); the storage back-end opens files for writing only in
   the three reviewed functions. *)
Theorem C09_no_shared_request_state :
  C09Static.shared_mutations = ["assign:Access.parent_permissions:_parent_permissions"%string;
                                "escape:Application._handle_request:_extra_headers"%string] /\
  C09Static.write_sites = ["__init__._analyse_mtime"%string; "base._atomic_write"%string; "upload._upload_all_nonatomic"%string].
Proof. exact (conj C09Static.Gen_no_shared_mutation C09Static.Gen_write_sites). Qed.
Print Assumptions C09_no_shared_request_state.

(* A request that cannot obtain the storage lock (flock fails: ENOLCK, ENOTSUP, ...) must FAIL, never run unlocked:
   no except clause around the acquisition swallows the failure (regenerated scan; the runtime counterpart injects
   the errno at flock() of a second instance while the first holds the lock). *)
Theorem C09_lock_failure_propagates : C09Static.lock_swallow_sites = [].
Proof. exact C09Static.Gen_lock_failure_propagates. Qed.
Print Assumptions C09_lock_failure_propagates.
