(* C07 -- Sync-token deltas always bring a client to the server's current state.
   Only statements; each closed by `exact` of a lemma from Proofs/, followed by Print Assumptions.

   Model: Model/Sync.v (sync.py, history.py, cache.py _clean_cache, and the history calls of upload / delete /
   move / create_collection / collection delete, external deletion of the cache folder, logical clock), tied to
   the code on every run by the differential correspondence of checks/C07.py (black-box results and the
   white-box content of the history and sync-token folders).  Hashes are free constructors.
   Histories include REPORTs whose token-file write fails ([SyncFail]: _atomic_write leaves no file).
   [run cfg init_state ops] ranges over EVERY history of operations, [cfg] over every configuration
   (cache sub-folder options, max_sync_token_age); nothing is bounded.

   [sync_cleans_history cfg = false] is the code with notes/fixes/C07-sync-clean-history.patch applied:
   sync() no longer calls _clean_history() after it computed the token.  The code before the fix
   ([= true]) violates the up-to-date clause: C07_uptodate_refuted_before_fix. *)
From Coq Require Import List NArith ZArith Bool.
Import ListNotations.
Require Import RV.Model.Sync RV.Proofs.SyncInv RV.Proofs.SyncThms RV.Proofs.SyncExamples.
Open Scope Z_scope.

(* For every history ops1, every token t the server hands out at that point (REPORT or PROPFIND), every
   continuation ops2: a sync-collection REPORT with t is refused, or its change list d -- applied to what the
   client held when t was issued, with the current ETag of each listed href or 404 -- yields exactly the
   collection's current hrefs and ETags.  The REPORT itself changes no item.  (Both variants of the code.) *)
Theorem C07_converge : forall cfg ops1 c t st_i' ops2 st_j' r,
  let st_i := run cfg init_state ops1 in
  issues cfg st_i c t st_i' ->
  let st_j := run cfg st_i' ops2 in
  step cfg st_j (Sync c (ATok t)) = (st_j', RSync r) ->
  match r with
  | Refused => True
  | Delta t' d =>
      same_view (apply_delta (view_of st_i c) (multistatus st_j c d)) (view_of st_j c)
      /\ view_of st_j' c = view_of st_j c
  end.
Proof. exact converge_full. Qed.
Print Assumptions C07_converge.

(* The token alone determines what the client holds: it is the hash of a snapshot whose history etags end in
   the ETag of each present item. *)
Theorem C07_token_determines_view : forall cfg ops c t st',
  issues cfg (run cfg init_state ops) c t st' ->
  exists s, t = Tok s /\ forall h, view_of_snap s h = aget h (view_of (run cfg init_state ops) c).
Proof. exact token_determines_view. Qed.
Print Assumptions C07_token_determines_view.

(* With an up-to-date token the list is empty and the token is returned unchanged -- immediately, and also after
   any amount of time, any number of other clients' REPORTs / PROPFINDs (accepted or refused) and any change
   to other collections. *)
Theorem C07_uptodate : forall cfg ops1 c t st1 ops2,
  sync_cleans_history cfg = false ->
  issues cfg (run cfg init_state ops1) c t st1 ->
  Forall (quiet c) ops2 ->
  exists st3, step cfg (run cfg st1 ops2) (Sync c (ATok t)) = (st3, RSync (Delta t [])).
Proof. exact uptodate. Qed.
Print Assumptions C07_uptodate.

(* The code before the fix violates it (witness: PUT, DELETE, 100 s = max age, initial sync, sync again). *)
Theorem C07_uptodate_refuted_before_fix : exists cfg ops c t st1 st2 st3,
  sync_cleans_history cfg = true /\
  issues cfg (run cfg init_state ops) c t st1 /\
  step cfg st1 (Sync c (ATok t)) = (st2, RSync (Delta (Tok []) [0%N])) /\ Tok [] <> t /\
  step cfg st1 (PTok c) = (st3, RTok (Tok [])).
Proof. exact uptodate_refuted_before_fix. Qed.
Print Assumptions C07_uptodate_refuted_before_fix.

(* PROPFIND's D:sync-token equals the REPORT's token: on the same state (both variants of the code) ... *)
Theorem C07_propfind_eq : forall cfg st c a st1 st2 t1 t2 d,
  step cfg st (PTok c) = (st1, RTok t1) -> step cfg st (Sync c a) = (st2, RSync (Delta t2 d)) -> t1 = t2.
Proof. exact propfind_eq_same_state. Qed.
Print Assumptions C07_propfind_eq.

(* ... and when one request follows the other (in either order, with quiet operations in between). *)
Theorem C07_propfind_eq_sequential : forall cfg ops1 c t st1 ops2,
  sync_cleans_history cfg = false ->
  issues cfg (run cfg init_state ops1) c t st1 ->
  Forall (quiet c) ops2 ->
  (exists st3, step cfg (run cfg st1 ops2) (PTok c) = (st3, RTok t)) /\
  (forall a st3 t' d, step cfg (run cfg st1 ops2) (Sync c a) = (st3, RSync (Delta t' d)) -> t' = t).
Proof. exact propfind_eq_sequential. Qed.
Print Assumptions C07_propfind_eq_sequential.

(* A token is not refused before max_sync_token_age has passed since the server handed it out (wrote or touched
   its file: every hand-out except the answer "nothing changed" to the token itself), unless the collection or
   its cache folder was replaced or deleted in between.  The collection still exists and the REPORT succeeds. *)
Theorem C07_not_refused_early : forall cfg ops1 c a t d st1 ops2,
  let st0 := run cfg init_state ops1 in
  step cfg st0 (Sync c a) = (st1, RSync (Delta t d)) -> a <> ATok t ->
  Forall (no_reset c) ops2 ->
  let st2 := run cfg st1 ops2 in
  st_now st2 < st_now st0 + max_age cfg ->
  exists st3 t' d', step cfg st2 (Sync c (ATok t)) = (st3, RSync (Delta t' d')).
Proof. exact not_refused_early. Qed.
Print Assumptions C07_not_refused_early.

(* The same, stated on the token file (covers tokens handed out by PROPFIND or re-confirmed by "nothing
   changed"): while the file is younger than the maximum age the token is accepted. *)
Theorem C07_not_refused_while_file_young : forall cfg ops1 c t s m ops2,
  let st1 := run cfg init_state ops1 in
  c_exists (getc st1 c) = true -> tget t (c_toks (getc st1 c)) = Some (s, m) ->
  Forall (no_reset c) ops2 ->
  let st2 := run cfg st1 ops2 in
  st_now st2 < m + max_age cfg ->
  exists st3 t' d', step cfg st2 (Sync c (ATok t)) = (st3, RSync (Delta t' d')).
Proof. exact not_refused_while_file_young. Qed.
Print Assumptions C07_not_refused_while_file_young.

(* A REPORT whose write of the new token file fails (ENOSPC ...) leaves the items, the token files and the other
   collections untouched -- this is what writing through _atomic_write guarantees; [SyncFail] is an ordinary
   operation of the histories all theorems above quantify over. *)
Theorem C07_failed_write_harmless : forall cfg ops c a st',
  let st := run cfg init_state ops in
  step cfg st (SyncFail c a) = (st', RFail) ->
  view_of st' c = view_of st c /\ c_toks (getc st' c) = c_toks (getc st c) /\
  forall c', c' <> c -> getc st' c' = getc st c'.
Proof. exact failed_write_harmless. Qed.
Print Assumptions C07_failed_write_harmless.
