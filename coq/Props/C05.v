(* C05 -- Only credentials the auth back-end accepts authenticate, as exactly that user.
   Only statements; each closed by `exact` of a lemma from Proofs/, followed by Print Assumptions.
   Gen/LoginMapC05Gen.v and Gen/GateSkelGen.v are REGENERATED from the repository on every run (tie T;
   lemmas Gen_map_login_eq in Proofs/C05GenEq.v and Gen_gate_skeleton_eq in Proofs/C05GenEqGate.v, the
   latter compiled separately by checks/C05.py); the models Model/Gate.v and
   Model/Htpasswd.v are tied to the code by the correspondence runs of checks/C05.py (tie K).
   All external parties -- str.lower/str.upper, base64 + charset decoding, the auth back-end, the
   handlers, the storage's and rights back-end's answers about the principal collection, the hash
   functions of passlib/bcrypt -- are universally quantified function arguments, never axioms. *)
From Coq Require Import List NArith ZArith Bool.
Import ListNotations.
Require Import RV.Lib.PyStr RV.Model.Path RV.Model.C05Text RV.Model.LoginMap RV.Model.Gate RV.Model.Htpasswd RV.Model.C05Compose.
Require Import RV.Proofs.C05Gate RV.Proofs.C05GateEx RV.Proofs.C05Htpasswd RV.Proofs.C05HtpasswdEx RV.Proofs.C05GenEq RV.Proofs.C05Compose.
Require RV.Model.LoginCache.
Require Import RV.Proofs.C05LoginCache.
Require RV.Gen.LoginMapC05Gen.
Open Scope N_scope.

(* ---------------------------------------------------------------------------------------------
   Login-name mapping (translated from BaseAuth.login on every run): lower, then upper, then the text
   before the first "@". *)
Theorem C05_login_map : forall py_lower py_upper lc uc sd login,
  LoginMapC05Gen.map_login py_lower py_upper lc uc sd login =
  (let l1 := if lc then py_lower login else login in
   let l2 := if uc then py_upper l1 else l1 in
   if sd then fst (split1 at_sign l2) else l2).
Proof. exact Gen_map_login_eq. Qed.
Print Assumptions C05_login_map.

Section Statements.
  Variables py_lower py_upper : pystr -> pystr.
  Variable basic_decode : pystr -> pystr -> option pystr.
  Variable backend : pystr -> pystr -> option pystr.
  Variable handler : pystr -> pystr -> pystr -> pystr -> hresp.
  Variables home_exists home_exists_w rights_w create_fails : pystr -> bool.
  Notation gate := (gate py_lower py_upper basic_decode backend handler home_exists home_exists_w rights_w create_fails).
  Notation creds := (creds basic_decode).
  Notation backend_login := (backend_login backend).
  Notation mapped := (mapped py_lower py_upper).
  Notation reaches_auth := (reaches_auth py_upper).

  (* A handler runs with a non-empty user u only if credentials (login l, password pw) were presented,
     l is not empty, the configured back-end -- asked with exactly the mapped login and that password --
     returned exactly u, and u is a safe path component. *)
  Theorem C05_gate : forall cfg env m bp p u,
    In (EDispatch m bp p u) (r_effects (gate cfg env)) -> u <> [] ->
    exists ext l pw,
      creds cfg env = CCreds ext l pw /\ l <> [] /\
      backend_login (c_kind cfg) (mapped cfg l) pw = Some u /\
      is_safe_path_component u = true /\
      In (EBackend (mapped cfg l) pw) (r_effects (gate cfg env)) /\
      m = py_upper (e_method env).
  Proof. exact (c05_gate py_lower py_upper basic_decode backend handler home_exists home_exists_w rights_w create_fails). Qed.

  (* A handler that runs without a user: no login name was presented, the back-end was never asked. *)
  Theorem C05_gate_anonymous : forall cfg env m bp p,
    In (EDispatch m bp p []) (r_effects (gate cfg env)) ->
    exists ext pw, creds cfg env = CCreds ext [] pw
                   /\ forall l q, ~ In (EBackend l q) (r_effects (gate cfg env)).
  Proof. exact (c05_gate_anonymous py_lower py_upper basic_decode backend handler home_exists home_exists_w rights_w create_fails). Qed.

  (* At most one handler call per request. *)
  Theorem C05_dispatch_once : forall cfg env,
    (List.length (filter is_dispatch (r_effects (gate cfg env))) <= 1)%nat.
  Proof. exact (c05_dispatch_once py_lower py_upper basic_decode backend handler home_exists home_exists_w rights_w create_fails). Qed.

  (* The only thing the gate itself stores -- the principal collection -- is created only for the user
     the back-end returned, only if it is a safe name, absent -- at the first look-up and again at the re-check under the
     exclusive lock -- and the rights back-end grants W. *)
  Theorem C05_home : forall cfg env u c,
    In (EHome u c) (r_effects (gate cfg env)) ->
    exists ext l pw, creds cfg env = CCreds ext l pw /\ l <> [] /\
      backend_login (c_kind cfg) (mapped cfg l) pw = Some u /\ is_safe_path_component u = true
      /\ home_exists u = false /\ home_exists_w u = false /\ rights_w u = true.
  Proof. exact (c05_home py_lower py_upper basic_decode backend handler home_exists home_exists_w rights_w create_fails). Qed.

  (* Rejected credentials (the back-end returns "") and unsafe user names: no handler runs and nothing is
     stored; the answer is an early exit (400/405/301/404/413 decided without or despite the credentials; 400 also for a
     negative CONTENT_LENGTH of the internal server),
     a failed request (500: CONTENT_LENGTH of the internal server is not a number), or 401 with
     WWW-Authenticate (403 without challenge when the identity came from REMOTE_USER / X-Remote-User,
     where a Basic challenge would be meaningless).  When the request reaches the credentials and the
     content length passes, the effects are exactly the one back-end call and the answer exactly 401/403. *)
  Theorem C05_rejected : forall cfg env ext l pw u,
    creds cfg env = CCreds ext l pw -> l <> [] ->
    backend_login (c_kind cfg) (mapped cfg l) pw = Some u ->
    (u = [] \/ is_safe_path_component u = false) ->
    let r := gate cfg env in
    (forall e, In e (r_effects r) -> is_dispatch e = false /\ is_home e = false) /\
    (is_early (r_final r) = true \/ r_final r = FError \/
     (ext = false /\ r_final r = FUnauthorized) \/ (ext = true /\ r_final r = FForbidden)) /\
    (reaches_auth cfg env = true ->
     clen_ok cfg env ->
     r_effects r = [EBackend (mapped cfg l) pw] /\
     r_final r = (if ext then FForbidden else FUnauthorized)).
  Proof. exact (c05_rejected py_lower py_upper basic_decode backend handler home_exists home_exists_w rights_w create_fails). Qed.

  (* 401 always carries the challenge, and only 401 does. *)
  Theorem C05_401_challenge : forall f,
    (www_authenticate f = true <-> f = FUnauthorized) /\ (f = FUnauthorized -> status_of f = 401).
  Proof. exact c05_401_challenge. Qed.

  (* The back-end itself fails: the request fails, nothing else happens. *)
  Theorem C05_backend_raises : forall cfg env ext l pw,
    reaches_auth cfg env = true -> creds cfg env = CCreds ext l pw -> l <> [] ->
    backend_login (c_kind cfg) (mapped cfg l) pw = None ->
    gate cfg env = {| r_effects := [EBackend (mapped cfg l) pw]; r_final := FError |}.
  Proof. exact (c05_backend_raises py_lower py_upper basic_decode backend handler home_exists home_exists_w rights_w create_fails). Qed.

  (* A malformed Basic header (non-ASCII payload, base64 / charset failure, no colon) only makes the
     request fail: 500, no back-end call, no handler, nothing stored. *)
  Theorem C05_malformed : forall cfg env,
    reaches_auth cfg env = true -> external_login (c_kind cfg) env = None ->
    startswith (e_auth env) basic = true ->
    let payload := py_strip (skipn 5 (e_auth env)) in
    (is_ascii payload = false \/ basic_decode (e_ctype env) payload = None \/
     exists t, basic_decode (e_ctype env) payload = Some t /\ contains_char colon t = false) ->
    creds cfg env = CFail /\ gate cfg env = {| r_effects := []; r_final := FError |}.
  Proof. exact (c05_malformed py_lower py_upper basic_decode backend handler home_exists home_exists_w rights_w create_fails). Qed.

  (* Conversely, header credentials are exactly the decoded text split at its FIRST colon. *)
  Theorem C05_creds_basic : forall cfg env l pw,
    creds cfg env = CCreds false l pw -> l <> [] ->
    external_login (c_kind cfg) env = None /\ startswith (e_auth env) basic = true /\
    exists t, basic_decode (e_ctype env) (py_strip (skipn 5 (e_auth env))) = Some t
              /\ t = l ++ colon :: pw /\ contains_char colon l = false.
  Proof. exact (c05_creds_basic basic_decode). Qed.

  (* REMOTE_USER and X-Remote-User are ignored unless that back-end is the configured one; and each of
     the two back-ends ignores the other header. *)
  Theorem C05_spoof : forall cfg env ru xru,
    c_kind cfg <> ARemoteUser -> c_kind cfg <> AXRemoteUser ->
    gate cfg (set_identity_headers env ru xru) = gate cfg env.
  Proof. exact (c05_spoof py_lower py_upper basic_decode backend handler home_exists home_exists_w rights_w create_fails). Qed.

  Theorem C05_spoof_remote_user : forall cfg env xru,
    c_kind cfg = ARemoteUser ->
    gate cfg (set_identity_headers env (e_remote_user env) xru) = gate cfg env.
  Proof. exact (c05_spoof_remote_user py_lower py_upper basic_decode backend handler home_exists home_exists_w rights_w create_fails). Qed.

  Theorem C05_spoof_x_remote_user : forall cfg env ru,
    c_kind cfg = AXRemoteUser ->
    gate cfg (set_identity_headers env ru (e_x_remote_user env)) = gate cfg env.
  Proof. exact (c05_spoof_x_remote_user py_lower py_upper basic_decode backend handler home_exists home_exists_w rights_w create_fails). Qed.
End Statements.
Print Assumptions C05_gate.
Print Assumptions C05_gate_anonymous.
Print Assumptions C05_dispatch_once.
Print Assumptions C05_home.
Print Assumptions C05_rejected.
Print Assumptions C05_401_challenge.
Print Assumptions C05_backend_raises.
Print Assumptions C05_malformed.
Print Assumptions C05_creds_basic.
Print Assumptions C05_spoof.
Print Assumptions C05_spoof_remote_user.
Print Assumptions C05_spoof_x_remote_user.

(* ---------------------------------------------------------------------------------------------
   htpasswd.  `ext_verify` = passlib / bcrypt, arbitrary. *)
Section HtpasswdStatements.
  Variable ext_verify : scheme -> pystr -> pystr -> vres.

  (* What "the file's entry for a login" means: the first line "login:digest" (both parts non-empty, the
     line neither blank nor a comment) that the re-read does not drop; a re-read drops 60-character
     "$2?$" digests when the bcrypt module is not loaded. *)
  Theorem C05_htpasswd_entry : forall hb lines l h,
    first_entry hb lines l = Some h <->
    exists pre line post, lines = pre ++ line :: post /\ classify_line line = LEntry l h /\
      (hb = true \/ bcrypt_shaped h = false) /\
      (forall line' h', In line' pre -> classify_line line' = LEntry l h' ->
                        hb = false /\ bcrypt_shaped h' = true).
  Proof. exact first_entry_spec. Qed.

  (* htpasswd_cache off: a login succeeds -- as exactly the (mapped) login -- iff the file AS IT IS NOW has
     an entry for it with a non-empty digest that verifies under the configured / detected scheme. *)
  Theorem C05_htpasswd : forall cfg st t sz mt l pw u,
    h_cache cfg = false -> flags_ok cfg st ->
    (snd (hlogin ext_verify cfg st (present t sz mt) l pw) = LUser u <->
     u = l /\ exists h, first_entry (h_has_bcrypt st) (file_lines t) l = Some h /\ h <> [] /\
                        verify_as ext_verify (detect (h_enc cfg) h) h pw = VTrue).
  Proof. exact (c05_htpasswd_nocache ext_verify). Qed.

  (* htpasswd_cache on: the same, provided the cached dict is coherent with the file or the (size, mtime_ns)
     stamp differs; coherence is re-established by every login. *)
  Theorem C05_htpasswd_cache : forall cfg st t sz mt l pw u,
    h_cache cfg = true -> flags_ok cfg st ->
    let f := present t sz mt in
    (stamp_differs st f = true \/ coherent st f) ->
    (snd (hlogin ext_verify cfg st f l pw) = LUser u <->
     u = l /\ exists h, first_entry (h_has_bcrypt st) (file_lines t) l = Some h /\ h <> [] /\
                        verify_as ext_verify (detect (h_enc cfg) h) h pw = VTrue)
    /\ coherent (fst (hlogin ext_verify cfg st f l pw)) f
    /\ flags_ok cfg (fst (hlogin ext_verify cfg st f l pw))
    /\ h_has_bcrypt (fst (hlogin ext_verify cfg st f l pw)) = h_has_bcrypt st.
  Proof. exact (c05_htpasswd_cache ext_verify). Qed.

  (* ... and with an unchanged stamp the cached dict answers (the documented limit of the cache). *)
  Theorem C05_htpasswd_cache_hit : forall cfg st t sz mt l pw,
    h_cache cfg = true -> stamp_differs st (present t sz mt) = false ->
    hlogin ext_verify cfg st (present t sz mt) l pw = (st, check_entry ext_verify (h_enc cfg) st (h_tab st) l pw).
  Proof. exact (c05_htpasswd_cache_hit ext_verify). Qed.

  (* The (patched) start-up establishes the hypotheses: flags, stamp, and -- when bcrypt-shaped digests are
     not dropped by re-reads, or there are none -- coherence. *)
  Theorem C05_htpasswd_init : forall cfg f st, init cfg f = Some st ->
    flags_ok cfg st
    /\ h_size st = f_size f /\ h_mtime st = f_mtime f
    /\ (h_has_bcrypt st = true <-> (h_enc cfg = EBcrypt \/ h_enc cfg = EAuto) /\ h_module cfg = true)
    /\ exists buse, read_file true false f = ROk (h_tab st) buse
                    /\ ((h_has_bcrypt st = true \/ buse = 0) -> coherent st f).
  Proof. exact c05_htpasswd_init. Qed.

  (* A login never fails with an exception of Radicale's own making: it raises only if the hash library
     raises something other than ValueError (file readable). *)
  Theorem C05_htpasswd_no_crash : forall cfg st t sz mt l pw,
    h_cache cfg = false -> flags_ok cfg st ->
    snd (hlogin ext_verify cfg st (present t sz mt) l pw) = LRaise ->
    exists s h, s <> SPlain /\ ext_verify s h pw = VRaise.
  Proof. exact (c05_htpasswd_no_crash ext_verify). Qed.
  (* A file that cannot be opened (EACCES, EIO, a directory in its place; os.stat still works) authenticates NOBODY:
     at once with the cache off, and with the cache on as soon as the stamp shows a change (the cached dict is then empty) --
     never "the last known content". *)
  Theorem C05_htpasswd_unreadable : forall cfg st sz mt l pw,
    let f := {| f_text := FUnreadable; f_size := sz; f_mtime := mt |} in
    (h_cache cfg = false \/ stamp_differs st f = true) ->
    snd (hlogin ext_verify cfg st f l pw) = LFail /\
    (h_cache cfg = true -> h_tab (fst (hlogin ext_verify cfg st f l pw)) = []).
  Proof. exact (c05_htpasswd_unreadable ext_verify). Qed.
End HtpasswdStatements.
Print Assumptions C05_htpasswd_unreadable.
Print Assumptions C05_htpasswd_entry.
Print Assumptions C05_htpasswd.
Print Assumptions C05_htpasswd_cache.
Print Assumptions C05_htpasswd_cache_hit.
Print Assumptions C05_htpasswd_init.
Print Assumptions C05_htpasswd_no_crash.

(* [auth] cache_logins = True: BaseAuth.login (Model/LoginCache.v, the model property C17 is about, `Vfix` = the code as it
   is in the repository) in front of the htpasswd back-end (htpasswd_cache off, so the back-end is a function of the file
   version).  After ANY history of attempts, clock advances and file changes, login(l, pw) returns a user u <> "" only if
   u is exactly the mapped login and a version of the file -- the present one, or one of a moment of the history not older
   than cache_successful_logins_expiry whole seconds -- has an entry for exactly that login whose non-empty digest
   verifies exactly the presented password.  The statement is about the PAIR (login, password): pairs with equal
   login ++ password concatenations cut at different places are different pairs (non-vacuity and this very situation:
   Proofs/C05LoginCache.v, ex_login_cache_hyps). *)
Theorem C05_htpasswd_login_cache :
  forall ext_verify hcfg st (cfg : LoginCache.config) (t0 : Z) (f0 : ht_fversion)
         (h : list (@LoginCache.event ht_fversion)) (l pw u : pystr) (cached : bool),
    h_cache hcfg = false -> flags_ok hcfg st ->
    let bk := ht_file_backend ext_verify hcfg st in
    let s := fst (LoginCache.run bk LoginCache.Vfix cfg (LoginCache.init t0 f0) h) in
    let m := LoginCache.map_login cfg l in
    LoginCache.r_out (LoginCache.login_body LoginCache.Vfix cfg (bk (LoginCache.s_bk s)) (LoginCache.s_now s)
                                            (LoginCache.s_cache s) l pw) = LoginCache.ORet u cached ->
    u <> [] ->
    u = m /\
    (ht_entry_verifies ext_verify hcfg st (fst (fst (LoginCache.s_bk s))) m pw \/
     exists tm f, In (tm, f) (LoginCache.moments bk LoginCache.Vfix cfg (LoginCache.init t0 f0) h)
                  /\ (LoginCache.age_s (LoginCache.s_now s) tm <= LoginCache.c_exp_s cfg)%Z
                  /\ ht_entry_verifies ext_verify hcfg st (fst (fst f)) m pw).
Proof. exact c05_htpasswd_login_cache. Qed.
Print Assumptions C05_htpasswd_login_cache.

(* End to end, auth type htpasswd (cache off): a handler runs as u <> "" only if u is the mapped login, a safe
   name, and the file as it is now has an entry for u whose non-empty digest verifies the presented password. *)
Theorem C05_gate_htpasswd :
  forall py_lower py_upper basic_decode handler home_exists home_exists_w rights_w create_fails ext_verify
         hcfg st t sz mt cfg env m bp p u,
    c_kind cfg = AOther -> h_cache hcfg = false -> flags_ok hcfg st ->
    In (EDispatch m bp p u)
       (r_effects (gate py_lower py_upper basic_decode (ht_backend ext_verify hcfg st (present t sz mt))
                        handler home_exists home_exists_w rights_w create_fails cfg env)) ->
    u <> [] ->
    exists ext l pw h,
      creds basic_decode cfg env = CCreds ext l pw /\ l <> [] /\
      u = mapped py_lower py_upper cfg l /\ is_safe_path_component u = true /\
      first_entry (h_has_bcrypt st) (file_lines t) u = Some h /\ h <> [] /\
      verify_as ext_verify (detect (h_enc hcfg) h) h pw = VTrue.
Proof. exact c05_gate_htpasswd. Qed.
Print Assumptions C05_gate_htpasswd.

(* Defect F10, regression witness: with the PINNED tree's start-up (init_with false) the last two theorems
   fail -- a bcrypt entry added after start-up makes the right password raise (AttributeError -> 500). *)
Theorem C05_htpasswd_bcrypt_late_refuted :
  exists cfg f0 f1 st l pw,
    init_with false cfg f0 = Some st /\ ~ flags_ok cfg st /\
    snd (hlogin ex_verify cfg st f1 l pw) = LRaise /\
    (forall s h p, ex_verify s h p <> VRaise) /\
    (exists h, first_entry (h_has_bcrypt st) (match f_text f1 with FText t => file_lines t | _ => [] end) l = Some h
               /\ verify_as ex_verify (detect (h_enc cfg) h) h pw = VTrue).
Proof. exact c05_htpasswd_orig_refuted. Qed.
Print Assumptions C05_htpasswd_bcrypt_late_refuted.
