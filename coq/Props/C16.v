(* C16 -- Calendar queries return exactly the matching objects.
   Only statements; each closed by `exact` of a lemma from Proofs/, followed by Print Assumptions.
   Model/Rfc4791.v is the specification (RFC 4791 section 9.9, literally); Model/Filter.v is the model of
   radicale/item/filter.py, item/__init__.py (find_time_range), storage/__init__.py (get_filtered) and
   app/report.py as they are after the fixes notes/fixes/C16-*.patch; Gen/C16Gen.v is REGENERATED from the
   repository on every run. *)
From Coq Require Import ZArith List Bool.
Import ListNotations.
Require Import RV.Model.Rfc4791 RV.Model.Filter.
Require Import RV.Proofs.C16Xt RV.Proofs.C16Loop RV.Proofs.C16Rows RV.Proofs.C16Tables RV.Proofs.C16Hull
        RV.Proofs.C16Shortcut RV.Proofs.C16Fill RV.Proofs.C16FreeBusy RV.Proofs.C16Final RV.Proofs.C16GenEq.
Require RV.Gen.C16Gen.
Open Scope Z_scope.

(* C16_tables: for EVERY well-formed object of the grammar (VEVENT / VTODO / VJOURNAL, DATE or UTC DATE-TIME,
   DTEND | DURATION | neither, FREQ=DAILY|WEEKLY with INTERVAL and COUNT | UNTIL | unbounded, EXDATE,
   DUE / COMPLETED / CREATED combinations) and EVERY time range with at least one bound (open-ended included),
   time_range_match terminates with the explicit fuel match_fuel and answers exactly the RFC 4791 9.9 table.
   For VTODO the range must be proper (start < end), as RFC 4791 9.9 demands of clients; VEVENT and VJOURNAL need
   nothing (empty and inverted ranges included). *)
Theorem C16_tables : forall o r fuel,
    wf_obj o -> tr_bounded r = true -> (needs_proper o = true -> tr_proper r = true) ->
    (match_fuel o r <= fuel)%nat ->
    exists b, time_range_match fuel o r = Some b /\ (b = true <-> rfc4791_overlaps o r).
Proof. exact tables. Qed.
Print Assumptions C16_tables.

(* per component type (same statement, specialised; VEVENT and VJOURNAL for ALL ranges with a bound) *)
Theorem C16_tables_vevent : forall ev r fuel,
    wf_vevent ev -> tr_bounded r = true -> (match_fuel (OEvent ev) r <= fuel)%nat ->
    exists b, time_range_match fuel (OEvent ev) r = Some b /\ (b = true <-> rfc_overlaps_vevent ev r).
Proof. exact tables_vevent. Qed.
Print Assumptions C16_tables_vevent.

Theorem C16_tables_vjournal : forall j r fuel,
    wf_vjournal j -> tr_bounded r = true -> (match_fuel (OJournal j) r <= fuel)%nat ->
    exists b, time_range_match fuel (OJournal j) r = Some b /\ (b = true <-> rfc_overlaps_vjournal j r).
Proof. exact tables_vjournal. Qed.
Print Assumptions C16_tables_vjournal.

Theorem C16_tables_vtodo : forall t r fuel,
    wf_vtodo t -> tr_bounded r = true -> tr_proper r = true -> (match_fuel (OTodo t) r <= fuel)%nat ->
    exists b, time_range_match fuel (OTodo t) r = Some b /\ (b = true <-> rfc_overlaps_vtodo t r).
Proof. exact tables_vtodo. Qed.
Print Assumptions C16_tables_vtodo.

(* a time-range without start and end never matches (time_range_match's first test) *)
Theorem C16_unbounded_range : forall o fuel, time_range_match fuel o (None, None) = Some false.
Proof. exact unbounded_range. Qed.
Print Assumptions C16_unbounded_range.

(* C16_early_stop_complete: stopping at the first range that begins after the end of the query loses no overlap:
   the answer is true iff SOME range the visitor would hand out (never cancelled) overlaps; and the loop
   terminates for unbounded rules whenever the query has at least one finite bound, with the explicit fuel
   match_fuel = number of candidates up to the bound (and the largest EXDATE) + 2. *)
Theorem C16_early_stop_complete : forall o r fuel,
    wf_obj o -> tr_bounded r = true -> (needs_proper o = true -> tr_proper r = true) ->
    (match_fuel o r <= fuel)%nat ->
    exists b, time_range_match fuel o r = Some b /\
              (b = true <-> exists c, visited o c /\ overlap (tr_start r) (tr_end r) c = true).
Proof. exact early_stop_complete. Qed.
Print Assumptions C16_early_stop_complete.

(* C16_hull: find_time_range terminates (bounded rules are walked completely, unbounded ones are cut by
   infinity_fn) and (istart, iend) encloses every range the visitor can hand out; moreover a finite istart /
   iend is attained by a NON-EMPTY range (what "declared matched" relies on).
   Excluded: the class of the known finding F14 (C16_hull_F14_refuted below). *)
Theorem C16_hull : forall o, wf_obj o -> ~ f14_class o ->
    exists istart iend, find_time_range (hull_fuel o) o = Some (istart, iend) /\
      (forall c, visited o c -> xle istart (c_s c) = true /\ xle (c_e c) iend = true) /\
      (xlt MInf istart = true -> exists c, visited o c /\ xlt (c_s c) (c_e c) = true /\ c_s c = istart) /\
      (xlt iend PInf = true -> exists c, visited o c /\ xlt (c_s c) (c_e c) = true /\ c_e c = iend).
Proof. exact hull_spec. Qed.
Print Assumptions C16_hull.

(* Known finding F14: for an unbounded recurring VTODO with DUE = DTSTART (or DURATION 0) the enclosing range
   starts one second after a range the visitor hands out. *)
Definition C16_hull_full : Prop := forall o, wf_obj o ->
    exists istart iend, find_time_range (hull_fuel o) o = Some (istart, iend) /\
      (forall c, visited o c -> xle istart (c_s c) = true /\ xle (c_e c) iend = true).
Theorem C16_hull_F14_refuted :
  exists o c a b, wf_obj o /\ f14_class o /\ visited o c
                  /\ find_time_range (hull_fuel o) o = Some (a, b) /\ xle a (c_s c) = false.
Proof. exact hull_F14_refuted. Qed.
Print Assumptions C16_hull_F14_refuted.

(* The pinned code (before notes/fixes/C16-F3 and C16-F4) violates the tables: witnesses. *)
Theorem C16_tables_legacy_F3_refuted :
  exists ev r D, wf_vevent ev /\ occurs (ev_start ev) (ev_rec ev) D
                 /\ vevent_row ev D (tr_start r) (tr_end r) = true
                 /\ ov (tr_start r) (tr_end r) (vevent_calls_legacy ev false D) = false.
Proof. exact legacy_F3_refuted. Qed.
Print Assumptions C16_tables_legacy_F3_refuted.

Theorem C16_tables_legacy_F4_refuted :
  exists t r, wf_vtodo t /\ rfc_overlaps_vtodo t r
              /\ ov (tr_start r) (tr_end r) (vtodo_calls_legacy t false J10) = false.
Proof. exact legacy_F4_refuted. Qed.
Print Assumptions C16_tables_legacy_F4_refuted.

(* C16_shortcut: the answer of a report does not depend on the storage pre-selection.  For every list of filter
   elements (prop-filters are opaque predicates), every list of items whose cached enclosing range is
   find_time_range of their content: if evaluating EVERY item in full succeeds with result l, the report that goes
   through simplify_prefilters / get_filtered (skip by tag and enclosing range, declared matched when simple)
   returns exactly l.  Time ranges in the filters must be proper when bounded (RFC 4791 9.9); items of the F14
   class are excluded. *)
Theorem C16_shortcut : forall prop_match fuel_of filters items l,
    Forall (item_ok fuel_of) items -> ranges_ok filters ->
    reference prop_match fuel_of filters items = Some l ->
    report prop_match fuel_of filters items = Some l.
Proof. exact shortcut. Qed.
Print Assumptions C16_shortcut.

(* the two halves, per item *)
Theorem C16_skipped_do_not_match : forall prop_match fuel_of it filters, item_ok fuel_of it -> ranges_ok filters ->
    all_filters prop_match fuel_of it filters = Some true ->
    let '(tag, s, e, _) := simplify_prefilters filters in
    gf_skip tag (it_comp it) (fst (it_range it)) (snd (it_range it)) s e = false.
Proof. exact skipped_do_not_match. Qed.
Print Assumptions C16_skipped_do_not_match.

Theorem C16_declared_matched_do_match : forall prop_match fuel_of it filters tag s e, item_ok fuel_of it -> ranges_ok filters ->
    simplify_prefilters filters = (tag, s, e, true) ->
    gf_skip tag (it_comp it) (fst (it_range it)) (snd (it_range it)) s e = false ->
    gf_matched true (fst (it_range it)) (snd (it_range it)) s e = true ->
    all_filters prop_match fuel_of it filters = Some true.
Proof. exact declared_matched_do_match. Qed.
Print Assumptions C16_declared_matched_do_match.

(* `cal` and `t` are the name attributes as the client spelled them (any case: rawname) *)
(* adding an always-true condition -- a prop-filter that matches everything appended to the component's
   comp-filter, or a second identical comp-filter -- never changes the result (the first makes the filter
   "not simple", i.e. switches the shortcut's declared-matched logic off) *)
Theorem C16_always_true : forall prop_match fuel_of p, (forall it, prop_match p it = true) ->
    forall cal t r rest items l,
      Forall (item_ok fuel_of) items ->
      (forall r', In (ETimeRange r') (ETimeRange r :: rest) -> range_ok r') ->
      reference prop_match fuel_of (q_plain cal t r rest) items = Some l ->
      report prop_match fuel_of (q_plain cal t r rest) items = Some l
      /\ report prop_match fuel_of (q_prop p cal t r rest) items = Some l
      /\ report prop_match fuel_of (q_twice cal t r rest) items = Some l.
Proof. exact always_true. Qed.
Print Assumptions C16_always_true.

(* C16_freebusy, expansion: for a well-formed VEVENT and a range with an end, time_range_fill terminates with the
   explicit fuel and lists only occurrences that overlap (RFC row), each as (start, start + length); below the cap
   (fewer than n results, or n = 0: no cap) it lists EVERY overlapping occurrence. *)
Theorem C16_freebusy : forall ev r z n fuel,
    wf_vevent ev -> snd r = Some z -> (match_fuel (OEvent ev) r <= fuel)%nat ->
    exists L, time_range_fill fuel (OEvent ev) r n = Some L
      /\ (forall x, In x L -> exists D, occurs (ev_start ev) (ev_rec ev) D
                                         /\ vevent_row ev D (tr_start r) (tr_end r) = true
                                         /\ x = (Fin D, Fin (D + vevent_len ev)))
      /\ (Z.of_nat (length L) < n \/ n <= 0 ->
          forall D, occurs (ev_start ev) (ev_rec ev) D -> vevent_row ev D (tr_start r) (tr_end r) = true ->
                    In (Fin D, Fin (D + vevent_len ev)) L).
Proof. exact fill_spec. Qed.
Print Assumptions C16_freebusy.

(* C16_freebusy, retrieval: free_busy_report's pre-selection gives the same periods (and the same failures) as
   testing every item of the collection in full *)
Theorem C16_freebusy_shortcut : forall fuel_of maxo r items,
    Forall (fun fi => item_ok fuel_of (fb_item fi)) items -> range_ok r ->
    free_busy fuel_of maxo r items = fb_loop fuel_of maxo r (map (fun fi => (fi, false)) items).
Proof. exact freebusy_shortcut. Qed.
Print Assumptions C16_freebusy_shortcut.

(* Tie T: the two expressions of get_filtered, regenerated from the source, are the modelled ones. *)
Theorem C16_get_filtered_expressions : forall tag comp simple istart iend start end_,
    C16Gen.gf_skip_tag tag comp || C16Gen.gf_skip_time istart iend start end_ = gf_skip tag comp istart iend start end_
    /\ C16Gen.gf_matched simple istart iend start end_ = gf_matched simple istart iend start end_.
Proof. exact get_filtered_expressions. Qed.
Print Assumptions C16_get_filtered_expressions.

(* Case folding: comp_match and simplify_prefilters read the name attribute of a comp-filter at three places; the
   regenerated expressions all fold with str.upper(), so the shortcut and the full evaluation decide on the same
   component name whatever the spelling ("vevent", "Vevent", "VEVENT").  C16_shortcut above quantifies over raw names. *)
Theorem C16_name_folding : forall n,
    C16Gen.comp_match_name n = Folded (upper n)
    /\ C16Gen.prefilter_col_name n = Folded (upper n)
    /\ C16Gen.prefilter_tag_name n = Folded (upper n).
Proof. exact Gen_name_sites_eq. Qed.
Print Assumptions C16_name_folding.

Theorem C16_name_sites_agree : forall n,
    C16Gen.comp_match_name n = C16Gen.prefilter_tag_name n /\ C16Gen.comp_match_name n = C16Gen.prefilter_col_name n.
Proof. exact name_sites_agree. Qed.
Print Assumptions C16_name_sites_agree.

(* ================================================================== extension: RDATE and rescheduled instances
   Model/FilterExt.v is the model of visit_time_ranges for a VEVENT object made of one master (UTC DATE-TIME DTSTART,
   DTEND | DURATION | neither, optional RRULE as above, RDATE list, EXDATE list) and override components (RECURRENCE-ID,
   own DTSTART / DTEND) -- get_children (overrides first, master last with `recurrences`), getrruleset (filter on
   `ignore`, infinite branch with infinity_fn), the VEVENT branch; Model/Rfc4791Ext.v is the specification: the
   instance set ((rule instances + RDATE + DTSTART) - EXDATE - overridden) and 9.9 over it.  ALL well-formed objects,
   ALL ranges, ANY fuel for which the model terminates (the fuel formulas xhull_fuel / xmatch_fuel are exercised by
   the correspondence check and the Examples).  DATE values are not modelled (the pinned code never removes an
   overridden all-day instance). *)
Require Import RV.Model.FilterExt RV.Model.Rfc4791Ext RV.Proofs.C16Ext.

(* (a) a recording visitor that never cancels receives exactly the ranges of the object: every surviving master
   instance with the master's length, every override component with its own start and end -- nothing else *)
Theorem C16_ext_visit_exact : forall o fuel l stop, wf_xevent o ->
    xvisit rec_all no_infinity fuel o [] = Some (l, stop) ->
    stop = false /\ forall c, In c l <-> xvisited o c.
Proof. exact ext_visit_exact. Qed.
Print Assumptions C16_ext_visit_exact.

(* (b) find_time_range is the hull of those ranges: it encloses every one, a finite start is the start of one of them
   and a finite end the end of one of them (min start, max end); for an unbounded rule the end is +infinity and the
   start is the minimum over the override components and the first surviving master instance *)
Theorem C16_ext_hull : forall o fuel istart iend, wf_xevent o ->
    xfind_time_range fuel o = Some (istart, iend) ->
    (forall c, xvisited o c -> xle istart (c_s c) = true /\ xle (c_e c) iend = true) /\
    (xlt MInf istart = true -> exists c, xvisited o c /\ xlt (c_s c) (c_e c) = true /\ c_s c = istart) /\
    (xlt iend PInf = true -> exists c, xvisited o c /\ xlt (c_s c) (c_e c) = true /\ c_e c = iend).
Proof. exact ext_hull. Qed.
Print Assumptions C16_ext_hull.

(* (c) time_range_match: true iff some range of the object overlaps the query (the early stop on the ascending master
   instances and the absence of an early stop on override components lose nothing) ... *)
Theorem C16_ext_match_visited : forall o r fuel b, wf_xevent o -> tr_bounded r = true ->
    xtime_range_match fuel o r = Some b ->
    (b = true <-> exists c, xvisited o c /\ overlap (tr_start r) (tr_end r) c = true).
Proof. exact ext_match_visited. Qed.
Print Assumptions C16_ext_match_visited.

(* ... which is RFC 4791 9.9 for VEVENT: some instance of the master satisfies the master's row, or some override
   component satisfies its own row *)
Theorem C16_ext_tables : forall o r fuel b, wf_xevent o -> tr_bounded r = true ->
    xtime_range_match fuel o r = Some b -> (b = true <-> xrfc_overlaps o r).
Proof. exact ext_match_rfc. Qed.
Print Assumptions C16_ext_tables.

Theorem C16_ext_unbounded_range : forall o fuel, xtime_range_match fuel o (None, None) = Some false.
Proof. exact ext_unbounded_range. Qed.
Print Assumptions C16_ext_unbounded_range.

(* non-vacuity: two well-formed objects (bounded HOURLY rule + RDATE + EXDATE + a rescheduled instance; unbounded DAILY
   rule whose first instance is rescheduled) on which the model terminates with the fuel formulas and gives the
   expected ranges, hull and answers (the overridden instance does not match, the moved one does) *)
Theorem C16_ext_nonvacuous : ext_nonvacuous_stmt.
Proof. exact ext_nonvacuous. Qed.
Print Assumptions C16_ext_nonvacuous.

(* Total forms: with the explicit fuel formulas of Model/FilterExt.v (xhull_fuel: every RDATE and every candidate of a
   bounded rule; xmatch_fuel / unbounded rules: every RDATE and the rule candidates up to the first one beyond the finite
   bound of the range and beyond every EXDATE / RECURRENCE-ID, + 2) the model terminates, for ALL well-formed objects
   and ALL ranges with a bound. *)
Require Import RV.Proofs.C16ExtTerm.

Theorem C16_ext_tables_total : forall o r fuel, wf_xevent o -> tr_bounded r = true -> (xmatch_fuel o r <= fuel)%nat ->
    exists b, xtime_range_match fuel o r = Some b /\ (b = true <-> xrfc_overlaps o r).
Proof. exact ext_match_total. Qed.
Print Assumptions C16_ext_tables_total.

Theorem C16_ext_hull_total : forall o fuel, wf_xevent o -> (xhull_fuel o <= fuel)%nat ->
    exists istart iend, xfind_time_range fuel o = Some (istart, iend) /\
      (forall c, xvisited o c -> xle istart (c_s c) = true /\ xle (c_e c) iend = true) /\
      (xlt MInf istart = true -> exists c, xvisited o c /\ xlt (c_s c) (c_e c) = true /\ c_s c = istart) /\
      (xlt iend PInf = true -> exists c, xvisited o c /\ xlt (c_s c) (c_e c) = true /\ c_e c = iend).
Proof. exact ext_hull_total. Qed.
Print Assumptions C16_ext_hull_total.

(* bounded rule (or none): the never-cancelling recording visitor terminates, un-cancelled, with exactly the instances *)
Theorem C16_ext_visit_total : forall o fuel, wf_xevent o -> xe_infinite o = false -> (xhull_fuel o <= fuel)%nat ->
    exists l, xvisit rec_all no_infinity fuel o [] = Some (l, false) /\ forall c, In c l <-> xvisited o c.
Proof. exact ext_visit_total. Qed.
Print Assumptions C16_ext_visit_total.
