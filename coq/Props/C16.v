(* C16 -- Calendar queries return exactly the matching objects.
   Only statements; each closed by `exact` of a lemma from Proofs/, followed by Print Assumptions.
   Model/Rfc4791.v is the specification (RFC 4791 section 9.9, literally); Model/Filter.v is the model of
   radicale/item/filter.py, item/__init__.py (find_time_range), storage/__init__.py (get_filtered) and
   app/report.py as they are after the fixes notes/fixes/C16-*.patch; Gen/C16Gen.v is REGENERATED from the
   repository on every run. *)
From Coq Require Import ZArith List Bool.
Import ListNotations.
Require Import RV.Model.Rfc4791 RV.Model.Filter.
Require Import RV.Proofs.C16Xt RV.Proofs.C16Loop RV.Proofs.C16Rows RV.Proofs.C16Tables RV.Proofs.C16Hull
        RV.Proofs.C16Final RV.Proofs.C16GenEq.
Require RV.Gen.C16Gen.
Open Scope Z_scope.

(* C16_tables: for EVERY well-formed object of the grammar (VEVENT / VTODO / VJOURNAL, DATE or UTC DATE-TIME,
   DTEND | DURATION | neither, FREQ=DAILY|WEEKLY with INTERVAL and COUNT | UNTIL | unbounded, EXDATE,
   DUE / COMPLETED / CREATED combinations) and EVERY time range with at least one bound (open-ended included),
   time_range_match terminates with the explicit fuel match_fuel and answers exactly the RFC 4791 9.9 table.
   For VTODO the range must be proper (start < end), as RFC 4791 9.9 demands of clients; VEVENT and VJOURNAL need
   nothing (empty and inverted ranges included). *)
Theorem C16_tables : forall o r fuel,
    wf_obj o -> tr_bounded r = true -> (needs_proper o = true -> tr_proper r = true) ->
    (match_fuel o r <= fuel)%nat ->
    exists b, time_range_match fuel o r = Some b /\ (b = true <-> rfc4791_overlaps o r).
Proof. exact tables. Qed.
Print Assumptions C16_tables.

(* per component type (same statement, specialised; VEVENT and VJOURNAL for ALL ranges with a bound) *)
Theorem C16_tables_vevent : forall ev r fuel,
    wf_vevent ev -> tr_bounded r = true -> (match_fuel (OEvent ev) r <= fuel)%nat ->
    exists b, time_range_match fuel (OEvent ev) r = Some b /\ (b = true <-> rfc_overlaps_vevent ev r).
Proof. intros ev r fuel Hwf Hb Hf. exact (tables (OEvent ev) r fuel Hwf Hb (fun H => False_ind _ (Bool.diff_false_true H)) Hf). Qed.
Print Assumptions C16_tables_vevent.

Theorem C16_tables_vjournal : forall j r fuel,
    wf_vjournal j -> tr_bounded r = true -> (match_fuel (OJournal j) r <= fuel)%nat ->
    exists b, time_range_match fuel (OJournal j) r = Some b /\ (b = true <-> rfc_overlaps_vjournal j r).
Proof. intros j r fuel Hwf Hb Hf. exact (tables (OJournal j) r fuel Hwf Hb (fun H => False_ind _ (Bool.diff_false_true H)) Hf). Qed.
Print Assumptions C16_tables_vjournal.

Theorem C16_tables_vtodo : forall t r fuel,
    wf_vtodo t -> tr_bounded r = true -> tr_proper r = true -> (match_fuel (OTodo t) r <= fuel)%nat ->
    exists b, time_range_match fuel (OTodo t) r = Some b /\ (b = true <-> rfc_overlaps_vtodo t r).
Proof. intros t r fuel Hwf Hb Hp Hf. exact (tables (OTodo t) r fuel Hwf Hb (fun _ => Hp) Hf). Qed.
Print Assumptions C16_tables_vtodo.

(* a time-range without start and end never matches (time_range_match's first test) *)
Theorem C16_unbounded_range : forall o fuel, time_range_match fuel o (None, None) = Some false.
Proof. exact (fun o fuel => eq_refl). Qed.
Print Assumptions C16_unbounded_range.

(* C16_early_stop_complete: stopping at the first range that begins after the end of the query loses no overlap:
   the answer is true iff SOME range the visitor would hand out (never cancelled) overlaps; and the loop
   terminates for unbounded rules whenever the query has at least one finite bound, with the explicit fuel
   match_fuel = number of candidates up to the bound (and the largest EXDATE) + 2. *)
Theorem C16_early_stop_complete : forall o r fuel,
    wf_obj o -> tr_bounded r = true -> (needs_proper o = true -> tr_proper r = true) ->
    (match_fuel o r <= fuel)%nat ->
    exists b, time_range_match fuel o r = Some b /\
              (b = true <-> exists c, visited o c /\ overlap (tr_start r) (tr_end r) c = true).
Proof. exact early_stop_complete. Qed.
Print Assumptions C16_early_stop_complete.

(* C16_hull: find_time_range terminates (bounded rules are walked completely, unbounded ones are cut by
   infinity_fn) and (istart, iend) encloses every range the visitor can hand out; moreover a finite istart /
   iend is attained by a NON-EMPTY range (what "declared matched" relies on).
   Excluded: the class of the known finding F14 (C16_hull_F14_refuted below). *)
Theorem C16_hull : forall o, wf_obj o -> ~ f14_class o ->
    exists istart iend, find_time_range (hull_fuel o) o = Some (istart, iend) /\
      (forall c, visited o c -> xle istart (c_s c) = true /\ xle (c_e c) iend = true) /\
      (xlt MInf istart = true -> exists c, visited o c /\ xlt (c_s c) (c_e c) = true /\ c_s c = istart) /\
      (xlt iend PInf = true -> exists c, visited o c /\ xlt (c_s c) (c_e c) = true /\ c_e c = iend).
Proof. exact hull_spec. Qed.
Print Assumptions C16_hull.

(* Known finding F14: for an unbounded recurring VTODO with DUE = DTSTART (or DURATION 0) the enclosing range
   starts one second after a range the visitor hands out. *)
Definition C16_hull_full : Prop := forall o, wf_obj o ->
    exists istart iend, find_time_range (hull_fuel o) o = Some (istart, iend) /\
      (forall c, visited o c -> xle istart (c_s c) = true /\ xle (c_e c) iend = true).
Theorem C16_hull_F14_refuted :
  exists o c a b, wf_obj o /\ f14_class o /\ visited o c
                  /\ find_time_range (hull_fuel o) o = Some (a, b) /\ xle a (c_s c) = false.
Proof. exact hull_F14_refuted. Qed.
Print Assumptions C16_hull_F14_refuted.

(* The pinned code (before notes/fixes/C16-F3 and C16-F4) violates the tables: witnesses. *)
Theorem C16_tables_legacy_F3_refuted :
  exists ev r D, wf_vevent ev /\ occurs (ev_start ev) (ev_rec ev) D
                 /\ vevent_row ev D (tr_start r) (tr_end r) = true
                 /\ ov (tr_start r) (tr_end r) (vevent_calls_legacy ev false D) = false.
Proof. exact legacy_F3_refuted. Qed.
Print Assumptions C16_tables_legacy_F3_refuted.

Theorem C16_tables_legacy_F4_refuted :
  exists t r, wf_vtodo t /\ rfc_overlaps_vtodo t r
              /\ ov (tr_start r) (tr_end r) (vtodo_calls_legacy t false J10) = false.
Proof. exact legacy_F4_refuted. Qed.
Print Assumptions C16_tables_legacy_F4_refuted.

(* Tie T: the two expressions of get_filtered, regenerated from the source, are the modelled ones. *)
Theorem C16_get_filtered_expressions : forall tag comp simple istart iend start end_,
    C16Gen.gf_skip_tag tag comp || C16Gen.gf_skip_time istart iend start end_ = gf_skip tag comp istart iend start end_
    /\ C16Gen.gf_matched simple istart iend start end_ = gf_matched simple istart iend start end_.
Proof. intros. split; [apply Gen_gf_skip_eq|apply Gen_gf_matched_eq]. Qed.
Print Assumptions C16_get_filtered_expressions.
