Require Import RV.Model.Server.
Theorem C20_stub : True. Proof. exact I. Qed.
Print Assumptions C20_stub.
