(* C20 -- The built-in server bounds concurrency and request size and shuts down cleanly.
   Only statements; each closed by `exact` of a lemma from Proofs/, followed by Print Assumptions.

   Model/Server.v is the transition system of radicale/server.py `serve` (accept loop + finally block), of one
   connection thread and of the gate of app/__init__.py `_handle_request`; it is tied to /repo on every run by the
   lock-step correspondence of checks/C20.py.  PARTIAL by nature: sockets, select, threads and timers are the
   runtime and enter as environment events; the theorems cover the loop's bookkeeping and the order of its
   decisions, for every event order and any number of clients (`reachable` = any finite event sequence). *)
From Coq Require Import List ZArith NArith Bool.
Import ListNotations.
Require Import RV.Model.Server RV.Proofs.ServerInv RV.Proofs.ServerProofs RV.Proofs.ServerExamples.
Require Import RV.Model.ServerMain RV.Proofs.ServerMainProofs.
Require RV.Gen.MainSigGen RV.Proofs.GenEqMainSig.
Open Scope Z_scope.

(* ---- 1. never more than max_connections connections in flight (hence requests inside the handler) ---- *)
Theorem C20_bound : forall cfg s, 0 < max_conn cfg -> reachable cfg s ->
  Z.of_nat (length (workers s)) <= max_conn cfg /\ Z.of_nat (handling s) <= max_conn cfg.
Proof. exact c20_bound. Qed.
Print Assumptions C20_bound.

(* further clients wait: while serve() runs, every connection that ever arrived is in exactly one of
   kernel queue / worker set / reaped -- none is lost, none is duplicated *)
Theorem C20_no_loss : forall cfg s, reachable cfg s ->
  NoDup (all_ids s) /\ (forall c, In c (all_ids s) -> (c < next_id s)%N) /\
  (pc s <> PDone -> forall c, (c < next_id s)%N -> In c (all_ids s)).
Proof. exact c20_no_loss. Qed.
Print Assumptions C20_no_loss.

(* ---- 2. ... and are served as slots free up ---- *)
(* a free slot and a waiting client: the listeners are in the next rlist, select reports them, and whichever
   ready listener `rset.pop()` yields, its OLDEST waiting client becomes a worker *)
Theorem C20_progress_accept : forall cfg s, reachable cfg s -> pc s = PTop -> stop s = false ->
  backlog s <> [] -> below_limit cfg (workers s) = true ->
  exists s1 s2 rw rls,
    step cfg s LBuild = Some (s1, [ORlist (ids (workers s)) true]) /\
    step cfg s1 LSelect = Some (s2, [ORset rw rls false]) /\ rls <> [] /\
    forall l, In l rls ->
      exists b rest s3 o, take_first l (backlog s) = Some (b, rest) /\
        step cfg s2 (LBody (Some l)) = Some (s3, o) /\ In (OAccepted l (b_id b)) o /\
        In (b_id b) (ids (workers s3)) /\ backlog s3 = rest /\ pc s3 = PTop.
Proof. exact c20_progress_accept. Qed.
Print Assumptions C20_progress_accept.

(* a finished worker is reaped by the next iteration (whatever else that iteration does), after which the
   listeners are polled again *)
Theorem C20_progress_reap : forall cfg s rlw rll w o, reachable cfg s -> pc s = PSelect rlw rll -> stop s = false ->
  In w (workers s) -> w_st w = WDone o ->
  exists s2 rw rls,
    step cfg s LSelect = Some (s2, [ORset rw rls false]) /\ In (w_id w) rw /\
    (exists acc s3 o3, step cfg s2 (LBody acc) = Some (s3, o3)) /\
    forall acc s3 o3, step cfg s2 (LBody acc) = Some (s3, o3) ->
      ~ In (w_id w) (ids (workers s3)) /\ In (w_id w, o) (finished s3) /\ pc s3 = PTop /\
      step cfg s3 LBuild = Some (with_pc s3 (PSelect (ids (workers s3)) true), [ORlist (ids (workers s3)) true]).
Proof. exact c20_progress_reap. Qed.
Print Assumptions C20_progress_reap.

(* the loop never blocks for a reason of its own after select returned *)
Theorem C20_body_enabled : forall cfg s rw rls rst, reachable cfg s -> pc s = PGot rw rls rst ->
  exists acc s' o, step cfg s (LBody acc) = Some (s', o).
Proof. exact c20_body_enabled. Qed.
Print Assumptions C20_body_enabled.

(* ---- 3. silent clients ---- *)
(* With a timeout configured: in WHICHEVER phase the thread waits for the client -- nothing sent yet (from the accept
   on: settimeout is called in get_request, so this includes a TLS handshake that never starts), silence inside the
   request head, head complete with the declared body outstanding, silence in the middle of the body
   (`waits_for_client`) -- the time-out is enabled and finishes the connection ... *)
Theorem C20_silent : forall cfg s w, reachable cfg s -> timeout_on cfg = true ->
  In w (workers s) -> waits_for_client w = true ->
  exists s' ob, step cfg s (TTimeout (w_id w)) = Some (s', [ob]) /\
    (ob = OTimedOut (w_id w) \/ ob = OBodyTimedOut (w_id w)) /\
    pc s' = pc s /\ stop s' = stop s /\ length (workers s') = length (workers s) /\
    In (set_st (WDone (timeout_outcome w)) w) (workers s').
Proof. exact c20_silent. Qed.
Print Assumptions C20_silent.

(* ... there is no other phase in which a thread waits for the client: an unfinished worker either waits for the
   client (above), or its thread can move on by itself (input is there), or it is inside the handler proper *)
Theorem C20_every_wait_has_timeout : forall cfg s w, reachable cfg s -> In w (workers s) -> is_done w = false ->
  waits_for_client w = true \/
  (exists s' o, step cfg s (TRead (w_id w)) = Some (s', o)) \/
  (exists s' o, step cfg s (TBody (w_id w)) = Some (s', o)) \/
  w_st w = WHandling.
Proof. exact c20_every_wait_has_timeout. Qed.
Print Assumptions C20_every_wait_has_timeout.

(* ... and the next iteration frees its slot and polls the listeners again *)
Theorem C20_silent_frees_slot : forall cfg s rlw rll w, reachable cfg s -> timeout_on cfg = true ->
  pc s = PSelect rlw rll -> stop s = false ->
  In w (workers s) -> waits_for_client w = true ->
  exists s1 ob s2 rw rls, step cfg s (TTimeout (w_id w)) = Some (s1, [ob]) /\
    step cfg s1 LSelect = Some (s2, [ORset rw rls false]) /\ In (w_id w) rw /\
    (exists acc s3 o3, step cfg s2 (LBody acc) = Some (s3, o3)) /\
    forall acc s3 o3, step cfg s2 (LBody acc) = Some (s3, o3) ->
      ~ In (w_id w) (ids (workers s3)) /\ In (w_id w, timeout_outcome w) (finished s3) /\
      step cfg s3 LBuild = Some (with_pc s3 (PSelect (ids (workers s3)) true), [ORlist (ids (workers s3)) true]).
Proof. exact c20_silent_frees_slot. Qed.
Print Assumptions C20_silent_frees_slot.

(* timeout = 0: nobody is dropped for being silent *)
Theorem C20_no_timeout_configured : forall cfg s c, timeout_on cfg = false -> step cfg s (TTimeout c) = None.
Proof. exact c20_no_timeout_configured. Qed.
Print Assumptions C20_no_timeout_configured.

(* ---- 4. Content-Length ---- *)
(* internal server, 0 < max_content_length < declared length: an earlier gate answers or it is 413; never dispatch *)
Theorem C20_413_gate : forall g r z, internal g = true -> 0 < max_len g -> r_cl r = ClInt z -> max_len g < z ->
  (exists st, gate g r = GEarly st) \/ gate g r = GTooLarge.
Proof. exact c20_gate_413. Qed.
Print Assumptions C20_413_gate.

(* 413 is answered exactly then (nothing else is refused for its size) *)
Theorem C20_413_gate_exact : forall g r,
  gate g r = GTooLarge <->
  r_pref r = PrefOk /\ r_method r = true /\ r_wk r = WkNone /\ internal g = true /\
  exists z, r_cl r = ClInt z /\ 0 < max_len g /\ max_len g < z.
Proof. exact c20_gate_413_exact. Qed.
Print Assumptions C20_413_gate_exact.

(* the handler is reached exactly in these cases *)
Theorem C20_gate_dispatch_exact : forall g r,
  gate g r = GDispatch <->
  r_pref r = PrefOk /\ r_method r = true /\ r_wk r = WkNone /\ r_auth r <> AuthFail /\
  (internal g = true -> r_cl r <> ClBad /\
     forall z, r_cl r = ClInt z -> 0 <= z /\ (z = 0 \/ max_len g <= 0 \/ z <= max_len g)).
Proof. exact c20_gate_dispatch_exact. Qed.
Print Assumptions C20_gate_dispatch_exact.

(* stronger than the property text, holds since the negative-length fix: whatever reaches a handler of the internal
   server declares a length that is non-negative and within the limit *)
Theorem C20_size_bound_strong : forall g r z, internal g = true -> r_cl r = ClInt z -> gate g r = GDispatch ->
  0 <= z /\ (0 < max_len g -> z <= max_len g).
Proof. exact c20_size_bound_strong. Qed.
Print Assumptions C20_size_bound_strong.

(* in the server: status 413 (or an earlier gate's status), the handler is not invoked, the thread finishes *)
Theorem C20_413 : forall cfg s w r full z, reachable cfg s -> internal (gc cfg) = true -> 0 < max_len (gc cfg) ->
  In w (workers s) -> w_st w = WReading -> w_cl w = CSent (RHttp r) full -> r_cl r = ClInt z -> max_len (gc cfg) < z ->
  exists s' st, step cfg s (TRead (w_id w)) = Some (s', [OAnswer (w_id w) st]) /\
    entered s' = entered s /\ In (set_st (WDone (OResp st)) w) (workers s') /\
    (r_pref r = PrefOk -> r_method r = true -> r_wk r = WkNone -> st = 413%N).
Proof. exact c20_413. Qed.
Print Assumptions C20_413.

(* no other event ever enters a handler *)
Theorem C20_enter_only_dispatch : forall cfg s e s' o c, step cfg s e = Some (s', o) -> In (OEnter c) o ->
  exists w r full, e = TRead c /\ find_w c (workers s) = Some w /\ w_cl w = CSent (RHttp r) full /\
    gate (gc cfg) r = GDispatch.
Proof. exact c20_enter_only_dispatch. Qed.
Print Assumptions C20_enter_only_dispatch.

(* ---- 5. shutdown ---- *)
(* -- exit signals (radicale/__main__.py run(), REGENERATED on every run into Gen/MainSigGen.v) -- *)
(* the signal-related statements of run() are the ones the model was written from: the same exit signals, the shutdown
   handler installed for ALL of them just before serve(), and a handler body that does exactly shutdown_socket.close() *)
Theorem C20_main_is_the_code : MainSigGen.mainsig_skeleton = main_skeleton /\
  MainSigGen.shutdown_handler = shutdown_handler_model.
Proof. exact (conj GenEqMainSig.Gen_mainsig_skeleton_eq GenEqMainSig.Gen_shutdown_handler_eq). Qed.
Print Assumptions C20_main_is_the_code.

(* for the handler of the code: ANY number n >= 1 of exit signals, in any order (they share the handler), leaves the
   process inside serve(), draining, with the same handler installed -- no signal makes it leave serve() *)
Theorem C20_signals_keep_draining : forall n,
  let p := deliver_n MainSigGen.shutdown_handler (S n) proc0 in
  alive p = Running /\ sock_closed p = true /\ installed p = HShutdown.
Proof. rewrite GenEqMainSig.Gen_shutdown_handler_eq. exact shutdown_handler_model_ok. Qed.
Print Assumptions C20_signals_keep_draining.

(* ... in general for every handler body that closes the socket and installs nothing that leaves serve() *)
Theorem C20_signals_keep_draining_general : forall acts n, forallb keeps_draining acts = true ->
  forallb (fun a => negb (installs_ignore a)) acts = true -> existsb closes acts = true ->
  let p := deliver_n acts (S n) proc0 in
  alive p = Running /\ sock_closed p = true /\ installed p = HShutdown.
Proof. exact signals_keep_draining. Qed.
Print Assumptions C20_signals_keep_draining_general.

(* a further signal to a draining process changes nothing; sensitivity: re-installing the start-up handler would make
   the SECOND signal leave serve() with requests in flight *)
Theorem C20_further_signal_is_noop : forall p, installed p = HShutdown -> alive p = Running -> sock_closed p = true ->
  deliver MainSigGen.shutdown_handler p = p.
Proof. rewrite GenEqMainSig.Gen_shutdown_handler_eq. exact further_signal_is_noop. Qed.
Print Assumptions C20_further_signal_is_noop.

Theorem C20_reinstalling_handler_would_break :
  let bad := [AInstall HExit; ACloseShutdown] in
  alive (deliver_n bad 1 proc0) = Running /\ alive (deliver_n bad 2 proc0) = Exited 1.
Proof. exact reinstalling_handler_breaks. Qed.
Print Assumptions C20_reinstalling_handler_would_break.

(* in the server model each such signal is the event EStop: idempotent and possible in every state *)
Theorem C20_stop_idempotent : forall cfg s, stop s = true -> step cfg s EStop = Some (s, []).
Proof. exact c20_stop_idempotent. Qed.
Print Assumptions C20_stop_idempotent.

Theorem C20_stop_always_enabled : forall cfg s, exists s', step cfg s EStop = Some (s', []) /\ stop s' = true /\
  pc s' = pc s /\ workers s' = workers s /\ backlog s' = backlog s /\ accepted s' = accepted s.
Proof. exact c20_stop_always_enabled. Qed.
Print Assumptions C20_stop_always_enabled.

(* once the shutdown socket is readable and no iteration is half-way, nothing is ever accepted again *)
Theorem C20_shutdown_no_accept : forall cfg s e s' o, closing s -> step cfg s e = Some (s', o) ->
  closing s' /\ accepted s' = accepted s /\ forall l c, ~ In (OAccepted l c) o.
Proof. exact c20_shutdown_no_accept. Qed.
Print Assumptions C20_shutdown_no_accept.

(* in general at most ONE accept follows the shutdown request (an iteration whose select had returned before) *)
Theorem C20_shutdown_at_most_one : forall cfg evs s s' o, stop s = true -> run cfg s evs = Some (s', o) ->
  (length (accepted s') <= length (accepted s) + 1)%nat /\ (closing s -> accepted s' = accepted s).
Proof. exact c20_shutdown_at_most_one. Qed.
Print Assumptions C20_shutdown_at_most_one.

(* blocked in select when the request arrives: select returns, the body breaks before reaping or accepting *)
Theorem C20_shutdown_break : forall cfg s rlw rll, pc s = PSelect rlw rll -> stop s = true ->
  exists s1 s2 rw rls, step cfg s LSelect = Some (s1, [ORset rw rls true]) /\
    step cfg s1 (LBody None) = Some (s2, [OBreak]) /\ pc s2 = PFinal /\
    workers s2 = workers s /\ accepted s2 = accepted s /\
    forall acc, acc <> None -> step cfg s1 (LBody acc) = None.
Proof. exact c20_shutdown_break. Qed.
Print Assumptions C20_shutdown_break.

(* serve() cannot return while a connection it accepted is unfinished ... *)
Theorem C20_final_blocks : forall cfg s w rest, pc s = PFinal -> workers s = w :: rest -> is_done w = false ->
  step cfg s LFinal = None /\ step cfg s LClose = None.
Proof. exact c20_final_blocks. Qed.
Print Assumptions C20_final_blocks.

(* ... it does return once all have finished ... *)
Theorem C20_shutdown_returns : forall cfg ws s, pc s = PFinal -> workers s = ws -> (forall w, In w ws -> is_done w = true) ->
  exists evs s' o, Forall (fun e => e = LFinal \/ e = LClose) evs /\ run cfg s evs = Some (s', o) /\ pc s' = PDone
                   /\ accepted s' = accepted s.
Proof. exact c20_shutdown_returns. Qed.
Print Assumptions C20_shutdown_returns.

(* ... and when it has returned: shutdown had been requested, every accepted connection finished and was waited
   for, every request that entered the handler left it: with its response written, or aborted (500) by the
   socket timeout while the handler waited for the request body *)
Theorem C20_shutdown : forall cfg s, reachable cfg s -> pc s = PDone ->
  stop s = true /\ workers s = [] /\
  (forall c, In c (accepted s) -> exists o, In (c, o) (finished s)) /\
  (forall c, In c (entered s) -> In (c, OHandled) (finished s) \/ In (c, OAborted) (finished s)).
Proof. exact c20_shutdown. Qed.
Print Assumptions C20_shutdown.

(* ---- non-vacuity: the hypotheses above are met by concrete reachable states ---- *)
Theorem C20_nonvacuous_bound : exists s, reachable cfgA s /\ 0 < max_conn cfgA /\
  Z.of_nat (length (workers s)) = max_conn cfgA /\ Z.of_nat (handling s) = max_conn cfgA /\
  length (backlog s) = 2%nat /\ pc s = PSelect [0; 1]%N false.
Proof. exact ex_bound_tight. Qed.
Print Assumptions C20_nonvacuous_bound.

Theorem C20_nonvacuous_progress : (exists s, reachable cfgA s /\ pc s = PTop /\ stop s = false /\ backlog s <> [] /\
    below_limit cfgA (workers s) = true /\ length (workers s) = 1%nat) /\
  (exists s w o, reachable cfgA s /\ pc s = PSelect [0; 1]%N false /\ stop s = false /\
    In w (workers s) /\ w_st w = WDone o /\ backlog s <> []).
Proof. exact (conj ex_progress_accept ex_progress_reap). Qed.
Print Assumptions C20_nonvacuous_progress.

Theorem C20_nonvacuous_silent : exists s w rlw, reachable cfgA s /\ timeout_on cfgA = true /\ pc s = PSelect rlw false /\
  stop s = false /\ In w (workers s) /\ waits_for_client w = true /\ w_st w = WReading /\ w_cl w = CIdle /\
  Z.of_nat (length (workers s)) = max_conn cfgA /\ backlog s <> [].
Proof. exact ex_silent. Qed.
Print Assumptions C20_nonvacuous_silent.

(* silence inside the head (client 0) and with the body outstanding (client 1, inside the handler), a third client waits *)
Theorem C20_nonvacuous_silent_phases : exists s w0 w1, reachable cfgA s /\ timeout_on cfgA = true /\
  pc s = PSelect [0; 1]%N false /\ stop s = false /\ length (backlog s) = 1%nat /\
  In w0 (workers s) /\ w_st w0 = WReading /\ w_cl w0 = CPartial /\ waits_for_client w0 = true /\
  In w1 (workers s) /\ w_st w1 = WBody /\ w_cl w1 = CSent (with_body 5) false /\ waits_for_client w1 = true /\
  handling s = 1%nat /\ entered s = [1%N].
Proof. exact ex_silent_phases. Qed.
Print Assumptions C20_nonvacuous_silent_phases.

Theorem C20_nonvacuous_413 : exists s w r full z, reachable cfgA s /\ internal (gc cfgA) = true /\ 0 < max_len (gc cfgA) /\
  In w (workers s) /\ w_st w = WReading /\ w_cl w = CSent (RHttp r) full /\ r_cl r = ClInt z /\ max_len (gc cfgA) < z /\
  r_pref r = PrefOk /\ r_method r = true /\ r_wk r = WkNone.
Proof. exact ex_413. Qed.
Print Assumptions C20_nonvacuous_413.

Theorem C20_nonvacuous_shutdown :
  (exists s, reachable cfgA s /\ closing s /\ handling s = 2%nat /\ length (backlog s) = 2%nat) /\
  (exists s evs s' o, reachable cfgA s /\ stop s = true /\ run cfgA s evs = Some (s', o) /\
     length (accepted s') = S (length (accepted s))) /\
  (exists s w rest, reachable cfgA s /\ pc s = PFinal /\ workers s = w :: rest /\ is_done w = false) /\
  (exists s, reachable cfgA s /\ pc s = PDone /\ accepted s = [0; 1]%N /\ entered s = [0; 1]%N /\
     finished s = [(0%N, OHandled); (1%N, OHandled)]).
Proof. exact (conj ex_closing (conj ex_one_more_accept (conj ex_final_blocks ex_shutdown))). Qed.
Print Assumptions C20_nonvacuous_shutdown.
