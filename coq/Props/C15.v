(* C15 -- The store stays well-formed and failed requests leave it untouched.
   Statements only.  Model: Model/Handlers.v (the handlers of radicale/app over the ideal store), tied to the
   code by the correspondence run of checks/C15.py (responses and final store of every generated history). *)
From Coq Require Import List NArith Bool.
Import ListNotations.
Require Import RV.Lib.PyStr RV.Model.Store RV.Model.Handlers RV.Proofs.HandlersInv.
Open Scope N_scope.

(* Every request, valid or not, by any user under any rights policy and configuration, preserves the
   well-formedness invariant ... *)
Theorem C15_inv : forall cfg pol u s r, store_inv s -> store_inv (fst (handle cfg pol u s r)).
Proof. exact handle_inv. Qed.
Print Assumptions C15_inv.

(* ... hence after ANY history of requests starting from a well-formed store: *)
Theorem C15_history : forall cfg pol u rs s, store_inv s -> store_inv (fst (run_history cfg pol u s rs)).
Proof. exact run_history_inv. Qed.
Print Assumptions C15_history.

Theorem C15_initial : store_inv empty_store.
Proof. exact empty_store_inv. Qed.
Print Assumptions C15_initial.

(* What the invariant says: no two objects with one UID in a collection, a calendar or address book has no
   child collections, every stored object is valid for its collection's type. *)
Theorem C15_meaning : forall s, store_inv s ->
  forall p c, lookup s p = Some c ->
    NoDup (map uid_of (c_items c))
    /\ (c_tag c <> TNone -> forall q c', lookup s q = Some c' -> parent q = p -> q = [])
    /\ (forall n o, In (n, o) (c_items c) -> valid_for (c_tag c) o).
Proof. exact store_inv_meaning. Qed.
Print Assumptions C15_meaning.

(* A request answered with an error status leaves all collections, items and properties exactly as they
   were, apart from the automatic creation of the authenticated user's (empty) home collection. *)
Theorem C15_errors : forall cfg pol u s r,
  is_error (fst (snd (handle cfg pol u s r))) = true ->
  fst (handle cfg pol u s r) = ensure_home pol s u.
Proof. exact handle_error_unchanged. Qed.
Print Assumptions C15_errors.

Theorem C15_home_only : forall pol s u,
  ensure_home pol s u = s \/
  exists n, u = Some n /\ lookup s [n] = None /\ ensure_home pol s u = set_coll s [n] (mkColl TNone [] []).
Proof. exact ensure_home_only_home. Qed.
Print Assumptions C15_home_only.

(* Consequences for names, after any history (with C15_history): the parent of every collection is a plain collection
   without items -- so no name denotes an item and a collection at once -- and an item never has a collection as sibling. *)
Require RV.Proofs.C15Names.

Theorem C15_parent_plain_and_empty : forall s, store_inv s ->
  forall p c, lookup s p = Some c -> p <> [] ->
  exists pc, lookup s (parent p) = Some pc /\ c_tag pc = TNone /\ c_items pc = [].
Proof. exact RV.Proofs.C15Names.parent_of_collection_is_plain_and_empty. Qed.
Print Assumptions C15_parent_plain_and_empty.

Theorem C15_item_has_no_collection_sibling : forall s, store_inv s ->
  forall p pc o, resolve s p = NItem pc o -> forall q c, lookup s q = Some c -> q <> [] -> parent q <> parent p.
Proof. exact RV.Proofs.C15Names.item_has_no_collection_sibling. Qed.
Print Assumptions C15_item_has_no_collection_sibling.
