(* C06 -- Requests cannot escape the storage folder or touch internal files.
   Only statements; each closed by `exact` of a lemma from Proofs/, followed by Print Assumptions.
   PathGen / SyncTokGen are REGENERATED from /repo/radicale on every run. *)
From Coq Require Import List NArith Bool String.
Import ListNotations.
Require Import RV.Lib.PyStr RV.Model.Path RV.Model.Shell RV.Proofs.PathProofs RV.Proofs.ShellProofs RV.Proofs.C06Final.
Require RV.Gen.PathGen RV.Gen.SyncTokGen.
Open Scope list_scope. Open Scope N_scope.

(* What "safe component" means, in full: non-empty, no separator, not "." or "..". *)
Theorem C06_safe_component : forall p, PathGen.is_safe_path_component p = true <->
  p <> [] /\ contains_char slash p = false /\ p <> [dot] /\ p <> [dot; dot].
Proof. exact c06_safe_component. Qed.
Print Assumptions C06_safe_component.

(* For EVERY string, sanitize_path yields "/" + "/".join(parts) [+ "/"] with every part a safe component:
   no "..", no ".", no empty segment, no separator survives, whatever normpath did before. *)
Theorem C06_sanitize : forall s, exists parts tr,
  Forall (fun p => PathGen.is_safe_path_component p = true) parts
  /\ PathGen.sanitize_path s = render parts ++ tr
  /\ (tr = [] \/ (tr = [slash] /\ parts <> [])).
Proof. exact c06_sanitize. Qed.
Print Assumptions C06_sanitize.

(* A component is accepted for the file system iff it is non-empty, has no separator, does not begin
   with "." (lock, cache, props, temp files) and does not end with "~". *)
Theorem C06_fs_component : forall p, PathGen.is_safe_filesystem_path_component p = true <->
  p <> [] /\ contains_char slash p = false /\ startswith p [dot] = false /\ endswith p [tilde] = false.
Proof. exact c06_fs_component. Qed.
Print Assumptions C06_fs_component.

(* path_to_filesystem either refuses or returns root + "/" + c1 + "/" + ... with every ci file-system safe:
   lexically below the root, never a reserved name. *)
Theorem C06_to_fs : forall root sp f, root <> [] -> endswith root [slash] = false ->
  path_to_filesystem root sp = Some f ->
  exists parts, f = root ++ List.concat (map (cons slash) parts)
    /\ Forall (fun c => PathGen.is_safe_filesystem_path_component c = true) parts.
Proof. exact c06_to_fs. Qed.
Print Assumptions C06_to_fs.

(* An accepted sync-token name is 64 lower-case hex digits, hence one safe file name. *)
Theorem C06_token : forall t, SyncTokGen.check_token_name t = true ->
  List.length t = 64%nat /\ forallb is_hex t = true /\ PathGen.is_safe_filesystem_path_component t = true.
Proof. exact c06_token. Qed.
Print Assumptions C06_token.

(* sanitize_path is idempotent (so the `assert sanitize_path(path) == path` preconditions of strip_path /
   name_from_path hold for every path the gate hands to a handler) ... *)
Theorem C06_sanitize_idempotent : forall s, PathGen.sanitize_path (PathGen.sanitize_path s) = PathGen.sanitize_path s.
Proof. exact c06_sanitize_idempotent. Qed.
Print Assumptions C06_sanitize_idempotent.

(* ... and the components a handler sees are exactly the safe parts that survived. *)
Theorem C06_comps : forall s, comps (PathGen.sanitize_path s) = safe_parts s
  /\ Forall (fun p => PathGen.is_safe_path_component p = true) (safe_parts s).
Proof. exact c06_comps. Qed.
Print Assumptions C06_comps.

(* Client-controlled text is never interpreted by the shell that runs the storage hook: whatever the string,
   in any unquoted lexer state, sh reads shlex.quote(s) as exactly the characters of s appended to the current
   word, and ends in the unquoted state (no expansion, no operator, no word split). *)
Theorem C06_quote : forall s st, l_q st = QNone ->
  lex_run st (shlex_quote s) = Some (mkLex (l_done st) (Some (rev s ++ cur_chars st)) QNone).
Proof. exact shlex_quote_inert. Qed.
Print Assumptions C06_quote.

Theorem C06_hook_words : forall u p,
  sh_words (str "hook " ++ shlex_quote u ++ [32] ++ shlex_quote p) = Some [str "hook"; u; p].
Proof. exact hook_words. Qed.
Print Assumptions C06_hook_words.

(* The model of path_to_filesystem (Model/Path.v) is tied to the code statement by statement: the skeleton
   regenerated from radicale/pathutils.py on every run is the one the model was written from (a fold or rewrite of a
   component after the safety check, a dropped check or another join breaks this). *)
Require RV.Gen.PtfGen RV.Proofs.GenEqPtf.
Theorem C06_ptf_is_the_code : PtfGen.ptf_skeleton = GenEqPtf.ptf_expected.
Proof. exact GenEqPtf.Gen_ptf_skeleton_eq. Qed.
Print Assumptions C06_ptf_is_the_code.
