(* C06 -- Requests cannot escape the storage folder or touch internal files.
   Only statements; each closed by `exact` of a lemma from Proofs/, followed by Print Assumptions.
   PathGen / SyncTokGen are REGENERATED from /repo/radicale on every run. *)
From Coq Require Import List NArith Bool String.
Import ListNotations.
Require Import RV.Lib.PyStr RV.Model.Path RV.Model.Shell RV.Proofs.PathProofs RV.Proofs.ShellProofs RV.Proofs.C06Final.
Require RV.Gen.PathGen RV.Gen.SyncTokGen.
Open Scope list_scope. Open Scope N_scope.

(* What "safe component" means, in full: non-empty, no separator, not "." or "..". *)
Theorem C06_safe_component : forall p, PathGen.is_safe_path_component p = true <->
  p <> [] /\ contains_char slash p = false /\ p <> [dot] /\ p <> [dot; dot].
Proof. exact c06_safe_component. Qed.
Print Assumptions C06_safe_component.

(* For EVERY string, sanitize_path yields "/" + "/".join(parts) [+ "/"] with every part a safe component:
   no "..", no ".", no empty segment, no separator survives, whatever normpath did before. *)
Theorem C06_sanitize : forall s, exists parts tr,
  Forall (fun p => PathGen.is_safe_path_component p = true) parts
  /\ PathGen.sanitize_path s = render parts ++ tr
  /\ (tr = [] \/ (tr = [slash] /\ parts <> [])).
Proof. exact c06_sanitize. Qed.
Print Assumptions C06_sanitize.

(* A component is accepted for the file system iff it is non-empty, has no separator, does not begin
   with "." (lock, cache, props, temp files) and does not end with "~". *)
Theorem C06_fs_component : forall p, PathGen.is_safe_filesystem_path_component p = true <->
  p <> [] /\ contains_char slash p = false /\ startswith p [dot] = false /\ endswith p [tilde] = false.
Proof. exact c06_fs_component. Qed.
Print Assumptions C06_fs_component.

(* path_to_filesystem either refuses or returns root + "/" + c1 + "/" + ... with every ci file-system safe:
   lexically below the root, never a reserved name. *)
Theorem C06_to_fs : forall root sp f, root <> [] -> endswith root [slash] = false ->
  path_to_filesystem root sp = Some f ->
  exists parts, f = root ++ List.concat (map (cons slash) parts)
    /\ Forall (fun c => PathGen.is_safe_filesystem_path_component c = true) parts.
Proof. exact c06_to_fs. Qed.
Print Assumptions C06_to_fs.

(* An accepted sync-token name is 64 lower-case hex digits, hence one safe file name. *)
Theorem C06_token : forall t, SyncTokGen.check_token_name t = true ->
  List.length t = 64%nat /\ forallb is_hex t = true /\ PathGen.is_safe_filesystem_path_component t = true.
Proof. exact c06_token. Qed.
Print Assumptions C06_token.

(* sanitize_path is idempotent (so the `assert sanitize_path(path) == path` preconditions of strip_path /
   name_from_path hold for every path the gate hands to a handler) ... *)
Theorem C06_sanitize_idempotent : forall s, PathGen.sanitize_path (PathGen.sanitize_path s) = PathGen.sanitize_path s.
Proof. exact c06_sanitize_idempotent. Qed.
Print Assumptions C06_sanitize_idempotent.

(* ... and the components a handler sees are exactly the safe parts that survived. *)
Theorem C06_comps : forall s, comps (PathGen.sanitize_path s) = safe_parts s
  /\ Forall (fun p => PathGen.is_safe_path_component p = true) (safe_parts s).
Proof. exact c06_comps. Qed.
Print Assumptions C06_comps.

(* Client-controlled text is never interpreted by the shell that runs the storage hook: whatever the string,
   in any unquoted lexer state, sh reads shlex.quote(s) as exactly the characters of s appended to the current
   word, and ends in the unquoted state (no expansion, no operator, no word split). *)
Theorem C06_quote : forall s st, l_q st = QNone ->
  lex_run st (shlex_quote s) = Some (mkLex (l_done st) (Some (rev s ++ cur_chars st)) QNone).
Proof. exact shlex_quote_inert. Qed.
Print Assumptions C06_quote.

Theorem C06_hook_words : forall u p,
  sh_words (str "hook " ++ shlex_quote u ++ [32] ++ shlex_quote p) = Some [str "hook"; u; p].
Proof. exact hook_words. Qed.
Print Assumptions C06_hook_words.

(* The model of path_to_filesystem (Model/Path.v) is tied to the code statement by statement: the skeleton
   regenerated from radicale/pathutils.py on every run is the one the model was written from (a fold or rewrite of a
   component after the safety check, a dropped check or another join breaks this). *)
Require RV.Gen.PtfGen RV.Proofs.GenEqPtf.
Theorem C06_ptf_is_the_code : PtfGen.ptf_skeleton = GenEqPtf.ptf_expected.
Proof. exact GenEqPtf.Gen_ptf_skeleton_eq. Qed.
Print Assumptions C06_ptf_is_the_code.

(* ---- Handler-level confinement of the multifilesystem storage (extension).
   Gen/C06Sites.v is REGENERATED on every run by translate/t_c06sites.py: every call in radicale/storage/multifilesystem/*.py,
   multifilesystem_nolock.py and storage/__init__.py that hands a path to the operating system (open, os.*, os.path.*,
   TemporaryDirectory, shutil.*, rename_exchange, RwLock, the base of path_to_filesystem, the three pinned helpers), with the
   syntactic provenance of the path; parameters of internal functions are resolved through the table `calls` of all their
   call sites; parameters of the PUBLIC storage methods (what radicale/app hands over) are arbitrary strings.
   [den] (Model/C06Prov.v) is the set of values a provenance term can take; what it trusts is listed in notes/C06.md. *)
Require Import RV.Model.C06Prov RV.Proofs.C06SitesProofs.
Require RV.Gen.C06Sites.

(* The reflective checker is sound: if it accepts a table, every value of every site is a path made of safe components
   below a configured folder (never VOut, the parent of the folder), and every client-chosen component passed
   is_safe_filesystem_path_component. *)
Theorem C06_sites_ok_sound : forall calls sites, sites_ok calls sites = true ->
  forall s, In s sites -> forall v, den calls (s_prov s) v -> good v.
Proof. exact sites_ok_sound. Qed.
Print Assumptions C06_sites_ok_sound.

(* It accepts the table regenerated from the current source (vm_compute). *)
Theorem C06_sites_checked : sites_ok C06Sites.calls C06Sites.sites = true.
Proof. exact Gen_c06_sites_ok. Qed.
Print Assumptions C06_sites_checked.

(* Hence, for EVERY site of the current storage code and every value its path argument can take: the string the
   operating system receives is root/c1/../cn with every ci a safe component (no "..", ".", "", no separator: lexically
   inside the folder), and no component chosen by a client begins with "." (so none names .Radicale.lock, .Radicale.cache,
   .Radicale.props, .Radicale.tmp-NNN) or ends with "~". *)
Theorem C06_sites_confined : forall s, In s C06Sites.sites ->
  forall root cs, den C06Sites.calls (s_prov s) (VP cs) ->
  (exists parts, fs_render root cs = root ++ List.concat (map (cons slash) parts)
                 /\ Forall (fun p => PathGen.is_safe_path_component p = true) parts)
  /\ (forall c, In (true, c) cs ->
        PathGen.is_safe_filesystem_path_component c = true /\ startswith c [dot] = false /\ endswith c [tilde] = false).
Proof. exact c06_sites_confined_gen. Qed.
Print Assumptions C06_sites_confined.

(* No site can receive the parent of a configured folder (os.path.dirname applied once too often). *)
Theorem C06_sites_never_outside : forall s, In s C06Sites.sites -> ~ den C06Sites.calls (s_prov s) VOut.
Proof. exact c06_sites_never_outside. Qed.
Print Assumptions C06_sites_never_outside.

(* The semantic rules for path_to_filesystem and os.path.join are what the modelled functions do on a confined path
   (the first one is C06_to_fs applied to the rendered base). *)
Theorem C06_sites_ptf_rule : forall root cs sp f, root <> [] -> endswith root [slash] = false ->
  Forall good_c cs -> path_to_filesystem (fs_render root cs) sp = Some f ->
  exists parts, Forall (fun p => is_safe_filesystem_path_component p = true) parts
    /\ f = fs_render root (cs ++ map (pair true) parts).
Proof. exact ptf_bridge. Qed.
Print Assumptions C06_sites_ptf_rule.

Theorem C06_sites_join_rule : forall root cs x, root <> [] -> endswith root [slash] = false ->
  Forall good_c cs -> good_c x -> posix_join (fs_render root cs) (snd x) = fs_render root (cs ++ [x]).
Proof. exact join_bridge. Qed.
Print Assumptions C06_sites_join_rule.

(* ---- The application side: every call in radicale/app/NAME.py of a storage entry point (discover, create_collection,
   acquire_lock(path=), upload, delete, move, get_multi, sync) with the way its string argument was obtained, REGENERATED
   on every run.  The checker accepts a path argument only if it is built from results of pathutils.sanitize_path
   (a prefix-stripped suffix, a parent, the path parameter the gate hands to the handlers) or is the principal path of a
   login name that passed is_safe_path_component; a name argument only if it is the last component of such a path, was
   checked by name_from_path, or came back from the storage.  This is a ROUTING statement about the source text
   (Routed / Named are syntactic); the confinement itself (C06_sites_confined) does not depend on it. *)
Theorem C06_app_sites_ok_sound : forall calls sites, app_sites_ok calls sites = true ->
  forall s, In s sites ->
  match a_role s with
  | RPath => Routed calls (a_prov s)
  | RName => Named calls (a_prov s)
  | RToken => True
  end.
Proof. exact app_sites_ok_sound. Qed.
Print Assumptions C06_app_sites_ok_sound.

Theorem C06_app_sites_checked : app_sites_ok C06Sites.app_calls C06Sites.app_sites = true.
Proof. exact Gen_c06_app_sites_ok. Qed.
Print Assumptions C06_app_sites_checked.

Theorem C06_app_sites_routed : forall s, In s C06Sites.app_sites ->
  match a_role s with
  | RPath => Routed C06Sites.app_calls (a_prov s)
  | RName => Named C06Sites.app_calls (a_prov s)
  | RToken => True
  end.
Proof. exact c06_app_sites_routed. Qed.
Print Assumptions C06_app_sites_routed.

(* ---- The static web pages: every `X.joinpath(arg)` (and every file-system call) of radicale/httputils.py and
   radicale/web/NAME.py, REGENERATED on every run.  A request-derived component must have passed
   is_safe_filesystem_path_component with no transformation in between (a decoding step after the check is PUnknown). *)
Theorem C06_web_sites_checked : sites_ok C06Sites.web_calls C06Sites.web_sites = true.
Proof. exact Gen_c06_web_sites_ok. Qed.
Print Assumptions C06_web_sites_checked.

Theorem C06_web_sites_confined : forall s, In s C06Sites.web_sites ->
  forall c, den C06Sites.web_calls (s_prov s) (VC c) ->
  is_safe_path_component (snd c) = true /\ (fst c = true -> is_safe_filesystem_path_component (snd c) = true).
Proof. exact c06_web_sites_confined. Qed.
Print Assumptions C06_web_sites_confined.
