(* C13 -- The item cache never changes what clients see.
   Only statements; each closed by `exact` of a lemma from Proofs/, followed by Print Assumptions.

   Model: RV.Model.Cache (hand-written after radicale/storage/multifilesystem/{cache,get,upload,move,delete,
   create_collection}.py; tied to the code by the correspondence check of checks/C13.py on every run).

   Reading guide.
   * [derive v b] : what the server computes from the bytes [b] on a cache miss under cache version [v]
     (None = the code raises).  All theorems hold for EVERY such function.
   * [U] : the set of item-file versions (bytes, size, mtime) that exist at some time of the history.
   * [cache_sound derive U ca] : every entry file is one the server itself wrote at some time -- for some file
     version in U, keyed in either mode, under any cache version, at any name and location -- or is unreadable in one
     of the ways _load_item_cache swallows.  Nothing relates an entry to the CURRENT file of its name.
   * [stat_ok U] : the assumption of the mtime+size mode, a HYPOTHESIS of the theorems (needed only when the
     configuration is in that mode: [mode_ok U g]): among the versions of the history, size and mtime identify
     the bytes.  [C13_stat_assumption_needed] shows that it cannot be dropped. *)
From Coq Require Import List NArith Bool.
Import ListNotations.
Require Import RV.Model.Cache RV.Proofs.CacheProofs RV.Proofs.C13Final.
Open Scope N_scope.

(* _get answers exactly what a cache-less server answers, whatever the (sound) cache holds -- also when another
   reader changed the cache between the first look-up and the re-check under the cache lock ([ca2]). *)
Theorem C13_get : forall (D : Type) (derive : N -> content -> option D) (U : file -> Prop)
    g lk cleaned fs (ca ca2 : @cache D) c h,
  mode_ok U g -> files_in U fs -> cache_sound derive U ca -> cache_sound derive U ca2 ->
  o_res (get_at derive g lk cleaned fs ca ca2 c h) = cold derive g (flook fs c h).
Proof. exact @c13_get. Qed.
Print Assumptions C13_get.

(* Whole histories.  A handler is ANY program over the storage calls (_get, _list, upload, create_collection
   with items, move, delete); the configuration (key mode, cache location, cache version, skip_broken_item) may
   differ from request to request; item files may be replaced by other means between requests; before every step
   somebody may delete entries / collections' caches / everything, or put back entries the server wrote earlier.
   Two runs of the same history over the same files, with different sound caches and different manipulations, give
   the same responses and the same files, and both caches stay sound. *)
Theorem C13_equiv : forall (D : Type) (derive : N -> content -> option D) (U : file -> Prop)
    (R : Type) (hs : list (@hstep D R)) advs1 advs2 s1 s2,
  Forall (hstep_ok derive U) hs ->
  Forall (Forall (adv_ok derive U)) advs1 -> Forall (Forall (adv_ok derive U)) advs2 ->
  st_ok derive U s1 -> st_ok derive U s2 -> s_files s1 = s_files s2 ->
  fst (run_hist derive hs advs1 s1) = fst (run_hist derive hs advs2 s2)
  /\ s_files (snd (run_hist derive hs advs1 s1)) = s_files (snd (run_hist derive hs advs2 s2))
  /\ cache_sound derive U (s_cache (snd (run_hist derive hs advs1 s1)))
  /\ cache_sound derive U (s_cache (snd (run_hist derive hs advs2 s2))).
Proof. exact @c13_equiv. Qed.
Print Assumptions C13_equiv.

(* ... and both equal the history run on a server that has no cache at all. *)
Theorem C13_cacheless : forall (D : Type) (derive : N -> content -> option D) (U : file -> Prop)
    (R : Type) (hs : list (@hstep D R)) advs s,
  Forall (hstep_ok derive U) hs -> Forall (Forall (adv_ok derive U)) advs -> st_ok derive U s ->
  fst (run_hist derive hs advs s) = fst (run_hist_spec derive hs (s_files s))
  /\ s_files (snd (run_hist derive hs advs s)) = snd (run_hist_spec derive hs (s_files s))
  /\ st_ok derive U (snd (run_hist derive hs advs s)).
Proof. exact @run_hist_refines. Qed.
Print Assumptions C13_cacheless.

(* One request (the form used per request by the check). *)
Theorem C13_equiv_request : forall (D : Type) (derive : N -> content -> option D) (U : file -> Prop)
    (R : Type) g lk (p : @prog D R) r1 r2,
  mode_ok U g -> prog_ok derive U g p -> st_ok derive U (r_st r1) -> st_ok derive U (r_st r2) ->
  s_files (r_st r1) = s_files (r_st r2) ->
  fst (run derive g lk p r1) = fst (run derive g lk p r2)
  /\ s_files (r_st (snd (run derive g lk p r1))) = s_files (r_st (snd (run derive g lk p r2)))
  /\ cache_sound derive U (s_cache (r_st (snd (run derive g lk p r1))))
  /\ cache_sound derive U (s_cache (r_st (snd (run derive g lk p r2)))).
Proof. exact @c13_equiv_request. Qed.
Print Assumptions C13_equiv_request.

(* Every cache write of the model keeps the cache sound, in either key mode and either location (no assumption on
   the mode is needed for this), and a key of the other mode or of another cache version never equals a current key. *)
Theorem C13_writes_sound : forall (D : Type) (derive : N -> content -> option D) (U : file -> Prop) g,
    (forall ca c h f d, cache_sound derive U ca -> U f -> derive (g_ver g) (f_bytes f) = Some d ->
       cache_sound derive U (store_item_cache g ca c h (key_of g f) d))
    /\ (forall lk cl fs ca ca2 c h, files_in U fs -> cache_sound derive U ca -> cache_sound derive U ca2 ->
       cache_sound derive U (o_cache (get_at derive g lk cl fs ca ca2 c h)))
    /\ (forall fs ca c, cache_sound derive U ca -> cache_sound derive U (clean_item_cache g fs ca c))
    /\ (forall s c h f d, st_ok derive U s -> U f -> derive (g_ver g) (f_bytes f) = Some d ->
       st_ok derive U (upload_write g s c h f d))
    /\ (forall s c items, st_ok derive U s -> Forall (item_ok derive U g) items ->
       st_ok derive U (create_collection g s c items))
    /\ (forall s c h c2 h2 s', st_ok derive U s -> move_item g s c h c2 h2 = Some s' -> st_ok derive U s')
    /\ (forall s c h s', st_ok derive U s -> delete_item g s c h = Some s' -> st_ok derive U s')
    /\ (forall s c, st_ok derive U s -> st_ok derive U (delete_coll s c))
    /\ (forall g' f f', (g_mode g <> g_mode g' \/ g_ver g <> g_ver g') ->
       ckey_eqb (key_of g f) (key_of g' f') = false).
Proof. exact @c13_writes_sound. Qed.
Print Assumptions C13_writes_sound.

(* Manipulations by others keep the cache sound when what is put back is an entry the server wrote. *)
Theorem C13_manipulations_sound : forall (D : Type) (derive : N -> content -> option D) (U : file -> Prop) a ca,
  adv_ok derive U a -> cache_sound derive U ca -> cache_sound derive U (adv_apply a ca).
Proof. exact @adv_apply_sound. Qed.
Print Assumptions C13_manipulations_sound.

(* An item file replaced by other means is served with the new content ... *)
Theorem C13_external_edit : forall (D : Type) (derive : N -> content -> option D) (U : file -> Prop)
    g lk cleaned fs (ca : @cache D) c h f',
  mode_ok U g -> files_in U fs -> cache_sound derive U ca -> U f' ->
  o_res (get derive g lk cleaned (aput fkey_eqb fs (c, h) f') ca c h) = cold derive g (Some f').
Proof. exact @c13_external_edit. Qed.
Print Assumptions C13_external_edit.

(* ... stated locally, with no assumption on the rest of the cache or on U: the entry under the name is absent,
   unreadable or the one written for the previous file; the new file has other bytes (hash mode), another size or
   another mtime (stat mode). *)
Theorem C13_external_edit_local : forall (D : Type) (derive : N -> content -> option D)
    g lk cleaned fs (ca : @cache D) c h fold f',
  entry_for_old g ca c h fold -> changed g fold f' ->
  o_res (get derive g lk cleaned (aput fkey_eqb fs (c, h) f') ca c h) = cold derive g (Some f').
Proof. exact @c13_external_edit_local. Qed.
Print Assumptions C13_external_edit_local.

(* The stat-mode assumption cannot be dropped: same size and same mtime but other bytes -> the old entry is served. *)
Theorem C13_stat_assumption_needed : forall (D : Type) (derive : N -> content -> option D)
    g lk cleaned fs (ca : @cache D) c h fold f' dold,
  g_mode g = MStat -> f_size f' = f_size fold -> f_mtime f' = f_mtime fold ->
  clook ca (g_loc g) c h = Some (EOk (key_of g fold) dold) ->
  o_res (get derive g lk cleaned (aput fkey_eqb fs (c, h) f') ca c h) = GItem dold.
Proof. exact @stat_same_stat_is_stale. Qed.
Print Assumptions C13_stat_assumption_needed.

(* "unless Radicale rewrote the entry": after an upload the uploaded content is answered, with no assumption at all. *)
Theorem C13_upload_then_get : forall (D : Type) (derive : N -> content -> option D) g lk r obj c h f d,
  fst (fst (exec_op derive g lk (OUpload obj c h f d) r)) = RGet (GItem d).
Proof. exact @upload_then_get. Qed.
Print Assumptions C13_upload_then_get.

(* Non-vacuity: a concrete derive / U / files / cache (stale entry of the same name, entry of the other mode, of
   another version, unreadable entry, other location) satisfy all hypotheses; see Proofs/C13Final.v, Module Example. *)
Theorem C13_nonvacuous :
  stat_ok Example.U /\ files_in Example.U Example.ex_files /\ cache_sound Example.derive Example.U Example.ex_cache
  /\ prog_ok Example.derive Example.U Example.gS Example.ex_prog
  /\ o_res (get Example.derive Example.gS LkR false Example.ex_files Example.ex_cache 1 7) = GItem 1005
  /\ o_res (get Example.derive Example.gH LkR false Example.ex_files [((LIn, 1, 7), EOk (KHash 1 5) 4242)] 1 7) = GItem 4242.
Proof.
  exact (conj Example.ex_stat_ok (conj Example.ex_files_in (conj Example.ex_cache_sound
        (conj Example.ex_prog_ok (conj Example.ex_get_stat Example.ex_unsound))))).
Qed.
Print Assumptions C13_nonvacuous.
