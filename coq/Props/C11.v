(* C11 -- The storage lock is a correct readers-writer lock under every schedule.
   Only statements; each closed by `exact` of lemmas from Proofs/, followed by Print Assumptions.

   Three transition systems (Model/RwLockCond.v, Model/RwLockFile.v, Model/LockDict.v), each for an ARBITRARY
   number of threads (processes, keys), each following the Python line by line at the granularity of the blocking
   primitives.  `reachable s` = s is reached from an initial state (any thread programs) by ANY schedule.
   Everything below is an invariant of all reachable states, or a statement about every enabled step. *)
From Coq Require Import List Arith Bool ZArith.
Import ListNotations.
Require Import RV.Model.C11Base.
Require Import RV.Model.RwLockCond RV.Proofs.RwLockCondInv RV.Proofs.RwLockCondThms.
Require Import RV.Model.RwLockFile RV.Proofs.RwLockFileInv RV.Proofs.RwLockFileThms.
Require Import RV.Model.LockDict RV.Proofs.LockDictInv RV.Proofs.LockDictThms.
Require Import RV.Proofs.C11Examples.
Require Import RV.Model.FlockInode RV.Proofs.FlockInodeProofs.
Require Import RV.Lib.PyStr RV.Model.C11LockIdent RV.Proofs.C11LockIdentProofs.
Open Scope nat_scope.

(* ================================================================== C11_mutex: readers xor one writer *)
(* in-process lock (multifilesystem_nolock.RwLock) and file lock (pathutils.RwLock, all processes together):
   at most one writer is inside the `with` body, and then no reader is *)
Theorem C11_mutex :
  (forall s, reachable s -> writers_in_cs s <= 1 /\ (writers_in_cs s = 1 -> readers_in_cs s = 0)) /\
  (forall s, freachable s ->
     count (fin_cs W) (thr s) <= 1 /\ (count (fin_cs W) (thr s) = 1 -> count (fin_cs R) (thr s) = 0)).
Proof. exact (conj cond_mutex file_mutex). Qed.
Print Assumptions C11_mutex.

(* the same for the wider region in which the lock object counts the thread as holder (from the bookkeeping
   update of acquire to the one of release) resp. in which the descriptor owns its flock lock *)
Theorem C11_mutex_holding :
  (forall s, reachable s -> writers_holding s <= 1 /\ (writers_holding s = 1 -> readers_holding s = 0)) /\
  (forall s, freachable s ->
     count (fheld W) (thr s) <= 1 /\ (count (fheld W) (thr s) = 1 -> count (fheld R) (thr s) = 0)).
Proof. exact (conj cond_mutex_holding file_mutex_flock). Qed.
Print Assumptions C11_mutex_holding.

(* pairwise form: two different threads that hold at the same time are both readers *)
Theorem C11_mutex_pairwise :
  (forall s t u th thu, reachable s -> t <> u -> thr_at s t th -> thr_at s u thu ->
     holds_pc (t_pc th) = true -> holds_pc (t_pc thu) = true -> t_mode th = R /\ t_mode thu = R) /\
  (forall s t u th thu, freachable s -> t <> u -> fthr_at s t th -> fthr_at s u thu ->
     flock_pc (f_pc th) = true -> flock_pc (f_pc thu) = true -> f_mode th = R /\ f_mode thu = R).
Proof. exact (conj cond_mutex_pair file_mutex_pair). Qed.
Print Assumptions C11_mutex_pairwise.

(* ================================================================== C11_bookkeeping *)
(* _readers / _writer are exactly the holders; hence `locked` answers "r" / "w" / "" exactly when held so *)
Theorem C11_bookkeeping : forall s, reachable s ->
  (readers (glob s) = Z.of_nat (readers_holding s) /\
   (writer (glob s) = true <-> writers_holding s = 1) /\
   (writer (glob s) = false <-> writers_holding s = 0)) /\
  ((locked_val (glob s) = LR <-> readers_holding s > 0) /\
   (locked_val (glob s) = LW <-> writers_holding s = 1) /\
   (locked_val (glob s) = LFree <-> readers_holding s = 0 /\ writers_holding s = 0)).
Proof. exact (fun s H => conj (cond_bookkeeping s H) (cond_locked_val s H)). Qed.
Print Assumptions C11_bookkeeping.

(* a holder that asks `locked` gets its own mode, and "w" means the caller is the ONLY holder: the fact that
   Collection._acquire_cache_lock uses to skip the cache lock under the exclusive storage lock *)
Theorem C11_locked_in_cs : forall s t th, reachable s -> thr_at s t th -> t_pc th = Q_Read ->
  locked_val (glob s) = (match t_mode th with R => LR | W => LW end) /\
  (locked_val (glob s) = LW -> writers_holding s = 1 /\ readers_holding s = 0).
Proof. exact cond_locked_in_cs. Qed.
Print Assumptions C11_locked_in_cs.

(* file lock: per RwLock object (= per process p) *)
Theorem C11_bookkeeping_file : forall s p, freachable s -> p < List.length (procs (glob s)) ->
  (p_readers (proc_of (glob s) p) = Z.of_nat (count (fholds_in p R) (thr s)) /\
   (p_writer (proc_of (glob s) p) = true <-> count (fholds_in p W) (thr s) = 1) /\
   (p_writer (proc_of (glob s) p) = false <-> count (fholds_in p W) (thr s) = 0)) /\
  ((flocked_val (proc_of (glob s) p) = FLR <-> count (fholds_in p R) (thr s) > 0) /\
   (flocked_val (proc_of (glob s) p) = FLW <-> count (fholds_in p W) (thr s) = 1) /\
   (flocked_val (proc_of (glob s) p) = FLFree <->
      count (fholds_in p R) (thr s) = 0 /\ count (fholds_in p W) (thr s) = 0)).
Proof. exact (fun s p H Hp => conj (file_bookkeeping s p H Hp) (file_locked_val s p H Hp)). Qed.
Print Assumptions C11_bookkeeping_file.

Theorem C11_locked_in_cs_file : forall s t th, freachable s -> fthr_at s t th -> f_pc th = FQ_Read ->
  flocked_val (proc_of (glob s) (f_proc th)) = (match f_mode th with R => FLR | W => FLW end).
Proof. exact file_locked_in_cs. Qed.
Print Assumptions C11_locked_in_cs_file.

(* the RuntimeError("Locking the storage failed: Guarantees failed") branch is unreachable: no thread is ever
   on the error path, and the test always passes when it is evaluated *)
Theorem C11_file_guarantees_hold :
  (forall s t th, freachable s -> fthr_at s t th -> failed_pc (f_pc th) = false) /\
  (forall s t th, freachable s -> fthr_at s t th -> f_pc th = F_Check ->
     guard_fails (f_mode th) (proc_of (glob s) (f_proc th)) = false).
Proof. exact (conj file_no_failure file_check_passes). Qed.
Print Assumptions C11_file_guarantees_hold.

(* ================================================================== C11_no_lost_wakeup *)
(* a thread blocked un-notified on the condition has a false predicate -- except in the window between the
   releaser's bookkeeping update and its notify_all, which the releaser (holding the mutex, so nothing else
   can change the lock) closes by notifying every waiter: `notifying s` *)
Theorem C11_no_lost_wakeup : forall s t th, reachable s -> thr_at s t th -> waiting_unnotified s t ->
  pred (t_mode th) (glob s) = true -> notifying s.
Proof. exact cond_no_lost_wakeup. Qed.
Print Assumptions C11_no_lost_wakeup.

Theorem C11_no_lost_wakeup_mutex_free : forall s t th, reachable s -> thr_at s t th -> waiting_unnotified s t ->
  mutex (glob s) = None -> pred (t_mode th) (glob s) = false.
Proof. exact cond_no_lost_wakeup_free. Qed.
Print Assumptions C11_no_lost_wakeup_mutex_free.

(* Condition._waiters is exactly the set of threads blocked on a still-locked waiter lock *)
Theorem C11_waiters_exact : forall s t, reachable s ->
  (waiting_unnotified s t <->
   exists th, thr_at s t th /\ (t_pc th = A_WRel \/ (t_pc th = A_Blocked /\ ~ In t (notified (glob s))))).
Proof. exact cond_waiters_exact. Qed.
Print Assumptions C11_waiters_exact.

(* ================================================================== C11_no_deadlock *)
(* as long as some thread has not finished its program, some thread can take a step (in the model a thread
   inside its critical section can always proceed to release, so the "all wait for a holder that stays inside"
   disjunct of the design collapses into `enabled`) *)
Theorem C11_no_deadlock :
  (forall s, reachable s -> (exists t th, thr_at s t th /\ t_pc th <> Done) -> exists t, RwLockCond.enabled s t = true) /\
  (forall s, freachable s -> (exists t th, fthr_at s t th /\ f_pc th <> F_Done) -> exists t, fenabled s t = true) /\
  (forall s, lreachable s -> (exists t th, lthr_at s t th /\ l_pc th <> D_Done) -> exists t, lenabled s t = true).
Proof. exact (conj cond_no_deadlock (conj file_no_deadlock ld_no_deadlock)). Qed.
Print Assumptions C11_no_deadlock.

(* ================================================================== C11_eventually *)
(* Progress, as promised by the property: "once the holders that exclude it have left".  Python's Lock is not
   fair and the lock prefers readers, so inevitability under weak fairness does NOT hold and is not claimed
   (see ex_cond_reader_preference).  What holds in every reachable state:
   (a) the mutex owner, running alone, frees the mutex within a bounded number of its own steps;
   (b) a requester that no holder (or already-granted thread) excludes takes the lock within 5 of its OWN steps
       as soon as the mutex is free -- no step of any other thread is needed, un-notified waiting included;
   (c) a holder, running alone, leaves. *)
Theorem C11_eventually : forall s, reachable s ->
  (forall u, mutex (glob s) = Some u ->
     exists k s', k <= List.length (waiters (glob s)) + 4 /\ RwLockCond.run_n u k s = Some s' /\ mutex (glob s') = None) /\
  (forall t th, thr_at s t th -> requesting_pc (t_pc th) = true -> not_excluded s t (t_mode th) ->
     (mutex (glob s) = None \/ mutex (glob s) = Some t) ->
     exists k s', k <= 5 /\ RwLockCond.run_n t k s = Some s' /\ thr_at s' t (set_pc th A_Unlock)) /\
  (forall t th, thr_at s t th -> t_pc th = InCS -> mutex (glob s) = None ->
     exists k s' th', k <= 3 * t_q th + 3 /\ RwLockCond.run_n t k s = Some s' /\ thr_at s' t th' /\ holds_pc (t_pc th') = false).
Proof.
  exact (fun s H => conj (fun u => cond_mutex_released s u H)
                   (conj (fun t th => cond_eventually s t th H) (fun t th => cond_holder_leaves s t th H))).
Qed.
Print Assumptions C11_eventually.

(* file lock: "not excluded" = the kernel can grant the flock request *)
Theorem C11_eventually_file : forall s, freachable s ->
  (forall p u, p_mutex (proc_of (glob s) p) = Some u ->
     exists k s', k <= 3 /\ frun_n u k s = Some s' /\ p_mutex (proc_of (glob s') p) = None) /\
  (forall t th, fthr_at s t th ->
     ((f_pc th = F_Flock /\ f_fail th = false /\ kcompat (f_mode th) (glob s) = true) \/ f_pc th = F_Lock1) ->
     p_mutex (proc_of (glob s) (f_proc th)) = None ->
     exists k s', k <= 4 /\ frun_n t k s = Some s' /\ fthr_at s' t (fset_pc th F_Unlock1)) /\
  (forall t th, fthr_at s t th -> f_pc th = F_InCS -> p_mutex (proc_of (glob s) (f_proc th)) = None ->
     exists k s' th', k <= 3 * f_q th + 4 /\ frun_n t k s = Some s' /\ fthr_at s' t th' /\ flock_pc (f_pc th') = false).
Proof.
  exact (fun s H => conj (fun p u => file_mutex_released s p u H)
                   (conj (fun t th => file_eventually s t th H) (fun t th => file_holder_leaves s t th H))).
Qed.
Print Assumptions C11_eventually_file.

(* ================================================================== C11_lockdict *)
(* same-key holders <= 1 (holder = passed or skipped `waiter.acquire()`, not yet removed from the deque) *)
Theorem C11_lockdict_mutex :
  (forall s k, lreachable s -> count (holds_key k) (thr s) <= 1) /\
  (forall s t u th thu, lreachable s -> lthr_at s t th -> lthr_at s u thu ->
     entered th = true -> entered thu = true -> l_key th = l_key thu -> t = u).
Proof. exact (conj ld_mutex_count ld_mutex). Qed.
Print Assumptions C11_lockdict_mutex.

(* FIFO per key: a deque changes only by the arriving thread appending itself at the tail or the leaving thread
   removing itself from the head; the holder is the head; everybody behind the head is parked on its own lock *)
Theorem C11_lockdict_fifo :
  (forall s t s' d, lstep s t = Some s' ->
     dq (glob s') d = dq (glob s) d \/ dq (glob s') d = dq (glob s) d ++ [t] \/ dq (glob s) d = t :: dq (glob s') d) /\
  (forall s t th, lreachable s -> lthr_at s t th -> entered th = true ->
     lookup (l_key th) (d_dict (glob s)) = Some (l_dq th) /\ exists rest, dq (glob s) (l_dq th) = t :: rest) /\
  (forall s k d x rest u thu, lreachable s -> lookup k (d_dict (glob s)) = Some d -> dq (glob s) d = x :: rest ->
     In u rest -> lthr_at s u thu -> parked (glob s) u thu /\ l_key thu = k).
Proof. exact (conj ld_fifo_step (conj ld_holder_is_head ld_behind_parked)). Qed.
Print Assumptions C11_lockdict_fifo.

(* a release wakes exactly the next waiter of that key: the step at `waiters[0].release()` unlocks the lock of
   the (parked, same-key) head and nothing else; a parked head always has this step pending (no lost wake-up) *)
Theorem C11_lockdict_wake :
  (forall s u thu, lreachable s -> lthr_at s u thu -> l_pc thu = D_Wake ->
     exists w rest thw s',
       dq (glob s) (l_dq thu) = w :: rest /\ lthr_at s w thw /\ l_key thw = l_key thu /\ parked (glob s) w thw /\
       lstep s u = Some s' /\ d_unlocked (glob s') = w :: d_unlocked (glob s) /\
       d_deques (glob s') = d_deques (glob s) /\ d_dict (glob s') = d_dict (glob s)) /\
  (forall s k d x rest thx, lreachable s -> lookup k (d_dict (glob s)) = Some d -> dq (glob s) d = x :: rest ->
     lthr_at s x thx -> parked (glob s) x thx -> wake_pending s d).
Proof. exact (conj ld_wake_exact ld_no_lost_wakeup). Qed.
Print Assumptions C11_lockdict_wake.

(* other keys are never blocked: a parked thread is behind a thread of the SAME key (or its wake-up is pending);
   the dict entry of a key exists only while some thread is in that key's acquire/release region, is removed
   when the key is idle, and a thread arriving at an idle key does not wait *)
Theorem C11_lockdict_keys :
  (forall s t th, lreachable s -> lthr_at s t th -> parked (glob s) t th ->
     exists x rest thx, x <> t /\ dq (glob s) (l_dq th) = x :: rest /\ In t rest /\ lthr_at s x thx /\ l_key thx = l_key th
       \/ wake_pending s (l_dq th)) /\
  (forall s k d, lreachable s -> lookup k (d_dict (glob s)) = Some d ->
     exists u thu, lthr_at s u thu /\ l_key thu = k /\ refs_pc (l_pc thu) = true) /\
  (forall s k, lreachable s ->
     (forall u thu, lthr_at s u thu -> refs_pc (l_pc thu) = true -> l_key thu <> k) -> lookup k (d_dict (glob s)) = None) /\
  (forall s t th s', lreachable s -> lthr_at s t th -> l_pc th = D_Get ->
     (forall u thu, lthr_at s u thu -> refs_pc (l_pc thu) = true -> l_key thu <> l_key th) ->
     lstep s t = Some s' -> exists th', lthr_at s' t th' /\ l_pc th' = D_WInit /\ l_wait th' = false).
Proof. exact (conj ld_blocked_same_key (conj ld_entry_busy (conj ld_idle_removed ld_idle_no_wait))). Qed.
Print Assumptions C11_lockdict_keys.

(* the assertion `waiters[0] is waiter and self._dict[key] is waiters`, the IndexError of `waiters[0]` and the
   RuntimeError of releasing an unlocked lock can never happen; the mutex is always given back; a woken waiter
   enters with one step *)
Theorem C11_lockdict_safe :
  (forall s t th, lreachable s -> lthr_at s t th -> lfailed_pc (l_pc th) = false) /\
  (forall s u, lreachable s -> d_mutex (glob s) = Some u ->
     exists k s', k <= 3 /\ lrun_n u k s = Some s' /\ d_mutex (glob s') = None) /\
  (forall s t th, lthr_at s t th -> l_pc th = D_Wait -> In t (d_unlocked (glob s)) ->
     exists s' th', lstep s t = Some s' /\ lthr_at s' t th' /\ l_pc th' = D_InCS).
Proof. exact (conj ld_no_failure (conj ld_mutex_released ld_woken_enters)). Qed.
Print Assumptions C11_lockdict_safe.

(* Failed acquisitions (flock raising OSError; the "Guarantees failed" refusal) are events of RwLockFile.v: the
   theorems above hold in the states after them as well -- a failed attempt never touches _readers / _writer.
   Computed history: a reader holds; a write attempt and a read attempt of another thread of the same process fail;
   the bookkeeping still is "one reader"; later the reader leaves and a writer of that process is admitted. *)
Theorem C11_witness_failed_attempts :
  freachable fs_after_failures /\ p_readers (proc_of (glob fs_after_failures) 0) = 1%Z /\
  p_writer (proc_of (glob fs_after_failures) 0) = false /\ flocked_val (proc_of (glob fs_after_failures) 0) = FLR /\
  count (fholds_in 0 R) (thr fs_after_failures) = 1 /\ k_sh (glob fs_after_failures) = 1 /\
  match frun [0;0;0;0; 1;1;1;1;1] fs_after_failures with
  | Some s => count (fin_cs W) (thr s) = 1 /\ p_writer (proc_of (glob s) 0) = true /\ p_readers (proc_of (glob s) 0) = 0%Z
  | None => False
  end.
Proof. exact ex_file_failed_attempts. Qed.
Print Assumptions C11_witness_failed_attempts.

(* ================================================================== non-vacuity: the hypotheses are satisfiable *)
Theorem C11_witness_two_readers :
  reachable s_two_readers /\ readers_in_cs s_two_readers = 2 /\ writers_in_cs s_two_readers = 0.
Proof. exact ex_cond_two_readers. Qed.
Print Assumptions C11_witness_two_readers.

Theorem C11_witness_writer_and_waiters :
  reachable s_writer_in /\ writers_in_cs s_writer_in = 1 /\ readers_in_cs s_writer_in = 0 /\
  waiters (glob s_writer_in) = [1; 2] /\ writer (glob s_writer_in) = true /\ mutex (glob s_writer_in) = None /\
  RwLockCond.enabled s_writer_in 1 = false /\ RwLockCond.enabled s_writer_in 2 = false /\ RwLockCond.enabled s_writer_in 0 = true.
Proof. exact ex_cond_writer_in. Qed.
Print Assumptions C11_witness_writer_and_waiters.

Theorem C11_witness_wakeup_window :
  reachable s_window /\ waiting_unnotified s_window 1 /\ pred R (glob s_window) = true /\ notifying s_window.
Proof. exact ex_cond_window. Qed.
Print Assumptions C11_witness_wakeup_window.

Theorem C11_witness_file_two_processes :
  freachable fs_readers /\ count (fin_cs R) (thr fs_readers) = 2 /\ k_sh (glob fs_readers) = 2 /\
  fenabled fs_readers 2 = false /\
  p_readers (proc_of (glob fs_readers) 0) = 1%Z /\ p_readers (proc_of (glob fs_readers) 1) = 1%Z.
Proof. exact ex_file_two_procs. Qed.
Print Assumptions C11_witness_file_two_processes.

Theorem C11_witness_lockdict_busy :
  lreachable ls_busy /\ count (holds_key 5) (thr ls_busy) = 1 /\ count (holds_key 7) (thr ls_busy) = 1 /\
  lookup 5 (d_dict (glob ls_busy)) = Some 0 /\ dq (glob ls_busy) 0 = [0; 1; 3] /\
  lenabled ls_busy 1 = false /\ lenabled ls_busy 3 = false /\ lenabled ls_busy 2 = true.
Proof. exact ex_ld_busy. Qed.
Print Assumptions C11_witness_lockdict_busy.

Theorem C11_witness_eventually_applies :
  reachable s_reader_and_requester /\ readers_in_cs s_reader_and_requester = 1 /\
  thr_at s_reader_and_requester 1 (Th A_Lock R 0 [] LNone) /\ requesting_pc A_Lock = true /\
  not_excluded s_reader_and_requester 1 R /\ mutex (glob s_reader_and_requester) = None.
Proof. exact ex_cond_eventually_applies. Qed.
Print Assumptions C11_witness_eventually_applies.

(* ================================================================== C11_cachelock (file-lock back-end)
   CollectionPartLock._acquire_cache_lock: a fresh pathutils.RwLock on the per-collection lock FILE.  Kernel flock
   table keyed by the INODE of the open file description (Model/FlockInode.v).  As the code never removes the lock file,
   contenders for one lock path are served one at a time, for any number of threads, paths and any schedule ... *)
Theorem C11_cachelock_exclusive :
  (forall s t u th thu, creachable false s -> cthr_at s t th -> cthr_at s u thu ->
     cheld_pc (c_pc th) = true -> cheld_pc (c_pc thu) = true -> c_path th = c_path thu -> t = u) /\
  (forall s k, creachable false s -> count (in_cache_section k) (thr s) <= 1).
Proof. exact (conj cache_lock_exclusive cache_lock_exclusive_count). Qed.
Print Assumptions C11_cachelock_exclusive.

(* ... and this depends on it: if the holder unlinked the lock file when leaving, a waiter granted the orphaned inode
   and a newcomer granted a fresh inode of the same path are inside together (computed witness, 3 threads, 15 steps).
   The check therefore requires the file operations of _acquire_cache_lock to be exactly {makedirs, open, flock, close}. *)
Theorem C11_cachelock_unlink_refuted :
  creachable true unlink_witness /\ (count (in_cache_section 5) (thr unlink_witness) = 2) /\
  (exists th1 th2, cthr_at unlink_witness 1 th1 /\ cthr_at unlink_witness 2 th2 /\
                   c_pc th1 = C_Body /\ c_pc th2 = C_Body /\ c_path th1 = c_path th2 /\ c_ino th1 <> c_ino th2).
Proof. exact cache_lock_unlink_refuted. Qed.
Print Assumptions C11_cachelock_unlink_refuted.

Theorem C11_witness_cachelock :
  creachable false nounlink_state /\ (count (in_cache_section 5) (thr nounlink_state) = 1) /\ (cenabled nounlink_state 2 = false).
Proof. exact cache_lock_witness. Qed.
Print Assumptions C11_witness_cachelock.

(* failed open() of the lock file (EMFILE, EACCES, ...) is an event of Model/FlockInode.v (c_fail): the requester is refused
   and never enters the section, so C11_cachelock_exclusive covers the states after such failures too *)
Theorem C11_witness_cachelock_open_fault :
  creachable false open_fault_state /\ (count (in_cache_section 5) (thr open_fault_state) = 1) /\
  (exists th1, cthr_at open_fault_state 1 th1 /\ c_pc th1 = C_Done) /\ (cenabled open_fault_state 2 = false).
Proof. exact cache_lock_open_fault_witness. Qed.
Print Assumptions C11_witness_cachelock_open_fault.

(* ================================================================== which file is flocked: deployments *)
(* Model/RwLockFile.v has ONE kernel lock for all processes.  The processes of a deployment are server instances with
   their own [storage] configurations serving one filesystem_folder; the file the storage lock flock()s
   (StoragePartLock.__init__: os.path.join(filesystem_folder, ".Radicale.lock")) is a function of filesystem_folder
   ONLY: filesystem_cache_folder, the use_cache_subfolder_* options, use_mtime_and_size_for_item_cache and folder_umask
   do not enter.  Hence all instances of one store flock one file, and a flock table keyed by file grants a request of
   any instance exactly when the single lock of RwLockFile.v grants it: the theorems above are theorems about the
   deployment; in particular a writer of one instance excludes everybody of every instance.
   Tie: obligation correspondence:lock-identity (the file really opened and flocked by the real Storage, for every
   configuration of the generated matrix, = lock_path) and the "store" schedules (real Storage objects per instance). *)
Theorem C11_lock_identity :
  (forall c1 c2, sc_folder c1 = sc_folder c2 -> lock_path c1 = lock_path c2) /\
  (forall f c1 c2 a1 a2 b1 b2 s1 s2 m1 m2 u1 u2,
     lock_path (SConf f c1 a1 b1 s1 m1 u1) = lock_path (SConf f c2 a2 b2 s2 m2 u2)) /\
  (forall d, same_store d -> forall p q, p < List.length d -> q < List.length d ->
     lock_path (conf_of d p) = lock_path (conf_of d q)).
Proof. exact (conj lock_path_folder_only (conj lock_path_ignores_options deployment_one_lock_file)). Qed.
Print Assumptions C11_lock_identity.

Theorem C11_deployment_single_lock :
  (forall d, same_store d -> forall m p held, p < List.length d -> (forall e, In e held -> fst e < List.length d) ->
     compat_id lock_path d m p held = compat_single m held) /\
  (forall d, same_store d -> forall m p q mq held, p < List.length d -> q < List.length d ->
     (forall e, In e held -> fst e < List.length d) -> In (q, mq) held -> (m = W \/ mq = W) ->
     compat_id lock_path d m p held = false).
Proof. exact (conj compat_id_single deployment_excludes). Qed.
Print Assumptions C11_deployment_single_lock.

(* not vacuous: shared data folder, two node-local cache folders, one node without cache folder *)
Theorem C11_witness_deployment :
  same_store ex_deployment /\
  (forall p, p < 3 -> lock_path (conf_of ex_deployment p) = ex_lock_file) /\
  compat_id lock_path ex_deployment R 1 [(0, W)] = false /\ compat_id lock_path ex_deployment W 2 [(0, R); (1, R)] = false /\
  compat_id lock_path ex_deployment R 2 [(0, R); (1, R)] = true.
Proof. exact (conj ex_deployment_same_store (conj ex_deployment_lock_file ex_deployment_excludes)). Qed.
Print Assumptions C11_witness_deployment.

(* ... and it depends on the lock file living in filesystem_folder: placed by filesystem_cache_folder, two instances of
   one store flock different files and a writer of one is granted while a writer of the other holds *)
Theorem C11_lock_by_cache_folder_refuted :
  same_store ex_deployment /\
  lock_path_by_cache (conf_of ex_deployment 0) <> lock_path_by_cache (conf_of ex_deployment 1) /\
  compat_id lock_path_by_cache ex_deployment W 1 [(0, W)] = true /\ compat_single W [(0, W)] = false.
Proof. exact lock_by_cache_refuted. Qed.
Print Assumptions C11_lock_by_cache_folder_refuted.
