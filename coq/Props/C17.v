(* C17 -- stub, theorems follow *)
From Coq Require Import List ZArith NArith Bool.
Require Import RV.Lib.PyStr RV.Model.LoginCache.
