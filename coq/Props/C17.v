(* C17 -- The login cache never changes the outcome of a login.

   Only statements; each closed by `exact` of a lemma from Proofs/, followed by Print Assumptions.
   Model: Model/LoginCache.v (BaseAuth.login line by line; `Vfix` = the code after
   notes/fixes/C17-*.patch, `Vorig` = the code as pinned, which the `_pinned_..._refuted` theorems are about).
   Gen/LoginMapGen.v (the lower/upper/strip-domain prefix of login) is REGENERATED from /repo on every run.

   Vocabulary:  a history is a list of  Attempt login password | Tick dt (ns) | Change b (the back-end's
   credentials become b);  `backend b login password` is what `_login` answers in back-end state b ("" = rejected);
   `run` executes a history from the empty cache;  `moments` lists the (clock, back-end state) pairs it passes
   through;  `age_s now t` = int((now - t) / 1000 / 1000 / 1000), whole seconds, truncated;
   `map_login cfg` = the lc_username / uc_username / strip_domain mapping. *)
From Coq Require Import List ZArith NArith Bool String.
Import ListNotations.
Require Import RV.Lib.PyStr RV.Model.LoginCache RV.Model.LoginCacheConc.
Require Import RV.Proofs.LoginCacheDict RV.Proofs.LoginCacheSweep RV.Proofs.LoginCacheSound RV.Proofs.LoginCacheIndep RV.Proofs.LoginCacheConcProofs RV.Proofs.LoginCacheFault RV.Proofs.C17Final.
Require RV.Gen.LoginMapGen.
Open Scope Z_scope.

(* After ANY history, a login that succeeds as user u does so only because the back-end answers u for the same
   (mapped) login and password right now, or answered u at a moment of the history whose age in whole seconds is
   within cache_successful_logins_expiry. *)
Theorem C17_success_sound :
  forall (B : Type) (backend : B -> pystr -> pystr -> pystr) (cfg : config) (t0 : Z) (b0 : B)
         (h : list (@event B)) (l p u : pystr) (cached : bool),
    let s := fst (run backend Vfix cfg (init t0 b0) h) in
    r_out (login_body Vfix cfg (backend (s_bk s)) (s_now s) (s_cache s) l p) = ORet u cached ->
    u <> [] ->
    backend (s_bk s) (map_login cfg l) p = u \/
    exists t b, In (t, b) (moments backend Vfix cfg (init t0 b0) h)
                /\ age_s (s_now s) t <= c_exp_s cfg
                /\ backend b (map_login cfg l) p = u.
Proof. exact @success_sound. Qed.
Print Assumptions C17_success_sound.

(* ... and fails only because the back-end rejects them now or rejected them within cache_failed_logins_expiry. *)
Theorem C17_failure_sound :
  forall (B : Type) (backend : B -> pystr -> pystr -> pystr) (cfg : config) (t0 : Z) (b0 : B)
         (h : list (@event B)) (l p : pystr) (cached : bool),
    let s := fst (run backend Vfix cfg (init t0 b0) h) in
    r_out (login_body Vfix cfg (backend (s_bk s)) (s_now s) (s_cache s) l p) = ORet [] cached ->
    backend (s_bk s) (map_login cfg l) p = [] \/
    exists t b, In (t, b) (moments backend Vfix cfg (init t0 b0) h)
                /\ age_s (s_now s) t <= c_exp_f cfg
                /\ backend b (map_login cfg l) p = [].
Proof. exact @failure_sound. Qed.
Print Assumptions C17_failure_sound.

(* If the back-end's answer for this login and password was the same at every moment of the history that is
   not older than the longer of the two lifetimes, the result equals what the back-end itself answers. *)
Theorem C17_transparent :
  forall (B : Type) (backend : B -> pystr -> pystr -> pystr) (cfg : config) (t0 : Z) (b0 : B)
         (h : list (@event B)) (l p : pystr),
    let s := fst (run backend Vfix cfg (init t0 b0) h) in
    let m := map_login cfg l in
    (forall t b, In (t, b) (moments backend Vfix cfg (init t0 b0) h) ->
                 age_s (s_now s) t <= Z.max (c_exp_s cfg) (c_exp_f cfg) ->
                 backend b m p = backend (s_bk s) m p) ->
    exists cached, r_out (login_body Vfix cfg (backend (s_bk s)) (s_now s) (s_cache s) l p)
                   = ORet (backend (s_bk s) m p) cached.
Proof. exact @transparent. Qed.
Print Assumptions C17_transparent.

(* In particular: no credential change in the history => every login returns the back-end's answer. *)
Theorem C17_transparent_unchanged :
  forall (B : Type) (backend : B -> pystr -> pystr -> pystr) (cfg : config) (t0 : Z) (b0 : B)
         (h : list (@event B)) (l p : pystr),
    no_change h = true ->
    let s := fst (run backend Vfix cfg (init t0 b0) h) in
    exists cached, r_out (login_body Vfix cfg (backend (s_bk s)) (s_now s) (s_cache s) l p)
                   = ORet (backend b0 (map_login cfg l) p) cached.
Proof. exact @transparent_unchanged. Qed.
Print Assumptions C17_transparent_unchanged.

(* When the back-end is asked, its present answer is what login returns; when it is not asked, the answer is
   flagged "cached". *)
Theorem C17_backend_answer_returned :
  forall (B : Type) (backend : B -> pystr -> pystr -> pystr) (cfg : config) (t0 : Z) (b0 : B)
         (h : list (@event B)) (l p : pystr),
    let s := fst (run backend Vfix cfg (init t0 b0) h) in
    let r := login_body Vfix cfg (backend (s_bk s)) (s_now s) (s_cache s) l p in
    (r_called r = true -> exists cached, r_out r = ORet (backend (s_bk s) (map_login cfg l) p) cached)
    /\ (r_called r = false -> exists u, r_out r = ORet u true).
Proof. exact @called_fresh. Qed.
Print Assumptions C17_backend_answer_returned.

(* Independence, on states: running an attempt on the whole cache or on the entries of its own (mapped) login
   only gives the same outcome, asks the back-end in the same cases, and leaves the same entries for that login;
   whatever is stored under other logins (any entries at all, `c` is arbitrary) is irrelevant. *)
Theorem C17_independent_state :
  forall (cfg : config) (bk : pystr -> pystr -> pystr) (now : Z) (c : cache) (l0 pw : pystr),
    NoDup (map fst (failed c)) ->
    let m := map_login cfg l0 in
    let r := login_body Vfix cfg bk now c l0 pw in
    let r' := login_body Vfix cfg bk now (restrict m c) l0 pw in
    r_out r = r_out r' /\ r_called r = r_called r' /\ restrict m (r_cache r) = r_cache r'.
Proof. exact login_restrict. Qed.
Print Assumptions C17_independent_state.

(* Independence, on histories (clock never set back): the observations (outcome, cached flag, back-end asked)
   of the attempts under login m are the same whether or not the attempts under all other logins take place. *)
Theorem C17_independent :
  forall (B : Type) (backend : B -> pystr -> pystr -> pystr) (cfg : config) (m : pystr) (t0 : Z) (b0 : B)
         (h : list (@event B)),
    monotone h = true ->
    mine m (snd (run backend Vfix cfg (init t0 b0) h))
    = snd (run backend Vfix cfg (init t0 b0) (proj cfg m h)).
Proof. exact @independent_history. Qed.
Print Assumptions C17_independent.

Theorem C17_independent_two_histories :
  forall (B : Type) (backend : B -> pystr -> pystr -> pystr) (cfg : config) (m : pystr) (t0 : Z) (b0 : B)
         (h1 h2 : list (@event B)),
    monotone h1 = true -> monotone h2 = true -> proj cfg m h1 = proj cfg m h2 ->
    mine m (snd (run backend Vfix cfg (init t0 b0) h1)) = mine m (snd (run backend Vfix cfg (init t0 b0) h2)).
Proof. exact @independent_two. Qed.
Print Assumptions C17_independent_two_histories.

(* login never raises: the KeyError outcome of the model's result type is unreachable, after any history ... *)
Theorem C17_total :
  forall (B : Type) (backend : B -> pystr -> pystr -> pystr) (cfg : config) (t0 : Z) (b0 : B)
         (h : list (@event B)) (l p : pystr),
    let s := fst (run backend Vfix cfg (init t0 b0) h) in
    exists u cached, r_out (login_body Vfix cfg (backend (s_bk s)) (s_now s) (s_cache s) l p) = ORet u cached.
Proof. exact @total. Qed.
Print Assumptions C17_total.

(* ... and for every attempt inside any history *)
Theorem C17_never_raises :
  forall (B : Type) (backend : B -> pystr -> pystr -> pystr) (cfg : config) (t0 : Z) (b0 : B) (h : list (@event B)),
    forallb (fun o => is_ret (o_out o)) (snd (run backend Vfix cfg (init t0 b0) h)) = true.
Proof. exact @run_no_raise. Qed.
Print Assumptions C17_never_raises.

(* Housekeeping: on any failed-login dictionary with distinct keys the expiry sweep (both loops, every `d[k]` and
   `del d[k]` of which may raise KeyError in the model) does not raise, keeps exactly the entries whose age in whole
   seconds is at most the limit, and (repaired code) leaves the login being checked unchanged. *)
Theorem C17_housekeeping :
  forall (v : variant) (exp_f now : Z) (fd : fdict) (lo : locals),
    NoDup (map fst fd) ->
    exists lo', sweep v exp_f now fd lo = Ok (lo', sweepf exp_f now fd)
                /\ (fix1 v = true -> v_login lo' = v_login lo).
Proof. exact sweep_spec. Qed.
Print Assumptions C17_housekeeping.

(* Key formats.  `_cache_digest` hashes salt ++ login ++ password, so a digest does not determine (login, password);
   the key of the failed cache, login ++ ":" ++ digest, does -- because of its login prefix; under one login (the key
   of the successful cache) the digest determines the password. *)
Theorem C17_digest_alone_not_injective :
  exists l p l' p' s, (l, p) <> (l', p') /\ cache_digest l p s = cache_digest l' p' s.
Proof. exact cache_digest_not_injective. Qed.
Print Assumptions C17_digest_alone_not_injective.

Theorem C17_failed_key_injective : forall s s' l p l' p',
  failed_key s l p = failed_key s' l' p' -> l = l' /\ p = p'.
Proof. exact failed_key_inj. Qed.
Print Assumptions C17_failed_key_injective.

Theorem C17_digest_injective_under_one_login : forall l p p' s s',
  cache_digest l p s = cache_digest l p' s' -> s = s' /\ p = p'.
Proof. exact cache_digest_same_login. Qed.
Print Assumptions C17_digest_injective_under_one_login.

(* ------------------------------------------------------------------------------------------------------------
   Concurrency (several requests inside login on the one shared auth object).  Step model: Model/LoginCacheConc.v --
   login cut at its accesses to the shared dictionaries, each step one `with self._lock:` block or one single
   d.get(k) outside the lock; `pool_run sched` lets the threads step in ANY order `sched`.  What makes the steps
   atomic is the lock discipline, checked on the regenerated access table (Proofs/C17Lock.v, built by the check). *)

(* one thread alone is exactly the sequential model *)
Theorem C17_thread_alone_is_login : forall cfg bk now c l0 pw,
  c_cache cfg = true -> NoDup (map fst (failed c)) ->
  let r := login_body Vfix cfg bk now c l0 pw in
  trun true cfg bk (mkReq (map_login cfg l0) pw now) 6 TSweep c = (TDone (r_out r), r_cache r).
Proof. exact thread_alone_is_login. Qed.
Print Assumptions C17_thread_alone_is_login.

(* EVERY schedule, ANY number of threads, starting from any cache that satisfies the invariant of the sequential
   proofs (e.g. after any history): the invariant still holds, and every thread that has finished returned -- it did
   not raise -- an answer justified by the back-end: its present answer, or a success within the success lifetime, or
   a rejection that is within the failure lifetime or was stamped by one of the concurrently running logins. *)
Theorem C17_all_schedules_sound :
  forall (B : Type) (backend : B -> pystr -> pystr -> pystr) (cfg : config) (M : list (Z * B)) (b0 : B) (stamps : list Z),
    (forall t, In t stamps -> In (t, b0) M) ->
    forall (qs : list treq) (sched : list nat) (c : cache) p' c',
      cinv backend cfg M c -> (forall q, In q qs -> In (q_now q) stamps) ->
      pool_run true cfg (backend b0) sched (start qs) c = (p', c') ->
      cinv backend cfg M c' /\ forall q o, In (q, TDone o) p' -> cgood backend cfg M b0 stamps q o.
Proof. exact @all_schedules_sound. Qed.
Print Assumptions C17_all_schedules_sound.

Theorem C17_all_schedules_never_raise :
  forall (B : Type) (backend : B -> pystr -> pystr -> pystr) (cfg : config) (M : list (Z * B)) (b0 : B) (stamps : list Z),
    (forall t, In t stamps -> In (t, b0) M) ->
    forall (qs : list treq) (sched : list nat) (c : cache) p' c' q e,
      cinv backend cfg M c -> (forall q, In q qs -> In (q_now q) stamps) ->
      pool_run true cfg (backend b0) sched (start qs) c = (p', c') ->
      ~ In (q, TDone (ORaise e)) p'.
Proof. exact @all_schedules_never_raise. Qed.
Print Assumptions C17_all_schedules_never_raise.

(* the code before notes/fixes/C17-F13-cache-races.patch (unconditional `del self._cache_successful[login]` outside
   the lock): two requests of the same user right after the success entry expired, one schedule, KeyError *)
Theorem C17_pinned_concurrent_refuted :
  exists sched, In (mkReq (str "alice") (str "pa") (T0c + 16 * S9c), TDone (ORaise KeyError))
                   (fst (pool_run false cfgc bk_alice sched (start two_alices) alice_entry)).
Proof. exact unguarded_delete_raises. Qed.
Print Assumptions C17_pinned_concurrent_refuted.

(* A login during which the back-end RAISES (`login_body_fault`, tied to the code by the correspondence runs with
   scripted back-end failures): either the back-end is not reached and the answer is the cached one, or its exception
   comes out of login; and then nothing has been recorded -- the failed dictionary is exactly what housekeeping left, the
   successful dictionary has no new entry.  A failure of the back-end is never turned into a (cacheable) rejection. *)
Theorem C17_backend_fault_outcome : forall v cfg now c l p,
  let rf := login_body_fault v cfg now c l p in
  let r := login_body v cfg (fun _ _ => []) now c l p in
  (r_called r = false /\ rf = r) \/ (r_called r = true /\ r_out rf = ORaise BackendError /\ r_called rf = true).
Proof. exact fault_outcome. Qed.
Print Assumptions C17_backend_fault_outcome.

Theorem C17_backend_fault_records_nothing : forall cfg now c l p,
  c_cache cfg = true -> NoDup (map fst (failed c)) ->
  let rf := login_body_fault Vfix cfg now c l p in
  r_out rf = ORaise BackendError ->
  failed (r_cache rf) = sweepf (c_exp_f cfg) now (failed c)
  /\ (forall e, In e (succ (r_cache rf)) -> In e (succ c)).
Proof. exact fault_records_nothing. Qed.
Print Assumptions C17_backend_fault_records_nothing.

(* Tie T: the mapping prefix translated from the current source equals the model's map_login. *)
Theorem C17_login_map_tie :
  forall cfg l, LoginMapGen.login_map (c_lc cfg) (c_uc cfg) (c_strip cfg) l = map_login cfg l.
Proof. exact Gen_login_map_eq. Qed.
Print Assumptions C17_login_map_tie.

(* ------------------------------------------------------------------------------------------------------------
   The code as pinned (Vorig) violates transparency, independence and totality; witnesses checked by vm_compute,
   replayed on the real code by checks/C17.py (WITNESSES), repaired by notes/fixes/C17-F1/F2/F12-*.patch. *)

(* F1: credentials never change, the back-end accepts alice/pa, login answers "" (the sweep rebound `login`). *)
Theorem C17_pinned_transparent_refuted :
  exists (cfg : config) (b0 : creds) (h : list (@event creds)) (l p : pystr),
    no_change h = true /\
    table_backend b0 (map_login cfg l) p = str "alice" /\
    r_out (last_login Vorig cfg b0 h l p) = ORet [] false.
Proof. exact orig_transparent_refuted. Qed.
Print Assumptions C17_pinned_transparent_refuted.

Theorem C17_pinned_independent_refuted :
  exists (cfg : config) (b0 : creds) (h : list (@event creds)) (m : pystr),
    monotone h = true /\
    mine m (snd (run table_backend Vorig cfg (init T0 b0) h))
    <> snd (run table_backend Vorig cfg (init T0 b0) (proj cfg m h)).
Proof. exact orig_independent_refuted. Qed.
Print Assumptions C17_pinned_independent_refuted.

(* F2 *)
Theorem C17_pinned_total_refuted :
  exists (cfg : config) (b0 : creds) (h : list (@event creds)) (l p : pystr),
    r_out (last_login Vorig cfg b0 h l p) = ORaise KeyError.
Proof. exact orig_total_refuted. Qed.
Print Assumptions C17_pinned_total_refuted.

(* F12: the back-end maps john@x to user jdoe; the cached answer is "john@x". *)
Theorem C17_pinned_cached_user_refuted :
  exists (cfg : config) (b0 : creds) (h : list (@event creds)) (l p : pystr),
    no_change h = true /\
    table_backend b0 (map_login cfg l) p = str "jdoe" /\
    r_out (last_login Vorig cfg b0 h l p) = ORet (str "john@x") true.
Proof. exact orig_cached_user_refuted. Qed.
Print Assumptions C17_pinned_cached_user_refuted.
