(* C19 -- Hostile XML request bodies are inert.
   Only statements; each closed by `exact` of a lemma from Proofs/, followed by Print Assumptions.

   Gen/Skeleton.v (translate/t_skeleton.py) and Gen/XmlGen.v (translate/t_c19xml.py) are REGENERATED from
   radicale/app/*.py and radicale/httputils.py on every run.

   PARTIAL BY NATURE.  Entity handling is expat + defusedxml (C and third-party code): it is not modelled.
   What is proved is "rejection => inert": IF reading the body raises (and for the bodies of the attack
   grammar that declare an entity: IF the parser refuses them, hypothesis [defused_ok] below) THEN nothing
   touches the lock, the storage or the hook, the store is unchanged and the response is one of three
   closed constants.  That hostile bodies ARE refused by the parser, and that the refusal takes bounded
   time and memory, is established by the correspondence check only (checks/C19.py: every body of the
   grammar x 5 methods x 3 charsets against the real server under strace).

   The full statement the property asks for, not provable without a model of expat:
     Definition C19_full : Prop := forall (body of the attack grammar that declares an entity) method charset,
        the real parser refuses it before expanding or resolving anything, in bounded time and memory.

   Reading guide.  [exec s None t o h]: the skeleton term s (one do_* handler) can emit the event trace t,
   ending with outcome o (ORaise: an exception leaves the handler -> Application.__call__ answers 500;
   OReturn: the handler returned) holding lock h.  [quiet e]: e is EParseFail, ERaise or ECatch.
   [fail_shape t o h]: h = None and either o = ORaise and every event of t is quiet, or o = OReturn and
   t = t0 ++ [EReturn (StCode c)] with c = 400 or 408 and every event of t0 quiet.
   [touches e]: e is EAcquire / ERelease / EHook / EStorage. *)
From Coq Require Import List NArith Bool String.
Import ListNotations.
Require Import RV.Lib.PyStr RV.Model.LockDiscipline RV.Model.XmlProlog RV.Model.XmlReject.
Require Import RV.Proofs.C19ParseFirst RV.Proofs.C19Skel RV.Proofs.C19Prolog RV.Proofs.C19Reject.
Require RV.Gen.Skeleton RV.Gen.XmlGen RV.Model.Handlers.
Open Scope N_scope.

(* ---------------------------------------------------------------- C19_parse_first *)
(* On every trace of the five regenerated handler terms (PROPFIND PROPPATCH REPORT MKCOL MKCALENDAR): every
   Acquire / Storage / Hook event is preceded by a successful Parse and by no failing one, and after a
   failing Parse no such event follows.  (Lemma of the C10 builder, over the same regenerated terms.) *)
Theorem C19_parse_first : forall name s, In (name, s) Skeleton.xml_handlers -> forall t, trace_of s t ->
  parse_first t /\
  (forall pre post, t = (pre ++ EParseFail :: post)%list -> forall e, In e post -> ~ is_lock_or_storage e).
Proof. exact c19_parse_first. Qed.
Print Assumptions C19_parse_first.

(* Strengthening: a trace in which the body read raises consists of ParseFail / Raise / Catch only, then either
   the exception leaves the handler or one Return 400 / 408 ends it; no lock is held; nothing is touched. *)
Theorem C19_parse_first_strong : forall name s, In (name, s) Skeleton.xml_handlers ->
  forall t o h, exec s None t o h ->
    parse_first t /\
    (In EParseFail t -> fail_shape t o h /\ forall e, In e t -> touches e = false).
Proof. exact c19_parse_first_strong. Qed.
Print Assumptions C19_parse_first_strong.

(* The checker behind it is sound for EVERY skeleton term. *)
Theorem C19_checker_sound : forall s, check_fail_shape s = true ->
  forall t o h, exec s None t o h -> In EParseFail t -> fail_shape t o h.
Proof. exact check_fail_shape_sound. Qed.
Print Assumptions C19_checker_sound.

(* Whole requests (Application._handle_request with the handler plugged in): whatever the gate did before
   (first login: home creation, independent of the body), once the body read has failed no lock / storage /
   hook / release event follows, the body is not read again, and the only statuses returned are 400 / 408
   (handler) and the gate's pass-through. *)
Theorem C19_request_fail_inert : forall name s, In (name, s) Skeleton.xml_handlers ->
  forall t, trace_of (Skeleton.sk_gate s) t -> after_fail_inert t.
Proof. exact c19_request_fail_inert. Qed.
Print Assumptions C19_request_fail_inert.

(* ---------------------------------------------------------------- C19_inert *)
(* Response level.  [serve m None rd cont s]: handler m, rights check passed, [rd] the outcome of
   _read_xml_request_body, [cont] everything after it (by C19_parse_first the only part that locks and
   touches the store), [s] the store.  A failing read returns the store as it was, never runs [cont]
   (the equation holds for every cont), and answers 400, 408 or 500. *)
Theorem C19_inert : forall (tree store : Type) m e (cont : option tree -> store -> store * resp) s,
  serve tree store m None (RRaise e) cont s = (s, Some (const_resp (reject_class e))) /\
  (r_status (const_resp (reject_class e)) = 400 \/ r_status (const_resp (reject_class e)) = 408 \/
   r_status (const_resp (reject_class e)) = 500).
Proof. exact serve_reject_full. Qed.
Print Assumptions C19_inert.

(* Rejection => inert for hostile bodies.  [xml_parse] stands for expat + defusedxml; the assumption about it
   is explicit: a text in which the scanner finds an <!ENTITY declaration (or any DOCTYPE when forbid_dtd is
   set) is refused.  Then, for every raw body whose decoded text declares an entity: store unchanged,
   continuation not run, response = INTERNAL_SERVER_ERROR. *)
Theorem C19_inert_hostile_partial :
  forall (tree store : Type) (xml_parse : pystr -> parsed tree) (forbid_dtd : bool),
    (forall content, must_reject forbid_dtd content = true -> exists k, xml_parse content = PForbidden k) ->
    forall m b decode cs content (cont : option tree -> store -> store * resp) s,
      decode_request (decode b) cs = inl content -> declares_entity content = true ->
      serve tree store m None (read_xml tree xml_parse (RawOk b) decode cs) cont s
      = (s, Some (const_resp INTERNAL_SERVER_ERROR)).
Proof. exact hostile_body_inert. Qed.
Print Assumptions C19_inert_hostile_partial.

(* ... in particular for every well-formed term of the attack grammar with an <!ENTITY declaration. *)
Theorem C19_inert_attack_partial :
  forall (tree store : Type) (xml_parse : pystr -> parsed tree) (forbid_dtd : bool),
    (forall content, must_reject forbid_dtd content = true -> exists k, xml_parse content = PForbidden k) ->
    forall m a b decode cs (cont : option tree -> store -> store * resp) s,
      wf_attack a = true -> attack_declares a = true ->
      decode_request (decode b) cs = inl (render a) ->
      serve tree store m None (read_xml tree xml_parse (RawOk b) decode cs) cont s
      = (s, Some (const_resp INTERNAL_SERVER_ERROR)).
Proof. exact attack_inert. Qed.
Print Assumptions C19_inert_attack_partial.

(* Malformed XML (ET.ParseError, re-raised as RuntimeError): 400, store unchanged. *)
Theorem C19_inert_malformed :
  forall (tree store : Type) (xml_parse : pystr -> parsed tree) m b decode cs content
         (cont : option tree -> store -> store * resp) s,
    decode_request (decode b) cs = inl content -> content <> [] -> xml_parse content = PParseError ->
    serve tree store m None (read_xml tree xml_parse (RawOk b) decode cs) cont s
    = (s, Some (const_resp BAD_REQUEST)).
Proof. exact malformed_body_inert. Qed.
Print Assumptions C19_inert_malformed.

(* Over the ideal store of C01 / C15 (Model/Handlers.v, parse failure = XBad): the three writing handlers
   leave the store as it is; with the gate, the store afterwards is the one after home creation. *)
Theorem C19_inert_handlers : forall pol s p,
  (fst (Handlers.do_mkcol pol s p Handlers.XBad) = s /\
   In (fst (snd (Handlers.do_mkcol pol s p Handlers.XBad))) [Handlers.S400; Handlers.S403NA]) /\
  (fst (Handlers.do_mkcalendar pol s p Handlers.XBad) = s /\
   In (fst (snd (Handlers.do_mkcalendar pol s p Handlers.XBad))) [Handlers.S400; Handlers.S403NA]) /\
  (fst (Handlers.do_proppatch pol s p Handlers.XBad) = s /\
   In (fst (snd (Handlers.do_proppatch pol s p Handlers.XBad))) [Handlers.S400; Handlers.S403NA]).
Proof. exact handlers_xbad_inert. Qed.
Print Assumptions C19_inert_handlers.

Theorem C19_inert_handle : forall cfg pol user s0 p,
  fst (Handlers.handle cfg pol user s0 (Handlers.RMkcol p Handlers.XBad)) = Handlers.ensure_home pol s0 user /\
  fst (Handlers.handle cfg pol user s0 (Handlers.RMkcalendar p Handlers.XBad)) = Handlers.ensure_home pol s0 user /\
  fst (Handlers.handle cfg pol user s0 (Handlers.RProppatch p Handlers.XBad)) = Handlers.ensure_home pol s0 user.
Proof. exact handle_xbad_inert. Qed.
Print Assumptions C19_inert_handle.

(* ---------------------------------------------------------------- C19_no_leak *)
(* The response to a rejected body is a constant of the failure class: two rejected requests of the same class
   get the same response whatever their methods, bodies, decoders, continuations and stores ... *)
Theorem C19_no_leak : forall (tree store : Type) m1 m2 e1 e2
    (cont1 cont2 : option tree -> store -> store * resp) s1 s2,
  reject_class e1 = reject_class e2 ->
  snd (serve tree store m1 None (RRaise e1) cont1 s1) = snd (serve tree store m2 None (RRaise e2) cont2 s2).
Proof. exact serve_no_leak. Qed.
Print Assumptions C19_no_leak.

(* ... and it is one of three closed terms (no argument of const_resp comes from the request). *)
Theorem C19_no_leak_constants : forall (tree store : Type) m rd (cont : option tree -> store -> store * resp) s e,
  rd = RRaise e ->
  exists c, serve tree store m None rd cont s = (s, Some (const_resp c)) /\
            In c [BAD_REQUEST; REQUEST_TIMEOUT; INTERNAL_SERVER_ERROR].
Proof. exact serve_reject_constant. Qed.
Print Assumptions C19_no_leak_constants.

(* Which exception class maps to which constant, for all five handlers: RuntimeError (malformed XML, short
   body) -> BAD_REQUEST by the handler's own clause; defusedxml's refusal (a ValueError) is caught by no
   handler clause and becomes INTERNAL_SERVER_ERROR in Application.__call__. *)
Theorem C19_exception_map : forall m,
  reject_const m XRuntimeError = Some BAD_REQUEST /\
  reject_const m XSocketTimeout = Some REQUEST_TIMEOUT /\
  reject_const m XDefused = Some INTERNAL_SERVER_ERROR /\
  reject_const m XLookupError = Some INTERNAL_SERVER_ERROR.
Proof. exact exception_map. Qed.
Print Assumptions C19_exception_map.

(* The tables used above are the ones found in the current source. *)
Theorem C19_source_tables :
  XmlGen.gen_parse_sites = [("radicale/app/base.py", "DefusedET.fromstring")]%string /\
  (XmlGen.gen_read_shape_ok = true /\ XmlGen.gen_forbid_entities = true /\ XmlGen.gen_forbid_external = true) /\
  XmlGen.gen_parse_rewrap = [(CParseError, XRuntimeError)] /\
  XmlGen.gen_handler_clauses = map (fun m => (method_name m, handler_clauses m)) all_methods /\
  XmlGen.gen_top_clause = top_clause.
Proof. exact source_tables. Qed.
Print Assumptions C19_source_tables.

(* ---------------------------------------------------------------- the scanner on the attack grammar *)
(* For every well-formed term of the grammar the scanner finds exactly what the abstract syntax says:
   a DOCTYPE iff the term has one, an entity declaration iff its internal subset holds an IEntity item. *)
Theorem C19_scanner_decides : forall a, wf_attack a = true ->
  scan (render a) = (MBody, attack_has_doctype a, attack_declares a).
Proof. exact scan_attack. Qed.
Print Assumptions C19_scanner_decides.

Theorem C19_entity_production_detected : forall a d l1 l2 dt,
  wf_attack a = true -> a_doctype a = Some dt -> dt_subset dt = Some (l1 ++ IEntity d :: l2)%list ->
  declares_entity (render a) = true.
Proof. exact entity_production_detected. Qed.
Print Assumptions C19_entity_production_detected.
