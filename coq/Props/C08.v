(* C08 -- ETags identify content and conditional requests prevent lost updates.
   Statements only; model Model/Handlers.v, where an item's ETag is the stored object itself
   (EtItem o: SHA-256 of the serialised text, modelled as injective -- trusted base) and a collection's ETag is
   the collection value (EtColl c). *)
From Coq Require Import List NArith Bool.
Import ListNotations.
Require Import RV.Lib.PyStr RV.Lib.Item RV.Model.Store RV.Model.Access RV.Model.Handlers RV.Proofs.HandlersInv RV.Proofs.HandlersStore.
Open Scope N_scope.

(* The ETag answered by PUT is the one GET, PROPFIND and REPORT show in the same state. *)
Theorem C08_put_then_same_everywhere : forall cfg pol s p ct b im inm s' o,
  store_inv s ->
  do_put cfg pol s p ct b im inm = (s', (S201, PEtag (EtItem o))) ->
  exists pc', resolve s' p = NItem pc' o.
Proof. exact put_then_resolves. Qed.
Print Assumptions C08_put_then_same_everywhere.

Theorem C08_same_everywhere : forall pol s p pc o w,
  resolve s p = NItem pc o ->
  check pol p lr NoItem = true -> check pol p lr IsItem = true -> entry_allowed pol (parent p) true = Some w ->
  do_get pol s p = (S200, PItem o)
  /\ do_propfind pol s p false = (S207, PListing [EItemE p o w])
  /\ (forall cal : bool, tag_eqb (c_tag pc) (if cal then TCal else TAdr) = true ->
        do_multiget pol s p cal [p] = (S207, PListing [EItemE p o false])).
Proof. exact etag_same_everywhere. Qed.
Print Assumptions C08_same_everywhere.

(* An item's ETag matches iff the stored content is that content; a collection's ETag determines items and properties. *)
Theorem C08_item_sensitive : forall pc o o', etag_eqb_current (NItem pc o) (EtItem o') = true <-> o = o'.
Proof. exact etag_item_identifies. Qed.
Print Assumptions C08_item_sensitive.

Theorem C08_coll_sensitive : forall c c', EtColl c = EtColl c' -> c = c'.
Proof. exact etag_coll_identifies. Qed.
Print Assumptions C08_coll_sensitive.

(* If-Match on PUT / DELETE: carried out only if it is the current ETag; otherwise an error and nothing modified. *)
Theorem C08_if_match_put : forall cfg pol s p ct b e inm,
  fst (do_put cfg pol s p ct b (CTag e) inm) = s
  \/ (exists_node (resolve s p) = true /\ etag_eqb_current (resolve s p) e = true).
Proof. exact put_if_match. Qed.
Print Assumptions C08_if_match_put.

Theorem C08_if_match_put_refused : forall cfg pol s p ct b e inm st pl s',
  do_put cfg pol s p ct b (CTag e) inm = (s', (st, pl)) ->
  exists_node (resolve s p) && etag_eqb_current (resolve s p) e = false ->
  s' = s /\ is_error st = true.
Proof. exact put_if_match_fails. Qed.
Print Assumptions C08_if_match_put_refused.

Theorem C08_if_match_delete : forall cfg pol s p e,
  fst (do_delete cfg pol s p (CTag e)) = s \/ etag_eqb_current (resolve s p) e = true.
Proof. exact delete_if_match. Qed.
Print Assumptions C08_if_match_delete.

(* If-None-Match: * on PUT: carried out only if the resource does not exist. *)
Theorem C08_if_none_match : forall cfg pol s p ct b im,
  fst (do_put cfg pol s p ct b im true) = s \/ resolve s p = NNothing.
Proof. exact put_if_none_match. Qed.
Print Assumptions C08_if_none_match.

(* Of two clients racing from the same ETag exactly one succeeds: after the first has changed the content,
   the second is refused and modifies nothing.  (With C09-C11 -- requests are serialised by the storage lock --
   this covers every interleaving.) *)
Theorem C08_race : forall cfg pol s p ct1 b1 inm1 s1 o1 ct2 b2 inm2 o0,
  store_inv s ->
  do_put cfg pol s p ct1 b1 (CTag (EtItem o0)) inm1 = (s1, (S201, PEtag (EtItem o1))) ->
  o1 <> o0 ->
  do_put cfg pol s1 p ct2 b2 (CTag (EtItem o0)) inm2 = (s1, snd (do_put cfg pol s1 p ct2 b2 (CTag (EtItem o0)) inm2))
  /\ is_error (fst (snd (do_put cfg pol s1 p ct2 b2 (CTag (EtItem o0)) inm2))) = true.
Proof. exact put_race. Qed.
Print Assumptions C08_race.

(* ---------------------------------------------------------------------------------------------------------
   Races of ANY number of conditional writers on one resource, over whole request histories through the
   dispatcher [handle] (with the gate's home creation), in any order -- run_history over an arbitrary list is
   every serial order; with C09-C11 (requests are serialised by the storage lock) that is every interleaving.
   --------------------------------------------------------------------------------------------------------- *)
Require RV.Proofs.C08Race RV.Proofs.ReprExample.
Import RV.Proofs.C08Race.

(* writers: PUT / DELETE of p with If-Match: <ETag of o0>.  A response is [changing] when it is a success that
   leaves p with another ETag than o0's.  At most one writer changes the resource, whatever the other requests'
   bodies, content types and If-None-Match flags are, whoever the user is and whatever the rights policy says. *)
Theorem C08_race_n : forall cfg pol user p o0 rs s,
  store_inv s -> Forall (writer p o0) rs ->
  (count (changing o0) (snd (run_history cfg pol user s rs)) <= 1)%nat.
Proof. exact race_n. Qed.
Print Assumptions C08_race_n.

(* once the ETag the writers hold is stale, every one of them is refused and nothing is lost *)
Theorem C08_stale_writers_refused : forall cfg pol user p o0 rs s,
  store_inv s -> Forall (writer p o0) rs -> stale s p o0 ->
  Forall (fun resp => is_error (fst resp) = true) (snd (run_history cfg pol user s rs))
  /\ count (changing o0) (snd (run_history cfg pol user s rs)) = 0%nat.
Proof. exact race_stale. Qed.
Print Assumptions C08_stale_writers_refused.

(* exactly one: when the first writer changes the resource, all the later ones are answered with an error and the
   store stays what the winner left (up to the gate's idempotent home creation) *)
Theorem C08_race_first_wins : forall cfg pol user p o0 r rs s,
  store_inv s -> Forall (writer p o0) (r :: rs) ->
  changing o0 (snd (handle cfg pol user s r)) = true ->
  Forall (fun resp => is_error (fst resp) = true) (snd (run_history cfg pol user (fst (handle cfg pol user s r)) rs))
  /\ fst (run_history cfg pol user (fst (handle cfg pol user s r)) rs)
     = match rs with [] => fst (handle cfg pol user s r) | _ => ensure_home pol (fst (handle cfg pol user s r)) user end.
Proof. exact race_first_wins. Qed.
Print Assumptions C08_race_first_wins.

(* creators: PUT of p with If-None-Match: * (any If-Match).  At most one of any number of them succeeds. *)
Theorem C08_create_race_n : forall cfg pol user p rs s,
  store_inv s -> Forall (creator p) rs ->
  (count succeeded (snd (run_history cfg pol user s rs)) <= 1)%nat.
Proof. exact create_race_n. Qed.
Print Assumptions C08_create_race_n.

(* non-vacuity: on a populated store three writers race from the current ETag of /10/20/100 -- a PUT, a DELETE and
   another PUT: the first is carried out, the other two get 412; two creators of /10/20/101: one 201, one 412. *)
Example C08_race_nonvacuous :
  let pol := fun _ : path => [82; 87; 114; 119] in
  let o0 := ReprExample.ex_ob in
  let rs := [RPut [10; 20; 100] CTNone (BCal [mkObj 0 CEvent 1]) (CTag (EtItem o0)) false;
             RDelete [10; 20; 100] (CTag (EtItem o0));
             RPut [10; 20; 100] CTNone (BCal [mkObj 0 CEvent 2]) (CTag (EtItem o0)) false] in
  let cs := [RPut [10; 20; 101] CTNone (BCal [mkObj 5 CEvent 7]) CNone true;
             RPut [10; 20; 101] CTNone (BCal [mkObj 5 CEvent 8]) CNone true] in
  store_inv ReprExample.ex_sig3
  /\ Forall (writer [10; 20; 100] o0) rs
  /\ map fst (snd (run_history (mkConfig true true) pol (Some 10) ReprExample.ex_sig3 rs)) = [S201; S412; S412]
  /\ count (changing o0) (snd (run_history (mkConfig true true) pol (Some 10) ReprExample.ex_sig3 rs)) = 1%nat
  /\ Forall (creator [10; 20; 101]) cs
  /\ map fst (snd (run_history (mkConfig true true) pol (Some 10) ReprExample.ex_sig3 cs)) = [S201; S412].
Proof.
  cbv zeta. split; [exact (proj1 (proj2 ReprExample.R_nonvacuous))|].
  split; [repeat constructor|]. split; [vm_compute; reflexivity|]. split; [vm_compute; reflexivity|].
  split; [repeat constructor|]. vm_compute; reflexivity.
Qed.
