(* C08 -- ETags identify content and conditional requests prevent lost updates.
   Statements only; model Model/Handlers.v, where an item's ETag is the stored object itself
   (EtItem o: SHA-256 of the serialised text, modelled as injective -- trusted base) and a collection's ETag is
   the collection value (EtColl c). *)
From Coq Require Import List NArith Bool.
Import ListNotations.
Require Import RV.Lib.PyStr RV.Lib.Item RV.Model.Store RV.Model.Access RV.Model.Handlers RV.Proofs.HandlersInv RV.Proofs.HandlersStore.
Open Scope N_scope.

(* The ETag answered by PUT is the one GET, PROPFIND and REPORT show in the same state. *)
Theorem C08_put_then_same_everywhere : forall cfg pol s p ct b im inm s' o,
  store_inv s ->
  do_put cfg pol s p ct b im inm = (s', (S201, PEtag (EtItem o))) ->
  exists pc', resolve s' p = NItem pc' o.
Proof. exact put_then_resolves. Qed.
Print Assumptions C08_put_then_same_everywhere.

Theorem C08_same_everywhere : forall pol s p pc o w,
  resolve s p = NItem pc o ->
  check pol p lr NoItem = true -> check pol p lr IsItem = true -> entry_allowed pol (parent p) true = Some w ->
  do_get pol s p = (S200, PItem o)
  /\ do_propfind pol s p false = (S207, PListing [EItemE p o w])
  /\ (forall cal : bool, tag_eqb (c_tag pc) (if cal then TCal else TAdr) = true ->
        do_multiget pol s p cal [p] = (S207, PListing [EItemE p o false])).
Proof. exact etag_same_everywhere. Qed.
Print Assumptions C08_same_everywhere.

(* An item's ETag matches iff the stored content is that content; a collection's ETag determines items and properties. *)
Theorem C08_item_sensitive : forall pc o o', etag_eqb_current (NItem pc o) (EtItem o') = true <-> o = o'.
Proof. exact etag_item_identifies. Qed.
Print Assumptions C08_item_sensitive.

Theorem C08_coll_sensitive : forall c c', EtColl c = EtColl c' -> c = c'.
Proof. exact etag_coll_identifies. Qed.
Print Assumptions C08_coll_sensitive.

(* If-Match on PUT / DELETE: carried out only if it is the current ETag; otherwise an error and nothing modified. *)
Theorem C08_if_match_put : forall cfg pol s p ct b e inm,
  fst (do_put cfg pol s p ct b (CTag e) inm) = s
  \/ (exists_node (resolve s p) = true /\ etag_eqb_current (resolve s p) e = true).
Proof. exact put_if_match. Qed.
Print Assumptions C08_if_match_put.

Theorem C08_if_match_put_refused : forall cfg pol s p ct b e inm st pl s',
  do_put cfg pol s p ct b (CTag e) inm = (s', (st, pl)) ->
  exists_node (resolve s p) && etag_eqb_current (resolve s p) e = false ->
  s' = s /\ is_error st = true.
Proof. exact put_if_match_fails. Qed.
Print Assumptions C08_if_match_put_refused.

Theorem C08_if_match_delete : forall cfg pol s p e,
  fst (do_delete cfg pol s p (CTag e)) = s \/ etag_eqb_current (resolve s p) e = true.
Proof. exact delete_if_match. Qed.
Print Assumptions C08_if_match_delete.

(* If-None-Match: * on PUT: carried out only if the resource does not exist. *)
Theorem C08_if_none_match : forall cfg pol s p ct b im,
  fst (do_put cfg pol s p ct b im true) = s \/ resolve s p = NNothing.
Proof. exact put_if_none_match. Qed.
Print Assumptions C08_if_none_match.

(* Of two clients racing from the same ETag exactly one succeeds: after the first has changed the content,
   the second is refused and modifies nothing.  (With C09-C11 -- requests are serialised by the storage lock --
   this covers every interleaving.) *)
Theorem C08_race : forall cfg pol s p ct1 b1 inm1 s1 o1 ct2 b2 inm2 o0,
  store_inv s ->
  do_put cfg pol s p ct1 b1 (CTag (EtItem o0)) inm1 = (s1, (S201, PEtag (EtItem o1))) ->
  o1 <> o0 ->
  do_put cfg pol s1 p ct2 b2 (CTag (EtItem o0)) inm2 = (s1, snd (do_put cfg pol s1 p ct2 b2 (CTag (EtItem o0)) inm2))
  /\ is_error (fst (snd (do_put cfg pol s1 p ct2 b2 (CTag (EtItem o0)) inm2))) = true.
Proof. exact put_race. Qed.
Print Assumptions C08_race.
