(* C04 -- Built-in rights back-ends grant exactly the documented permissions.
   Only statements; each closed by `exact` of a lemma from Proofs/, followed by Print Assumptions.
   RightsGen / PathGen are REGENERATED from /repo/radicale on every run (tie T).
   from_file is a hand model (Model/FromFile.v, Model/Regex.v) tied to the code by the correspondence
   run of checks/C04.py (tie K); Python's `re`, `re.escape`, `str.format` are libraries, tied by
   correspondence only. *)
From Coq Require Import List NArith Bool String.
Import ListNotations.
Require Import RV.Lib.PyStr RV.Model.Path RV.Model.Rights RV.Model.Regex RV.Model.RegexLang RV.Model.FromFile.
Require Import RV.Proofs.PathProofs RV.Proofs.RightsProofs RV.Proofs.RightsIntersect RV.Proofs.RightsVerifyProofs RV.Proofs.RegexMatchProofs RV.Proofs.RegexEscapeProofs
               RV.Proofs.RegexFuelProofs RV.Proofs.FromFileProofs RV.Proofs.C04Final.
Require Import RV.Proofs.GenEqRightsPure.
Require RV.Gen.PathGen RV.Gen.RightsGen RV.Gen.RightsVerifyGen RV.Gen.RightsPureGen.
Open Scope list_scope. Open Scope N_scope.

(* ================================================================== the three simple back-ends *)
(* Closed forms by the component list of the path, for EVERY user name, path and auth setting
   (`v` = self._verify_user = auth type is not "none").
     owner_only_spec v u cs  = "" for the anonymous user when v; else
        [] -> "R" ; [o] -> "RW" if owner else "" ; [o;_] -> "rw" if owner else "" ; deeper -> ""
     owner_write_spec        = likewise with "R" / "r" for non-owners
     authenticated_spec      = [] | [_] -> "RW" ; [_;_] -> "rw" ; deeper -> ""
   (Model/Rights.v; "owner" = v is off, or the first component equals the user name exactly). *)
Theorem C04_owner_only : forall v u p,
  RightsGen.authorization_owner_only v u p = owner_only_spec v u (comps p).
Proof. exact c04_owner_only. Qed.
Print Assumptions C04_owner_only.

Theorem C04_owner_write : forall v u p,
  RightsGen.authorization_owner_write v u p = owner_write_spec v u (comps p).
Proof. exact c04_owner_write. Qed.
Print Assumptions C04_owner_write.

Theorem C04_authenticated : forall v u p,
  RightsGen.authorization_authenticated v u p = authenticated_spec v u (comps p).
Proof. exact c04_authenticated. Qed.
Print Assumptions C04_authenticated.

(* The component list of what sanitize_path returns is exactly its list of safe parts (C06), so on the paths the
   request handler passes the closed forms speak about the real collection depth and the real owner. *)
Theorem C04_owner_only_sanitized : forall v u s,
  RightsGen.authorization_owner_only v u (PathGen.sanitize_path s) = owner_only_spec v u (safe_parts s).
Proof. exact c04_owner_only_sanitized. Qed.
Print Assumptions C04_owner_only_sanitized.

Theorem C04_owner_write_sanitized : forall v u s,
  RightsGen.authorization_owner_write v u (PathGen.sanitize_path s) = owner_write_spec v u (safe_parts s).
Proof. exact c04_owner_write_sanitized. Qed.
Print Assumptions C04_owner_write_sanitized.

Theorem C04_authenticated_sanitized : forall v u s,
  RightsGen.authorization_authenticated v u (PathGen.sanitize_path s) = authenticated_spec v u (safe_parts s).
Proof. exact c04_authenticated_sanitized. Qed.
Print Assumptions C04_authenticated_sanitized.

(* owner_only never grants anything inside another user's home (any depth, with or without trailing slash) *)
Theorem C04_no_foreign_home : forall u o rest tr, Forall safe (o :: rest) ->
  (tr = [] \/ tr = [slash]) -> o <> u ->
  RightsGen.authorization_owner_only true u (render (o :: rest) ++ tr) = [].
Proof. exact c04_no_foreign_home. Qed.
Print Assumptions C04_no_foreign_home.

(* owner_write never grants write (W or w) outside one's own home -- the root collection included *)
Theorem C04_no_write_outside_home : forall u parts tr, Forall safe parts ->
  (tr = [] \/ (tr = [slash] /\ parts <> [])) -> hd_error parts <> Some u ->
  no_write (RightsGen.authorization_owner_write true u (render parts ++ tr)) = true.
Proof. exact c04_no_write_outside_home. Qed.
Print Assumptions C04_no_write_outside_home.

Theorem C04_no_write_outside_home_owner_only : forall u parts tr, Forall safe parts ->
  (tr = [] \/ (tr = [slash] /\ parts <> [])) -> hd_error parts <> Some u ->
  no_write (RightsGen.authorization_owner_only true u (render parts ++ tr)) = true.
Proof. exact c04_no_write_outside_home_owner_only. Qed.
Print Assumptions C04_no_write_outside_home_owner_only.

(* none of them grants anything below the calendar / address-book level, whoever asks, auth on or off *)
Theorem C04_nothing_below_collections : forall v u parts tr, Forall safe parts ->
  (tr = [] \/ (tr = [slash] /\ parts <> [])) -> (3 <= List.length parts)%nat ->
  RightsGen.authorization_owner_only v u (render parts ++ tr) = []
  /\ RightsGen.authorization_owner_write v u (render parts ++ tr) = []
  /\ RightsGen.authorization_authenticated v u (render parts ++ tr) = [].
Proof. exact c04_nothing_below_collections. Qed.
Print Assumptions C04_nothing_below_collections.

(* anonymous users get nothing while authentication is enabled: for EVERY path *)
Theorem C04_anonymous_nothing : forall p,
  RightsGen.authorization_owner_only true [] p = []
  /\ RightsGen.authorization_owner_write true [] p = []
  /\ RightsGen.authorization_authenticated true [] p = [].
Proof. exact c04_anonymous_nothing. Qed.
Print Assumptions C04_anonymous_nothing.

(* ... and the owner does get the documented permissions (the denials above are not vacuous) *)
Theorem C04_own_home : forall u c tr, safe u -> safe c -> (tr = [] \/ tr = [slash]) ->
  RightsGen.authorization_owner_only true u (render [u] ++ tr) = str "RW"
  /\ RightsGen.authorization_owner_only true u (render [u; c] ++ tr) = str "rw".
Proof. exact c04_own_home. Qed.
Print Assumptions C04_own_home.

Theorem C04_own_home_owner_write : forall u c tr, safe u -> safe c -> (tr = [] \/ tr = [slash]) ->
  RightsGen.authorization_owner_write true u (render [u] ++ tr) = str "RW"
  /\ RightsGen.authorization_owner_write true u (render [u; c] ++ tr) = str "rw".
Proof. exact c04_own_home_owner_write. Qed.
Print Assumptions C04_own_home_owner_write.

(* "while authentication is enabled": `self._verify_user` (authenticated.Rights.__init__, inherited by owner_only and
   owner_write; RightsVerifyGen.verify_user is REGENERATED from it) is off for the auth type "none" and for no other value of the option
   (`t : option pystr`: Some name, or None = a non-str value, i.e. an auth plugin passed as a callable). *)
Theorem C04_verify_user : forall t, RightsVerifyGen.verify_user t = false <-> t = Some (str "none").
Proof. exact c04_verify_user. Qed.
Print Assumptions C04_verify_user.

(* hence with EVERY other auth type (htpasswd, remote_user, http_x_remote_user, ldap, a custom module, ...) the
   anonymous user gets nothing on any path, and owner_only grants nothing in a foreign home *)
Theorem C04_anonymous_nothing_auth : forall t p, t <> Some (str "none") ->
  RightsGen.authorization_owner_only (RightsVerifyGen.verify_user t) [] p = []
  /\ RightsGen.authorization_owner_write (RightsVerifyGen.verify_user t) [] p = []
  /\ RightsGen.authorization_authenticated (RightsVerifyGen.verify_user t) [] p = [].
Proof. exact c04_anonymous_nothing_auth. Qed.
Print Assumptions C04_anonymous_nothing_auth.

Theorem C04_no_foreign_home_auth : forall t u o rest tr, t <> Some (str "none") -> Forall safe (o :: rest) ->
  (tr = [] \/ tr = [slash]) -> o <> u ->
  RightsGen.authorization_owner_only (RightsVerifyGen.verify_user t) u (render (o :: rest) ++ tr) = [].
Proof. exact c04_no_foreign_home_auth. Qed.
Print Assumptions C04_no_foreign_home_auth.

(* The back-end instance is shared by all request threads.  `authorization` of every built-in back-end (base class,
   authenticated, owner_only, owner_write, from_file) and everything it calls inside the rights package writes
   nothing to `self`, to globals or to shared objects (effect list REGENERATED from the source by t_c04pure.py):
   the back-ends are functions of (configuration, user, path), as the models above and below assume, so no
   interleaving of two requests can make one user's call be evaluated with another user's data. *)
Theorem C04_authorization_pure :
  RightsPureGen.authorization_effects = []
  /\ forallb (fun f => existsb (String.eqb f) RightsPureGen.scanned) expected_scanned = true.
Proof. exact (conj Gen_rights_authorization_pure Gen_rights_scanned_all). Qed.
Print Assumptions C04_authorization_pure.

(* rights.intersect (used to combine the permissions of a collection and of its parent): exactly the letters
   present in both *)
Theorem C04_intersect : forall a b c,
  contains_char c (RightsGen.intersect a b) = contains_char c a && contains_char c b.
Proof. exact c04_intersect. Qed.
Print Assumptions C04_intersect.

(* ================================================================== from_file *)
(* First match wins: permissions x are returned iff some section matches (SMatch: user pattern and instantiated
   collection pattern both match in full, see C04_section_match), carries x, and EVERY section before it was
   skipped.  `skipped u sp sec` := eval_section sec u sp = SNoMatch. *)
Theorem C04_from_file : forall rules u p x,
  authorization rules u p = Perm x <->
  exists pre sec post, rules = pre ++ sec :: post
    /\ Forall (skipped u (strip_path p)) pre
    /\ eval_section sec u (strip_path p) = SMatch /\ s_perm sec = Some x.
Proof. exact c04_from_file. Qed.
Print Assumptions C04_from_file.

(* access is denied (the back-end returns "") exactly when every section is skipped *)
Theorem C04_from_file_deny : forall rules u p,
  authorization rules u p = Deny <-> Forall (skipped u (strip_path p)) rules.
Proof. exact c04_from_file_deny. Qed.
Print Assumptions C04_from_file_deny.

(* an exception (nothing granted, the request fails) comes exactly from the first section that is not skipped:
   malformed pattern / format string / missing `collection`, or a match without `permissions` *)
Theorem C04_from_file_error : forall rules u p,
  authorization rules u p = Error <->
  exists pre sec post, rules = pre ++ sec :: post /\ Forall (skipped u (strip_path p)) pre
    /\ (eval_section sec u (strip_path p) = SError
        \/ (eval_section sec u (strip_path p) = SMatch /\ s_perm sec = None)).
Proof. exact c04_from_file_error. Qed.
Print Assumptions C04_from_file_error.

(* What "matches" means, declaratively (M = the language of a regex, Model/RegexLang.v): the user name is in the
   language of the user pattern AS A WHOLE and the stripped path is in the language, AS A WHOLE, of the collection
   pattern in which re.escape(user) and re.escape(group) were substituted. *)
Theorem C04_section_match : forall sec u sp,
  eval_section sec u sp = SMatch ->
  exists cpat up ru gu cu cp rc gc,
    s_coll sec = Some cpat /\ user_pattern_of sec <> [] /\
    format [] None (user_pattern_of sec) = Ok up /\ compile up = Ok (ru, gu) /\
    fullmatch_fuel (default_fuel ru u) ru u = MOk cu /\ M ru u /\
    instantiate cpat gu cu u = Ok cp /\ compile cp = Ok (rc, gc) /\ M rc sp.
Proof. exact section_match_spec. Qed.
Print Assumptions C04_section_match.

Theorem C04_section_skipped : forall sec u sp,
  eval_section sec u sp = SNoMatch ->
  exists cpat, s_coll sec = Some cpat /\
    (user_pattern_of sec = []
     \/ exists up ru gu, format [] None (user_pattern_of sec) = Ok up /\ compile up = Ok (ru, gu) /\
          (~ M ru u
           \/ exists cu cp rc gc, fullmatch_fuel (default_fuel ru u) ru u = MOk cu /\
                instantiate cpat gu cu u = Ok cp /\ compile cp = Ok (rc, gc) /\ ~ M rc sp)).
Proof. exact section_skipped_spec. Qed.
Print Assumptions C04_section_skipped.

(* No prefix match is mistaken for a full match: whenever the matcher answers, it says yes exactly for the
   strings that are, as a whole, in the language of the pattern ... *)
Theorem C04_fullmatch : forall fuel r s,
  fullmatch_fuel fuel r s <> MFuel -> (is_yes (fullmatch_fuel fuel r s) = true <-> M r s).
Proof. exact fullmatch_correct. Qed.
Print Assumptions C04_fullmatch.

(* ... and with the fuel from_file uses it always answers. *)
Theorem C04_fullmatch_total : forall r s, fullmatch_fuel (default_fuel r s) r s <> MFuel.
Proof. exact default_fuel_enough. Qed.
Print Assumptions C04_fullmatch_total.

(* Every character of an escaped user name / captured group becomes a LITERAL token, wherever the hole stands in
   the normal lexer state: a name containing regex metacharacters cannot widen a rule. *)
Theorem C04_escape_inert : forall pre s post tpre tpost,
  tok_run (TS MNormal []) pre = TS MNormal tpre ->
  tokenize post = Ok tpost ->
  tokenize (pre ++ escape s ++ post) = Ok (tpre ++ lits s ++ tpost).
Proof. exact escape_inert. Qed.
Print Assumptions C04_escape_inert.

(* the same inside a character class: every character becomes a literal member; it cannot close the class,
   negate it or form a range *)
Theorem C04_escape_inert_class : forall s c neg items code1 acc,
  tok_run (TS (MClsAfter1 neg items code1) acc) (escape (s ++ [c]))
  = TS (MClsAfter1 neg (items ++ [code1] ++ map CChar s) (CChar c)) acc.
Proof. exact escape_class_run_after. Qed.
Print Assumptions C04_escape_inert_class.

(* End to end for the holes themselves: the collection pattern "{user}" (resp. "{0}") matches exactly the path that
   IS the user name (resp. the captured group), character for character, whatever it contains. *)
Theorem C04_user_hole_exact : forall args u p,
  match format args (Some (escape u)) (str "{user}") with
  | Ok cp => fullmatch_py cp p
  | _ => FmErr
  end = if eqs p u then FmYes [] else FmNo.
Proof. exact user_hole_exact. Qed.
Print Assumptions C04_user_hole_exact.

Theorem C04_group_hole_exact : forall a rest user p,
  match format (escape a :: rest) user (str "{0}") with
  | Ok cp => fullmatch_py cp p
  | _ => FmErr
  end = if eqs p a then FmYes [] else FmNo.
Proof. exact group_hole0_exact. Qed.
Print Assumptions C04_group_hole_exact.

(* the documented rule `user: .+ / collection: {user}` grants only on the collection named exactly like the user *)
Theorem C04_principal_rule_no_widening : forall perms u sp x,
  authorization_sections [rule_principal perms] u sp = Perm x -> sp = u.
Proof. exact principal_rule_no_widening. Qed.
Print Assumptions C04_principal_rule_no_widening.
