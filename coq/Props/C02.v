(* C02 -- Modifying requests are all-or-nothing under crashes and I/O errors.
   Only statements; each closed by `exact` of a lemma from Proofs/, followed by Print Assumptions.

   Model as for C12.  A fault oracle decides before every mutating system call: execute it, make it fail
   with an errno (no effect), or kill the process there (no clean-up runs).  crash_at k / fail_at k e
   are the single-point oracles of the property text; the theorems hold for EVERY oracle.

   abs_eq s s'        : s and s' show the same client-visible store (all data paths agree)
   dpost (ideal u s0) : the visible store is exactly the ideal effect of operation u on s0 (Proofs/C02Units.v:
                        upload -> that item has the new content; delete -> gone; move -> source gone, target
                        = old source; set_meta -> new props; create -> exactly props + the n items, the old
                        collection gone); everything else as in s0
   fs_inv_weak        : well-formed tree; temp residue and stale cache may exist
   result_ok u s0 r   : weak invariant /\ (before \/ after) /\ (normal end -> after) *)
From Coq Require Import List NArith Bool.
Import ListNotations.
Require Import RV.Lib.Prog RV.Model.Fs RV.Model.StorageOps.
Require Import RV.Proofs.C12Units RV.Proofs.C12Final RV.Proofs.C02Units RV.Proofs.C02Final RV.Proofs.C02Req.
Open Scope N_scope.

(* Crash before the k-th system call, for every operation (PUT new/overwrite, delete item / empty and
   non-empty collection, move within / across, set_meta, one directory level, create / replace a
   collection with props and n items), every state satisfying the weak invariant, every k. *)
Theorem C02_crash : forall lay u s0 k, unit_wf u -> dirs_exist (unit_dirs02 u) s0 -> fs_inv_weak s0 ->
  result_ok u s0 (machine_run (crash_at k) (unit_prog lay u) (start s0)).
Proof. exact c02_crash. Qed.
Print Assumptions C02_crash.

(* The k-th system call fails with errno e (ENOSPC, EACCES, EIO or any other): clean-up runs, the store
   is before or after, a normal end means after. *)
Theorem C02_fault : forall lay u s0 k e, unit_wf u -> dirs_exist (unit_dirs02 u) s0 -> fs_inv_weak s0 ->
  result_ok u s0 (machine_run (fail_at k e) (unit_prog lay u) (start s0)).
Proof. exact c02_fault. Qed.
Print Assumptions C02_fault.

(* The same under any combination of failing calls and a kill. *)
Theorem C02_any_oracle : forall lay u s0 (o : oracle errno), unit_wf u -> dirs_exist (unit_dirs02 u) s0 -> fs_inv_weak s0 ->
  result_ok u s0 (machine_run o (unit_prog lay u) (start s0)).
Proof. exact c02_any. Qed.
Print Assumptions C02_any_oracle.

(* All other data is unchanged: every visible path outside the target(s) of the operation. *)
Theorem C02_untouched : forall lay u s0 (o : oracle errno) q, unit_wf u -> dirs_exist (unit_dirs02 u) s0 -> fs_inv_weak s0 ->
  is_data q = true -> (forall tg, In tg (targets u) -> prefix tg q = false) ->
  look (c_st (fst (machine_run o (unit_prog lay u) (start s0)))) q = look s0 q.
Proof. exact c02_untouched. Qed.
Print Assumptions C02_untouched.

(* Whole requests (reads with cache side effects, then the operation): PUT item, DELETE, MOVE, PROPPATCH,
   MKCALENDAR, PUT of a whole collection followed by its listing. *)
Theorem C02_requests : forall lay r u s0 (o : oracle errno), unit_of r = Some u -> request_wf r ->
  dirs_exist (request_dirs02 r) s0 -> fs_inv_weak s0 ->
  result_ok u s0 (machine_run o (request_prog lay r) (start s0)).
Proof. exact c02_requests. Qed.
Print Assumptions C02_requests.

(* Left-over temp directories, stale cache and history entries are invisible: no sequence of changes
   confined to reserved paths alters the visible store, and it preserves the weak invariant. *)
Theorem C02_recover : forall l s s', forallb nondata_step l = true -> apply_all l s = Some s' ->
  abs_eq s' s /\ (fs_inv_weak s -> fs_inv_weak s').
Proof. exact c02_recover. Qed.
Print Assumptions C02_recover.

(* The fall-back of pathutils.rename_exchange for file systems without RENAME_EXCHANGE (three renames)
   is NOT all-or-nothing: killed between the renames, the collection is missing.  Outside the Linux
   configuration checked (renameat2 available); stated so that the limit of the claim is explicit. *)
Theorem C02_exchange_fallback_refuted :
  exists k, let sk := c_st (fst (machine_run (crash_at k) fb_prog (start fb_fs))) in
            ~ abs_eq sk fb_fs /\ ~ abs_eq sk fb_final.
Proof. exact c02_exchange_fallback_refuted. Qed.
Print Assumptions C02_exchange_fallback_refuted.

(* Non-vacuity: the hypotheses hold for a concrete populated store and a collection replacement. *)
Theorem C02_nonvacuous : forall k,
  let u := UCreate fb_cal (Some [(Safe 10, 11)]) 14 in
  result_ok u fb_fs (machine_run (crash_at k) (unit_prog fb_lay u) (start fb_fs)).
Proof. exact c02_exchange_ok_example. Qed.
Print Assumptions C02_nonvacuous.
