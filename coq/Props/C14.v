(* C14 -- Calendar objects and contacts come back exactly as they were stored.
   Only statements; each closed by `exact` of a lemma from Proofs/, followed by Print Assumptions.

   PARTIAL BY NATURE.  Parsing and serialising is done by the third-party library `vobject`; Model/ContentLine.v
   and the codec / ordering parts of Model/Vobj.v are a MODEL of it for the generator grammar, tied to the
   installed library only by the differential correspondence of checks/C14.py (byte-exact on every run).
   Radicale's own logic -- the clean-ups (Model/Vobj.v), the export state machine (Model/Export.v) and the split of a
   whole-calendar upload by UID (Model/Split.v) -- is modelled statement by statement and proved in full.
   Export.v and Split.v are the code WITH the two repairs notes/fixes/C14-*.patch; the lemmas `*_unfixed_*`
   state what the pinned code did. *)
From Coq Require Import List NArith ZArith Bool Permutation Sorted String.
Import ListNotations.
Require Import RV.Lib.PyStr RV.Model.ContentLine RV.Model.Vobj RV.Model.C14Spec RV.Model.Export RV.Model.Split.
Require Import RV.Proofs.ExportProofs RV.Proofs.SplitProofs RV.Proofs.RegroupProofs RV.Proofs.UnfixedProofs.
Require RV.Proofs.LinesProofs RV.Proofs.QpProofs RV.Proofs.TextProofs RV.Proofs.CleanupProofs RV.Proofs.TreeProofs RV.Proofs.C14Final
        RV.Proofs.CanonProofs RV.Proofs.FixedPointProofs RV.Proofs.SplitCrlfProofs
        RV.Proofs.CodecProofs RV.Proofs.Utf8Proofs RV.Proofs.ZeroDurationProofs RV.Proofs.UidAssignProofs.
Require Import RV.Model.UidAssign.
Require Import RV.Model.Codec.
Require RV.Gen.C14EncSites.
Require RV.Proofs.C14Compose.
Open Scope N_scope.

(* ---------------------------------------------------------------------------------------------------------------
   C14_lines.  (model of vobject)  Printing content lines -- parameters sorted, values quoted when they hold , ; : --
   folding them at 75 octets and reading the text back with the storage reader (vobject.readOne: unfold, split name /
   parameters / value) gives the same lines, for EVERY list of well-formed lines: any length, any code points. *)
Theorem C14_lines : forall ls, Forall wf_cl ls -> parse_lines (print_lines ls) = Some ls.
Proof. exact LinesProofs.lines_roundtrip. Qed.
Print Assumptions C14_lines.

(* not vacuous: a line with a group, a quoted two-valued parameter and a folded multi-byte value is well-formed *)
Theorem C14_lines_nonvacuous : exists l, wf_cl l /\ cl_params l <> [] /\ (75 < N.of_nat (List.length (print_cl l))).
Proof. exact LinesProofs.wf_cl_example. Qed.
Print Assumptions C14_lines_nonvacuous.

(* The same through the reader Radicale uses for uploads (vobject.readComponents(allowQP=True)).
   FULL STATEMENT, not provable -- refuted below:
     Definition C14_lines_qp_full := forall ls, Forall wf_cl ls -> parse_lines_qp (print_lines ls) = Some ls.
   Proved outside the known class C14:fold-ws (no physical line made of white space only) and for lines that do not
   mention quoted-printable (vCard 2.1 soft line breaks are outside the model). *)
Theorem C14_lines_qp_outside_known : forall ls,
  Forall wf_cl ls ->
  Forall (fun l => mentions_qp (print_cl l) = false) ls ->
  no_ws_only_lines (print_lines ls) ->
  parse_lines_qp (print_lines ls) = Some ls.
Proof. exact C14Final.lines_roundtrip_qp. Qed.
Print Assumptions C14_lines_qp_outside_known.

(* witness: SUMMARY-like line "S:" + 73 x + one space (76 characters): the fold leaves the line "  " *)
Theorem C14_lines_qp_refuted :
  wf_cl C14Final.ws_line /\ mentions_qp (print_cl C14Final.ws_line) = false /\
  parse_lines (print_lines [C14Final.ws_line]) = Some [C14Final.ws_line] /\
  parse_lines_qp (print_lines [C14Final.ws_line]) <> Some [C14Final.ws_line] /\
  ~ no_ws_only_lines (print_lines [C14Final.ws_line]).
Proof. exact C14Final.lines_roundtrip_qp_refuted. Qed.
Print Assumptions C14_lines_qp_refuted.

(* ---------------------------------------------------------------------------------------------------------------
   TEXT values (model of vobject's TextBehavior / backslashEscape / stringToTextValues). *)
(* decoding undoes encoding for every text (a CR or CRLF comes back as LF: all three are written as \n) *)
Theorem C14_text_roundtrip : forall v, text_decode (text_encode v) = TextProofs.nl_norm v.
Proof. exact TextProofs.text_decode_encode_gen. Qed.
Print Assumptions C14_text_roundtrip.
Theorem C14_text_roundtrip_exact : forall v, no_cr v -> text_decode (text_encode v) = v.
Proof. exact TextProofs.text_decode_encode. Qed.
Print Assumptions C14_text_roundtrip_exact.
(* what is stored is stable: parse-then-serialise is idempotent on EVERY raw value *)
Theorem C14_text_canon_idempotent : forall raw, text_canon (text_canon raw) = text_canon raw.
Proof. exact TextProofs.text_canon_idem. Qed.
Print Assumptions C14_text_canon_idempotent.
(* a raw value made of plain characters and the escapes \\ \; \, \n is returned unchanged *)
Theorem C14_text_unchanged : forall raw, TextProofs.escaped_ok raw -> text_canon raw = raw.
Proof. exact TextProofs.text_canon_id. Qed.
Print Assumptions C14_text_unchanged.
(* FULL STATEMENT `forall raw, text_canon raw = raw` is refuted: known class C14:text-comma ("geo:1,2" -> "geo:1") *)
Theorem C14_text_comma_refuted : exists raw, text_canon raw <> raw /\ text_decode raw <> raw /\ (List.length (text_canon raw) < List.length raw)%nat.
Proof. exact TextProofs.text_comma_refuted. Qed.
Print Assumptions C14_text_comma_refuted.
(* multi-valued TEXT (CATEGORIES, RESOURCES, REQUEST-STATUS): stable exactly when the last value is not an empty one
   after a separator ("a,," loses one trailing comma per round) *)
Theorem C14_multitext_canon_idempotent : forall sep raw, (sep = COMMA \/ sep = SEMI) ->
  (multitext_canon sep (multitext_canon sep raw) = multitext_canon sep raw <-> TextProofs.mt_stable (text_values sep raw)).
Proof. exact TextProofs.multitext_canon_idem_iff. Qed.
Print Assumptions C14_multitext_canon_idempotent.

(* ---------------------------------------------------------------------------------------------------------------
   C14_cleanups_idempotent.  Radicale's documented clean-ups. *)
Theorem C14_cleanup_controls : forall s,
  strip_ctrl (strip_ctrl s) = strip_ctrl s /\ Forall (fun c => is_ctrl c = false) (strip_ctrl s) /\
  (Forall (fun c => is_ctrl c = false) s -> strip_ctrl s = s).
Proof. intros s. split; [apply CleanupProofs.strip_ctrl_idem|]. split; [apply CleanupProofs.strip_ctrl_clean|apply CleanupProofs.strip_ctrl_none]. Qed.
Print Assumptions C14_cleanup_controls.

(* The Thunderbird clean-up is a normalisation step with a guard: the DURATION lines of a component go ONLY when it has
   a DTEND and its first DURATION is zero -- then all of them go --; without a DTEND, or with a non-zero first DURATION, the
   step is the identity.  (An event of length DTSTART + DURATION:PT0S keeps its DURATION.) *)
Theorem C14_cleanup_zero_duration_guard : forall ch,
  (lines_named s_DTEND ch = [] -> fix_zero_duration ch = ch) /\
  (forall d r, lines_named s_DURATION ch = d :: r -> duration_seconds (cl_value d) <> Some 0 -> fix_zero_duration ch = ch) /\
  (fix_zero_duration ch <> ch ->
     lines_named s_DTEND ch <> [] /\
     (exists d r, lines_named s_DURATION ch = d :: r /\ duration_seconds (cl_value d) = Some 0) /\
     fix_zero_duration ch = drop_named s_DURATION ch).
Proof.
  intros ch. split; [apply ZeroDurationProofs.zero_duration_needs_dtend|]. split; [apply ZeroDurationProofs.zero_duration_needs_zero|apply ZeroDurationProofs.zero_duration_effect].
Qed.
Print Assumptions C14_cleanup_zero_duration_guard.
Theorem C14_cleanup_zero_duration_examples :
  sanitize ZeroDurationProofs.ZeroDurationExample.instant = Some ZeroDurationProofs.ZeroDurationExample.instant /\
  sanitize ZeroDurationProofs.ZeroDurationExample.lightning = Some ZeroDurationProofs.ZeroDurationExample.lightning_cleaned.
Proof. exact ZeroDurationProofs.zero_duration_without_dtend_kept. Qed.
Print Assumptions C14_cleanup_zero_duration_examples.

(* zero DURATION next to DTEND, EXDATE/RDATE value type: cleaning a cleaned object changes nothing.  The side
   condition excludes one malformed input (DTSTART;VALUE=DATE-TIME with a DATE value), for which vobject rewrites
   the VALUE parameter on output -- outside the model; without it the statement is refuted (second theorem). *)
Theorem C14_cleanups_idempotent : forall x y, CleanupProofs.dtstart_consistent x = true -> sanitize x = Some y -> sanitize y = Some y.
Proof. exact CleanupProofs.sanitize_idem. Qed.
Print Assumptions C14_cleanups_idempotent.
Theorem C14_cleanups_idempotent_side_condition_needed :
  exists x y, CleanupProofs.dtstart_consistent x = false /\ sanitize x = Some y /\ sanitize y = None.
Proof. exact CleanupProofs.sanitize_idem_refuted_without_condition. Qed.
Print Assumptions C14_cleanups_idempotent_side_condition_needed.
(* the clean-ups change nothing outside the documented cases *)
Theorem C14_cleanups_only_documented : forall x y, sanitize x = Some y -> nothing_to_clean x = true -> y = x.
Proof. exact CleanupProofs.sanitize_only_documented. Qed.
Print Assumptions C14_cleanups_only_documented.
Theorem C14_cleanups_nonvacuous :
  (exists x y, sanitize x = Some y /\ y <> x) /\ (exists x, nothing_to_clean x = true /\ sanitize x = Some x /\ x <> L (mkCl None [] [] [])).
Proof. split; [exact CleanupProofs.sanitize_changes_something | exact CleanupProofs.sanitize_accepts_clean]. Qed.
Print Assumptions C14_cleanups_nonvacuous.

(* ---------------------------------------------------------------------------------------------------------------
   C14_fixed_point (line level).  The stored text of ANY list of well-formed lines is a fixed point of
   read-then-write: through the storage reader always; through the upload reader outside the known class. *)
Theorem C14_fixed_point_lines : forall ls, Forall wf_cl ls ->
  let t := print_lines ls in
  (exists ls', parse_lines t = Some ls' /\ print_lines ls' = t) /\
  (Forall (fun l => mentions_qp (print_cl l) = false) ls -> no_ws_only_lines t ->
   exists ls', parse_lines_qp t = Some ls' /\ print_lines ls' = t).
Proof. exact C14Final.stored_text_fixed_point. Qed.
Print Assumptions C14_fixed_point_lines.

(* reading a serialised tree back gives the tree (BEGIN/END nesting) *)
Theorem C14_tree_roundtrip : forall xs,
  Forall (fun x => exists n ch, x = C n ch /\ TreeProofs.wf_node x) xs -> build (flatten_all xs) = Some xs.
Proof. exact TreeProofs.build_flatten. Qed.
Print Assumptions C14_tree_roundtrip.

(* vobject's ordering of children (the "sorted print"): a permutation -- nothing lost, nothing invented --, stable
   within a name, and idempotent *)
Theorem C14_canon_order : forall cname ch,
  Permutation (order_children cname ch) ch /\
  (forall k, with_key k (order_default cname ch) = with_key k ch) /\
  order_children cname (order_children cname ch) = order_children cname ch.
Proof.
  intros cname ch. split; [apply CanonProofs.order_children_perm|]. split; [intros k; apply CanonProofs.order_default_stable|apply CanonProofs.order_children_idem].
Qed.
Print Assumptions C14_canon_order.
Theorem C14_canon_idempotent : forall x, canon_node (canon_node x) = canon_node x.
Proof. exact CanonProofs.canon_node_idem. Qed.
Print Assumptions C14_canon_idempotent.

(* ---------------------------------------------------------------------------------------------------------------
   C14_fixed_point.  FULL STATEMENT (not proved; checked by the reload correspondence and the re-upload monitor):
     Definition C14_fixed_point_full := forall t s, put_model t = Some s -> no_ws_only_lines s -> put_model s = Some s.
   PROVED: for every object in normal form (FixedPointProofs.normal_form: well-formed lines, every value in the form its
   codec writes, no clean-up applicable, children in vobject's order, no vCard PHOTO line) the whole upload pipeline
   -- clean-ups, upload reader, tree building, value codecs, sanitising, ordering, folding -- returns the stored
   text, outside the known class C14:fold-ws.  Same octets, hence same SHA-256 ETag.  What is missing for the full
   statement: that the output of put_model is always in normal form (each stage is idempotent -- theorems above --, but
   that no stage disturbs the normal form of another is not proved). *)
Theorem C14_fixed_point : forall y,
  FixedPointProofs.normal_form y ->
  let s := print_node [] y in
  read_cleanup s = s ->
  Forall (fun l => mentions_qp (print_cl l) = false) (flatten y) ->
  no_ws_only_lines s ->
  put_model s = Some s.
Proof. exact FixedPointProofs.put_model_fixed_point. Qed.
Print Assumptions C14_fixed_point.
Theorem C14_fixed_point_nonvacuous :
  FixedPointProofs.normal_form FixedPointProofs.FixedPointExample.ex /\
  read_cleanup (print_node [] FixedPointProofs.FixedPointExample.ex) = print_node [] FixedPointProofs.FixedPointExample.ex /\
  Forall (fun l => mentions_qp (print_cl l) = false) (flatten FixedPointProofs.FixedPointExample.ex) /\
  no_ws_only_lines (print_node [] FixedPointProofs.FixedPointExample.ex).
Proof. exact FixedPointProofs.put_model_fixed_point_example. Qed.
Print Assumptions C14_fixed_point_nonvacuous.

(* ---------------------------------------------------------------------------------------------------------------
   C14_served_is_stored.  In the model the Item served by GET / REPORT / export carries the text of the cache entry
   written at upload, which is the uploaded item's own serialisation (definitional; the monitors compare the three
   channels on the real server); after the loss of the cache entry it is recomputed and equals the stored text exactly
   when that text is a fixed point of the upload pipeline. *)
Theorem C14_served_is_stored : forall text,
  C14Final.get_body (C14Final.upload_store text) = Some text /\
  C14Final.report_data (C14Final.upload_store text) = Some text /\
  C14Final.export_piece (C14Final.upload_store text) = Some text.
Proof. exact C14Final.served_is_stored. Qed.
Print Assumptions C14_served_is_stored.
Theorem C14_served_after_cache_loss : forall text,
  put_model text = Some text -> C14Final.served_text (C14Final.mkStored text None) = Some text.
Proof. exact C14Final.served_after_cache_loss. Qed.
Print Assumptions C14_served_after_cache_loss.
Theorem C14_served_after_cache_loss_normal_form : forall y,
  FixedPointProofs.normal_form y -> let s := print_node [] y in
  read_cleanup s = s -> Forall (fun l => mentions_qp (print_cl l) = false) (flatten y) -> no_ws_only_lines s ->
  C14Final.served_text (C14Final.mkStored s None) = Some s.
Proof. exact FixedPointProofs.reload_serves_stored. Qed.
Print Assumptions C14_served_after_cache_loss_normal_form.

(* ---------------------------------------------------------------------------------------------------------------
   C14_export.  The whole-collection export (BaseCollection.serialize), for EVERY list of stored objects of the
   shape VCALENDAR(properties, blocks): the component lines of the export are the lines of all non-VTIMEZONE
   blocks of all objects, in order, nothing added, nothing lost; the VTIMEZONE lines are those of the first
   block of every TZID key (blocks without TZID all kept); the machine ends in its idle state. *)
Theorem C14_export : forall items, Forall wf_item items ->
  let s := run_items step (map item_lines items) in
  components s = List.concat (map block_lines (comp_blocks items)) /\
  vtimezones s = List.concat (map block_lines (dedup_tz [] (tz_blocks items))) /\
  in_vcalendar s = false /\ vtimezone s = [] /\ tzid s = None /\ tzid_line s = false.
Proof. exact export_spec. Qed.
Print Assumptions C14_export.

(* each TZID exactly once: no key twice among the exported VTIMEZONEs, and none missing *)
Theorem C14_export_tzid_once : forall bs,
  NoDup (keys_of (dedup_tz [] bs)) /\
  (forall b k, In b bs -> tz_key b = Some k -> exists b', In b' (dedup_tz [] bs) /\ tz_key b' = Some k) /\
  (forall b, In b (dedup_tz [] bs) -> In b bs).
Proof.
  intros bs. split; [apply dedup_tz_keys_nodup|]. split; [intros b k; apply dedup_tz_complete|intros b; apply dedup_tz_incl].
Qed.
Print Assumptions C14_export_tzid_once.

(* the key is the UNFOLDED TZID value (the repaired behaviour) *)
Theorem C14_export_key_unfolded : forall b v conts rest,
  b_inner b = (s_TZIDc ++ v) :: conts ++ rest ->
  Forall (fun l => starts_wsp l = true) conts ->
  match rest with [] => True | l :: _ => starts_wsp l = false end ->
  Forall (fun l => startswith l s_TZIDc = false) rest ->
  tz_key b = Some (v ++ List.concat (map (skipn 1) conts)).
Proof. exact tz_key_unfolded. Qed.
Print Assumptions C14_export_key_unfolded.

(* The export cuts an item's text into lines at CRLF and nowhere else (`str.split("\r\n")`): a text whose lines
   hold no CR-LF pair -- whatever else they hold: a lone CR or LF, U+2028, U+2029, U+0085, VT, FF, FS, GS, RS -- is cut
   back into exactly those lines (plus the empty piece after the last CRLF), so C14_export applies to it. *)
Theorem C14_export_lines_only_at_crlf : forall ls, Forall SplitCrlfProofs.no_crlf ls -> split_crlf (crlf_lines ls) = ls ++ [[]].
Proof. exact SplitCrlfProofs.split_crlf_lines. Qed.
Print Assumptions C14_export_lines_only_at_crlf.
Theorem C14_export_other_breaks_ignored :
  split_crlf [97; 8232; 98; 8233; 99; 133; 100; 11; 101; 12; 102; 28; 103; 29; 104; 30; 105; 13; 106; 10; 107] =
  [[97; 8232; 98; 8233; 99; 133; 100; 11; 101; 12; 102; 28; 103; 29; 104; 30; 105; 13; 106; 10; 107]].
Proof. exact SplitCrlfProofs.split_crlf_ignores_other_breaks. Qed.
Print Assumptions C14_export_other_breaks_ignored.

(* the pinned code keyed on the first physical line: two zones whose long TZIDs differ after the fold lose one *)
Theorem C14_export_unfixed_refuted :
  wf_item it1 /\ wf_item it2 /\ tz_key (tzb "/One") <> tz_key (tzb "/Two") /\
  vtimezones (run_items step_unfixed (map item_lines [it1; it2])) = block_lines (tzb "/One") /\
  vtimezones (run_items step (map item_lines [it1; it2])) = block_lines (tzb "/One") ++ block_lines (tzb "/Two").
Proof. exact export_unfixed_loses_vtimezone. Qed.
Print Assumptions C14_export_unfixed_refuted.

(* ---------------------------------------------------------------------------------------------------------------
   C14_split_regroup.  Whole-calendar upload: the VEVENT/VTODO/VJOURNAL components are partitioned by UID. *)
Theorem C14_split_partition : forall u,
  Permutation (flat_map g_comps (split u)) (filter is_main (u_comps u)) /\
  (forall g, In g (split u) -> g_comps g <> [] /\ g_comps g = filter (has_uid (g_uid g)) (collect u)) /\
  StronglySorted (fun a b => str_ltb a b = true) (map g_uid (split u)) /\
  NoDup (map g_uid (split u)).
Proof.
  intros u. split; [apply split_partition|]. split; [apply split_group_spec|]. split; [apply split_uids_increasing|apply split_uids_nodup].
Qed.
Print Assumptions C14_split_partition.

(* the time zones stored with a group: uploaded definitions only, the first one of every referenced TZID, none twice *)
Theorem C14_split_timezones : forall tzs w,
  (forall z, In z (attach tzs w) -> In z tzs /\ exists t, z_tzid z = Some t /\ In t w) /\
  NoDup (flat_map (fun z => match z_tzid z with Some t => [t] | None => [] end) (attach tzs w)) /\
  (forall z t, In z tzs -> z_tzid z = Some t -> In t w ->
     exists z', In z' (attach tzs w) /\ z_tzid z' = Some t /\ find (tzid_is t) tzs = Some z').
Proof.
  intros tzs w. split; [intros z; apply attach_sound|]. split; [apply attach_nodup|intros z t; apply attach_complete].
Qed.
Print Assumptions C14_split_timezones.

(* upload a whole calendar, download it again: the components come back as the same multiset of blocks, every
   exported VTIMEZONE is an uploaded one, no TZID twice, every referenced uploaded zone present *)
Theorem C14_split_regroup : forall u props, wf_upload u -> plain_props props ->
  let s := run_items step (map item_lines (map (item_of_group props) (split u))) in
  (exists bs, components s = List.concat (map block_lines bs)
              /\ Permutation bs (map c_data (filter is_main (u_comps u)))) /\
  (exists zs, vtimezones s = List.concat (map block_lines zs)
              /\ (forall b, In b zs -> exists z, In z (u_tzs u) /\ b = z_data z)
              /\ NoDup (keys_of zs)
              /\ (forall c t z, In c (collect u) -> In t (c_tzrefs c) -> In z (u_tzs u) -> z_tzid z = Some t ->
                    exists b, In b zs /\ tz_key b = Some t)).
Proof. exact split_then_export. Qed.
Print Assumptions C14_split_regroup.

(* the hypotheses of C14_split_regroup are satisfiable by a concrete upload (an event referring to a zone with a
   folded TZID, a to-do without zone) *)
Theorem C14_split_regroup_nonvacuous :
  wf_upload UnfixedProofs.up_ok /\ plain_props [[86; 69; 82; 83; 73; 79; 78; 58; 50; 46; 48]] /\
  (exists c t z, In c (collect UnfixedProofs.up_ok) /\ In t (c_tzrefs c) /\ In z (u_tzs UnfixedProofs.up_ok) /\ z_tzid z = Some t).
Proof. exact wf_upload_example. Qed.
Print Assumptions C14_split_regroup_nonvacuous.

Theorem C14_split_unfixed_refuted :
  map (fun g => List.length (g_tzs g)) (split_unfixed up) = [0; 0]%nat /\
  map (fun g => List.length (g_tzs g)) (split up) = [1; 0]%nat.
Proof. exact split_unfixed_drops_vtimezones. Qed.
Print Assumptions C14_split_unfixed_refuted.

(* ---------------------------------------------------------------------------------------------------------------
   The storage codec ([encoding] stock).  The models above treat the stored file as TEXT; between the text and the
   file there is an encode, and between the file and the text read back a decode, each at a site of
   radicale/storage/multifilesystem that names its charset.  Gen/C14EncSites.v is the table of all such sites,
   regenerated from the source on every run (tie T, fail-closed). *)
(* every site that carries client text (item file written / hashed for the cache key / read; .Radicale.props) takes the
   configured charset, and each of these roles exists *)
Theorem C14_storage_sites_use_configured_charset : sites_ok C14EncSites.sites = true.
Proof. exact CodecProofs.Gen_enc_sites_ok. Qed.
Print Assumptions C14_storage_sites_use_configured_charset.

(* encode with c, decode with c: the identity on every text c can hold; a text it cannot hold is refused (no file) *)
Theorem C14_storage_same_charset_roundtrip : forall c text, codec_ok c ->
  (forall b, file_bytes c text = Some b -> cold_text c c text = Some text /\ cache_valid c c text = true) /\
  (file_bytes c text = None -> cold_text c c text = None).
Proof. exact CodecProofs.same_charset_roundtrip. Qed.
Print Assumptions C14_storage_same_charset_roundtrip.

(* with ANY table that passes sites_ok -- in particular the regenerated one -- whatever the interpreter default and
   whatever literal charsets mean: the file read cold gives the uploaded text back and the cache entry written at upload is
   valid for it; an unencodable text is refused.  Hypothesis: the configured charset decodes what it encodes. *)
Theorem C14_storage_codec_identity : forall l stock dflt fixed w h r text,
  sites_ok l = true -> codec_ok stock ->
  In w l -> s_role w = ItemWrite -> In h l -> s_role h = ItemHash -> In r l -> s_role r = ItemRead ->
  let cw := resolve stock dflt fixed (s_enc w) in
  let ch := resolve stock dflt fixed (s_enc h) in
  let cr := resolve stock dflt fixed (s_enc r) in
  (forall b, file_bytes cw text = Some b -> cold_text cw cr text = Some text /\ cache_valid cw ch text = true) /\
  (enc stock text = None -> file_bytes cw text = None).
Proof. exact CodecProofs.storage_codec_identity. Qed.
Print Assumptions C14_storage_codec_identity.

(* not vacuous: the real table has the three sites; UTF-8 and ISO-8859-1 satisfy codec_ok *)
Theorem C14_storage_codec_nonvacuous :
  ((exists w, In w C14EncSites.sites /\ s_role w = ItemWrite) /\ (exists h, In h C14EncSites.sites /\ s_role h = ItemHash) /\
   (exists r, In r C14EncSites.sites /\ s_role r = ItemRead)) /\ codec_ok utf8 /\ codec_ok latin1.
Proof. split; [exact CodecProofs.real_sites_present|]. split; [exact Utf8Proofs.utf8_ok | exact Utf8Proofs.latin1_ok]. Qed.
Print Assumptions C14_storage_codec_nonvacuous.

(* c <> c' is NOT the identity: a write site left to the interpreter default (UTF-8) under stock = ISO-8859-1 stores
   "caf\u00e9" as 63 61 66 C3 A9, the cache entry never matches, and the text comes back as "caf\u00c3\u00a9"; the other
   way round the file cannot be decoded at all.  Such a table fails sites_ok. *)
Theorem C14_storage_mixed_charsets_refuted :
  sites_ok CodecProofs.bad_sites = false /\
  let cw := resolve latin1 utf8 (fun _ => utf8) EDefault in
  let cs := resolve latin1 utf8 (fun _ => utf8) EStock in
  file_bytes cw [99; 97; 102; 233] = Some [99; 97; 102; 195; 169] /\
  cache_valid cw cs [99; 97; 102; 233] = false /\
  cold_text cw cs [99; 97; 102; 233] = Some [99; 97; 102; 195; 169] /\
  cold_text cs cw [99; 97; 102; 233] = None.
Proof. exact CodecProofs.mixed_charsets_refuted. Qed.
Print Assumptions C14_storage_mixed_charsets_refuted.

(* what a cold read serves is the reload of the uploaded text (then C14_fixed_point / C14_served_after_cache_loss apply) *)
Theorem C14_storage_cold_serve : forall c text b, codec_ok c -> file_bytes c text = Some b ->
  match cold_text c c text with Some t => reload_model t | None => None end = reload_model text.
Proof. exact CodecProofs.cold_serve_is_reload. Qed.
Print Assumptions C14_storage_cold_serve.

(* ---------------------------------------------------------------------------------------------------------------
   Whole-collection upload: an object without a usable UID (no UID property, or an empty first one) gets a generated
   one.  After the step the first UID is non-empty, the number of UID properties is max 1 (old number) -- an empty UID
   property is FILLED, not doubled --, every other child is untouched, objects with a UID are untouched, and the
   step is idempotent (so the stored object is accepted again as it is).  The "always add" shape is refuted. *)
Theorem C14_generated_uid : forall fresh ch, fresh <> [] ->
  first_uid (assign_uid fresh ch) <> [] /\
  List.length (lines_named s_UID (assign_uid fresh ch)) = Nat.max 1 (List.length (lines_named s_UID ch)) /\
  drop_named s_UID (assign_uid fresh ch) = drop_named s_UID ch /\
  (first_uid ch <> [] -> assign_uid fresh ch = ch).
Proof. exact UidAssignProofs.assign_uid_spec. Qed.
Print Assumptions C14_generated_uid.
Theorem C14_generated_uid_idempotent : forall f f' ch, f <> [] -> assign_uid f' (assign_uid f ch) = assign_uid f ch.
Proof. exact UidAssignProofs.assign_uid_idem. Qed.
Print Assumptions C14_generated_uid_idempotent.
Theorem C14_generated_uid_always_add_refuted :
  let card := [L (mkCl None [70; 78] [] [65]); L (mkCl None s_UID [] [])] in
  first_uid (assign_uid_always_add [120] card) = [] /\ uid_values (assign_uid_always_add [120] card) = [[]; [120]] /\
  uid_values (assign_uid [120] card) = [[120]].
Proof. exact UidAssignProofs.assign_uid_always_add_refuted. Qed.
Print Assumptions C14_generated_uid_always_add_refuted.

(* ---------------------------------------------------------------------------------------------------------------
   The stages of the upload pipeline compose (Proofs/C14Compose.v) -- what was missing for C14_fixed_point_full.

   C14_put_stages_commute: whatever tree the upload reader built, after value codecs -> clean-ups -> vobject's ordering
   the result is left unchanged by EACH of the three stages again: the clean-ups do not take values out of codec form
   (the converted EXDATE/RDATE lines are raw-valued), the ordering does not take values out of codec form nor make a
   clean-up applicable again (it is stable within a property name, so the reference DTSTART, the DTEND/DURATION pair
   and every EXDATE/RDATE line are the same), and the ordering is idempotent.  Two side conditions on the upload,
   both needed: no multi-TEXT value that is still unstable after one pass (CATEGORIES:a,, -- refuted below), and no
   DTSTART whose VALUE parameter contradicts its value (C14_cleanups_side_condition_needed). *)
Theorem C14_put_stages_commute : forall x y,
  C14Compose.multi_stable [] x = true ->
  CleanupProofs.dtstart_consistent (canon_values [] x) = true ->
  sanitize (canon_values [] x) = Some y ->
  let z := canon_node y in
  canon_values [] z = z /\ sanitize z = Some z /\ canon_node z = z.
Proof. exact C14Compose.put_stages_commute. Qed.
Print Assumptions C14_put_stages_commute.

(* C14_put_output_normal.  FULL STATEMENT (false, see the two counterexamples below):
     forall s s', put_model s = Some s' -> exists z, s' = print_node [] z /\ normal_form z.
   PROVED with the side condition C14Compose.put_side_ok, a computable predicate of the uploaded text: the two
   conditions above, and -- CHECKED, not derived, on the tree that is printed, with the parameters sorted as print_cl
   writes them (z below is that tree: the one the next read builds) --: every line well-formed (name characters, non-empty
   parameter values without DQUOTE: outside the known class C14:empty-param, no line break), no long vCard PHOTO line
   (vobject never folds it), no control character / data: prefix left in the text, no quoted-printable, outside the known
   class C14:fold-ws.  DERIVED (Proofs/C14Compose.v): the tree is one component with upper-case component names (4c/6c:
   build, and every stage keeps it); the reference DTSTARTs stay consistent (4b); distinct parameter names follow from the
   line check (6d); the three stages are blind to the order of distinctly named parameters and so is printing (6b).
   checks/C14.py evaluates the predicate by vm_compute on every stored text of the put_model stream (suite
   `stored_normal`) and requires it to hold outside the three documented classes. *)
Theorem C14_put_output_normal : forall s s',
  put_model s = Some s' -> C14Compose.put_side_ok s = true ->
  exists z, s' = print_node [] z /\ FixedPointProofs.normal_form z /\ read_cleanup s' = s' /\
            Forall (fun l => mentions_qp (print_cl l) = false) (flatten z) /\ no_ws_only_lines s'.
Proof. exact C14Compose.put_output_normal. Qed.
Print Assumptions C14_put_output_normal.

(* store once = store twice: what the server stored is accepted again and gives the same octets (same ETag), and is
   what a reload after a cache loss serves *)
Theorem C14_put_idempotent : forall s s',
  put_model s = Some s' -> C14Compose.put_side_ok s = true -> put_model s' = Some s'.
Proof. exact C14Compose.put_idempotent. Qed.
Print Assumptions C14_put_idempotent.
Theorem C14_put_then_reload : forall s s',
  put_model s = Some s' -> C14Compose.put_side_ok s = true ->
  C14Final.served_text (C14Final.mkStored s' None) = Some s'.
Proof. exact C14Compose.put_then_reload. Qed.
Print Assumptions C14_put_then_reload.

(* not vacuous: an upload on which every stage acts (reordering, zero DURATION dropped, EXDATE converted with VALUE=DATE
   appended after X-A, TEXT escaped, parameters sent unsorted) meets the side condition, is changed by the pipeline, and its stored text is a fixed point *)
Theorem C14_put_idempotent_nonvacuous :
  C14Compose.put_side_ok C14Compose.ComposeExamples.busy = true /\
  exists s', put_model C14Compose.ComposeExamples.busy = Some s' /\ eqs s' C14Compose.ComposeExamples.busy = false /\
             put_model s' = Some s'.
Proof. exact C14Compose.put_side_ok_nonvacuous. Qed.
Print Assumptions C14_put_idempotent_nonvacuous.

(* the side condition is needed: `CATEGORIES:a,,` is stored as `a,` and stored again as `a` (observed on the real
   pipeline as well; input outside the generator grammar); `CN=""` is the known class C14:empty-param *)
Theorem C14_put_idempotent_side_condition_needed :
  C14Compose.put_side_ok C14Compose.ComposeExamples.trailing = false /\
  exists s1 s2, put_model C14Compose.ComposeExamples.trailing = Some s1 /\ put_model s1 = Some s2 /\ eqs s1 s2 = false.
Proof. exact C14Compose.put_idempotent_side_condition_needed. Qed.
Print Assumptions C14_put_idempotent_side_condition_needed.
Theorem C14_put_idempotent_empty_param_refuted :
  C14Compose.put_side_ok C14Compose.ComposeExamples.empty_param = false /\
  exists s1 s2, put_model C14Compose.ComposeExamples.empty_param = Some s1 /\ put_model s1 = Some s2 /\ eqs s1 s2 = false.
Proof. exact C14Compose.put_idempotent_empty_param_needed. Qed.
Print Assumptions C14_put_idempotent_empty_param_refuted.
