(* C14 -- Calendar objects and contacts come back exactly as they were stored.
   Only statements; each closed by `exact` of a lemma from Proofs/, followed by Print Assumptions.

   PARTIAL BY NATURE.  Parsing and serialising is done by the third-party library `vobject`; Model/ContentLine.v
   and the codec / ordering parts of Model/Vobj.v are a MODEL of it for the generator grammar, tied to the
   installed library only by the differential correspondence of checks/C14.py (byte-exact on every run).
   Radicale's own logic -- the clean-ups (Model/Vobj.v), the export state machine (Model/Export.v) and the split of a
   whole-calendar upload by UID (Model/Split.v) -- is modelled statement by statement and proved in full.
   Export.v and Split.v are the code WITH the two repairs notes/fixes/C14-*.patch; the lemmas `*_unfixed_*`
   state what the pinned code did. *)
From Coq Require Import List NArith ZArith Bool Permutation Sorted String.
Import ListNotations.
Require Import RV.Lib.PyStr RV.Model.ContentLine RV.Model.Vobj RV.Model.C14Spec RV.Model.Export RV.Model.Split.
Require Import RV.Proofs.ExportProofs RV.Proofs.SplitProofs RV.Proofs.RegroupProofs RV.Proofs.UnfixedProofs.
Open Scope N_scope.

(* ---------------------------------------------------------------------------------------------------------------
   C14_export.  The whole-collection export (BaseCollection.serialize), for EVERY list of stored objects of the
   shape VCALENDAR(properties, blocks): the component lines of the export are the lines of all non-VTIMEZONE
   blocks of all objects, in order, nothing added, nothing lost; the VTIMEZONE lines are those of the first
   block of every TZID key (blocks without TZID all kept); the machine ends in its idle state. *)
Theorem C14_export : forall items, Forall wf_item items ->
  let s := run_items step (map item_lines items) in
  components s = List.concat (map block_lines (comp_blocks items)) /\
  vtimezones s = List.concat (map block_lines (dedup_tz [] (tz_blocks items))) /\
  in_vcalendar s = false /\ vtimezone s = [] /\ tzid s = None /\ tzid_line s = false.
Proof. exact export_spec. Qed.
Print Assumptions C14_export.

(* each TZID exactly once: no key twice among the exported VTIMEZONEs, and none missing *)
Theorem C14_export_tzid_once : forall bs,
  NoDup (keys_of (dedup_tz [] bs)) /\
  (forall b k, In b bs -> tz_key b = Some k -> exists b', In b' (dedup_tz [] bs) /\ tz_key b' = Some k) /\
  (forall b, In b (dedup_tz [] bs) -> In b bs).
Proof.
  intros bs. split; [apply dedup_tz_keys_nodup|]. split; [intros b k; apply dedup_tz_complete|intros b; apply dedup_tz_incl].
Qed.
Print Assumptions C14_export_tzid_once.

(* the key is the UNFOLDED TZID value (the repaired behaviour) *)
Theorem C14_export_key_unfolded : forall b v conts rest,
  b_inner b = (s_TZIDc ++ v) :: conts ++ rest ->
  Forall (fun l => starts_wsp l = true) conts ->
  match rest with [] => True | l :: _ => starts_wsp l = false end ->
  Forall (fun l => startswith l s_TZIDc = false) rest ->
  tz_key b = Some (v ++ List.concat (map (skipn 1) conts)).
Proof. exact tz_key_unfolded. Qed.
Print Assumptions C14_export_key_unfolded.

(* the pinned code keyed on the first physical line: two zones whose long TZIDs differ after the fold lose one *)
Theorem C14_export_unfixed_refuted :
  wf_item it1 /\ wf_item it2 /\ tz_key (tzb "/One") <> tz_key (tzb "/Two") /\
  vtimezones (run_items step_unfixed (map item_lines [it1; it2])) = block_lines (tzb "/One") /\
  vtimezones (run_items step (map item_lines [it1; it2])) = block_lines (tzb "/One") ++ block_lines (tzb "/Two").
Proof. exact export_unfixed_loses_vtimezone. Qed.
Print Assumptions C14_export_unfixed_refuted.

(* ---------------------------------------------------------------------------------------------------------------
   C14_split_regroup.  Whole-calendar upload: the VEVENT/VTODO/VJOURNAL components are partitioned by UID. *)
Theorem C14_split_partition : forall u,
  Permutation (flat_map g_comps (split u)) (filter is_main (u_comps u)) /\
  (forall g, In g (split u) -> g_comps g <> [] /\ g_comps g = filter (has_uid (g_uid g)) (collect u)) /\
  StronglySorted (fun a b => str_ltb a b = true) (map g_uid (split u)) /\
  NoDup (map g_uid (split u)).
Proof.
  intros u. split; [apply split_partition|]. split; [apply split_group_spec|]. split; [apply split_uids_increasing|apply split_uids_nodup].
Qed.
Print Assumptions C14_split_partition.

(* the time zones stored with a group: uploaded definitions only, the first one of every referenced TZID, none twice *)
Theorem C14_split_timezones : forall tzs w,
  (forall z, In z (attach tzs w) -> In z tzs /\ exists t, z_tzid z = Some t /\ In t w) /\
  NoDup (flat_map (fun z => match z_tzid z with Some t => [t] | None => [] end) (attach tzs w)) /\
  (forall z t, In z tzs -> z_tzid z = Some t -> In t w ->
     exists z', In z' (attach tzs w) /\ z_tzid z' = Some t /\ find (tzid_is t) tzs = Some z').
Proof.
  intros tzs w. split; [intros z; apply attach_sound|]. split; [apply attach_nodup|intros z t; apply attach_complete].
Qed.
Print Assumptions C14_split_timezones.

(* upload a whole calendar, download it again: the components come back as the same multiset of blocks, every
   exported VTIMEZONE is an uploaded one, no TZID twice, every referenced uploaded zone present *)
Theorem C14_split_regroup : forall u props, wf_upload u -> plain_props props ->
  let s := run_items step (map item_lines (map (item_of_group props) (split u))) in
  (exists bs, components s = List.concat (map block_lines bs)
              /\ Permutation bs (map c_data (filter is_main (u_comps u)))) /\
  (exists zs, vtimezones s = List.concat (map block_lines zs)
              /\ (forall b, In b zs -> exists z, In z (u_tzs u) /\ b = z_data z)
              /\ NoDup (keys_of zs)
              /\ (forall c t z, In c (collect u) -> In t (c_tzrefs c) -> In z (u_tzs u) -> z_tzid z = Some t ->
                    exists b, In b zs /\ tz_key b = Some t)).
Proof. exact split_then_export. Qed.
Print Assumptions C14_split_regroup.

Theorem C14_split_unfixed_refuted :
  map (fun g => List.length (g_tzs g)) (split_unfixed up) = [0; 0]%nat /\
  map (fun g => List.length (g_tzs g)) (split up) = [1; 0]%nat.
Proof. exact split_unfixed_drops_vtimezones. Qed.
Print Assumptions C14_split_unfixed_refuted.
