(* C10 -- All storage access happens under the storage lock in a sufficient mode.
   Only statements; each closed by `exact` of a lemma from Proofs/, followed by Print Assumptions.
   Gen/Skeleton.v is REGENERATED from radicale/app/*.py, storage/multifilesystem/{lock,meta,__init__}.py
   on every run (translate/t_skeleton.py).

   Reading guide: [exec]/[trace_of] (Model/LockDiscipline.v) is the trace semantics of skeleton terms --
   Python control flow plus lock.py's acquire_lock; a trace is the sequence of Parse / Acquire m / Release /
   Hook / Storage k / Return / Raise / Catch events of one request.  [discipline t] says, for every position
   of t: a Storage event happens while the most recent lock event is an Acquire (of mode W when the
   operation writes collection data, any mode for reads and cache-area writes); no Acquire while holding;
   a Release of a W section whose body ended normally is immediately preceded by the Hook; a Hook happens
   only under W, only after a normal end, and the Release follows immediately. *)
From Coq Require Import List NArith Bool String.
Import ListNotations.
Require Import RV.Model.LockDiscipline RV.Proofs.LockDisciplineProofs RV.Proofs.C10Handlers RV.Proofs.C10StorageMut.
Require RV.Gen.Skeleton RV.Gen.StorageMut.

(* The verified checker: for EVERY skeleton term, acceptance implies the discipline on every trace
   (all branches, early returns, exceptions at any point, any number of loop rounds). *)
Theorem C10_checker_sound : forall s, check_skel s = true -> forall t, trace_of s t -> discipline t.
Proof. exact c10_checker_sound. Qed.
Print Assumptions C10_checker_sound.

(* The regenerated terms of all twelve requests (gate + handler) are accepted: vm_compute on the current source. *)
Theorem C10_handlers : forallb (fun p => check_skel (snd p)) Skeleton.requests = true.
Proof. exact Gen_skeleton_requests_ok. Qed.
Print Assumptions C10_handlers.

Theorem C10_requests_disciplined :
  forall name s, In (name, s) Skeleton.requests -> forall t, trace_of s t -> discipline t.
Proof. exact c10_requests_disciplined. Qed.
Print Assumptions C10_requests_disciplined.

(* What the discipline means for storage accesses, spelled out: each lies after an Acquire with no Release
   in between, and a data write lies after an Acquire W. *)
Theorem C10_storage_between : forall t, discipline t ->
  forall pre k post, t = (pre ++ EStorage k :: post)%list ->
  exists m a b, pre = (a ++ EAcquire m :: b)%list /\ (forall e, In e b -> e <> ERelease) /\
                (sop_access k = AWrite -> m = W).
Proof. exact discipline_storage_between. Qed.
Print Assumptions C10_storage_between.

(* The hook never runs in a request that only ever took the shared lock. *)
Theorem C10_hook_needs_w : forall t, discipline t -> In EHook t -> In (EAcquire W) t.
Proof. exact discipline_hook_needs_w. Qed.
Print Assumptions C10_hook_needs_w.

(* lock.py (regenerated): the hook is started exactly for mode "w". *)
Theorem C10_hook_modes : Skeleton.hook_modes = [W] /\ forall m, existsb (mode_eqb m) Skeleton.hook_modes = hook_mode m.
Proof. exact (conj c10_hook_modes_gen Gen_hook_modes_eq). Qed.
Print Assumptions C10_hook_modes.

(* Which storage operations write what: only the five writer operations write collection data; sync,
   the item getters, etag, has_uid, serialize write at most below the cache; get_meta / tag /
   last_modified only read.  (The table is tied to the implementation by the trace correspondence.) *)
Theorem C10_storage_ops : forall k,
  (sop_access k = AWrite <-> In k [SetMeta; Upload; Delete; Move; CreateCollection]) /\
  (In k [Sync; GetAll; GetMulti; GetFiltered; Discover; Etag; HasUid; Serialize; Verify] -> sop_access k = ACache) /\
  (In k [GetMeta; Tag; LastModified] -> sop_access k = ARead).
Proof. exact c10_storage_ops. Qed.
Print Assumptions C10_storage_ops.

Theorem C10_shared_lock_ops : forall k,
  sufficient (Some R) k <-> ~ In k [SetMeta; Upload; Delete; Move; CreateCollection].
Proof. exact c10_sufficient_r. Qed.
Print Assumptions C10_shared_lock_ops.

(* get_meta (hence tag) and etag re-read the folder iff the process-wide lock view is "w" or nothing is
   cached (conditions regenerated from meta.py / __init__.py) -- so a call after Release is a real storage
   read whenever another thread of the process holds the lock exclusively. *)
Theorem C10_meta_cache : forall v cached,
  (Skeleton.meta_reread (view_is_w v) (negb cached) = true <-> (v = LWrite \/ cached = false)) /\
  (Skeleton.etag_reread (view_is_w v) (negb cached) = true <-> (v = LWrite \/ cached = false)).
Proof. exact c10_meta_cache_gen. Qed.
Print Assumptions C10_meta_cache.

(* The table above against the storage CODE (tie T; Gen/StorageMut.v is regenerated from radicale/storage/__init__.py and
   radicale/storage/multifilesystem/*.py by translate/t_storagemut.py on every run): every call site of a file system
   mutation whose path is not provably below the cache area is reachable only from operations the table classifies as
   data writers -- which the discipline admits under the exclusive lock only (C10_shared_lock_ops) --, and the operations
   classified "read only" reach no mutation site at all.  Holds for code that only runs on unusual storage states too
   (clean-up of what a crashed writer left behind, repairs, migrations). *)
Theorem C10_static_mutations :
  (forall k site, In (k, site) StorageMut.storage_data_mutations -> sop_access k = AWrite) /\
  (forall k site, In (k, site) StorageMut.storage_other_mutations -> sop_access k <> ARead).
Proof. exact c10_static_mutations. Qed.
Print Assumptions C10_static_mutations.

Theorem C10_shared_lock_static : forall k site,
  In (k, site) StorageMut.storage_data_mutations -> ~ sufficient (Some R) k.
Proof. exact c10_shared_lock_static. Qed.
Print Assumptions C10_shared_lock_static.
