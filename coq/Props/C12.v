(* C12 -- Acknowledged writes are durable: data is synced before it becomes visible.
   Only statements; each closed by `exact` of a lemma from Proofs/, followed by Print Assumptions.

   Model: Model/Fs.v (steps = system calls, durability monitor `durable`), Model/StorageOps.v (the storage
   operations and the requests as step programs, transcribed from radicale/storage/multifilesystem and
   compared with `strace` of the real server on every run), Lib/Prog.v (interpreter `run` under a fault
   oracle).  `machine_run o p (start s)` = (final configuration, outcome); `done (c_tr c)` = the
   successfully executed steps, in order.

   durable t  (Model/Fs.v):  replaying t, a file is "dirty" from a Write until the FsyncF of that file, a
   directory entry is "dirty" from its creation / removal / replacement until the FsyncD of its directory;
   records follow Rename / Exchange.  t is durable iff (1) no visible file is created or written in
   place, (2) no Rename / Exchange puts a dirty file or a dirty directory entry under a visible name
   (flushed BEFORE visible), (3) at the end no visible entry is dirty (directory flushed AFTERWARDS).
   Visible = below collection-root with safe components only (+ a final .Radicale.props); cache, temp,
   lock and other reserved names are exempt. *)
From Coq Require Import List NArith Bool.
Import ListNotations.
Require Import RV.Lib.Prog RV.Model.Fs RV.Model.StorageOps.
Require Import RV.Proofs.C12Units RV.Proofs.C12Final RV.Proofs.C12Home RV.Proofs.C12Examples RV.Proofs.C02Req.
Open Scope N_scope.

(* The executable check used on real traces is the predicate. *)
Theorem C12_durable_decidable : forall t, durableb t = true <-> durable t.
Proof. exact durableb_spec. Qed.
Print Assumptions C12_durable_decidable.

(* Every storage operation (upload, delete item / collection, move, set_meta, one directory level,
   create_collection with props and n items -- induction on n), from EVERY state in which its collections
   exist, under EVERY fault oracle: if it ends normally its trace is durable.  unit_wf: the arguments are
   what the handlers pass (collection paths below collection-root made of safe names, safe hrefs). *)
Theorem C12_ops : forall lay u s (o : oracle errno), unit_wf u -> dirs_exist (unit_dirs u) s ->
  let r := machine_run o (unit_prog lay u) (start s) in
  snd r = ONorm -> durable (done (c_tr (fst r))).
Proof. exact c12_units. Qed.
Print Assumptions C12_ops.

(* In particular a failing flush is never acknowledged: if, under some oracle (e.g. fail_at k EIO on an fsync),
   the executed steps are not durable, the operation does not end normally. *)
Theorem C12_unflushed_aborts : forall lay u s (o : oracle errno), unit_wf u -> dirs_exist (unit_dirs u) s ->
  let r := machine_run o (unit_prog lay u) (start s) in ~ durable (done (c_tr (fst r))) -> snd r <> ONorm.
Proof. exact c12_unflushed_aborts. Qed.
Print Assumptions C12_unflushed_aborts.

(* _makedirs_synced of ANY path from ANY state: each created level is followed by the fsync of its parent. *)
Theorem C12_makedirs : forall p s (o : oracle errno),
  let r := machine_run o (MD p) (start s) in snd r = ONorm -> durable (done (c_tr (fst r))).
Proof. exact c12_makedirs. Qed.
Print Assumptions C12_makedirs.

(* Whole requests (the handler's reads with their cache side effects, then the operation): PUT item,
   DELETE item / collection, MOVE, PROPPATCH, MKCOL, MKCALENDAR. *)
Theorem C12_requests : forall lay r s (o : oracle errno), request_wf r ->
  match r with RPutColl _ _ _ _ => False | RHome _ _ => False | _ => True end ->
  dirs_exist (request_dirs r) s ->
  let res := machine_run o (request_prog lay r) (start s) in
  snd res = ONorm -> durable (done (c_tr (fst res))).
Proof. exact c12_requests. Qed.
Print Assumptions C12_requests.

(* PUT of a whole collection with n items (new or replacing), followed by the listing of the new collection. *)
Theorem C12_putcoll : forall lay par x its pv names s (o : oracle errno), coll_path par = true -> is_safe x = true ->
  fs_inv_weak s -> look s par = Some D ->
  let res := machine_run o (request_prog lay (RPutColl (par ++ [x]) its pv names)) (start s) in
  snd res = ONorm -> durable (done (c_tr (fst res))).
Proof. exact c12_putcoll. Qed.
Print Assumptions C12_putcoll.

(* First-login home creation with any list of predefined collections.  The handler logs and ignores a
   ValueError of a predefined collection, therefore the claim is for runs in which no step failed. *)
Theorem C12_home : forall lay home l s (o : oracle errno), coll_path home = true ->
  (forall x pv, In (x, pv) l -> is_safe x = true) ->
  let res := machine_run o (request_prog lay (RHome home l)) (start s) in
  snd res = ONorm -> all_ok (c_tr (fst res)) = true -> durable (done (c_tr (fst res))).
Proof. exact c12_home. Qed.
Print Assumptions C12_home.

(* A directory fsync counts for the directory it REACHES: `FsyncD d` stands for the fsync of the directory linked at d
   at the time of the call.  When a visible entry q is unsynced, fsyncs of any directories other than the one q is
   linked in (a descriptor kept from before the collection was replaced or removed and re-created names a path below
   a temp directory, or none) leave the trace non-durable.  Example: replace a collection, then PUT with the fsync
   on the old directory. *)
Theorem C12_dir_fsync_by_identity : forall ds t q, is_data q = true -> In (DE q) (m_dirty (mon_run t)) ->
  (forall d, In d ds -> parent q <> d) -> ~ durable (t ++ map FsyncD ds).
Proof. exact c12_dir_fsyncs_elsewhere. Qed.
Print Assumptions C12_dir_fsync_by_identity.

Theorem C12_replaced_directory_example :
  durableb (ex_replace_then_put (ex_u ++ [Tmp 0; Other 0])) = false /\ durableb (ex_replace_then_put ex_cal) = true.
Proof. exact bad_fsync_of_replaced_directory. Qed.
Print Assumptions C12_replaced_directory_example.

(* The hypotheses are satisfiable and the conclusion is not vacuous: a concrete store, a successful PUT
   with a 27-event trace; and the predicate rejects the classic mistakes. *)
Theorem C12_nonvacuous :
  (unit_wf (UUpload ex_cal (Safe 5) 9 []) /\ dirs_exist (unit_dirs (UUpload ex_cal (Safe 5) 9 [])) ex_fs)
  /\ snd (ex_run (UUpload ex_cal (Safe 5) 9 [])) = ONorm
  /\ durableb [Mkdir ex_t; Create (ex_t ++ [Safe 5]); Write (ex_t ++ [Safe 5]) 9; Rename (ex_t ++ [Safe 5]) (ex_cal ++ [Safe 5]);
               FsyncF (ex_cal ++ [Safe 5]); Rmtree ex_t; FsyncD ex_cal] = false
  /\ durableb [Mkdir ex_t; Create (ex_t ++ [Safe 5]); Write (ex_t ++ [Safe 5]) 9; FsyncF (ex_t ++ [Safe 5]);
               Rename (ex_t ++ [Safe 5]) (ex_cal ++ [Safe 5]); Rmtree ex_t] = false.
Proof. exact (conj ex_upload_wf (conj (proj1 ex_upload_ok) (conj bad_fsync_after_rename bad_no_dir_fsync))). Qed.
Print Assumptions C12_nonvacuous.
