(* What `Access.check` can learn about its `item` argument. *)
From Coq Require Import List NArith Bool.
Require Import RV.Lib.PyStr.
Inductive item_kind := NoItem | IsCollection (tag : pystr) | IsItem.
Definition item_truthy (i : item_kind) : bool := match i with NoItem => false | _ => true end.
Definition item_is_collection (i : item_kind) : bool := match i with IsCollection _ => true | _ => false end.
Definition item_tag (i : item_kind) : pystr := match i with IsCollection t => t | _ => nil end.
