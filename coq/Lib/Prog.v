(* Step programs with failure, clean-up and faults (shared by C02 and C12).

   A program is a small tree of primitive steps (system calls), reads of the state, exception
   raising / catching and temp-name allocation.  It mirrors the `with` / `try` structure of the Python
   storage operations.  The interpreter `run` executes a program under a FAULT ORACLE: before the n-th
   mutating step the oracle says Go (execute it), FailE e (the call fails with errno e and has no
   effect) or Kill (the process dies there; nothing more runs, no clean-up).  "Crash before the k-th
   step" and "the k-th step fails with e" are the single-point oracles `crash_at k`, `fail_at k e`;
   the theorems are proved for EVERY oracle (any number of failing calls).

   No proofs in this file (Proofs/ProgLemmas.v). *)
From Coq Require Import List NArith Bool.
Import ListNotations.

Section Prog.
  Variables (step errno path rd St : Type).
  (* app: effect of a step or the errno it naturally fails with; look: what a read observes;
     ls: the entries of a directory *)
  Variable app : step -> St -> St + errno.
  Variable look : St -> path -> rd.
  Variable ls : St -> path -> list path.

  Inductive exn := EOS (e : errno) | ERun | EVal.

  Inductive prog :=
  | Ret
  | Raise (e : exn)
  | Try (s : step) (kok : prog) (kerr : errno -> prog)   (* do s; on success kok, on failure kerr e *)
  | Fresh (k : N -> prog)                                (* mkdtemp: a new temp-name id *)
  | Seq (p q : prog)
  | Read (p : path) (k : rd -> prog)                     (* stat / open-for-read / isdir / lexists *)
  | Ls (p : path) (k : list path -> prog)                (* scandir *)
  | Catch (p : prog) (h : exn -> prog).

  Definition Do (s : step) : prog := Try s Ret (fun e => Raise (EOS e)).
  (* try: p finally: c   (c runs on both paths; an exception of c replaces the pending one) *)
  Definition Finally (p c : prog) : prog := Seq (Catch p (fun e => Seq c (Raise e))) c.

  Inductive fault := Go | FailE (e : errno) | Kill.
  Definition oracle := nat -> fault.
  Inductive outcome := ONorm | OExn (e : exn) | OKilled.

  (* an executed or attempted step: (step, succeeded?) *)
  Definition event := (step * bool)%type.
  Record config := Cfg { c_n : nat; c_fresh : N; c_st : St; c_tr : list event }.

  Fixpoint run (o : oracle) (p : prog) (c : config) : config * outcome :=
    match p with
    | Ret => (c, ONorm)
    | Raise e => (c, OExn e)
    | Try s kok kerr =>
        match o (c_n c) with
        | Kill => (c, OKilled)
        | FailE e => run o (kerr e) (Cfg (S (c_n c)) (c_fresh c) (c_st c) (c_tr c ++ [(s, false)]))
        | Go => match app s (c_st c) with
                | inl s' => run o kok (Cfg (S (c_n c)) (c_fresh c) s' (c_tr c ++ [(s, true)]))
                | inr e => run o (kerr e) (Cfg (S (c_n c)) (c_fresh c) (c_st c) (c_tr c ++ [(s, false)]))
                end
        end
    | Fresh k => run o (k (c_fresh c)) (Cfg (c_n c) (N.succ (c_fresh c)) (c_st c) (c_tr c))
    | Seq p q => match run o p c with
                 | (c', ONorm) => run o q c'
                 | r => r
                 end
    | Read pa k => run o (k (look (c_st c) pa)) c
    | Ls pa k => run o (k (ls (c_st c) pa)) c
    | Catch p h => match run o p c with
                   | (c', OExn e) => run o (h e) c'
                   | r => r
                   end
    end.

  Definition no_fault : oracle := fun _ => Go.
  Definition crash_at (k : nat) : oracle := fun n => if Nat.eqb n k then Kill else Go.
  Definition fail_at (k : nat) (e : errno) : oracle := fun n => if Nat.eqb n k then FailE e else Go.

  Definition start (s : St) : config := Cfg 0 0%N s [].

  (* successfully executed steps of a trace *)
  Definition done (t : list event) : list step := map fst (filter snd t).

  (* Weakest precondition with three post-conditions: Q normal end, E exceptional end,
     C every point at which the process may be killed.  All faults are over-approximated:
     every step may fail with every errno. *)
  Definition assertion := St -> list event -> Prop.
  Fixpoint wp (p : prog) (Q : assertion) (E : exn -> assertion) (C : assertion) : assertion :=
    fun s t =>
    match p with
    | Ret => Q s t
    | Raise e => E e s t
    | Try st kok kerr =>
        C s t /\ (forall e, wp (kerr e) Q E C s (t ++ [(st, false)]))
        /\ (forall s', app st s = inl s' -> wp kok Q E C s' (t ++ [(st, true)]))
    | Fresh k => forall id, wp (k id) Q E C s t
    | Seq p q => wp p (wp q Q E C) E C s t
    | Read pa k => wp (k (look s pa)) Q E C s t
    | Ls pa k => wp (k (ls s pa)) Q E C s t
    | Catch p h => wp p Q (fun e => wp (h e) Q E C) C s t
    end.

  (* all primitive steps of a program (also in handlers, for every id and read result) satisfy nd *)
  Fixpoint all_steps (nd : step -> Prop) (p : prog) : Prop :=
    match p with
    | Ret | Raise _ => True
    | Try st kok kerr => nd st /\ all_steps nd kok /\ forall e, all_steps nd (kerr e)
    | Fresh k => forall id, all_steps nd (k id)
    | Seq p q => all_steps nd p /\ all_steps nd q
    | Read _ k => forall r, all_steps nd (k r)
    | Ls _ k => forall r, all_steps nd (k r)
    | Catch p h => all_steps nd p /\ forall e, all_steps nd (h e)
    end.
End Prog.

Arguments Ret {step errno path rd}.
Arguments Raise {step errno path rd} e.
Arguments Try {step errno path rd} s kok kerr.
Arguments Fresh {step errno path rd} k.
Arguments Seq {step errno path rd} p q.
Arguments Read {step errno path rd} p k.
Arguments Ls {step errno path rd} p k.
Arguments Catch {step errno path rd} p h.
Arguments Do {step errno path rd} s.
Arguments Finally {step errno path rd} p c.
Arguments EOS {errno} e.
Arguments ERun {errno}.
Arguments EVal {errno}.
Arguments Go {errno}.
Arguments FailE {errno} e.
Arguments Kill {errno}.
Arguments ONorm {errno}.
Arguments OExn {errno} e.
Arguments OKilled {errno}.
Arguments Cfg {step St} c_n c_fresh c_st c_tr.
Arguments c_n {step St} c.
Arguments c_fresh {step St} c.
Arguments c_st {step St} c.
Arguments c_tr {step St} c.
Arguments no_fault {errno}.
Arguments crash_at {errno} k.
Arguments fail_at {errno} k e.
Arguments start {step St} s.
Arguments done {step} t.
