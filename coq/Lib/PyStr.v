(* Python `str` as a list of code points, and Gallina models of the Python
   standard-library functions the translated code calls.  These models are in
   the trusted base; they are validated differentially against CPython by
   the `stdlib` correspondence suite (exhaustive small strings + random).
   No proofs in this file. *)
From Coq Require Import List NArith Bool String Ascii.
Import ListNotations.
Open Scope N_scope.

Definition pystr := list N.

Fixpoint str (s : string) : pystr :=
  match s with
  | EmptyString => []
  | String a r => N_of_ascii a :: str r
  end.

Fixpoint eqs (a b : pystr) : bool :=
  match a, b with
  | [], [] => true
  | x :: a', y :: b' => N.eqb x y && eqs a' b'
  | _, _ => false
  end.

Definition nonempty {A} (s : list A) : bool := match s with [] => false | _ => true end.

Fixpoint startswith (s p : pystr) {struct p} : bool :=
  match p, s with
  | [], _ => true
  | y :: p', x :: s' => N.eqb x y && startswith s' p'
  | _ :: _, [] => false
  end.

Definition endswith (s p : pystr) : bool := startswith (rev s) (rev p).

Fixpoint contains_char (c : N) (s : pystr) : bool :=
  match s with [] => false | x :: r => N.eqb x c || contains_char c r end.

Fixpoint count_char (c : N) (s : pystr) : N :=
  match s with [] => 0 | x :: r => (if N.eqb x c then 1 else 0) + count_char c r end.

(* s.split(c) for a one-character separator: never returns []. *)
Fixpoint split_on (c : N) (s : pystr) : list pystr :=
  match s with
  | [] => [[]]
  | x :: r =>
      if N.eqb x c then [] :: split_on c r
      else match split_on c r with
           | [] => [[x]]           (* unreachable *)
           | w :: ws => (x :: w) :: ws
           end
  end.

(* s.split(c, maxsplit=1): (first, Some rest) or (s, None) *)
Fixpoint split1 (c : N) (s : pystr) : pystr * option pystr :=
  match s with
  | [] => ([], None)
  | x :: r => if N.eqb x c then ([], Some r)
              else let '(a, b) := split1 c r in (x :: a, b)
  end.

Fixpoint lstrip_char (c : N) (s : pystr) : pystr :=
  match s with
  | x :: r => if N.eqb x c then lstrip_char c r else s
  | [] => []
  end.
Definition rstrip_char (c : N) (s : pystr) : pystr := rev (lstrip_char c (rev s)).
Definition strip_char (c : N) (s : pystr) : pystr := rstrip_char c (lstrip_char c s).

Fixpoint join (sep : pystr) (l : list pystr) : pystr :=
  match l with
  | [] => []
  | w :: r => match r with [] => w | _ => w ++ sep ++ join sep r end
  end.

Fixpoint mem_str (s : pystr) (l : list pystr) : bool :=
  match l with [] => false | x :: r => eqs s x || mem_str s r end.

Fixpoint repeat_char (c : N) (n : nat) : pystr :=
  match n with O => [] | S k => c :: repeat_char c k end.

Definition slash : N := 47.
Definition dot : N := 46.
Definition tilde : N := 126.

(* posixpath.join(a, b) *)
Definition posix_join (a b : pystr) : pystr :=
  if startswith b [slash] then b
  else if negb (nonempty a) || endswith a [slash] then a ++ b
  else a ++ [slash] ++ b.

(* posixpath.normpath.  `initial` = number of leading slashes kept (0, 1, 2). *)
Definition last_is_dotdot (rev_comps : list pystr) : bool :=
  match rev_comps with c :: _ => eqs c [dot; dot] | [] => false end.

Fixpoint normpath_loop (initial : bool) (comps : list pystr) (acc : list pystr) : list pystr :=
  (* acc is new_comps reversed *)
  match comps with
  | [] => rev acc
  | comp :: rest =>
      if eqs comp [] || eqs comp [dot] then normpath_loop initial rest acc
      else if negb (eqs comp [dot; dot])
              || (negb initial && negb (nonempty acc))
              || last_is_dotdot acc
           then normpath_loop initial rest (comp :: acc)
           else match acc with
                | _ :: acc' => normpath_loop initial rest acc'
                | [] => normpath_loop initial rest acc
                end
  end.

Definition normpath (path : pystr) : pystr :=
  if negb (nonempty path) then [dot] else
  let initial : nat :=
    if startswith path [slash] then
      if startswith path [slash; slash] && negb (startswith path [slash; slash; slash])
      then 2%nat else 1%nat
    else 0%nat in
  let comps := normpath_loop (negb (Nat.eqb initial 0)) (split_on slash path) [] in
  let p := repeat_char slash initial ++ join [slash] comps in
  if nonempty p then p else [dot].

(* posixpath.dirname *)
Fixpoint rfind_slash_rev (r : pystr) : option pystr :=
  (* r = reversed string; returns reversed head including the last slash *)
  match r with
  | [] => None
  | x :: t => if N.eqb x slash then Some r else rfind_slash_rev t
  end.
Definition all_slashes (s : pystr) : bool := forallb (N.eqb slash) s.
Definition posix_dirname (p : pystr) : pystr :=
  match rfind_slash_rev (rev p) with
  | None => []
  | Some rh =>
      let head := rev rh in
      if nonempty head && negb (all_slashes head) then rstrip_char slash head else head
  end.

(* str.upper / str.lower restricted to ASCII letters (used on permission letters only) *)
Definition upper_c (c : N) : N := if (97 <=? c) && (c <=? 122) then c - 32 else c.
Definition lower_c (c : N) : N := if (65 <=? c) && (c <=? 90) then c + 32 else c.
Definition upper_ascii (s : pystr) : pystr := map upper_c s.
Definition lower_ascii (s : pystr) : pystr := map lower_c s.

(* "".join(set(a).intersection(set(b))) compared as a set of characters:
   truthiness and membership are all the callers use. *)
Fixpoint intersect_chars (a b : pystr) : pystr :=
  match a with
  | [] => []
  | x :: r => if contains_char x b && negb (contains_char x r)
              then x :: intersect_chars r b else intersect_chars r b
  end.

(* Python `a in b` for strings: substring test *)
Fixpoint contains_sub (a b : pystr) : bool :=
  startswith b a || match b with [] => false | _ :: r => contains_sub a r end.
