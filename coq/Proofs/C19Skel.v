(* C19 -- trace-level theorems over the regenerated skeleton terms (strengthening of Proofs/C19ParseFirst.v):
   a request whose body read fails does nothing but raise / catch and then either lets the exception leave
   the handler or returns 400 / 408; nothing touches the lock, the storage or the hook. *)
From Coq Require Import List NArith Bool String.
Import ListNotations.
Require Import RV.Model.LockDiscipline RV.Proofs.LockDisciplineProofs RV.Model.XmlReject RV.Gen.Skeleton
               RV.Proofs.C19ParseFirst.
Open Scope N_scope.

Lemma ph_eqb_eq a b : ph_eqb a b = true <-> a = b.
Proof.
  destruct a, b; simpl; split; intro H; try reflexivity; try discriminate.
  - apply N.eqb_eq in H. subst. reflexivity.
  - inversion H. apply N.eqb_refl.
Qed.

(* ------------------------------------------------------------------ what each automaton state knows *)
Definition inv19s (q : ph) (t : list event) : Prop :=
  match q with
  | PhNot => Forall quiet t /\ ~ In EParseFail t
  | PhDone => ~ In EParseFail t
  | PhFailed => In EParseFail t /\ Forall quiet t
  | PhFailedRet c => exists t0, t = (t0 ++ [EReturn (StCode c)])%list /\ (c = 400 \/ c = 408) /\
                                In EParseFail t0 /\ Forall quiet t0
  end.

Lemma Forall_snoc {A} (P : A -> Prop) l x : Forall P l -> P x -> Forall P (l ++ [x]).
Proof. intros Hl Hx. apply Forall_app. split; [exact Hl | constructor; [exact Hx | constructor]]. Qed.

Lemma not_in_snoc {A} (x y : A) l : ~ In x l -> x <> y -> ~ In x (l ++ [y]).
Proof. intros Hl Hn Hin. apply in_app_iff in Hin. destruct Hin as [H|[H|[]]]; [auto | apply Hn; auto]. Qed.

Lemma fail_code_some st c : fail_code st = Some c -> st = StCode c /\ (c = 400 \/ c = 408).
Proof.
  destruct st as [n|]; simpl; [|discriminate].
  destruct ((n =? 400) || (n =? 408)) eqn:E; [|discriminate].
  intro H. inversion H. subst c. split; [reflexivity|].
  apply orb_true_iff in E. destruct E as [E|E]; apply N.eqb_eq in E; auto.
Qed.

Lemma steps19s_state t : forall q, steps step19s PhNot t = Some q -> inv19s q t.
Proof.
  induction t as [|e t IH] using rev_ind; intros q H.
  - simpl in H. inversion H. simpl. split; [constructor | intros []].
  - rewrite steps_snoc in H. destruct (steps step19s PhNot t) as [q1|] eqn:E; [|discriminate].
    specialize (IH _ eq_refl). destruct q1 as [| | |c]; simpl in IH.
    + (* PhNot *)
      destruct IH as (Hq & Hf).
      destruct e; simpl in H; try discriminate; inversion H; subst q; simpl.
      * (* EParse *) apply not_in_snoc; [exact Hf | discriminate].
      * (* EParseFail *) split; [apply in_app_iff; right; left; reflexivity|].
        apply Forall_snoc; [exact Hq | left; reflexivity].
      * (* EReturn *) apply not_in_snoc; [exact Hf | discriminate].
      * (* ERaise *) split; [apply Forall_snoc; [exact Hq | right; left; reflexivity]
                           | apply not_in_snoc; [exact Hf | discriminate]].
      * (* ECatch *) split; [apply Forall_snoc; [exact Hq | right; right; reflexivity]
                           | apply not_in_snoc; [exact Hf | discriminate]].
    + (* PhDone *)
      destruct e; simpl in H; try discriminate; inversion H; subst q; simpl;
        (apply not_in_snoc; [exact IH | discriminate]).
    + (* PhFailed *)
      destruct IH as (Hin & Hq).
      destruct e; simpl in H; try discriminate.
      * (* EReturn *)
        destruct (fail_code st) as [c|] eqn:Ec; [|discriminate]. inversion H; subst q. simpl.
        destruct (fail_code_some _ _ Ec) as [-> Hc]. exists t. repeat split; assumption.
      * (* ERaise *) inversion H; subst q. simpl.
        split; [apply in_app_iff; left; exact Hin | apply Forall_snoc; [exact Hq | right; left; reflexivity]].
      * (* ECatch *) inversion H; subst q. simpl.
        split; [apply in_app_iff; left; exact Hin | apply Forall_snoc; [exact Hq | right; right; reflexivity]].
    + discriminate.
Qed.

(* ------------------------------------------------------------------ the checker is sound *)
Theorem check_fail_shape_sound s : check_fail_shape s = true ->
  forall t o h, exec s None t o h -> In EParseFail t -> fail_shape t o h.
Proof.
  unfold check_fail_shape. destruct (chk ph_eqb step19s s (None, PhNot)) as [r|] eqn:E; [|discriminate].
  intros Hall t o h Hx Hin.
  destruct (chk_sound _ _ _ ph_eqb_eq _ _ _ _ _ Hx _ _ E) as [q [Hs Hr]].
  rewrite forallb_forall in Hall. specialize (Hall _ Hr).
  pose proof (steps19s_state _ _ Hs) as Hinv.
  destruct q as [| | |c]; simpl in Hinv.
  - destruct Hinv as [_ Hn]. contradiction.
  - contradiction.
  - simpl in Hall. apply andb_true_iff in Hall. destruct Hall as [Ho Hh].
    apply outcome_eqb_eq in Ho. apply omode_eqb_eq in Hh. subst o h.
    split; [reflexivity|]. left. split; [reflexivity | apply Hinv].
  - simpl in Hall. apply andb_true_iff in Hall. destruct Hall as [Ho Hh].
    apply outcome_eqb_eq in Ho. apply omode_eqb_eq in Hh. subst o h.
    split; [reflexivity|]. right. split; [reflexivity|].
    destruct Hinv as (t0 & Ht & Hc & _ & Hq). exists t0, c. repeat split; assumption.
Qed.

(* quiet events touch nothing *)
Lemma quiet_untouched e : quiet e -> touches e = false /\ ~ is_lock_or_storage e.
Proof. intros [->|[->| ->]]; simpl; split; auto. Qed.

Lemma fail_shape_touches_nothing t o h : fail_shape t o h -> forall e, In e t -> touches e = false.
Proof.
  intros [_ [[_ Hq]|[_ (t0 & c & -> & _ & Hq)]]] e Hin.
  - rewrite Forall_forall in Hq. apply (quiet_untouched _ (Hq _ Hin)).
  - apply in_app_iff in Hin. destruct Hin as [Hin|[<-|[]]]; [|reflexivity].
    rewrite Forall_forall in Hq. apply (quiet_untouched _ (Hq _ Hin)).
Qed.

(* ------------------------------------------------------------------ the regenerated handler terms *)
Lemma Gen_skeleton_fail_shape_ok : forallb (fun p => check_fail_shape (snd p)) xml_handlers = true.
Proof. vm_compute. reflexivity. Qed.

Theorem c19_fail_shape : forall name s, In (name, s) xml_handlers ->
  forall t o h, exec s None t o h -> In EParseFail t -> fail_shape t o h.
Proof.
  intros name s Hin. pose proof Gen_skeleton_fail_shape_ok as H.
  rewrite forallb_forall in H. specialize (H _ Hin). simpl in H.
  apply check_fail_shape_sound. exact H.
Qed.

(* parse first (from the C10 builder's lemma) and the shape of a failing trace, together *)
Theorem c19_parse_first_strong : forall name s, In (name, s) xml_handlers ->
  forall t o h, exec s None t o h ->
    parse_first t /\
    (In EParseFail t -> fail_shape t o h /\ forall e, In e t -> touches e = false).
Proof.
  intros name s Hin t o h Hx. split.
  - apply (c19_parse_first name s Hin t). exists o, h. exact Hx.
  - intro Hf. pose proof (c19_fail_shape name s Hin t o h Hx Hf) as Hs.
    split; [exact Hs | apply (fail_shape_touches_nothing _ _ _ Hs)].
Qed.

(* ------------------------------------------------------------------ gate + handler *)
Definition inv19g (q : q19) (t : list event) : Prop :=
  match q with
  | PNot => ~ In EParse t /\ ~ In EParseFail t
  | _ => True
  end.

Lemma steps19g_not t : forall q, steps step19g PNot t = Some q -> inv19g q t.
Proof.
  induction t as [|e t IH] using rev_ind; intros q H.
  - simpl in H. inversion H. simpl. split; intros [].
  - rewrite steps_snoc in H. destruct (steps step19g PNot t) as [q1|] eqn:E; [|discriminate].
    specialize (IH _ eq_refl). destruct q; simpl; [|exact I|exact I].
    destruct q1; simpl in IH.
    + destruct IH as [Hp Hf].
      destruct e; simpl in H; try discriminate;
        (split; apply not_in_snoc; [assumption | discriminate | assumption | discriminate]).
    + destruct e; simpl in H; discriminate.
    + destruct e; simpl in H; try discriminate. destruct (gate_status_ok st); discriminate.
Qed.

Lemma gate_status_ok_spec st : gate_status_ok st = true -> st = StCode 400 \/ st = StCode 408 \/ st = StAny.
Proof.
  destruct st as [c|]; simpl; [|auto]. intro H. apply orb_true_iff in H.
  destruct H as [H|H]; apply N.eqb_eq in H; subst; auto.
Qed.

Lemma steps19g_failed post : forall q, steps step19g PFailed post = Some q ->
  forall e, In e post ->
    touches e = false /\ e <> EParse /\ e <> EParseFail /\
    (forall st, e = EReturn st -> st = StCode 400 \/ st = StCode 408 \/ st = StAny).
Proof.
  induction post as [|x post IH]; intros q H e Hin; [destruct Hin|].
  rewrite steps_cons in H. destruct (step19g PFailed x) as [q1|] eqn:E; [|discriminate].
  assert (Hq1 : q1 = PFailed).
  { destruct x; simpl in E; try discriminate; try (inversion E; reflexivity).
    destruct (gate_status_ok st); [inversion E; reflexivity | discriminate]. }
  subst q1. destruct Hin as [<-|Hin]; [|apply (IH _ H _ Hin)].
  destruct x; simpl in E; try discriminate; repeat split; try discriminate;
    intros st0 Hst; try discriminate.
  inversion Hst; subst st0. destruct (gate_status_ok st) eqn:G; [|discriminate].
  apply gate_status_ok_spec. exact G.
Qed.

Theorem steps19g_inert t q : steps step19g PNot t = Some q -> after_fail_inert t.
Proof.
  intros Hs pre post Ht. subst t.
  apply steps_prefix in Hs. destruct Hs as [q1 [H1 H2]].
  pose proof (steps19g_not _ _ H1) as Hinv.
  rewrite steps_cons in H2. destruct (step19g q1 EParseFail) as [q2|] eqn:E; [|discriminate].
  destruct q1; simpl in E; try discriminate. inversion E; subst q2.
  split; [apply Hinv | apply (steps19g_failed _ _ H2)].
Qed.

Theorem check_gate_fail_sound s : check_gate_fail s = true -> forall t, trace_of s t -> after_fail_inert t.
Proof.
  intros Hc t Ht.
  destruct (check_from_sound _ _ _ q19_eqb_eq _ _ Hc t Ht) as [q Hq].
  apply (steps19g_inert _ _ Hq).
Qed.

Lemma Gen_skeleton_gate_fail_ok : forallb (fun p => check_gate_fail (sk_gate (snd p))) xml_handlers = true.
Proof. vm_compute. reflexivity. Qed.

(* whole requests (Application._handle_request with the handler plugged in): whatever the gate did before
   (first login: home creation), once the body read has failed nothing touches lock / storage / hook and the
   only statuses returned are 400 / 408 by the handler and the pass-through of the gate *)
Theorem c19_request_fail_inert : forall name s, In (name, s) xml_handlers ->
  forall t, trace_of (sk_gate s) t -> after_fail_inert t.
Proof.
  intros name s Hin. pose proof Gen_skeleton_gate_fail_ok as H.
  rewrite forallb_forall in H. specialize (H _ Hin). simpl in H.
  apply check_gate_fail_sound. exact H.
Qed.

(* ------------------------------------------------------------------ non-vacuity *)
(* the canonical shape of the five handlers: both ways out of a failing read exist, and are of the shape *)
Definition canon : skel :=
  SSeq (SAlt (SReturn (Some (StCode 403))) SSkip)
       (SSeq (STry SParse (SAlt (SReturn (Some (StCode 400))) (SReturn (Some (StCode 408)))))
             (SWith W (SSeq (SStorage Discover) (SReturn (Some (StCode 207)))))).

Example c19_canon_checked : check_fail_shape canon = true.
Proof. vm_compute. reflexivity. Qed.

Example c19_canon_400 : exec canon None [EParseFail; ERaise; ECatch; EReturn (StCode 400)] OReturn None.
Proof.
  unfold canon.
  apply (x_seq_n _ _ None [] None _ OReturn None); [apply x_alt_r; apply x_skip|].
  apply x_seq_x; [|discriminate].
  apply (x_try_catch _ _ None [EParseFail; ERaise] None [EReturn (StCode 400)] OReturn None).
  - apply x_parse_fail.
  - apply x_alt_l. apply x_return_some.
Qed.

Example c19_canon_propagates : exec canon None [EParseFail; ERaise] ORaise None.
Proof.
  unfold canon.
  apply (x_seq_n _ _ None [] None _ ORaise None); [apply x_alt_r; apply x_skip|].
  apply x_seq_x; [|discriminate]. apply x_try_pass. apply x_parse_fail.
Qed.

Example c19_checker_rejects_lock_after_fail :
  check_fail_shape (SSeq (STry SParse SSkip) (SWith W (SStorage SetMeta))) = false.
Proof. vm_compute. reflexivity. Qed.

Example c19_checker_rejects_other_status :
  check_fail_shape (STry SParse (SReturn (Some (StCode 200)))) = false.
Proof. vm_compute. reflexivity. Qed.

(* the regenerated terms do have the failing paths (decided by the matcher of the C10 correspondence) *)
Lemma Gen_skeleton_fail_paths_exist :
  forallb (fun p => accepts (snd p) [EParseFail; EReturn (StCode 400)] && accepts (snd p) [EParseFail]) xml_handlers = true.
Proof. vm_compute. reflexivity. Qed.
