(* C06, handler-level confinement: soundness of the reflective checker over the regenerated site table. *)
From Coq Require Import List NArith Bool String Lia.
Import ListNotations.
Require Import RV.Lib.PyStr RV.Model.Path RV.Model.C06Prov RV.Proofs.PyStrLemmas RV.Proofs.PathProofs.
Require RV.Gen.C06Sites.
Open Scope list_scope.

(* ---------------------------------------------------------------- small facts *)
Lemma callers_in : forall calls f x q, In (f, x, q) calls -> In q (callers calls f x).
Proof.
  intros calls f x q H. unfold callers. apply in_map_iff. exists (f, x, q). split; [reflexivity|].
  apply filter_In. split; [exact H|]. cbn [fst snd]. rewrite !String.eqb_refl. reflexivity.
Qed.

Lemma snoc_not_nil : forall A (l : list A) x, l ++ [x] <> [].
Proof. intros A l x E. apply app_eq_nil in E. destruct E as [_ E]. discriminate E. Qed.

Lemma app_not_nil_l : forall A (l m : list A), l <> [] -> l ++ m <> [].
Proof. intros A l m H E. apply app_eq_nil in E. destruct E as [E _]. contradiction. Qed.

Lemma tmp_safe : forall sfx, contains_char slash sfx = false -> safe (tmp_prefix ++ sfx).
Proof.
  intros sfx H. apply safe_spec. unfold tmp_prefix. repeat split.
  - cbn. discriminate.
  - rewrite contains_char_app, H. reflexivity.
  - cbn. discriminate.
  - cbn. discriminate.
Qed.

Lemma fs_parts_good : forall parts, Forall (fun p => is_safe_filesystem_path_component p = true) parts ->
  Forall good_c (map (pair true) parts).
Proof.
  intros parts H. induction H as [|p ps Hp _ IH]; cbn [map]; constructor; [|exact IH].
  split; cbn [fst snd]; [apply fs_safe_is_safe; exact Hp | intros _; exact Hp].
Qed.

(* ---------------------------------------------------------------- [nonempty_p] is sound *)
Lemma nonempty_sound : forall calls k p, nonempty_p calls k p = true ->
  forall cs, den calls p (VP cs) -> cs <> [].
Proof.
  intros calls k. induction k as [|k IH]; intros p H cs D; [cbn in H; discriminate H|].
  destruct p; cbn [nonempty_p] in H; try discriminate H.
  - inversion D.
  - inversion D; subst. apply snoc_not_nil.
  - inversion D; subst. apply app_not_nil_l. eapply IH; eassumption.
  - inversion D; subst. apply snoc_not_nil.
  - inversion D; subst; [eapply IH; eassumption | discriminate].
  - inversion D; subst. match goal with Hin : In _ calls |- _ => apply callers_in in Hin; rename Hin into Hq end.
    rewrite forallb_forall in H. eapply IH; [apply H; exact Hq | eassumption].
  - apply andb_true_iff in H as [Ha Hb]. inversion D; subst; [eapply (IH _ Ha) | eapply (IH _ Hb)]; eassumption.
Qed.

(* ---------------------------------------------------------------- the checker is sound *)
Lemma okp_sound : forall calls, (forall e, In e calls -> okp calls (snd e) = true) ->
  forall p v, den calls p v -> okp calls p = true -> good v.
Proof.
  intros calls Hcalls p v D.
  induction D as
    [ | | b c cs x Db IHb Dc IHc | b c v Db IHb Dc IHc | b cs parts Db IHb Hparts | b Db IHb
    | p cs x Dp IHp | p Dp IHp | p Dp IHp | p cs x Dp IHp | p Dp IHp | p Dp IHp
    | p cs sfx Dp IHp Hs | p Dp IHp | p v Dp IHp | p rest Dp IHp
    | s | c Hc | c Hc | c Hc | f x q v Hin Dq IHq | a b v Da IHa | a b v Db IHb | why v Hg ];
    intros Hok; cbn [okp] in Hok; cbn [good].
  - constructor.
  - exact I.
  - apply andb_true_iff in Hok as [Hb Hc]. apply Forall_app. split; [exact (IHb Hb)|].
    constructor; [exact (IHc Hc)|constructor].
  - apply andb_true_iff in Hok as [Hb _]. exact (IHb Hb).
  - apply Forall_app. split; [exact (IHb Hok)|apply fs_parts_good; exact Hparts].
  - exact (IHb Hok).
  - apply andb_true_iff in Hok as [Hp _]. specialize (IHp Hp). cbn [good] in IHp.
    apply Forall_app in IHp. exact (proj1 IHp).
  - apply andb_true_iff in Hok as [_ Hn]. exact (nonempty_sound _ _ _ Hn _ Dp eq_refl).
  - apply andb_true_iff in Hok as [Hp _]. exact (IHp Hp).
  - apply andb_true_iff in Hok as [Hp _]. specialize (IHp Hp). cbn [good] in IHp.
    apply Forall_app in IHp. destruct IHp as [_ Hx]. inversion Hx; subst; assumption.
  - apply andb_true_iff in Hok as [_ Hn]. exact (nonempty_sound _ _ _ Hn _ Dp eq_refl).
  - apply andb_true_iff in Hok as [Hp _]. exact (IHp Hp).
  - apply Forall_app. split; [exact (IHp Hok)|]. constructor; [|constructor].
    split; cbn [fst snd]; [apply tmp_safe; exact Hs | intros E; discriminate E].
  - exact (IHp Hok).
  - exact (IHp Hok).
  - specialize (IHp Hok). cbn [good] in IHp. inversion IHp as [|? ? _ Hrest]; subst.
    constructor; [|exact Hrest]. split; cbn [fst snd]; [reflexivity | intros E; discriminate E].
  - split; cbn [fst snd]; [exact Hok | intros E; discriminate E].
  - split; cbn [fst snd]; [apply fs_safe_is_safe; exact Hc | intros _; exact Hc].
  - split; cbn [fst snd]; [exact Hc | intros E; discriminate E].
  - pose proof (check_token_name_safe c Hc) as (_ & _ & Hfs).
    split; cbn [fst snd]; [apply fs_safe_is_safe; exact Hfs | intros _; exact Hfs].
  - apply IHq. exact (Hcalls _ Hin).
  - apply andb_true_iff in Hok as [Ha _]. exact (IHa Ha).
  - apply andb_true_iff in Hok as [_ Hb]. exact (IHb Hb).
  - exact Hg.
Qed.

Theorem sites_ok_sound : forall calls sites, sites_ok calls sites = true ->
  forall s, In s sites -> forall v, den calls (s_prov s) v -> good v.
Proof.
  intros calls sites H s Hs v D. unfold sites_ok in H. apply andb_true_iff in H as [Hc Hsites].
  rewrite forallb_forall in Hc, Hsites.
  eapply okp_sound; [exact Hc | exact D | exact (Hsites s Hs)].
Qed.

(* ---------------------------------------------------------------- what [good] means for the string the OS sees *)
Lemma fs_render_ok : forall ps root, root <> [] -> endswith root [slash] = false -> Forall safe ps ->
  let f := root ++ List.concat (map (cons slash) ps) in f <> [] /\ endswith f [slash] = false.
Proof.
  induction ps as [|p ps IH]; intros root Hne He Hs; cbn [map List.concat].
  - rewrite app_nil_r. split; assumption.
  - inversion Hs as [|? ? Hp Hps]; subst.
    change ((slash :: p) ++ List.concat (map (cons slash) ps)) with ((slash :: p) ++ List.concat (map (cons slash) ps)).
    rewrite app_assoc. apply IH; [destruct root; discriminate | | exact Hps].
    rewrite endswith_app_nonempty by discriminate. change (slash :: p) with ([slash] ++ p).
    rewrite endswith_app_nonempty by (apply safe_nonempty; exact Hp). apply safe_not_endswith_slash; exact Hp.
Qed.

Lemma fs_render_concat : forall root cs, fs_render root cs = root ++ List.concat (map (cons slash) (map snd cs)).
Proof. intros root cs. unfold fs_render. rewrite map_map. reflexivity. Qed.

Lemma good_safe : forall cs, Forall good_c cs -> Forall safe (map snd cs).
Proof. intros cs H. induction H as [|c cs Hc _ IH]; cbn [map]; constructor; [exact (proj1 Hc)|exact IH]. Qed.

(* The rule [d_join] is what posixpath.join does on a confined path and a good component. *)
Lemma join_bridge : forall root cs x, root <> [] -> endswith root [slash] = false ->
  Forall good_c cs -> good_c x ->
  posix_join (fs_render root cs) (snd x) = fs_render root (cs ++ [x]).
Proof.
  intros root cs x Hne He Hcs Hx. rewrite !fs_render_concat.
  destruct (fs_render_ok (map snd cs) root Hne He (good_safe _ Hcs)) as [Hne' He'].
  unfold posix_join. rewrite (safe_not_startswith_slash _ (proj1 Hx)), He'.
  destruct (root ++ List.concat (map (cons slash) (map snd cs))) eqn:E; [contradiction|]. cbn [nonempty negb orb].
  rewrite !map_app, concat_app. cbn [map List.concat]. rewrite app_nil_r, <- E, <- app_assoc. reflexivity.
Qed.

Lemma map_snd_pair : forall (parts : list pystr), map snd (map (pair true) parts) = parts.
Proof. induction parts as [|p ps IH]; [reflexivity|]. cbn [map snd]. rewrite IH. reflexivity. Qed.

(* The rule [d_ptf] is what path_to_filesystem does on a confined base and ANY second argument. *)
Lemma ptf_bridge : forall root cs sp f, root <> [] -> endswith root [slash] = false ->
  Forall good_c cs -> path_to_filesystem (fs_render root cs) sp = Some f ->
  exists parts, Forall (fun p => is_safe_filesystem_path_component p = true) parts
    /\ f = fs_render root (cs ++ map (pair true) parts).
Proof.
  intros root cs sp f Hne He Hcs H. rewrite fs_render_concat in H.
  destruct (fs_render_ok (map snd cs) root Hne He (good_safe _ Hcs)) as [Hne' He'].
  destruct (path_to_filesystem_confined _ sp f Hne' He' H) as (parts & -> & Hall).
  exists parts. split; [exact Hall|]. rewrite fs_render_concat, !map_app, concat_app, map_snd_pair, app_assoc. reflexivity.
Qed.

(* dirname of a rendered path with at least one good component is the rendered prefix *)
(* (posix_dirname is modelled in Lib/PyStr.v; not needed for the confinement statement) *)

Definition lexically_inside (root f : pystr) : Prop :=
  exists parts, f = root ++ List.concat (map (cons slash) parts) /\ Forall safe parts.

Lemma good_inside : forall root cs, Forall good_c cs -> lexically_inside root (fs_render root cs).
Proof. intros root cs H. exists (map snd cs). split; [apply fs_render_concat | apply good_safe; exact H]. Qed.

Lemma good_client_not_internal : forall cs c, Forall good_c cs -> In (true, c) cs ->
  is_safe_filesystem_path_component c = true /\ startswith c [dot] = false /\ endswith c [tilde] = false.
Proof.
  intros cs c H Hin. rewrite Forall_forall in H. destruct (H _ Hin) as [_ Hfs]. specialize (Hfs eq_refl). cbn [snd] in Hfs.
  split; [exact Hfs|]. apply fs_component_spec in Hfs. tauto.
Qed.

(* ---------------------------------------------------------------- the regenerated table *)
Lemma Gen_c06_sites_ok : sites_ok C06Sites.calls C06Sites.sites = true.
Proof. vm_compute. reflexivity. Qed.

Theorem c06_sites_confined : forall s, In s C06Sites.sites ->
  forall root cs, den C06Sites.calls (s_prov s) (VP cs) ->
  lexically_inside root (fs_render root cs)
  /\ (forall c, In (true, c) cs ->
        is_safe_filesystem_path_component c = true /\ startswith c [dot] = false /\ endswith c [tilde] = false).
Proof.
  intros s Hs root cs D. pose proof (sites_ok_sound _ _ Gen_c06_sites_ok s Hs _ D) as G. cbn [good] in G.
  split; [apply good_inside; exact G | intros c Hc; eapply good_client_not_internal; eassumption].
Qed.

Theorem c06_sites_never_outside : forall s, In s C06Sites.sites -> ~ den C06Sites.calls (s_prov s) VOut.
Proof. intros s Hs D. exact (sites_ok_sound _ _ Gen_c06_sites_ok s Hs _ D). Qed.

(* the same, stated with the predicates REGENERATED from radicale/pathutils.py *)
Require RV.Gen.PathGen RV.Proofs.GenEqPath.
Theorem c06_sites_confined_gen : forall s, In s C06Sites.sites ->
  forall root cs, den C06Sites.calls (s_prov s) (VP cs) ->
  (exists parts, fs_render root cs = root ++ List.concat (map (cons slash) parts)
                 /\ Forall (fun p => PathGen.is_safe_path_component p = true) parts)
  /\ (forall c, In (true, c) cs ->
        PathGen.is_safe_filesystem_path_component c = true /\ startswith c [dot] = false /\ endswith c [tilde] = false).
Proof.
  intros s Hs root cs D. destruct (c06_sites_confined s Hs root cs D) as [(parts & E & Hp) Hc]. split.
  - exists parts. split; [exact E|]. eapply Forall_impl; [|exact Hp].
    intros a Ha. rewrite GenEqPath.Gen_is_safe_path_component_eq. exact Ha.
  - intros c Hin. destruct (Hc c Hin) as (H1 & H2 & H3).
    rewrite GenEqPath.Gen_is_safe_filesystem_path_component_eq. repeat split; assumption.
Qed.

(* ---------------------------------------------------------------- non-vacuity and rejection examples *)
Definition ex_upload : prov := PPtf (PPtf (PJoin PRoot (CLit "collection-root"))).

Example ex_den_inhabited :
  den [] ex_upload (VP ([(false, str "collection-root")] ++ map (pair true) [str "user"; str "cal"] ++ map (pair true) [str "a.ics"])).
Proof.
  unfold ex_upload. rewrite app_assoc. apply d_ptf.
  - apply d_ptf; [|repeat constructor].
    change [(false, str "collection-root")] with ([] ++ [(false, str "collection-root")]).
    apply d_join; [apply d_root | apply d_lit].
  - repeat constructor.
Qed.

Example ex_rejects_unknown : okp [] (PJoin PRoot (PUnknown "a request string")) = false.
Proof. reflexivity. Qed.
Example ex_rejects_dotdot : okp [] (PJoin PRoot (CLit "..")) = false.
Proof. reflexivity. Qed.
Example ex_rejects_slash_literal : okp [] (PJoin PRoot (CLit "a/b")) = false.
Proof. reflexivity. Qed.
Example ex_rejects_parent_of_root : okp [] (PDir PRoot) = false.
Proof. reflexivity. Qed.
Example ex_rejects_unconfined_caller :
  sites_ok [("f", "x", PUnknown "raw href")] [mkSite "" "" "open" 1 (PJoin PRoot (PParam "f" "x"))] = false.
Proof. reflexivity. Qed.
Example ex_parent_of_root_is_outside : den [] (PDir PRoot) VOut.
Proof. apply d_dir_root. apply d_root. Qed.

(* ================================================================= the application side
   [Routed]: the string is built ONLY from results of sanitize_path ("/"-aligned suffixes, parents), the constant "/",
   or the principal path of a login name that passed is_safe_path_component -- never from raw request text.
   [Named]: the last component of such a path, a name checked by name_from_path, or a name the storage returned. *)
Inductive Routed (calls : acalltab) : aprov -> Prop :=
| r_san : Routed calls ASan
| r_root : Routed calls (ALit "/")
| r_suffix a : Routed calls a -> Routed calls (ASuffix a)
| r_either a b : Routed calls a -> Routed calls b -> Routed calls (AEither a b)
| r_user : Routed calls (AUserPath ASafeComp)
| r_predefined : Routed calls (ACat (AUserPath ASafeComp) AConfig)
| r_parent a : Routed calls a -> Routed calls (AUnstrip (ADirname (AStrip a)))
| r_param f x : (forall q, In (f, x, q) calls -> Routed calls q) -> Routed calls (AParam f x).

Inductive Named (calls : acalltab) : aprov -> Prop :=
| n_base a : Routed calls a -> Named calls (ABasename (AStrip a))
| n_checked : Named calls ANameFromPath
| n_storage : Named calls AFromStorage
| n_none : Named calls ANone
| n_either a b : Named calls a -> Named calls b -> Named calls (AEither a b)
| n_param f x : (forall q, In (f, x, q) calls -> Named calls q) -> Named calls (AParam f x).

Lemma acallers_in : forall calls f x q, In (f, x, q) calls -> In q (acallers calls f x).
Proof.
  intros calls f x q H. unfold acallers. apply in_map_iff. exists (f, x, q). split; [reflexivity|].
  apply filter_In. split; [exact H|]. cbn [fst snd]. rewrite !String.eqb_refl. reflexivity.
Qed.

Lemma san_like_sound : forall calls k a, san_like calls k a = true -> Routed calls a.
Proof.
  intros calls k. induction k as [|k IH]; intros a H; [cbn in H; discriminate H|].
  destruct a; cbn [san_like] in H; try discriminate H.
  - constructor.
  - apply String.eqb_eq in H. subst. constructor.
  - constructor. apply IH. exact H.
  - destruct a; try discriminate H. destruct a; try discriminate H.
    constructor. apply IH. exact H.
  - destruct a1; try discriminate H. destruct a1; try discriminate H. destruct a2; try discriminate H. constructor.
  - destruct a; try discriminate H. constructor.
  - constructor. intros q Hq. apply IH. rewrite forallb_forall in H. apply H. apply acallers_in. exact Hq.
  - apply andb_true_iff in H as [Ha Hb]. constructor; apply IH; assumption.
Qed.

Lemma name_like_sound : forall calls k a, name_like calls k a = true -> Named calls a.
Proof.
  intros calls k. induction k as [|k IH]; intros a H; [cbn in H; discriminate H|].
  destruct a; cbn [name_like] in H; try discriminate H.
  - destruct a; try discriminate H. constructor. eapply san_like_sound. exact H.
  - constructor.
  - constructor.
  - constructor.
  - constructor. intros q Hq. apply IH. rewrite forallb_forall in H. apply H. apply acallers_in. exact Hq.
  - apply andb_true_iff in H as [Ha Hb]. constructor; apply IH; assumption.
Qed.

Theorem app_sites_ok_sound : forall calls sites, app_sites_ok calls sites = true ->
  forall s, In s sites ->
  match a_role s with
  | RPath => Routed calls (a_prov s)
  | RName => Named calls (a_prov s)
  | RToken => True
  end.
Proof.
  intros calls sites H s Hs. unfold app_sites_ok in H. rewrite forallb_forall in H. specialize (H s Hs).
  unfold asite_ok in H. destruct (a_role s); [eapply san_like_sound | eapply name_like_sound | exact I]; exact H.
Qed.

Lemma Gen_c06_app_sites_ok : app_sites_ok C06Sites.app_calls C06Sites.app_sites = true.
Proof. vm_compute. reflexivity. Qed.

Theorem c06_app_sites_routed : forall s, In s C06Sites.app_sites ->
  match a_role s with
  | RPath => Routed C06Sites.app_calls (a_prov s)
  | RName => Named C06Sites.app_calls (a_prov s)
  | RToken => True
  end.
Proof. exact (app_sites_ok_sound _ _ Gen_c06_app_sites_ok). Qed.

Example ex_app_rejects_raw_path :
  app_sites_ok [] [mkASite "get.py" "do_GET" "discover" RPath 1 (AUnknown "environ PATH_INFO")] = false.
Proof. reflexivity. Qed.
Example ex_app_rejects_unsanitised_gate :
  app_sites_ok [("do_*", "path", AUnknown "unsafe_path")] [mkASite "get.py" "do_GET" "discover" RPath 1 (AParam "do_*" "path")] = false.
Proof. reflexivity. Qed.
Example ex_app_rejects_raw_name :
  app_sites_ok [] [mkASite "put.py" "do_PUT" "upload" RName 1 (ABasename (AUnknown "raw"))] = false.
Proof. reflexivity. Qed.
Example ex_app_accepts_gate :
  app_sites_ok [("do_*", "path", AEither ASan (ASuffix ASan))] [mkASite "get.py" "do_GET" "discover" RPath 1 (AParam "do_*" "path")] = true.
Proof. reflexivity. Qed.

(* ================================================================= the static web pages (httputils / radicale/web) *)
Lemma Gen_c06_web_sites_ok : sites_ok C06Sites.web_calls C06Sites.web_sites = true.
Proof. vm_compute. reflexivity. Qed.

(* every component joined onto the packaged web folder is a literal safe component or passed
   is_safe_filesystem_path_component unchanged (so it does not begin with "." -- in particular it is not "..") *)
Theorem c06_web_sites_confined : forall s, In s C06Sites.web_sites ->
  forall c, den C06Sites.web_calls (s_prov s) (VC c) ->
  is_safe_path_component (snd c) = true /\ (fst c = true -> is_safe_filesystem_path_component (snd c) = true).
Proof. intros s Hs c D. exact (sites_ok_sound _ _ Gen_c06_web_sites_ok s Hs _ D). Qed.

Theorem c06_web_sites_paths_confined : forall s, In s C06Sites.web_sites ->
  forall root cs, den C06Sites.web_calls (s_prov s) (VP cs) -> lexically_inside root (fs_render root cs).
Proof.
  intros s Hs root cs D. apply good_inside. exact (sites_ok_sound _ _ Gen_c06_web_sites_ok s Hs _ D).
Qed.
