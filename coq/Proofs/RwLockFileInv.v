(* C11 -- the inductive invariant of the flock-based lock (Model/RwLockFile.v): any number of processes/threads. *)
From Coq Require Import List Arith Bool ZArith Lia.
Import ListNotations.
Require Import RV.Model.C11Base RV.Proofs.C11BaseLemmas RV.Model.RwLockFile.
Open Scope Z_scope.

Definition fthr_at (s : fstate) (t : nat) (th : fthread) : Prop := nth_error (thr s) t = Some th.

Record FInv (s : fstate) : Prop := {
  fi_proc : forall t th, fthr_at s t th -> (f_proc th < List.length (procs (glob s)))%nat;
  fi_mx_own : forall t th, fthr_at s t th -> fowns_mutex (f_pc th) = true ->
      p_mutex (proc_of (glob s) (f_proc th)) = Some t;
  fi_mx_some : forall p t, p_mutex (proc_of (glob s) p) = Some t ->
      exists th, fthr_at s t th /\ f_proc th = p /\ fowns_mutex (f_pc th) = true;
  fi_ksh : k_sh (glob s) = count (fheld R) (thr s);
  fi_kex : k_ex (glob s) = count (fheld W) (thr s);
  fi_kexcl : (k_ex (glob s) <= 1)%nat /\ (k_ex (glob s) = 1%nat -> k_sh (glob s) = 0%nat);
  fi_readers : forall p, (p < List.length (procs (glob s)))%nat ->
      p_readers (proc_of (glob s) p) = Z.of_nat (count (fholds_in p R) (thr s));
  fi_writer : forall p, (p < List.length (procs (glob s)))%nat ->
      count (fholds_in p W) (thr s) = (if p_writer (proc_of (glob s) p) then 1 else 0)%nat;
  fi_upd : forall t th, fthr_at s t th -> f_pc th = F_Upd ->
      guard_fails (f_mode th) (proc_of (glob s) (f_proc th)) = false;
  fi_nofail : forall t th, fthr_at s t th -> failed_pc (f_pc th) = false
}.

(* ------------------------------------------------------------------ process table *)
Lemma nth_upd_eq' : forall A (l : list A) i x d, (i < List.length l)%nat -> nth i (upd i x l) d = x.
Proof. induction l as [|a l IH]; intros [|i] x d H; simpl in *; try lia; auto. apply IH. lia. Qed.

Lemma nth_upd_neq' : forall A (l : list A) i j x d, i <> j -> nth j (upd i x l) d = nth j l d.
Proof. induction l as [|a l IH]; intros [|i] [|j] x d H; simpl; auto; try congruence. Qed.

Lemma proc_of_set_eq : forall g p ps, (p < List.length (procs g))%nat -> proc_of (set_proc g p ps) p = ps.
Proof. intros. unfold proc_of, set_proc. simpl. apply nth_upd_eq'. auto. Qed.

Lemma proc_of_set_neq : forall g p q ps, p <> q -> proc_of (set_proc g p ps) q = proc_of g q.
Proof. intros. unfold proc_of, set_proc. simpl. apply nth_upd_neq'. auto. Qed.

Lemma procs_set_length : forall g p ps, List.length (procs (set_proc g p ps)) = List.length (procs g).
Proof. intros. unfold set_proc. simpl. apply upd_length. Qed.

Lemma proc_of_kgrant : forall m g p, proc_of (kgrant m g) p = proc_of g p.
Proof. destruct m; reflexivity. Qed.
Lemma proc_of_kclose : forall m g p, proc_of (kclose m g) p = proc_of g p.
Proof. destruct m; reflexivity. Qed.
Lemma procs_kgrant : forall m g, procs (kgrant m g) = procs g.
Proof. destruct m; reflexivity. Qed.
Lemma procs_kclose : forall m g, procs (kclose m g) = procs g.
Proof. destruct m; reflexivity. Qed.

(* ------------------------------------------------------------------ initial states *)
Lemma fstart_pc : forall p, f_pc (fstart p) = F_Flock \/ f_pc (fstart p) = F_Done.
Proof. intros [a [|c r]]; simpl; auto. Qed.

Lemma finit_thr_at : forall progs t th, fthr_at (finit progs) t th -> f_pc th = F_Flock \/ f_pc th = F_Done.
Proof.
  unfold fthr_at, finit. simpl. intros progs t th H.
  apply nth_error_In in H. apply in_map_iff in H. destruct H as (p & <- & _). apply fstart_pc.
Qed.

Lemma fstart_proc : forall pp, f_proc (fstart pp) = fst pp.
Proof. intros [a [|c r]]; reflexivity. Qed.

Lemma nprocs_bound : forall progs pp, In pp progs -> (fst pp < nprocs progs)%nat.
Proof.
  unfold nprocs. induction progs as [|a l IH]; simpl; intros pp Hin; [contradiction|]. destruct Hin as [->|H]; try lia. specialize (IH _ H). lia.
Qed.

Lemma proc_of_init : forall progs p, proc_of (glob (finit progs)) p = pdef.
Proof.
  intros. unfold proc_of, finit. cbn [glob procs]. generalize (nprocs progs). intros n. revert p.
  induction n; intros [|p]; cbn [repeat nth]; auto.
Qed.

Lemma finit_count : forall (f : fthread -> bool) progs,
  (forall th, f_pc th = F_Flock \/ f_pc th = F_Done -> f th = false) -> count f (map fstart progs) = 0%nat.
Proof. intros. apply count_map_const. intros a. apply H. apply fstart_pc. Qed.

Lemma FInv_init : forall progs, FInv (finit progs).
Proof.
  intros progs. constructor.
  - intros t th H. unfold fthr_at, finit in *. simpl in *. rewrite repeat_length.
    apply nth_error_In in H. apply in_map_iff in H. destruct H as (pp & <- & Hin). rewrite fstart_proc.
    apply nprocs_bound; auto.
  - intros t th H Ho. apply finit_thr_at in H. destruct H as [E|E]; rewrite E in Ho; discriminate.
  - intros p t. rewrite proc_of_init. discriminate.
  - simpl. rewrite finit_count; auto. intros th [E|E]; unfold fheld; rewrite E; reflexivity.
  - simpl. rewrite finit_count; auto. intros th [E|E]; unfold fheld; rewrite E; reflexivity.
  - simpl. lia.
  - intros p _. rewrite proc_of_init. simpl. rewrite finit_count; auto.
    intros th [E|E]; unfold fholds_in, fholds; rewrite E; simpl; apply andb_false_r.
  - intros p _. rewrite proc_of_init. simpl. rewrite finit_count; auto.
    intros th [E|E]; unfold fholds_in, fholds; rewrite E; simpl; apply andb_false_r.
  - intros t th H E. apply finit_thr_at in H. destruct H as [E'|E']; congruence.
  - intros t th H. apply finit_thr_at in H. destruct H as [E|E]; rewrite E; reflexivity.
Qed.

(* ------------------------------------------------------------------ step decomposition *)
Ltac finv_some :=
  repeat match goal with
         | H : Some _ = Some _ |- _ => inversion H; subst; clear H
         | H : None = Some _ |- _ => discriminate H
         end.

Ltac fstep_cases H :=
  let th := fresh "th" in let g' := fresh "g'" in let th' := fresh "th'" in
  let Hth := fresh "Hth" in let Hts := fresh "Hts" in let Epc := fresh "Epc" in
  apply step_inv in H; destruct H as (th & g' & th' & Hth & Hts & ->);
  unfold ftstep in Hts; destruct (f_pc th) eqn:Epc;
  repeat match type of Hts with
         | context [match p_mutex ?g with _ => _ end] => let E := fresh "Emx" in destruct (p_mutex g) eqn:E
         | context [if f_fail ?a then _ else _] => let E := fresh "Efl" in destruct (f_fail a) eqn:E
         | context [if kcompat ?a ?b then _ else _] => let E := fresh "Ekc" in destruct (kcompat a b) eqn:E
         end; finv_some.

Ltac fsplit_thr H :=
  unfold fthr_at in H; simpl in H; apply nth_upd_inv in H;
  destruct H as [(? & ? & _)|(? & H)]; subst.

Lemma fstep_proc : forall s t s', FInv s -> fstep s t = Some s' ->
  List.length (procs (glob s')) = List.length (procs (glob s)) /\
  forall t0 th0, fthr_at s' t0 th0 -> (f_proc th0 < List.length (procs (glob s')))%nat.
Proof.
  intros s t s' I H. pose proof (fi_proc _ I) as HP.
  assert (List.length (procs (glob s')) = List.length (procs (glob s))) as HL.
  { fstep_cases H; simpl; rewrite ?procs_kgrant, ?procs_kclose, ?upd_length; reflexivity. }
  split; auto. rewrite HL. clear HL.
  fstep_cases H; intros t0 th0 H0; fsplit_thr H0; unfold fnext_cycle; simpl;
    try (eapply HP; eauto; fail);
    try (destruct (f_todo th); simpl; eapply HP; eauto).
Qed.

Lemma fheld_at : forall m th p, f_pc th = p -> fheld m th = flock_pc p && mode_eqb (f_mode th) m.
Proof. intros. unfold fheld. rewrite H. reflexivity. Qed.
Lemma fheld_set_pc : forall m th p, fheld m (fset_pc th p) = flock_pc p && mode_eqb (f_mode th) m.
Proof. reflexivity. Qed.
Lemma fheld_FTh : forall m p pr m' q fl td sn, fheld m (FTh p pr m' q fl td sn) = flock_pc p && mode_eqb m' m.
Proof. reflexivity. Qed.

Lemma fstep_kernel : forall s t s', FInv s -> fstep s t = Some s' ->
  k_sh (glob s') = count (fheld R) (thr s') /\ k_ex (glob s') = count (fheld W) (thr s') /\
  (k_ex (glob s') <= 1)%nat /\ (k_ex (glob s') = 1%nat -> k_sh (glob s') = 0%nat).
Proof.
  intros s t s' I H.
  pose proof (fi_ksh _ I) as HS. pose proof (fi_kex _ I) as HE. destruct (fi_kexcl _ I) as [HX1 HX2].
  fstep_cases H; simpl;
    match goal with |- context [upd t ?x _] =>
      pose proof (count_upd _ (fheld R) _ _ x _ Hth) as CR; pose proof (count_upd _ (fheld W) _ _ x _ Hth) as CW end;
    rewrite (fheld_at R th _ Epc) in CR; rewrite (fheld_at W th _ Epc) in CW; unfold fnext_cycle in *;
    repeat match type of CR with
           | context [guard_fails ?a ?b] => destruct (guard_fails a b)
           | context [f_q ?a] => destruct (f_q a)
           | context [f_todo ?a] => destruct (f_todo a)
           end;
    rewrite ?fheld_set_pc, ?fheld_FTh in CR, CW; simpl in CR, CW;
    try (unfold kcompat in Ekc); unfold kgrant, kclose;
    destruct (f_mode th); simpl in *;
    try (apply andb_true_iff in Ekc; destruct Ekc as [Ek1 Ek2]; apply Nat.eqb_eq in Ek1; apply Nat.eqb_eq in Ek2);
    try (apply Nat.eqb_eq in Ekc);
    repeat split; try lia.
Qed.

Ltac fown_fact I Hth Epc :=
  try (assert (p_mutex (proc_of (glob _) (f_proc _)) = Some _) as Hmine
         by (eapply (fi_mx_own _ I); [exact Hth | rewrite Epc; reflexivity])).

Lemma fstep_mx_own : forall s t s', FInv s -> fstep s t = Some s' ->
  forall t0 th0, fthr_at s' t0 th0 -> fowns_mutex (f_pc th0) = true ->
    p_mutex (proc_of (glob s') (f_proc th0)) = Some t0.
Proof.
  intros s t s' I H. pose proof (fi_proc _ I) as HP.
  fstep_cases H; fown_fact I Hth Epc; pose proof (HP _ _ Hth) as Hp; intros t0 th0 H0 Ho; fsplit_thr H0;
    unfold fnext_cycle in *; simpl in *;
    rewrite ?proc_of_kgrant, ?proc_of_kclose;
    try discriminate; try assumption;
    try (rewrite proc_of_set_eq by auto; simpl; try reflexivity; try assumption; destruct (f_mode th); simpl; assumption);
    try (apply (fi_mx_own _ I _ _ H0 Ho));
    try (destruct (guard_fails _ _); discriminate);
    try (destruct (f_todo th); discriminate);
    try (pose proof (fi_mx_own _ I _ _ H0 Ho) as Hm0;
         destruct (Nat.eq_dec (f_proc th) (f_proc th0)) as [Ep|Ep];
         [ rewrite <- Ep in *; rewrite proc_of_set_eq by auto; simpl; try congruence; destruct (f_mode th); simpl; congruence
         | rewrite proc_of_set_neq by auto; exact Hm0 ]).
Qed.

Lemma fmx_some_other : forall s t th th' x p t0, FInv s -> fthr_at s t th ->
  p_mutex (proc_of (glob s) p) = Some t0 -> (t0 <> t \/ p <> f_proc th) ->
  exists th0, fthr_at {| glob := x; thr := upd t th' (thr s) |} t0 th0 /\ f_proc th0 = p /\ fowns_mutex (f_pc th0) = true.
Proof.
  intros s t th th' x p t0 I Hth Hm Hne. destruct (fi_mx_some _ I _ _ Hm) as (th0 & H0 & Hp & Ho).
  assert (t0 <> t) as Hn.
  { destruct Hne as [Hne|Hne]; auto. intros ->. unfold fthr_at in *. rewrite Hth in H0. inversion H0; subst. auto. }
  exists th0. unfold fthr_at in *. simpl. rewrite nth_upd_neq by auto. auto.
Qed.

Lemma fmx_some_self : forall (s : fstate) t th th' x p, fthr_at s t th -> f_proc th' = p -> fowns_mutex (f_pc th') = true ->
  exists th0, fthr_at {| glob := x; thr := upd t th' (thr s) |} t th0 /\ f_proc th0 = p /\ fowns_mutex (f_pc th0) = true.
Proof.
  intros. exists th'. unfold fthr_at in *. simpl. split; auto. eapply nth_upd_eq; eauto.
Qed.

Lemma fstep_mx_some : forall s t s', FInv s -> fstep s t = Some s' ->
  forall p t0, p_mutex (proc_of (glob s') p) = Some t0 ->
    exists th0, fthr_at s' t0 th0 /\ f_proc th0 = p /\ fowns_mutex (f_pc th0) = true.
Proof.
  intros s t s' I H. pose proof (fi_proc _ I) as HP.
  fstep_cases H; fown_fact I Hth Epc; pose proof (HP _ _ Hth) as Hp; intros p t0 Hm; simpl in Hm;
    rewrite ?proc_of_kgrant, ?proc_of_kclose in Hm;
    (destruct (Nat.eq_dec p (f_proc th)) as [->|Hpp];
     [ rewrite ?proc_of_set_eq in Hm by auto; simpl in Hm;
       try discriminate Hm;
       try (assert (p_mutex (proc_of (glob s) (f_proc th)) = Some t0) as Hm' by (destruct (f_mode th); exact Hm));
       try (assert (t0 = t) by congruence; subst t0);
       try (eapply (fmx_some_self _ _ th); [exact Hth | reflexivity | ]; simpl; try reflexivity;
            try (destruct (guard_fails _ _); reflexivity); try (destruct (f_q th); reflexivity); fail)
     | rewrite ?proc_of_set_neq in Hm by auto; eapply (fmx_some_other _ _ th); eauto ]).
  all: eapply (fmx_some_other _ _ th); eauto; left; intros ->;
    destruct (fi_mx_some _ I _ _ Hm) as (th0 & H0 & _ & Ho); unfold fthr_at in H0; rewrite Hth in H0;
    inversion H0; subst; rewrite Epc in Ho; discriminate.
Qed.

Lemma fholds_in_at : forall p m th pc, f_pc th = pc ->
  fholds_in p m th = Nat.eqb (f_proc th) p && (fholds_pc pc && mode_eqb (f_mode th) m).
Proof. intros. unfold fholds_in, fholds. rewrite H. reflexivity. Qed.
Lemma fholds_in_set_pc : forall p m th pc,
  fholds_in p m (fset_pc th pc) = Nat.eqb (f_proc th) p && (fholds_pc pc && mode_eqb (f_mode th) m).
Proof. reflexivity. Qed.
Lemma fholds_in_FTh : forall p m pc pr m' q fl td sn,
  fholds_in p m (FTh pc pr m' q fl td sn) = Nat.eqb pr p && (fholds_pc pc && mode_eqb m' m).
Proof. reflexivity. Qed.

Lemma fholds_in_fheld : forall p m th, fholds_in p m th = true -> fheld m th = true.
Proof.
  unfold fholds_in, fholds, fheld. intros p m th H. apply andb_true_iff in H. destruct H as [_ H].
  destruct (f_pc th); simpl in *; auto; discriminate.
Qed.

(* the kernel's exclusion, seen from one RwLock object: a counted writer excludes counted readers *)
Lemma fbook_excl : forall s p, FInv s -> (p < List.length (procs (glob s)))%nat ->
  p_writer (proc_of (glob s) p) = true -> count (fholds_in p R) (thr s) = 0%nat.
Proof.
  intros s p I Hlt Hw. pose proof (fi_writer _ I p Hlt) as HW. rewrite Hw in HW.
  pose proof (count_le _ (fholds_in p W) (fheld W) (thr s) (fholds_in_fheld p W)).
  pose proof (count_le _ (fholds_in p R) (fheld R) (thr s) (fholds_in_fheld p R)).
  pose proof (fi_ksh _ I). pose proof (fi_kex _ I). destruct (fi_kexcl _ I) as [X1 X2]. lia.
Qed.

Lemma fstep_book : forall s t s', FInv s -> fstep s t = Some s' ->
  forall p, (p < List.length (procs (glob s)))%nat ->
    p_readers (proc_of (glob s') p) = Z.of_nat (count (fholds_in p R) (thr s')) /\
    count (fholds_in p W) (thr s') = (if p_writer (proc_of (glob s') p) then 1 else 0)%nat.
Proof.
  intros s t s' I H p Hlt.
  pose proof (fi_readers _ I p Hlt) as HR. pose proof (fi_writer _ I p Hlt) as HW. pose proof (fi_proc _ I) as HP.
  pose proof (fbook_excl _ _ I Hlt) as HXX.
  fstep_cases H; pose proof (HP _ _ Hth) as Hp;
    try (pose proof (fi_upd _ I _ _ Hth Epc) as HG; unfold guard_fails in HG);
    simpl;
    match goal with |- context [upd t ?x _] =>
      pose proof (count_upd _ (fholds_in p R) _ _ x _ Hth) as CR; pose proof (count_upd _ (fholds_in p W) _ _ x _ Hth) as CW end;
    rewrite (fholds_in_at p R th _ Epc) in CR; rewrite (fholds_in_at p W th _ Epc) in CW; unfold fnext_cycle in *;
    repeat match type of CR with
           | context [guard_fails ?a ?b] => destruct (guard_fails a b)
           | context [f_q ?a] => destruct (f_q a)
           | context [f_todo ?a] => destruct (f_todo a)
           end;
    rewrite ?fholds_in_set_pc, ?fholds_in_FTh in CR, CW;
    rewrite ?proc_of_kgrant, ?proc_of_kclose;
    (destruct (Nat.eq_dec (f_proc th) p) as [Epp|Epp];
     [ rewrite Epp in *; rewrite ?Nat.eqb_refl in CR, CW; rewrite ?proc_of_set_eq by auto
     | rewrite ?proc_of_set_neq by auto; apply Nat.eqb_neq in Epp; rewrite ?Epp in CR, CW ]);
    simpl in CR, CW;
    destruct (f_mode th); simpl in *; destruct (p_writer (proc_of (glob s) p)); simpl in *;
    try discriminate;
    split; try lia; try (specialize (HXX eq_refl); lia).
Qed.

(* THE point of the "Guarantees failed" test: a thread that has been granted the flock lock never sees
   bookkeeping that contradicts it, because every counted holder still owns its flock lock *)
Lemma check_passes : forall s t th, FInv s -> fthr_at s t th -> f_pc th = F_Check ->
  guard_fails (f_mode th) (proc_of (glob s) (f_proc th)) = false.
Proof.
  intros s t th I Ht Epc. pose proof (fi_proc _ I _ _ Ht) as Hp.
  pose proof (fi_readers _ I _ Hp) as HR. pose proof (fi_writer _ I _ Hp) as HW.
  pose proof (fi_ksh _ I) as KS. pose proof (fi_kex _ I) as KE. destruct (fi_kexcl _ I) as [X1 X2].
  set (p := f_proc th) in *.
  pose proof (count_le _ (fholds_in p W) (fheld W) (thr s) (fholds_in_fheld p W)) as LW.
  pose proof (count_le _ (fholds_in p R) (fheld R) (thr s) (fholds_in_fheld p R)) as LR.
  assert (forall m, fholds_in p m th = false) as Hnh by (intros; unfold fholds_in, fholds; rewrite Epc; simpl; apply andb_false_r).
  unfold guard_fails. destruct (f_mode th) eqn:Em.
  - assert (fheld R th = true) as Hh by (unfold fheld; rewrite Epc, Em; reflexivity).
    pose proof (count_nth _ _ _ _ _ Ht Hh). destruct (p_writer (proc_of (glob s) p)); auto. lia.
  - assert (fheld W th = true) as Hh by (unfold fheld; rewrite Epc, Em; reflexivity).
    pose proof (count_lt _ (fholds_in p W) (fheld W) _ _ _ (fholds_in_fheld p W) Ht (Hnh W) Hh).
    destruct (p_writer (proc_of (glob s) p)); [lia|]. simpl.
    assert (p_readers (proc_of (glob s) p) = 0) as -> by lia. reflexivity.
Qed.

Lemma fstep_upd : forall s t s', FInv s -> fstep s t = Some s' ->
  forall t0 th0, fthr_at s' t0 th0 ->
    (f_pc th0 = F_Upd -> guard_fails (f_mode th0) (proc_of (glob s') (f_proc th0)) = false) /\
    failed_pc (f_pc th0) = false.
Proof.
  intros s t s' I H. pose proof (fi_proc _ I) as HP.
  fstep_cases H; fown_fact I Hth Epc; pose proof (HP _ _ Hth) as Hp;
    try (pose proof (check_passes _ _ _ I Hth Epc) as HC);
    intros t0 th0 H0; fsplit_thr H0; unfold fnext_cycle in *; simpl in *;
    rewrite ?proc_of_kgrant, ?proc_of_kclose.
  all: try (split; [intros Hpc; discriminate Hpc | reflexivity]).
  all: try (split; [apply (fi_upd _ I _ _ H0) | apply (fi_nofail _ I _ _ H0)]).
  all: try (split; [|apply (fi_nofail _ I _ _ H0)]; intros Hpc;
            assert (fowns_mutex (f_pc th0) = true) as Ho by (rewrite Hpc; reflexivity);
            pose proof (fi_mx_own _ I _ _ H0 Ho) as Hm0;
            destruct (Nat.eq_dec (f_proc th) (f_proc th0)) as [Ep|Ep];
            [ rewrite <- Ep in *; congruence
            | rewrite proc_of_set_neq by auto; apply (fi_upd _ I _ _ H0 Hpc) ]).
  - rewrite HC. split; auto.
  - destruct (f_q th); split; try reflexivity; intros Hpc; discriminate Hpc.
  - destruct (f_todo th); split; try reflexivity; intros Hpc; discriminate Hpc.
  - pose proof (fi_nofail _ I _ _ Hth) as Hnf. rewrite Epc in Hnf. discriminate.
  - pose proof (fi_nofail _ I _ _ Hth) as Hnf. rewrite Epc in Hnf. discriminate.
  - destruct (f_todo th); split; try reflexivity; intros Hpc; discriminate Hpc.
Qed.

Lemma FInv_step : forall s t s', FInv s -> fstep s t = Some s' -> FInv s'.
Proof.
  intros s t s' I H. destruct (fstep_proc _ _ _ I H) as [HL HPr].
  destruct (fstep_kernel _ _ _ I H) as (K1 & K2 & K3 & K4).
  constructor; auto.
  - eapply fstep_mx_own; eauto.
  - eapply fstep_mx_some; eauto.
  - intros p Hp. rewrite HL in Hp. apply (fstep_book _ _ _ I H p Hp).
  - intros p Hp. rewrite HL in Hp. apply (fstep_book _ _ _ I H p Hp).
  - intros t0 th0 H0. apply (fstep_upd _ _ _ I H _ _ H0).
  - intros t0 th0 H0. apply (fstep_upd _ _ _ I H _ _ H0).
Qed.

Lemma FInv_reachable : forall s, freachable s -> FInv s.
Proof.
  intros s (progs & Hr). revert s Hr. apply reach_ind_inv.
  - apply FInv_init.
  - intros s t s' I H. eapply FInv_step; eauto.
Qed.
