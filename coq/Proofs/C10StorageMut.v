(* C10, storage side (tie T): which file system mutations each storage API operation can reach, REGENERATED from
   radicale/storage/__init__.py and radicale/storage/multifilesystem/*.py by translate/t_storagemut.py
   (Gen/StorageMut.v), against the table [sop_access] of Model/LockDiscipline.v.

   Lemmas named Gen_* are re-checked by vm_compute on every run: they break when an operation that the model allows
   under the shared lock (a reader) starts to create / change / rename / delete something outside the cache area --
   also when that code only runs on storage states that no test produces (leftovers of a crash, old files ...). *)
From Coq Require Import List Bool String.
Import ListNotations.
Require Import RV.Model.LockDiscipline RV.Gen.StorageMut.

Definition writes_data (k : sop) : bool := access_eqb (sop_access k) AWrite.
Definition reads_only (k : sop) : bool := access_eqb (sop_access k) ARead.

(* every site that mutates collection data is reachable from the five writer operations only *)
Lemma Gen_storage_data_mutations_ok : forallb (fun p => writes_data (fst p)) storage_data_mutations = true.
Proof. vm_compute. reflexivity. Qed.

(* the operations classified "read only" (get_meta, tag, last_modified) reach no mutation at all, not even of the cache *)
Lemma Gen_storage_other_mutations_ok : forallb (fun p => negb (reads_only (fst p))) storage_other_mutations = true.
Proof. vm_compute. reflexivity. Qed.

(* non-vacuity: the scan finds the writers' sites and the readers' cache writes *)
Lemma Gen_storage_mutations_found :
  existsb (fun p => writes_data (fst p)) storage_data_mutations = true /\
  existsb (fun p => negb (writes_data (fst p))) storage_other_mutations = true.
Proof. split; vm_compute; reflexivity. Qed.

Lemma access_eqb_true : forall a b, access_eqb a b = true -> a = b.
Proof. intros [ | | ] [ | | ] H; try reflexivity; discriminate H. Qed.

Theorem c10_static_mutations :
  (forall k site, In (k, site) storage_data_mutations -> sop_access k = AWrite) /\
  (forall k site, In (k, site) storage_other_mutations -> sop_access k <> ARead).
Proof.
  split; intros k site Hin.
  - pose proof Gen_storage_data_mutations_ok as H. rewrite forallb_forall in H.
    specialize (H _ Hin). apply access_eqb_true. exact H.
  - pose proof Gen_storage_other_mutations_ok as H. rewrite forallb_forall in H.
    specialize (H _ Hin). cbn [fst] in H. intro Heq. unfold reads_only in H. rewrite Heq in H. discriminate H.
Qed.

(* under the shared lock only operations without a data-mutating site are sufficient *)
Theorem c10_shared_lock_static : forall k site,
  In (k, site) storage_data_mutations -> ~ sufficient (Some R) k.
Proof.
  intros k site Hin Hs. destruct c10_static_mutations as [H _]. specialize (H _ _ Hin).
  cbn in Hs. exact (Hs H).
Qed.
