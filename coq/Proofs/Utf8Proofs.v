(* C14 -- the two witness charsets of Model/Codec.v are lawful codecs (decoding what the same charset encoded gives the text
   back), they really differ, and the texts each one can store are characterised. *)
From Coq Require Import List NArith Bool Lia.
From Coq Require Import ZifyBool ZArith.
Import ListNotations.
Require Import RV.Lib.PyStr RV.Model.Codec.
Open Scope N_scope.

Ltac Zify.zify_post_hook ::= Z.to_euclidean_division_equations.

(* ------------------------------------------------------------------ latin1 *)
Theorem latin1_ok : codec_ok latin1.
Proof.
  intros s b Henc. cbn [latin1 enc dec] in *. unfold latin1_enc in Henc. unfold latin1_dec.
  destruct (forallb (fun c => c <? 256) s) eqn:Hall; [|discriminate Henc].
  injection Henc as Hb. subst b. rewrite Hall. reflexivity.
Qed.

Lemma latin1_enc_some : forall s, (exists b, enc latin1 s = Some b) <-> Forall (fun c => c < 256) s.
Proof.
  intros s. cbn [latin1 enc]. unfold latin1_enc. split.
  - intros [b Hb]. destruct (forallb (fun c => c <? 256) s) eqn:Hall; [|discriminate Hb].
    rewrite forallb_forall in Hall. apply Forall_forall. intros x Hx. apply N.ltb_lt. apply Hall. exact Hx.
  - intros Hall. exists s.
    assert (Hf : forallb (fun c => c <? 256) s = true).
    { apply forallb_forall. intros x Hx. apply N.ltb_lt. rewrite Forall_forall in Hall. apply Hall. exact Hx. }
    rewrite Hf. reflexivity.
Qed.

(* ------------------------------------------------------------------ the decoder on one well-formed sequence *)
Lemma is_cont_true : forall b, 128 <= b -> b < 192 -> is_cont b = true.
Proof.
  intros b Hlo Hhi. unfold is_cont. apply andb_true_iff. split; [apply N.leb_le; exact Hlo | apply N.ltb_lt; exact Hhi].
Qed.

Lemma ltb_true : forall a b, a < b -> (a <? b) = true.
Proof. intros a b H. apply N.ltb_lt. exact H. Qed.
Lemma ltb_false : forall a b, b <= a -> (a <? b) = false.
Proof. intros a b H. apply N.ltb_ge. exact H. Qed.
Lemma leb_false : forall a b, b < a -> (a <=? b) = false.
Proof. intros a b H. apply N.leb_gt. exact H. Qed.
Lemma leb_true : forall a b, a <= b -> (a <=? b) = true.
Proof. intros a b H. apply N.leb_le. exact H. Qed.

Lemma dec_1 : forall x r, x < 128 -> utf8_dec (x :: r) = ocons x (utf8_dec r).
Proof.
  intros x r Hx. cbn [utf8_dec]. rewrite (ltb_true _ _ Hx). reflexivity.
Qed.

Lemma dec_2 : forall x y r, 194 <= x -> x < 224 -> 128 <= y -> y < 192 ->
  utf8_dec (x :: y :: r) = ocons ((x - 192) * 64 + (y - 128)) (utf8_dec r).
Proof.
  intros x y r Hx1 Hx2 Hy1 Hy2. cbn [utf8_dec].
  rewrite (ltb_false x 128) by lia. rewrite (ltb_false x 194) by lia. rewrite (ltb_true x 224) by lia.
  rewrite (is_cont_true y Hy1 Hy2). reflexivity.
Qed.

Lemma dec_3 : forall x y z r c, 224 <= x -> x < 240 -> 128 <= y -> y < 192 -> 128 <= z -> z < 192 ->
  c = (x - 224) * 4096 + (y - 128) * 64 + (z - 128) ->
  2048 <= c -> (c < 55296 \/ 57343 < c) ->
  utf8_dec (x :: y :: z :: r) = ocons c (utf8_dec r).
Proof.
  intros x y z r c Hx1 Hx2 Hy1 Hy2 Hz1 Hz2 Hc Hlo Hsur. cbn [utf8_dec].
  rewrite (ltb_false x 128) by lia. rewrite (ltb_false x 194) by lia. rewrite (ltb_false x 224) by lia.
  rewrite (ltb_true x 240) by lia.
  rewrite (is_cont_true y Hy1 Hy2). rewrite (is_cont_true z Hz1 Hz2). cbn [andb]. cbv zeta.
  rewrite <- Hc. rewrite (ltb_false c 2048) by exact Hlo. cbn [orb].
  destruct Hsur as [Hs | Hs].
  - rewrite (leb_false 55296 c) by exact Hs. reflexivity.
  - rewrite (leb_false c 57343) by exact Hs. rewrite andb_false_r. reflexivity.
Qed.

Lemma dec_4 : forall x y z w r c, 240 <= x -> x < 245 -> 128 <= y -> y < 192 -> 128 <= z -> z < 192 -> 128 <= w -> w < 192 ->
  c = (x - 240) * 262144 + (y - 128) * 4096 + (z - 128) * 64 + (w - 128) ->
  65536 <= c -> c < 1114112 ->
  utf8_dec (x :: y :: z :: w :: r) = ocons c (utf8_dec r).
Proof.
  intros x y z w r c Hx1 Hx2 Hy1 Hy2 Hz1 Hz2 Hw1 Hw2 Hc Hlo Hhi. cbn [utf8_dec].
  rewrite (ltb_false x 128) by lia. rewrite (ltb_false x 194) by lia. rewrite (ltb_false x 224) by lia.
  rewrite (ltb_false x 240) by lia. rewrite (ltb_true x 245) by lia.
  rewrite (is_cont_true y Hy1 Hy2). rewrite (is_cont_true z Hz1 Hz2). rewrite (is_cont_true w Hw1 Hw2). cbn [andb]. cbv zeta.
  rewrite <- Hc. rewrite (ltb_false c 65536) by exact Hlo. rewrite (leb_false 1114112 c) by exact Hhi. reflexivity.
Qed.

(* ------------------------------------------------------------------ one character *)
(* `injection` would normalise the byte expressions (192 + c / 64 ...) into huge matches; this does not *)
Lemma some_inj : forall (A : Type) (x y : A), Some x = Some y -> x = y.
Proof. intros A x y H. congruence. Qed.

Lemma utf8_char_roundtrip : forall c a rest, utf8_enc_char c = Some a -> utf8_dec (a ++ rest) = ocons c (utf8_dec rest).
Proof.
  intros c a rest Henc. unfold utf8_enc_char in Henc.
  destruct (c <? 128) eqn:H1.
  { apply N.ltb_lt in H1. apply some_inj in Henc. subst a. cbn [app]. apply dec_1. exact H1. }
  apply N.ltb_ge in H1.
  destruct (c <? 2048) eqn:H2.
  { apply N.ltb_lt in H2. apply some_inj in Henc. subst a. cbn [app].
    rewrite (dec_2 (192 + c / 64) (128 + c mod 64) rest) by lia.
    f_equal. lia. }
  apply N.ltb_ge in H2.
  destruct (c <? 65536) eqn:H3.
  { apply N.ltb_lt in H3.
    destruct ((55296 <=? c) && (c <=? 57343)) eqn:Hs; [discriminate Henc|].
    apply some_inj in Henc. subst a. cbn [app].
    assert (Hsur : c < 55296 \/ 57343 < c).
    { apply andb_false_iff in Hs. destruct Hs as [Hs | Hs]; [left; apply N.leb_gt; exact Hs | right; apply N.leb_gt; exact Hs]. }
    apply dec_3; try lia. }
  apply N.ltb_ge in H3.
  destruct (c <? 1114112) eqn:H4; [|discriminate Henc].
  apply N.ltb_lt in H4. apply some_inj in Henc. subst a. cbn [app].
  apply dec_4; try lia.
Qed.

(* ------------------------------------------------------------------ whole texts *)
Lemma utf8_roundtrip : forall s b, utf8_enc s = Some b -> utf8_dec b = Some s.
Proof.
  induction s as [|c s IH]; intros b Henc.
  - cbn [utf8_enc] in Henc. injection Henc as Hb. subst b. reflexivity.
  - cbn [utf8_enc] in Henc.
    destruct (utf8_enc_char c) as [a|] eqn:Hc; [|discriminate Henc].
    destruct (utf8_enc s) as [b'|] eqn:Hs; [|discriminate Henc].
    injection Henc as Hb. subst b.
    rewrite (utf8_char_roundtrip c a b' Hc). rewrite (IH b' eq_refl). reflexivity.
Qed.

Theorem utf8_ok : codec_ok utf8.
Proof.
  intros s b Henc. cbn [utf8 enc dec] in *. apply utf8_roundtrip. exact Henc.
Qed.

(* the two charsets really differ: what one writes the other does not read back *)
Example utf8_latin1_mismatch :
  enc utf8 [233] = Some [195; 169] /\ dec latin1 [195; 169] = Some [195; 169] /\ dec utf8 [233] = None.
Proof. repeat split; vm_compute; reflexivity. Qed.

(* ------------------------------------------------------------------ which texts each charset can store *)
Lemma utf8_enc_char_some : forall c,
  (exists a, utf8_enc_char c = Some a) <-> (c < 1114112 /\ ~ (55296 <= c <= 57343)).
Proof.
  intros c. unfold utf8_enc_char.
  destruct (c <? 128) eqn:H1.
  { apply N.ltb_lt in H1. split; [intros _; lia | intros _; eexists; reflexivity]. }
  apply N.ltb_ge in H1.
  destruct (c <? 2048) eqn:H2.
  { apply N.ltb_lt in H2. split; [intros _; lia | intros _; eexists; reflexivity]. }
  apply N.ltb_ge in H2.
  destruct (c <? 65536) eqn:H3.
  { apply N.ltb_lt in H3.
    destruct ((55296 <=? c) && (c <=? 57343)) eqn:Hs.
    - apply andb_true_iff in Hs. destruct Hs as [Hs1 Hs2]. apply N.leb_le in Hs1. apply N.leb_le in Hs2.
      split; [intros [a Ha]; discriminate Ha | intros [_ Hn]; exfalso; apply Hn; split; assumption].
    - apply andb_false_iff in Hs.
      split; [|intros _; eexists; reflexivity].
      intros _. split; [lia|]. intros [Hn1 Hn2].
      destruct Hs as [Hs | Hs]; apply N.leb_gt in Hs; lia. }
  apply N.ltb_ge in H3.
  destruct (c <? 1114112) eqn:H4.
  { apply N.ltb_lt in H4. split; [intros _; lia | intros _; eexists; reflexivity]. }
  apply N.ltb_ge in H4.
  split; [intros [a Ha]; discriminate Ha | intros [Hlt _]; lia].
Qed.

Lemma utf8_enc_some : forall s,
  (exists b, enc utf8 s = Some b) <-> Forall (fun c => c < 1114112 /\ ~ (55296 <= c <= 57343)) s.
Proof.
  cbn [utf8 enc]. induction s as [|c s IH].
  - split; [intros _; constructor | intros _; exists []; reflexivity].
  - cbn [utf8_enc]. split.
    + intros [b Hb].
      destruct (utf8_enc_char c) as [a|] eqn:Hc; [|discriminate Hb].
      destruct (utf8_enc s) as [b'|] eqn:Hs; [|discriminate Hb].
      constructor.
      * apply utf8_enc_char_some. exists a. exact Hc.
      * apply IH. exists b'. reflexivity.
    + intros Hall. inversion Hall as [|c' s' Hhd Htl]. subst c' s'.
      apply utf8_enc_char_some in Hhd. destruct Hhd as [a Ha].
      apply IH in Htl. destruct Htl as [b' Hb'].
      rewrite Ha, Hb'. eexists. reflexivity.
Qed.

Print Assumptions latin1_ok.
Print Assumptions utf8_ok.
Print Assumptions utf8_latin1_mismatch.
Print Assumptions latin1_enc_some.
Print Assumptions utf8_enc_some.
