(* C19 -- the prolog scanner decides [has_doctype] / [declares_entity] on the attack grammar:
   for every well-formed term a of the grammar, scan (render a) = (MBody, attack_has_doctype a, attack_declares a). *)
From Coq Require Import List NArith Bool String Lia.
Import ListNotations.
Require Import RV.Lib.PyStr RV.Model.XmlProlog.
Open Scope N_scope.

(* ------------------------------------------------------------------ running the machine *)
Lemma run_app s a b : run s (a ++ b) = run (run s a) b.
Proof. unfold run. apply fold_left_app. Qed.

Lemma run_nil s : run s [] = s.
Proof. reflexivity. Qed.

Lemma run_keep (P : N -> bool) (st : state) :
  (forall c, P c = true -> step st c = st) -> forall t, forallb P t = true -> run st t = st.
Proof.
  intros Hk t. induction t as [|c t IH]; intro H; [reflexivity|].
  simpl in H. apply andb_true_iff in H. destruct H as [Hc Ht].
  unfold run in *. simpl. rewrite (Hk _ Hc). apply IH. exact Ht.
Qed.

Lemma forallb_impl {A} (P Q : A -> bool) l :
  (forall x, P x = true -> Q x = true) -> forallb P l = true -> forallb Q l = true.
Proof.
  intros H. induction l as [|x l IH]; simpl; [reflexivity|].
  intro Hl. apply andb_true_iff in Hl. destruct Hl as [Hx Hl]. rewrite (H _ Hx), (IH Hl). reflexivity.
Qed.

Lemma run_body fd fe t : run (MBody, fd, fe) t = (MBody, fd, fe).
Proof. apply (run_keep (fun _ => true)); [reflexivity|]. induction t; simpl; auto. Qed.

(* ------------------------------------------------------------------ characters *)
Ltac charfacts :=
  repeat match goal with
         | H : _ && _ = true |- _ => apply andb_true_iff in H; destruct H
         | H : _ || _ = true |- _ => apply orb_true_iff in H; destruct H
         | H : (_ <=? _) = true |- _ => apply N.leb_le in H
         | H : (_ =? _) = true |- _ => apply N.eqb_eq in H
         | H : negb _ = true |- _ => apply negb_true_iff in H
         | H : (_ =? _) = false |- _ => apply N.eqb_neq in H
         end.

Lemma name_char_plain c : name_char c = true ->
  (c =? cLT) = false /\ (c =? cGT) = false /\ (c =? cDQ) = false /\ (c =? cSQ) = false /\
  (c =? cLB) = false /\ (c =? cRB) = false /\ (c =? cDash) = false /\ (c =? cQM) = false.
Proof.
  unfold name_char, cLT, cGT, cDQ, cSQ, cLB, cRB, cDash, cQM. intro H.
  repeat split; apply N.eqb_neq; intro E; subst c; vm_compute in H; discriminate.
Qed.

Lemma ws_plain c : is_ws c = true ->
  (c =? cLT) = false /\ (c =? cGT) = false /\ (c =? cDQ) = false /\ (c =? cSQ) = false /\
  (c =? cLB) = false /\ (c =? cRB) = false /\ (c =? cDash) = false /\ (c =? cQM) = false.
Proof.
  unfold is_ws, cLT, cGT, cDQ, cSQ, cLB, cRB, cDash, cQM. intro H.
  repeat split; apply N.eqb_neq; intro E; subst c; vm_compute in H; discriminate.
Qed.

(* ------------------------------------------------------------------ stretches that leave the state alone *)
Lemma keep_prolog fd fe t : no_char cLT t = true -> run (MProlog, fd, fe) t = (MProlog, fd, fe).
Proof.
  apply (run_keep (fun c => negb (c =? cLT))). intros c H. apply negb_true_iff in H. simpl. rewrite H. reflexivity.
Qed.

Lemma keep_comment k fd fe t : no_char cDash t = true -> run (MComment k D0, fd, fe) t = (MComment k D0, fd, fe).
Proof.
  apply (run_keep (fun c => negb (c =? cDash))). intros c H. apply negb_true_iff in H. simpl. rewrite H.
  destruct (c =? cGT); reflexivity.
Qed.

Lemma keep_pi k fd fe t : no_char cQM t = true -> run (MPI k false, fd, fe) t = (MPI k false, fd, fe).
Proof.
  apply (run_keep (fun c => negb (c =? cQM))). intros c H. apply negb_true_iff in H. simpl. rewrite H.
  rewrite andb_false_r. reflexivity.
Qed.

Lemma keep_quote q r fd fe t : no_char q t = true -> run (MQuote q r, fd, fe) t = (MQuote q r, fd, fe).
Proof.
  apply (run_keep (fun c => negb (c =? q))). intros c H. apply negb_true_iff in H. simpl. rewrite H. reflexivity.
Qed.

Definition plain (c : N) : bool :=
  negb (c =? cLT) && negb (c =? cGT) && negb (c =? cDQ) && negb (c =? cSQ) && negb (c =? cLB) && negb (c =? cRB).

Lemma keep_plain m fd fe t :
  (m = MDoctype \/ m = MDecl \/ m = MSubset \/ m = MProlog \/ m = MAfterSubset) ->
  forallb plain t = true -> run (m, fd, fe) t = (m, fd, fe).
Proof.
  intro Hm. apply (run_keep plain). intros c H. unfold plain in H. charfacts.
  unfold step, is_quote.
  destruct Hm as [->|[->|[->|[->| ->]]]];
    repeat match goal with H : _ <> _ |- _ => apply N.eqb_neq in H; rewrite ?H; clear H end;
    reflexivity.
Qed.

Lemma name_plain t : is_name t = true -> forallb plain t = true.
Proof.
  apply forallb_impl. intros c H. destruct (name_char_plain _ H) as (a & b & c0 & d & e & f & _).
  unfold plain. rewrite a, b, c0, d, e, f. reflexivity.
Qed.

Lemma ws_plain_all t : forallb is_ws t = true -> forallb plain t = true.
Proof.
  apply forallb_impl. intros c H. destruct (ws_plain _ H) as (a & b & c0 & d & e & f & _).
  unfold plain. rewrite a, b, c0, d, e, f. reflexivity.
Qed.

Lemma name_no_qm t : is_name t = true -> no_char cQM t = true.
Proof.
  apply forallb_impl. intros c H. destruct (name_char_plain _ H) as (_ & _ & _ & _ & _ & _ & _ & g).
  rewrite g. reflexivity.
Qed.

(* ------------------------------------------------------------------ literals *)
Lemma no_char_app q a b : no_char q (a ++ b) = no_char q a && no_char q b.
Proof. unfold no_char. apply forallb_app. Qed.

Lemma no_char_rep q s n : no_char q s = true -> no_char q (rep s n) = true.
Proof.
  intro H. unfold rep. induction n as [|n IH] using N.peano_ind; [reflexivity|].
  rewrite N.iter_succ. rewrite no_char_app, H, IH. reflexivity.
Qed.

Lemma no_char_flat q l : forallb (wf_piece q) l = true -> no_char q (flat l) = true.
Proof.
  induction l as [|p l IH]; intro H; [reflexivity|].
  simpl in H. apply andb_true_iff in H. destruct H as [Hp Hl].
  unfold flat. simpl. rewrite no_char_app. fold (flat l). rewrite (IH Hl), andb_true_r.
  destruct p as [s|s n]; simpl in *; [exact Hp | apply no_char_rep; exact Hp].
Qed.

Lemma lit_q_quote l : is_quote (lit_q l) = true.
Proof. unfold lit_q. destruct (l_single l); reflexivity. Qed.

Lemma run_lit m r fd fe l :
  (m = MDoctype /\ r = QDoctype) \/ (m = MDecl /\ r = QDecl) ->
  wf_lit l = true -> run (m, fd, fe) (render_lit l) = (m, fd, fe).
Proof.
  intros Hm Hw. unfold render_lit.
  change (lit_q l :: flat (l_text l) ++ [lit_q l]) with ([lit_q l] ++ flat (l_text l) ++ [lit_q l])%list.
  rewrite !run_app.
  assert (H1 : run (m, fd, fe) [lit_q l] = (MQuote (lit_q l) r, fd, fe)).
  { unfold run. simpl. pose proof (lit_q_quote l) as Hq.
    destruct Hm as [[-> ->]|[-> ->]]; simpl; rewrite Hq; reflexivity. }
  rewrite H1. rewrite keep_quote by (apply no_char_flat; exact Hw).
  unfold run. simpl. rewrite N.eqb_refl.
  destruct Hm as [[-> ->]|[-> ->]]; reflexivity.
Qed.

(* ------------------------------------------------------------------ fixed strings (by computation) *)
Ltac fixed := intros [] []; vm_compute; reflexivity.

Lemma fx_system_dt : forall fd fe, run (MDoctype, fd, fe) (str "SYSTEM ") = (MDoctype, fd, fe). Proof. fixed. Qed.
Lemma fx_public_dt : forall fd fe, run (MDoctype, fd, fe) (str "PUBLIC ") = (MDoctype, fd, fe). Proof. fixed. Qed.
Lemma fx_sp_dt : forall fd fe, run (MDoctype, fd, fe) (str " ") = (MDoctype, fd, fe). Proof. fixed. Qed.
Lemma fx_system_dc : forall fd fe, run (MDecl, fd, fe) (str "SYSTEM ") = (MDecl, fd, fe). Proof. fixed. Qed.
Lemma fx_public_dc : forall fd fe, run (MDecl, fd, fe) (str "PUBLIC ") = (MDecl, fd, fe). Proof. fixed. Qed.
Lemma fx_sp_dc : forall fd fe, run (MDecl, fd, fe) (str " ") = (MDecl, fd, fe). Proof. fixed. Qed.
Lemma fx_ndata : forall fd fe, run (MDecl, fd, fe) (str " NDATA ") = (MDecl, fd, fe). Proof. fixed. Qed.
Lemma fx_cdata : forall fd fe, run (MDecl, fd, fe) (str " CDATA ") = (MDecl, fd, fe). Proof. fixed. Qed.
Lemma fx_any : forall fd fe, run (MDecl, fd, fe) (str " ANY>") = (MSubset, fd, fe). Proof. fixed. Qed.
Lemma fx_gt_dc : forall fd fe, run (MDecl, fd, fe) (str ">") = (MSubset, fd, fe). Proof. fixed. Qed.
Lemma fx_entity : forall fd fe, run (MSubset, fd, fe) (str "<!ENTITY ") = (MDecl, fd, true). Proof. fixed. Qed.
Lemma fx_pentity : forall fd fe, run (MSubset, fd, fe) (str "<!ENTITY % ") = (MDecl, fd, true). Proof. fixed. Qed.
Lemma fx_element : forall fd fe, run (MSubset, fd, fe) (str "<!ELEMENT ") = (MDecl, fd, fe). Proof. fixed. Qed.
Lemma fx_attlist : forall fd fe, run (MSubset, fd, fe) (str "<!ATTLIST ") = (MDecl, fd, fe). Proof. fixed. Qed.
Lemma fx_notation : forall fd fe, run (MSubset, fd, fe) (str "<!NOTATION ") = (MDecl, fd, fe). Proof. fixed. Qed.
Lemma fx_copen_s : forall fd fe, run (MSubset, fd, fe) (str "<!--") = (MComment KSubset D0, fd, fe). Proof. fixed. Qed.
Lemma fx_cclose_s : forall fd fe, run (MComment KSubset D0, fd, fe) (str "-->") = (MSubset, fd, fe). Proof. fixed. Qed.
Lemma fx_copen_p : forall fd fe, run (MProlog, fd, fe) (str "<!--") = (MComment KProlog D0, fd, fe). Proof. fixed. Qed.
Lemma fx_cclose_p : forall fd fe, run (MComment KProlog D0, fd, fe) (str "-->") = (MProlog, fd, fe). Proof. fixed. Qed.
Lemma fx_piopen : forall fd fe, run (MProlog, fd, fe) (str "<?") = (MPI KProlog false, fd, fe). Proof. fixed. Qed.
Lemma fx_pisp : forall fd fe, run (MPI KProlog false, fd, fe) (str " ") = (MPI KProlog false, fd, fe). Proof. fixed. Qed.
Lemma fx_piclose : forall fd fe, run (MPI KProlog false, fd, fe) (str "?>") = (MProlog, fd, fe). Proof. fixed. Qed.
Lemma fx_pct : forall fd fe, run (MSubset, fd, fe) (str "%") = (MSubset, fd, fe). Proof. fixed. Qed.
Lemma fx_semi : forall fd fe, run (MSubset, fd, fe) (str ";") = (MSubset, fd, fe). Proof. fixed. Qed.
Lemma fx_doctype : forall fd fe, run (MProlog, fd, fe) (str "<!DOCTYPE ") = (MDoctype, true, fe). Proof. fixed. Qed.
Lemma fx_subopen : forall fd fe, run (MDoctype, fd, fe) (str " [") = (MSubset, fd, fe). Proof. fixed. Qed.
Lemma fx_subclose : forall fd fe, run (MSubset, fd, fe) (str "]") = (MAfterSubset, fd, fe). Proof. fixed. Qed.
Lemma fx_gt_dt : forall fd fe, run (MDoctype, fd, fe) (str ">") = (MBody, fd, fe). Proof. fixed. Qed.
Lemma fx_gt_as : forall fd fe, run (MAfterSubset, fd, fe) (str ">") = (MBody, fd, fe). Proof. fixed. Qed.

(* ------------------------------------------------------------------ external identifiers *)
Lemma run_extid m r fd fe e :
  (m = MDoctype /\ r = QDoctype) \/ (m = MDecl /\ r = QDecl) ->
  wf_extid e = true -> run (m, fd, fe) (render_extid e) = (m, fd, fe).
Proof.
  intros Hm Hw. destruct e as [u|p u]; simpl in Hw; unfold render_extid; rewrite !run_app.
  - assert (H1 : run (m, fd, fe) (str "SYSTEM ") = (m, fd, fe))
      by (destruct Hm as [[-> _]|[-> _]]; [apply fx_system_dt | apply fx_system_dc]).
    rewrite H1. apply (run_lit _ _ _ _ _ Hm Hw).
  - apply andb_true_iff in Hw. destruct Hw as [Hp Hu].
    assert (H1 : run (m, fd, fe) (str "PUBLIC ") = (m, fd, fe))
      by (destruct Hm as [[-> _]|[-> _]]; [apply fx_public_dt | apply fx_public_dc]).
    assert (H2 : run (m, fd, fe) (str " ") = (m, fd, fe))
      by (destruct Hm as [[-> _]|[-> _]]; [apply fx_sp_dt | apply fx_sp_dc]).
    rewrite H1, (run_lit _ _ _ _ _ Hm Hp), H2. apply (run_lit _ _ _ _ _ Hm Hu).
Qed.

Lemma decl_ctx : (MDecl = MDoctype /\ QDecl = QDoctype) \/ (MDecl = MDecl /\ QDecl = QDecl).
Proof. right. split; reflexivity. Qed.
Lemma dt_ctx : (MDoctype = MDoctype /\ QDoctype = QDoctype) \/ (MDoctype = MDecl /\ QDoctype = QDecl).
Proof. left. split; reflexivity. Qed.

Lemma keep_name_decl fd fe n : is_name n = true -> run (MDecl, fd, fe) n = (MDecl, fd, fe).
Proof. intro H. apply keep_plain; [auto | apply name_plain; exact H]. Qed.

(* ------------------------------------------------------------------ the items of the internal subset *)
Lemma run_entdecl fd fe d : wf_entdecl d = true -> run (MSubset, fd, fe) (render_entdecl d) = (MSubset, fd, true).
Proof.
  intro Hw. destruct d as [n v|n e|n e t|n v|n e]; simpl in Hw; charfacts; unfold render_entdecl; rewrite !run_app.
  - rewrite fx_entity, keep_name_decl, fx_sp_dc, (run_lit _ _ _ _ _ decl_ctx), fx_gt_dc by assumption. reflexivity.
  - rewrite fx_entity, keep_name_decl, fx_sp_dc, (run_extid _ _ _ _ _ decl_ctx), fx_gt_dc by assumption. reflexivity.
  - rewrite fx_entity, keep_name_decl, fx_sp_dc, (run_extid _ _ _ _ _ decl_ctx), fx_ndata, keep_name_decl, fx_gt_dc
      by assumption. reflexivity.
  - rewrite fx_pentity, keep_name_decl, fx_sp_dc, (run_lit _ _ _ _ _ decl_ctx), fx_gt_dc by assumption. reflexivity.
  - rewrite fx_pentity, keep_name_decl, fx_sp_dc, (run_extid _ _ _ _ _ decl_ctx), fx_gt_dc by assumption. reflexivity.
Qed.

Lemma run_item fd fe i : wf_item i = true ->
  run (MSubset, fd, fe) (render_item i) = (MSubset, fd, fe || item_is_entity i).
Proof.
  intro Hw. destruct i as [d|n|e a d|n e|t|n|w]; simpl in Hw; charfacts; unfold render_item, item_is_entity;
    rewrite ?orb_false_r, ?orb_true_r.
  - apply run_entdecl. exact Hw.
  - rewrite !run_app. rewrite fx_element, keep_name_decl, fx_any by assumption. reflexivity.
  - rewrite !run_app. rewrite fx_attlist, keep_name_decl, fx_sp_dc, keep_name_decl, fx_cdata,
      (run_lit _ _ _ _ _ decl_ctx), fx_gt_dc by assumption. reflexivity.
  - rewrite !run_app. rewrite fx_notation, keep_name_decl, fx_sp_dc, (run_extid _ _ _ _ _ decl_ctx), fx_gt_dc
      by assumption. reflexivity.
  - rewrite !run_app. rewrite fx_copen_s, keep_comment, fx_cclose_s by assumption. reflexivity.
  - rewrite !run_app. rewrite fx_pct, keep_plain, fx_semi by (auto using name_plain). reflexivity.
  - apply keep_plain; [auto | apply ws_plain_all; exact Hw].
Qed.

Lemma run_items l : forall fd fe, forallb wf_item l = true ->
  run (MSubset, fd, fe) (flat_map render_item l) = (MSubset, fd, fe || existsb item_is_entity l).
Proof.
  induction l as [|i l IH]; intros fd fe Hw; simpl.
  - rewrite orb_false_r. reflexivity.
  - simpl in Hw. apply andb_true_iff in Hw. destruct Hw as [Hi Hl].
    rewrite run_app, (run_item _ _ _ Hi), (IH _ _ Hl), orb_assoc. reflexivity.
Qed.

(* ------------------------------------------------------------------ DOCTYPE *)
Lemma run_doctype fd fe d : wf_doctype d = true ->
  run (MProlog, fd, fe) (render_doctype d) = (MBody, true, fe || doctype_declares d).
Proof.
  intro Hw. unfold wf_doctype in Hw. charfacts.
  unfold render_doctype, doctype_declares. rewrite !run_app. rewrite fx_doctype.
  rewrite keep_plain by (auto using name_plain).
  match goal with |- context [run (MDoctype, true, fe) ?x] =>
    assert (He : run (MDoctype, true, fe) x = (MDoctype, true, fe)) end.
  { destruct (dt_ext d) as [e|]; [|reflexivity].
    rewrite run_app, fx_sp_dt. apply (run_extid _ _ _ _ _ dt_ctx). assumption. }
  rewrite He. destruct (dt_subset d) as [l|].
  - rewrite !run_app. rewrite fx_subopen, run_items, fx_subclose, fx_gt_as by assumption. reflexivity.
  - rewrite run_nil, fx_gt_dt, orb_false_r. reflexivity.
Qed.

(* ------------------------------------------------------------------ comments, PIs, white space before it *)
Lemma run_misc fd fe m : wf_misc m = true -> run (MProlog, fd, fe) (render_misc m) = (MProlog, fd, fe).
Proof.
  intro Hw. destruct m as [t|t d|w]; simpl in Hw; charfacts; unfold render_misc.
  - rewrite !run_app. rewrite fx_copen_p, keep_comment, fx_cclose_p by assumption. reflexivity.
  - rewrite !run_app. rewrite fx_piopen, keep_pi, fx_pisp, keep_pi, fx_piclose by (auto using name_no_qm). reflexivity.
  - apply keep_plain; [auto | apply ws_plain_all; exact Hw].
Qed.

Lemma run_miscs l : forall fd fe, forallb wf_misc l = true ->
  run (MProlog, fd, fe) (flat_map render_misc l) = (MProlog, fd, fe).
Proof.
  induction l as [|m l IH]; intros fd fe Hw; [reflexivity|].
  simpl in Hw. apply andb_true_iff in Hw. destruct Hw as [Hm Hl].
  simpl. rewrite run_app, (run_misc _ _ _ Hm). apply IH. exact Hl.
Qed.

Lemma step_open_root c fd fe : c <> cBang -> c <> cQM -> step_open KProlog [] c fd fe = (MBody, fd, fe).
Proof.
  intros H1 H2. unfold step_open. cbn [app].
  assert (E1 : eqs [c] kwPI = ((c =? 63) && true)) by reflexivity.
  assert (E2 : eqs [c] kwCOMMENT = ((c =? 33) && false)) by reflexivity.
  assert (E3 : eqs [] (ctx_kw KProlog) = false) by reflexivity.
  assert (E4 : startswith (ctx_kw KProlog) [c] = ((33 =? c) && true)) by reflexivity.
  assert (E5 : startswith kwCOMMENT [c] = ((33 =? c) && true)) by reflexivity.
  rewrite E1, E2, E3, E4, E5.
  assert (N1 : (c =? 63) = false) by (apply N.eqb_neq; exact H2).
  assert (N2 : (33 =? c) = false) by (apply N.eqb_neq; intro E; apply H1; symmetry; exact E).
  rewrite N1, N2, andb_false_r. reflexivity.
Qed.

Lemma run_root fd fe t : root_ok t = true -> run (MProlog, fd, fe) (flat t) = (MBody, fd, fe).
Proof.
  unfold root_ok. destruct (flat t) as [|a [|c r]]; try discriminate. intro H. charfacts. subst a.
  change (cLT :: c :: r) with ([cLT; c] ++ r)%list. rewrite run_app.
  assert (H2 : run (MProlog, fd, fe) [cLT; c] = (MBody, fd, fe)).
  { unfold run. cbn [fold_left]. change (step (MProlog, fd, fe) cLT) with (MOpen KProlog [], fd, fe).
    change (step (MOpen KProlog [], fd, fe) c) with (step_open KProlog [] c fd fe).
    apply step_open_root; assumption. }
  rewrite H2. apply run_body.
Qed.

(* ------------------------------------------------------------------ the theorem *)
Theorem scan_attack a : wf_attack a = true ->
  scan (render a) = (MBody, attack_has_doctype a, attack_declares a).
Proof.
  intro Hw. unfold wf_attack in Hw. apply andb_true_iff in Hw. destruct Hw as [Hb Hr].
  unfold scan, state0, render, attack_has_doctype, attack_declares. rewrite !run_app.
  rewrite (run_miscs _ _ _ Hb). destruct (a_doctype a) as [d|].
  - rewrite (run_doctype _ _ _ Hr). rewrite !run_body. reflexivity.
  - apply andb_true_iff in Hr. destruct Hr as [Ha Hroot].
    rewrite run_nil, (run_miscs _ _ _ Ha). apply run_root. exact Hroot.
Qed.

Corollary declares_entity_attack a : wf_attack a = true -> declares_entity (render a) = attack_declares a.
Proof. intro H. unfold declares_entity. rewrite (scan_attack _ H). reflexivity. Qed.

Corollary has_doctype_attack a : wf_attack a = true -> has_doctype (render a) = attack_has_doctype a.
Proof. intro H. unfold has_doctype. rewrite (scan_attack _ H). reflexivity. Qed.

(* the production the property is about: an <!ENTITY declaration anywhere in the internal subset *)
Corollary entity_production_detected a d l1 l2 dt :
  wf_attack a = true -> a_doctype a = Some dt -> dt_subset dt = Some (l1 ++ IEntity d :: l2)%list ->
  declares_entity (render a) = true.
Proof.
  intros Hw Hd Hs. rewrite (declares_entity_attack _ Hw). unfold attack_declares, doctype_declares.
  rewrite Hd, Hs, existsb_app. simpl. rewrite orb_true_r. reflexivity.
Qed.

(* non-vacuity: a billion-laughs body and an external-entity body are well-formed terms of the grammar,
   and the comment decoy declares nothing *)
Definition ex_lol : attack :=
  mkAttack [XPI (str "xml") (str "version=""1.0""")]
    (Some (mkDoctype (str "x") None (Some [
        IEntity (DInternal (str "l0") (mkLit false [PStr (str "lol")]));
        IEntity (DInternal (str "l1") (mkLit false [PRep (str "&l0;") 10]));
        IEntity (DInternal (str "l2") (mkLit true [PRep (str "&l1;") 10]))])))
    [] [PStr (str "<x>&l2;</x>")].
Definition ex_xxe : attack :=
  mkAttack [] (Some (mkDoctype (str "x") (Some (EPublic (mkLit false []) (mkLit true [PStr (str "http://h/x.dtd")])))
                      (Some [ISpace [32]; IComment (str " c "); IElement (str "x");
                             IEntity (DParamExternal (str "p") (ESystem (mkLit false [PStr (str "file:///etc/passwd")])));
                             IPERef (str "p")])))
    [XSpace [10]] [PStr (str "<x a=""&e;""/>")].
Definition ex_decoy : attack :=
  mkAttack [XComment (str " <!DOCTYPE x [<!ENTITY e ""v"">]> ")] None [] [PStr (str "<x/>")].

Example ex_lol_ok : wf_attack ex_lol = true /\ declares_entity (render ex_lol) = true.
Proof. split; vm_compute; reflexivity. Qed.
Example ex_xxe_ok : wf_attack ex_xxe = true /\ declares_entity (render ex_xxe) = true.
Proof. split; vm_compute; reflexivity. Qed.
Example ex_decoy_ok : wf_attack ex_decoy = true /\ declares_entity (render ex_decoy) = false /\ has_doctype (render ex_decoy) = false.
Proof. repeat split; vm_compute; reflexivity. Qed.
