(* C03: what the rights policy must grant for a request to read or change anything (model: Model/Handlers.v,
   for an ARBITRARY policy function). *)
From Coq Require Import List NArith Bool Lia.
Import ListNotations.
Require Import RV.Lib.PyStr RV.Lib.Item RV.Model.Store RV.Model.Access RV.Model.Handlers
               RV.Proofs.StoreLemmas RV.Proofs.HandlersInv RV.Proofs.HandlersStore.
Open Scope N_scope.

(* ---- Access.check, unfolded ---- *)
Lemma nonempty_intersect : forall a b, nonempty (intersect_chars a b) = existsb (fun x => contains_char x b) a.
Proof.
  induction a as [|x a IH]; intros b; cbn; [reflexivity|].
  destruct (contains_char x b) eqn:Eb; cbn.
  - destruct (contains_char x a) eqn:Ea; cbn; [|reflexivity].
    rewrite IH. apply existsb_exists.
    (* x occurs later in a as well *)
    assert (Hin : In x a) by (clear -Ea; induction a as [|y a IH]; cbn in *; [discriminate|];
      apply orb_true_iff in Ea as [E|E]; [left; apply N.eqb_eq in E; congruence|right; apply IH; exact E]).
    exists x. split; assumption.
  - apply IH.
Qed.

Lemma existsb_single : forall a c, existsb (fun x => contains_char x [c]) a = contains_char c a.
Proof.
  induction a as [|x a IH]; intros c; cbn [existsb]; [reflexivity|]. rewrite IH. cbn [contains_char]. rewrite orb_false_r, (N.eqb_sym c x). reflexivity.
Qed.

Lemma existsb_two : forall a c d, existsb (fun x => contains_char x [c; d]) a = contains_char c a || contains_char d a.
Proof.
  induction a as [|x a IH]; intros c d; cbn [existsb]; [reflexivity|]. rewrite IH. cbn [contains_char]. rewrite orb_false_r, (N.eqb_sym c x), (N.eqb_sym d x).
  destruct (N.eqb x c), (N.eqb x d), (contains_char c a), (contains_char d a); reflexivity.
Qed.

Lemma existsb_nil : forall a, existsb (fun x => contains_char x []) a = false.
Proof. induction a; cbn; auto. Qed.

Lemma check_r_noitem : forall pol p, check pol p lr NoItem = has lr (pol p) || has lR (pol p) || (negb (is_root p) && has lr (pperms_of pol p)).
Proof. intros. unfold check, access_check. cbn. rewrite !nonempty_intersect, existsb_two, existsb_single. reflexivity. Qed.
Lemma check_w_noitem : forall pol p, check pol p lw NoItem = has lw (pol p) || has lW (pol p) || (negb (is_root p) && has lw (pperms_of pol p)).
Proof. intros. unfold check, access_check. cbn. rewrite !nonempty_intersect, existsb_two, existsb_single. reflexivity. Qed.
Lemma check_r_item : forall pol p, check pol p lr IsItem = negb (is_root p) && has lr (pperms_of pol p).
Proof. intros. unfold check, access_check. cbn. rewrite !nonempty_intersect, existsb_nil, existsb_single. reflexivity. Qed.
Lemma check_w_item : forall pol p, check pol p lw IsItem = negb (is_root p) && has lw (pperms_of pol p).
Proof. intros. unfold check, access_check. cbn. rewrite !nonempty_intersect, existsb_nil, existsb_single. reflexivity. Qed.
Lemma check_r_coll : forall pol p t, check pol p lr (IsCollection t) = if nonempty t then has lr (pol p) else has lR (pol p).
Proof. intros. unfold check, access_check. cbn. destruct (nonempty t); rewrite !nonempty_intersect, existsb_single, existsb_nil, andb_false_r, orb_false_r; reflexivity. Qed.
Lemma check_w_coll : forall pol p t, check pol p lw (IsCollection t) = if nonempty t then has lw (pol p) else has lW (pol p).
Proof. intros. unfold check, access_check. cbn. destruct (nonempty t); rewrite !nonempty_intersect, existsb_single, existsb_nil, andb_false_r, orb_false_r; reflexivity. Qed.

Lemma pperms_nonroot : forall pol p, is_root p = false -> pperms_of pol p = pol (parent p).
Proof. intros pol p H. unfold pperms_of. rewrite H. reflexivity. Qed.

Definition tagged (c : coll) : bool := match c_tag c with TNone => false | _ => true end.

(* ---- C03_write: a store change needs the matching write permission ---- *)
(* one item stored / deleted / moved: w on the calendar or address book that holds it;
   a collection created / replaced / deleted / re-propertied: w (typed) or W (plain) on the collection itself,
   plus the o/O resp. d/D flags as configured *)
Definition wperm (t : tag) : N := match t with TNone => lW | _ => lw end.

Theorem put_needs_permission : forall cfg pol s p ct b im inm s' r,
  do_put cfg pol s p ct b im inm = (s', r) ->
  s' = s
  \/ (exists o, r = (S201, PEtag (EtItem o)) /\ has lw (pol (parent p)) = true /\ is_root p = false)
  \/ (exists c, r = (S201, PEtag (EtColl c)) /\ has (wperm (c_tag c)) (pol p) = true
        /\ (if permit_overwrite cfg then has lo (pol p) = false else has lO (pol p) = true)).
Proof.
  intros cfg pol s p ct b im inm s' r H. apply do_put_cases in H.
  destruct H as [[-> _]|[(pc & tg & objs & _ & _ & _ & _ & _ & -> & Hp & Hf)|(pc & o & _ & _ & _ & _ & _ & _ & -> & Hp & Hr)]].
  - left. reflexivity.
  - right. right. eexists. split; [reflexivity|]. split; [exact Hp|exact Hf].
  - right. left. exists o. split; [reflexivity|]. split; assumption.
Qed.

Theorem delete_needs_permission : forall cfg pol s p im,
  fst (do_delete cfg pol s p im) = s
  \/ (exists pc o, resolve s p = NItem pc o /\ has lw (pol (parent p)) = true)
  \/ (exists c, resolve s p = NColl c /\ has (wperm (c_tag c)) (pol p) = true
        /\ (if permit_delete cfg then has ld (pol p) = false else has lD (pol p) = true)).
Proof.
  intros cfg pol s p im. unfold do_delete.
  repeat (brk; cbn [fst]; try (left; reflexivity)).
  all: right.
  all: try (right; eexists; split; [reflexivity|]; split;
            [ match goal with H : negb (check _ _ lw (kind_of (NColl ?c))) = false |- _ =>
                apply negb_false_iff in H; cbn [kind_of] in H; rewrite check_w_coll in H; unfold wperm; destruct (c_tag c); exact H end
            | first [assumption | apply negb_false_iff; assumption] ]).
  all: left; do 2 eexists; split; [reflexivity|].
  all: match goal with H : negb (check _ _ lw (kind_of (NItem _ _))) = false |- _ =>
         apply negb_false_iff in H; cbn [kind_of] in H; rewrite check_w_item in H; apply andb_true_iff in H as [Hr Hw];
         apply negb_true_iff in Hr; rewrite pperms_nonroot in Hw by exact Hr; exact Hw end.
Qed.

Theorem move_needs_permission : forall pol s p dr dout to ow s' r,
  do_move pol s p dr dout to ow = (s', r) ->
  s' = s \/ (has lw (pol (parent p)) = true /\ has lw (pol (parent to)) = true).
Proof.
  intros pol s p dr dout to ow s' r H. unfold do_move in H.
  destruct dr; [inversion H; left; reflexivity|].
  destruct (negb (check pol p lw NoItem)); [inversion H; left; reflexivity|].
  destruct dout; [inversion H; left; reflexivity|].
  destruct (negb (check pol to lw NoItem)); [inversion H; left; reflexivity|].
  destruct (resolve s p) as [c|pc o|] eqn:Er; try (inversion H; left; reflexivity).
  - destruct (_ || _); inversion H; left; reflexivity.
  - destruct (negb (check pol p lw (kind_of (NItem pc o))) || negb (check pol to lw (kind_of (NItem pc o)))) eqn:Ec;
      [inversion H; left; reflexivity|].
    apply orb_false_iff in Ec as [E1 E2]. apply negb_false_iff in E1, E2. cbn [kind_of] in E1, E2.
    rewrite check_w_item in E1, E2. apply andb_true_iff in E1 as [R1 W1]. apply andb_true_iff in E2 as [R2 W2].
    apply negb_true_iff in R1, R2. rewrite pperms_nonroot in W1 by exact R1. rewrite pperms_nonroot in W2 by exact R2.
    right. split; assumption.
Qed.

Theorem mkcol_needs_permission : forall pol s p x s' r,
  do_mkcol pol s p x = (s', r) ->
  s' = s \/ exists c, lookup s' p = Some c /\ has (wperm (c_tag c)) (pol p) = true.
Proof.
  intros pol s p x s' r H. unfold do_mkcol in H.
  destruct (negb (inter (pol p) [lW; lw])); [inversion H; left; reflexivity|].
  assert (Hgen : forall tg props,
    (if (match tg with TNone => false | _ => true end) && negb (has lw (pol p)) then (s, (S403NA, PNone))
     else if negb (match tg with TNone => false | _ => true end) && negb (has lW (pol p)) then (s, (S403NA, PNone))
     else match resolve s p with
          | NNothing => match resolve s (parent p) with
                        | NNothing => (s, (S409, PNone))
                        | NItem _ _ => (s, (S403F, PNone))
                        | NColl pc => match c_tag pc with
                                      | TNone => (set_coll s p (mkColl tg props []), (S201, PNone))
                                      | _ => (s, (S403F, PNone)) end end
          | _ => (s, (S405, PNone)) end) = (s', r) ->
    s' = s \/ exists c, lookup s' p = Some c /\ has (wperm (c_tag c)) (pol p) = true).
  { intros tg props Hg.
    destruct ((match tg with TNone => false | _ => true end) && negb (has lw (pol p))) eqn:E1; [inversion Hg; left; reflexivity|].
    destruct (negb (match tg with TNone => false | _ => true end) && negb (has lW (pol p))) eqn:E2; [inversion Hg; left; reflexivity|].
    destruct (resolve s p); try (inversion Hg; left; reflexivity).
    destruct (resolve s (parent p)) as [pc| |]; try (inversion Hg; left; reflexivity).
    destruct (c_tag pc); try (inversion Hg; left; reflexivity).
    inversion Hg; subst. right. eexists. split; [apply lookup_set_same|]. cbn [c_tag]. unfold wperm.
    destruct tg; cbn [andb negb] in E1, E2; [apply negb_false_iff in E2; exact E2|apply negb_false_iff in E1; exact E1..]. }
  destruct x as [| |t l]; [inversion H; left; reflexivity|exact (Hgen TNone [] H)|exact (Hgen (tag_of_req t) (apply_props [] l) H)].
Qed.

Theorem mkcalendar_needs_permission : forall pol s p x s' r,
  do_mkcalendar pol s p x = (s', r) -> s' = s \/ has lw (pol p) = true.
Proof.
  intros pol s p x s' r H. unfold do_mkcalendar in H.
  destruct (negb (has lw (pol p))) eqn:E; [inversion H; left; reflexivity|].
  right. apply negb_false_iff in E. exact E.
Qed.

Theorem proppatch_needs_permission : forall pol s p x s' r,
  do_proppatch pol s p x = (s', r) ->
  s' = s \/ exists c, resolve s p = NColl c /\ has (wperm (c_tag c)) (pol p) = true.
Proof.
  intros pol s p x s' r H. unfold do_proppatch in H.
  destruct (negb (check pol p lw NoItem)); [inversion H; left; reflexivity|].
  destruct x as [| |t l] eqn:Ex; [inversion H; left; reflexivity| |].
  all: destruct (resolve s p) as [c|pc o|] eqn:Er; try (inversion H; left; reflexivity).
  all: destruct (negb (check pol p lw (kind_of _))) eqn:Ec; try (inversion H; left; reflexivity).
  all: try (right; exists c; split; [reflexivity|]; apply negb_false_iff in Ec; cbn [kind_of] in Ec; rewrite check_w_coll in Ec;
            unfold wperm; destruct (c_tag c); exact Ec).
  all: inversion H; left; reflexivity.
Qed.

Theorem home_needs_permission : forall pol s u, ensure_home pol s u = s \/ exists n, u = Some n /\ has lW (pol [n]) = true.
Proof.
  intros pol s u. unfold ensure_home. destruct u as [n|]; [|left; reflexivity].
  destruct (resolve s [n]); try (left; reflexivity).
  destruct (has lW (pol [n])) eqn:E; [right; exists n; split; [reflexivity|exact E]|left; reflexivity].
Qed.

(* a request answered "access forbidden" changed nothing but, possibly, the user's own home *)
Theorem denied_changes_nothing : forall cfg pol u s r,
  fst (snd (handle cfg pol u s r)) = S403NA -> fst (handle cfg pol u s r) = ensure_home pol s u.
Proof. intros cfg pol u s r H. apply handle_error_unchanged. rewrite H. reflexivity. Qed.

(* ---- C03_payload: data appears in a response only with the matching read permission ---- *)
Theorem get_item_needs_r : forall pol s p o, do_get pol s p = (S200, PItem o) -> has lr (pol (parent p)) = true /\ is_root p = false.
Proof.
  intros pol s p o H. unfold do_get in H.
  destruct (negb (check pol p lr NoItem) && negb (has li (pol p))); [discriminate|].
  destruct (resolve s p) as [c|pc o'|] eqn:Er; try discriminate.
  - destruct (negb (check pol p lr (kind_of (NColl c))) && negb (has li (pol p))); [discriminate|].
    destruct (c_tag c); [destruct (negb _); discriminate|discriminate..].
  - destruct (check pol p lr (kind_of (NItem pc o'))) eqn:Ec.
    + cbn [kind_of] in Ec. rewrite check_r_item in Ec. apply andb_true_iff in Ec as [Hr Hw].
      apply negb_true_iff in Hr. rewrite pperms_nonroot in Hw by exact Hr. split; assumption.
    + cbn [negb andb] in H. destruct (negb (has li (pol p))); cbn in H; discriminate.
Qed.

Theorem get_export_needs_r_or_i : forall pol s p t l, do_get pol s p = (S200, PExport t l) -> has lr (pol p) = true \/ has li (pol p) = true.
Proof.
  intros pol s p t l H. unfold do_get in H.
  destruct (negb (check pol p lr NoItem) && negb (has li (pol p))); [discriminate|].
  destruct (resolve s p) as [c|pc o'|] eqn:Er; try discriminate.
  - destruct (check pol p lr (kind_of (NColl c))) eqn:Ec.
    + cbn [kind_of] in Ec. rewrite check_r_coll in Ec. destruct (c_tag c) eqn:Et; cbn in Ec.
      * cbn [negb andb] in H. discriminate.
      * left. exact Ec.
      * left. exact Ec.
    + cbn [negb andb] in H. destruct (has li (pol p)) eqn:Ei; [right; reflexivity|cbn in H; discriminate].
  - destruct (negb (check pol p lr (kind_of (NItem pc o'))) && negb (has li (pol p))); [discriminate|].
    destruct (negb _); discriminate.
Qed.

Definition entry_visible (pol : policy) (e : entry) : Prop :=
  match e with
  | ECollE q t _ _ => match t with TNone => has lR (pol q) = true \/ has lW (pol q) = true
                                | _ => has lr (pol q) = true \/ has lw (pol q) = true end
  | EItemE q _ _ => has lr (pol (parent q)) = true \/ has lw (pol (parent q)) = true
  | E404 _ => True
  end.

Lemma entry_allowed_some : forall pol q tg w, entry_allowed pol q tg = Some w ->
  if tg then has lr (pol q) = true \/ has lw (pol q) = true else has lR (pol q) = true \/ has lW (pol q) = true.
Proof.
  intros pol q tg w H. unfold entry_allowed in H. destruct tg.
  - destruct (has lw (pol q)) eqn:E1; [right; reflexivity|]. destruct (has lr (pol q)) eqn:E2; [left; reflexivity|discriminate].
  - destruct (has lW (pol q)) eqn:E1; [right; reflexivity|]. destruct (has lR (pol q)) eqn:E2; [left; reflexivity|discriminate].
Qed.

Lemma parent_snoc : forall (p : path) x, parent (p ++ [x]) = p.
Proof. intros. unfold parent. apply removelast_last. Qed.

Theorem propfind_entries_visible : forall pol s p d l,
  do_propfind pol s p d = (S207, PListing l) -> forall e, In e l -> entry_visible pol e.
Proof.
  intros pol s p d l H e He. unfold do_propfind in H.
  destruct (negb (check pol p lr NoItem)); [discriminate|].
  destruct (resolve s p) as [c|pc o|] eqn:Er; try discriminate.
  - destruct (negb (check pol p lr (kind_of (NColl c)))); [discriminate|].
    set (tg := match c_tag c with TNone => false | _ => true end) in *.
    assert (Hself : forall e0, In e0 (match entry_allowed pol p tg with Some w => [ECollE p (c_tag c) (c_props c) w] | None => [] end) -> entry_visible pol e0).
    { intros e0 H0. destruct (entry_allowed pol p tg) as [w|] eqn:Ea; [|contradiction]. destruct H0 as [<-|[]].
      apply entry_allowed_some in Ea. unfold tg in Ea. cbn. destruct (c_tag c); exact Ea. }
    destruct d; cbn [negb] in H.
    + inversion H; subst l. clear H. apply in_app_or in He as [He|He]; [exact (Hself e He)|].
      apply in_app_or in He as [He|He].
      * destruct (entry_allowed pol p true) as [w|] eqn:Ea; [|contradiction].
        apply in_map_iff in He as [[n o] [<- _]]. cbn. rewrite parent_snoc. exact (entry_allowed_some _ _ _ _ Ea).
      * apply in_flat_map in He as [[q cq] [_ Hq]]. cbn [fst snd] in Hq.
        destruct (entry_allowed pol q (match c_tag cq with TNone => false | _ => true end)) as [w|] eqn:Ea; [|contradiction].
        destruct Hq as [<-|[]]. apply entry_allowed_some in Ea. cbn. destruct (c_tag cq); exact Ea.
    + inversion H; subst l. exact (Hself e He).
  - destruct (negb (check pol p lr (kind_of (NItem pc o)))); [discriminate|].
    destruct (entry_allowed pol (parent p) true) as [w|] eqn:Ea; inversion H; subst l; [|contradiction].
    destruct He as [<-|[]]. cbn. exact (entry_allowed_some _ _ _ _ Ea).
Qed.

Theorem multiget_entries_need_r : forall pol s p cal hs l,
  do_multiget pol s p cal hs = (S207, PListing l) ->
  forall q o w, In (EItemE q o w) l -> has lr (pol (parent q)) = true.
Proof.
  intros pol s p cal hs l H q o w He. unfold do_multiget in H.
  destruct (negb (check pol p lr NoItem)); [discriminate|].
  destruct (resolve s p) as [c|pc o'|] eqn:Er; try discriminate.
  - destruct (negb (check pol p lr (kind_of (NColl c)))) eqn:Ec; [discriminate|].
    destruct (negb (tag_eqb (c_tag c) (if cal then TCal else TAdr))) eqn:Et; [discriminate|].
    assert (Hr : has lr (pol p) = true).
    { apply negb_false_iff in Ec. cbn [kind_of] in Ec. rewrite check_r_coll in Ec. apply negb_false_iff in Et.
      destruct (c_tag c); [destruct cal; discriminate|exact Ec..]. }
    inversion H; subst l. clear H. apply in_app_or in He as [He|He].
    + apply in_flat_map in He as [[es fl] [Hin He]]. cbn [fst] in He. apply in_map_iff in Hin as [h [Hh _]].
      destruct (path_eqb h p) eqn:E1; [inversion Hh; subst; contradiction|].
      destruct (path_eqb (parent h) p && negb (is_root h)) eqn:E2.
      * apply andb_true_iff in E2 as [E2 _]. apply path_eqb_eq in E2. rewrite <- E2 in Hr.
        destruct (assoc (c_items c) (last_name h)); inversion Hh; subst es; destruct He as [He|[]]; inversion He; subst q; exact Hr.
      * inversion Hh; subst. destruct He as [He|[]]. discriminate.
    + destruct (existsb _ _); [|contradiction]. apply in_map_iff in He as [[n o0] [He _]]. inversion He; subst.
      rewrite parent_snoc. exact Hr.
  - destruct (negb (check pol p lr (kind_of (NItem pc o')))) eqn:Ec; [discriminate|].
    destruct (negb (tag_eqb (c_tag pc) (if cal then TCal else TAdr))); [discriminate|].
    assert (Hr : has lr (pol (parent p)) = true).
    { apply negb_false_iff in Ec. cbn [kind_of] in Ec. rewrite check_r_item in Ec. apply andb_true_iff in Ec as [R W].
      apply negb_true_iff in R. rewrite pperms_nonroot in W by exact R. exact W. }
    inversion H; subst l. clear H. apply in_app_or in He as [He|He].
    + apply in_flat_map in He as [[es fl] [Hin He]]. cbn [fst] in He. apply in_map_iff in Hin as [h [Hh _]].
      destruct (path_eqb h (parent p)) eqn:E1; [inversion Hh; subst; contradiction|].
      destruct (path_eqb (parent h) (parent p) && negb (is_root h)) eqn:E2.
      * apply andb_true_iff in E2 as [E2 _]. apply path_eqb_eq in E2. rewrite <- E2 in Hr.
        destruct (assoc (c_items pc) (last_name h)); inversion Hh; subst es; destruct He as [He|[]]; inversion He; subst q; exact Hr.
      * inversion Hh; subst. destruct He as [He|[]]. discriminate.
    + destruct (existsb _ _); [|contradiction]. apply in_map_iff in He as [[n o0] [He _]]. inversion He; subst.
      rewrite parent_snoc. exact Hr.
Qed.
