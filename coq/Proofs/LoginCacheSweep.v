(* C17 -- the expiry sweep (lines 229-248 of login) never raises and is exactly
   "keep the entries whose age in whole seconds is at most the limit" -- for BOTH variants of the
   model; only what it leaves in the function-level name `login` differs. *)
From Coq Require Import List ZArith NArith Bool Lia.
Import ListNotations.
Require Import RV.Lib.PyStr RV.Proofs.PyStrLemmas RV.Model.LoginCache RV.Proofs.LoginCacheDict.
Open Scope Z_scope.

Definition live (exp now : Z) (e : dval * fentry) : bool := negb (age_s now (fst (snd e)) >? exp).
Definition sweepf (exp now : Z) (fd : fdict) : fdict := filter (live exp now) fd.

Notation dkeys := (map (@fst dval fentry)).

Definition conv (now : Z) (e : dval * fentry) : dval * (pystr * Z) :=
  (fst e, (snd (snd e), age_s now (fst (snd e)))).

Lemma conv_keys : forall now l, map fst (map (conv now) l) = map fst l.
Proof. intros now l. rewrite map_map. apply map_ext. intros [k [t lc]]. reflexivity. Qed.

Lemma loop1_spec : forall D exp now l lo cl,
  (forall k v, In (k, v) l -> dget dval_eqb D k = Some v) ->
  NoDup (map fst l) ->
  (forall k, In k (map fst l) -> ~ In k (map fst cl)) ->
  exists lo', sweep_loop1 D exp now (map fst l) lo cl
              = Ok (lo', cl ++ map (conv now) (filter (fun e => negb (live exp now e)) l))
              /\ v_login lo' = v_login lo.
Proof.
  intros D exp now. induction l as [|[k [t lc]] r IH]; intros lo cl HD ND Hfresh.
  - cbn [map sweep_loop1 filter]. rewrite app_nil_r. eauto.
  - cbn [map fst sweep_loop1]. rewrite (HD k (t, lc)) by (left; reflexivity).
    inversion ND as [|? ? Hn ND']; subst.
    cbn [filter]. unfold live at 1. cbn [fst snd]. rewrite negb_involutive.
    destruct (age_s now t >? exp) eqn:E.
    + rewrite (dset_notin_app dval_eqb dval_eqb_eq) by (apply Hfresh; left; reflexivity).
      destruct (IH (mkLocals (v_login lo) k lc t (age_s now t)) (cl ++ [(k, (lc, age_s now t))])) as [lo' [H1 H2]].
      * intros k' v' Hin. apply HD. right. exact Hin.
      * exact ND'.
      * intros k' Hin Hc. rewrite map_app in Hc. apply in_app_or in Hc as [Hc|Hc].
        -- eapply Hfresh; [right; exact Hin|exact Hc].
        -- cbn in Hc. destruct Hc as [Hc|[]]. subst. contradiction.
      * exists lo'. split; [|exact H2]. rewrite H1. cbn [map]. unfold conv at 2. cbn [fst snd].
        rewrite <- app_assoc. reflexivity.
    + destruct (IH (mkLocals (v_login lo) k lc t (age_s now t)) cl) as [lo' [H1 H2]].
      * intros k' v' Hin. apply HD. right. exact Hin.
      * exact ND'.
      * intros k' Hin. apply Hfresh. right. exact Hin.
      * exists lo'. split; [exact H1|exact H2].
Qed.

Lemma loop2_spec : forall v (cl : cdict) ks lo (fd : fdict),
  (forall k, In k ks -> In k (map fst cl)) ->
  NoDup ks ->
  (forall k, In k ks -> In k (map fst fd)) ->
  exists lo', sweep_loop2 v cl ks lo fd = Ok (lo', fold_left (ddel dval_eqb) ks fd)
              /\ (fix1 v = true -> v_login lo' = v_login lo).
Proof.
  intros v cl. induction ks as [|k ks IH]; intros lo fd Hcl ND Hfd.
  - cbn [sweep_loop2 fold_left]. eauto.
  - cbn [sweep_loop2 fold_left].
    destruct (In_key_dget dval_eqb dval_eqb_eq cl k) as [[l' a] Hc]; [apply Hcl; left; reflexivity|].
    rewrite Hc.
    destruct (In_key_dget dval_eqb dval_eqb_eq fd k) as [x Hf]; [apply Hfd; left; reflexivity|].
    rewrite Hf.
    inversion ND as [|? ? Hn ND']; subst.
    match goal with |- context [sweep_loop2 v cl ks ?L ?F] => destruct (IH L F) as [lo' [H1 H2]] end.
    + intros k' Hin. apply Hcl. right. exact Hin.
    + exact ND'.
    + intros k' Hin. apply (ddel_keys_other dval_eqb dval_eqb_eq).
      * intros ->. contradiction.
      * apply Hfd. right. exact Hin.
    + exists lo'. split; [exact H1|]. intros F. rewrite (H2 F). rewrite F. reflexivity.
Qed.

Lemma fold_ddel_cons_notin : forall ks k (v : fentry) r,
  ~ In k ks -> fold_left (ddel dval_eqb) ks ((k, v) :: r) = (k, v) :: fold_left (ddel dval_eqb) ks r.
Proof.
  induction ks as [|k0 ks IH]; intros k v r N; [reflexivity|].
  cbn [fold_left ddel].
  destruct (dval_eqb k k0) eqn:E.
  - apply dval_eqb_eq in E. exfalso. apply N. left. congruence.
  - apply IH. intros H. apply N. right. exact H.
Qed.

Lemma fold_ddel_filter : forall (P : dval * fentry -> bool) (D : fdict),
  NoDup (map fst D) ->
  fold_left (ddel dval_eqb) (map fst (filter P D)) D = filter (fun e => negb (P e)) D.
Proof.
  intros P. induction D as [|[k v] r IH]; intros ND; [reflexivity|].
  inversion ND as [|? ? Hn ND']; subst.
  cbn [filter]. destruct (P (k, v)) eqn:E; cbn [negb].
  - cbn [map fst fold_left ddel]. rewrite (proj2 (dval_eqb_eq k k) eq_refl). apply IH. exact ND'.
  - rewrite fold_ddel_cons_notin.
    + f_equal. apply IH. exact ND'.
    + intros H. apply Hn. eapply filter_keys_In. exact H.
Qed.

Lemma live_negb_negb : forall exp now (l : fdict),
  filter (fun e => negb (negb (live exp now e))) l = filter (live exp now) l.
Proof. intros. apply filter_ext. intros e. apply negb_involutive. Qed.

(* The sweep of either variant: never raises, result = the live entries. *)
Theorem sweep_spec : forall v exp now (fd : fdict) lo,
  NoDup (map fst fd) ->
  exists lo', sweep v exp now fd lo = Ok (lo', sweepf exp now fd)
              /\ (fix1 v = true -> v_login lo' = v_login lo).
Proof.
  intros v exp now fd lo ND. unfold sweep.
  destruct fd as [|e0 r] eqn:Efd; [exists lo; split; reflexivity|]. rewrite <- Efd in *.
  destruct (loop1_spec fd exp now fd lo []) as [lo1 [H1 L1]].
  - intros k x Hin. apply (In_dget dval_eqb dval_eqb_eq); assumption.
  - exact ND.
  - intros k _ [].
  - rewrite H1. cbn [app].
    destruct (map (conv now) (filter (fun e => negb (live exp now e)) fd)) as [|c0 cr] eqn:Ecl.
    + exists lo1. split; [|intros _; exact L1].
      apply map_eq_nil in Ecl. unfold sweepf. rewrite (filter_all_true _ _ Ecl). reflexivity.
    + rewrite <- Ecl. rewrite conv_keys.
      destruct (loop2_spec v (map (conv now) (filter (fun e => negb (live exp now e)) fd))
                           (map fst (filter (fun e => negb (live exp now e)) fd)) lo1 fd) as [lo2 [H2 L2]].
      * intros k Hin. rewrite conv_keys. exact Hin.
      * apply filter_NoDup. exact ND.
      * intros k Hin. eapply filter_keys_In. exact Hin.
      * exists lo2. split.
        -- rewrite H2. rewrite fold_ddel_filter by exact ND. rewrite live_negb_negb. reflexivity.
        -- intros F. rewrite (L2 F). exact L1.
Qed.

Corollary sweep_total : forall v exp now (fd : fdict) lo,
  NoDup (map fst fd) -> exists lo' fd', sweep v exp now fd lo = Ok (lo', fd').
Proof. intros. destruct (sweep_spec v exp now fd lo H) as [lo' [E _]]. eauto. Qed.

(* facts about the filter specification *)
Lemma sweepf_NoDup : forall exp now fd, NoDup (map fst fd) -> NoDup (map fst (sweepf exp now fd)).
Proof. intros. apply filter_NoDup. assumption. Qed.

Lemma sweepf_idem : forall exp now fd, sweepf exp now (sweepf exp now fd) = sweepf exp now fd.
Proof. intros. apply filter_filter_same. Qed.

Lemma sweepf_In : forall exp now fd k t l, In (k, (t, l)) (sweepf exp now fd) ->
  In (k, (t, l)) fd /\ age_s now t <= exp.
Proof.
  intros exp now fd k t l H. apply filter_In in H as [H L]. split; [exact H|].
  unfold live in L. cbn [fst snd] in L. apply negb_true_iff in L. rewrite Z.gtb_ltb in L.
  apply Z.ltb_ge in L. exact L.
Qed.

Lemma age_mono : forall now now' t, now <= now' -> age_s now t <= age_s now' t.
Proof. intros. unfold age_s. apply Z.quot_le_mono; lia. Qed.

Lemma live_mono : forall exp now now' e, now <= now' -> live exp now' e = true -> live exp now e = true.
Proof.
  intros exp now now' e Hle H. unfold live in *. apply negb_true_iff in H. apply negb_true_iff.
  rewrite Z.gtb_ltb in *. apply Z.ltb_ge in H. apply Z.ltb_ge.
  pose proof (age_mono now now' (fst (snd e)) Hle). lia.
Qed.

Lemma sweepf_later : forall exp now now' fd, now <= now' ->
  sweepf exp now' (sweepf exp now fd) = sweepf exp now' fd.
Proof. intros. apply filter_filter_impl. intros e. apply live_mono. assumption. Qed.
