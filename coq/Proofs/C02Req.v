(* C02 / C12 at request level: the reads a handler performs before the operation only fill caches. *)
From Coq Require Import List NArith Bool Lia PeanoNat.
Import ListNotations.
Require Import RV.Lib.Prog RV.Model.Fs RV.Model.StorageOps RV.Proofs.ProgLemmas RV.Proofs.FsLemmas
  RV.Proofs.FsInv RV.Proofs.MonLemmas RV.Proofs.CacheCalm RV.Proofs.C12Mon RV.Proofs.C12Units RV.Proofs.C12Units2
  RV.Proofs.C12Create RV.Proofs.C12Final RV.Proofs.C02Base RV.Proofs.C02Units RV.Proofs.C02Units2 RV.Proofs.C02Units3
  RV.Proofs.C02Create RV.Proofs.C02Final.
Open Scope N_scope.

(* the ideal effect only depends on the visible store it starts from *)
Lemma ideal_abs : forall u s1 s0 q, unit_wf u -> abs_eq s1 s0 -> is_data q = true -> ideal u s1 q = ideal u s0 q.
Proof.
  intros u s1 s0 q Hwf Ha Hq. destruct u; cbn [ideal unit_wf] in *; try (rewrite (Ha q Hq); reflexivity).
  destruct Hwf as (H1 & H2 & H3 & H4 & _). rewrite (Ha q Hq).
  destruct (prefix (c' ++ [h']) q) eqn:E; [|reflexivity].
  apply Ha. apply prefix_strip in E. destruct (strip (c' ++ [h']) q) as [|y r] eqn:Es.
  - rewrite app_nil_r. apply coll_item_data; assumption.
  - rewrite E in Hq. rewrite coll_ext in Hq; [|apply coll_snoc; assumption | discriminate].
    rewrite coll_ext; [exact Hq | apply coll_snoc; assumption | discriminate].
Qed.

Lemma unit_from : forall lay u s0 cs s1 t1, unit_wf u -> (forall c, In c (unit_dirs02 u) -> In c cs) ->
  J02 s0 cs s1 t1 -> machine_wp (unit_prog lay u) (AFT u s0) (fun _ => OUT u s0) (OUT u s0) s1 t1.
Proof.
  intros lay u s0 cs s1 t1 Hwf Hsub (Hi1 & Ha1 & Hd1).
  assert (Hconv : forall s', dpost (ideal u s1) s' -> dpost (ideal u s0) s').
  { intros s' H q Hq. rewrite (H q Hq). apply ideal_abs; assumption. }
  eapply mw_mono; [ | | | apply (unit_c02 lay u s1 t1 Hwf (fun c Hc => Hd1 c (Hsub c Hc)) Hi1) ]; cbn beta.
  - intros s' t' [A B]. split; [exact A | apply Hconv; exact B].
  - intros e s' t' [A [B | B]]; (split; [exact A|]); [left; eapply abs_eq_trans; eauto | right; apply Hconv; exact B].
  - intros s' t' [A [B | B]]; (split; [exact A|]); [left; eapply abs_eq_trans; eauto | right; apply Hconv; exact B].
Qed.

Lemma pre_then : forall u s0 cs (pre q : P) t, calm (J02 s0 cs) pre -> J02 s0 cs s0 t ->
  (forall s1 t1, J02 s0 cs s1 t1 -> machine_wp q (AFT u s0) (fun _ => OUT u s0) (OUT u s0) s1 t1) ->
  machine_wp (Seq pre q) (AFT u s0) (fun _ => OUT u s0) (OUT u s0) s0 t.
Proof.
  intros u s0 cs pre q t Hc HJ Hq. apply mw_seq.
  eapply mw_mono; [ | | | apply (tail_before u s0 cs pre s0 t Hc HJ) ]; cbn beta; auto.
Qed.

(* the operation behind a request *)
Definition unit_of (r : request) : option unit_op :=
  match r with
  | RPutItem c h v _ exp => Some (UUpload c h v exp)
  | RDeleteItem c h exp => Some (UDeleteItem c h exp)
  | RDeleteColl c _ => Some (UDeleteColl c)
  | RMove c h c' h' v _ exp exp' => Some (UMove c h c' h' v exp exp')
  | RPropPatch c pv => Some (USetMeta c pv)
  | RMkcalendar p pv => Some (UCreate p None pv)
  | RPutColl p its pv _ => Some (UCreate p (Some its) pv)
  | RMkcol _ | RHome _ _ => None
  end.
Definition request_dirs02 (r : request) : list path :=
  match r with
  | RMkcalendar p _ | RPutColl p _ _ _ => [parent p]
  | _ => request_dirs r
  end.

Section Req02.
  Variable lay : layout.

  Lemma get_many_02 : forall s0 cs c xs b, (forall c0, In c0 cs -> is_data c0 = true) -> In c cs -> coll_path c = true ->
    calm (J02 s0 cs) (get_many lay c xs b).
  Proof.
    intros s0 cs c xs b Hcd Hin Hc.
    apply (calm_get_many _ (J02_ok s0 cs Hcd) (J02_fail s0 cs) c); [ | apply coll_ne; exact Hc | apply coll_is_data; exact Hc].
    intros s t (_ & _ & Hd). apply Hd. exact Hin.
  Qed.

  Lemma get_target_02 : forall s0 cs c x, (forall c0, In c0 cs -> is_data c0 = true) -> In c cs -> coll_path c = true ->
    calm (J02 s0 cs) (get_target lay c x).
  Proof.
    intros s0 cs c x Hcd Hin Hc.
    apply (calm_get_target _ (J02_ok s0 cs Hcd) (J02_fail s0 cs) c); [ | apply coll_ne; exact Hc | apply coll_is_data; exact Hc].
    intros s t (_ & _ & Hd). apply Hd. exact Hin.
  Qed.

  Lemma request_c02 : forall r u s0 t, unit_of r = Some u -> request_wf r -> dirs_exist (request_dirs02 r) s0 -> fs_inv_weak s0 ->
    machine_wp (request_prog lay r) (AFT u s0) (fun _ => OUT u s0) (OUT u s0) s0 t.
  Proof.
    intros r u s0 t Hu Hwf Hd Hi. destruct r; cbn [unit_of] in Hu; try discriminate; injection Hu as <-;
      cbn [request_prog request_wf request_dirs02 request_dirs] in *.
    - (* RPutItem *) destruct Hwf as [Hc Hh].
      assert (Hcd : forall c0, In c0 [c] -> is_data c0 = true) by (intros c0 Hin; apply in1 in Hin; subst; apply coll_is_data; exact Hc).
      assert (HJ : J02 s0 [c] s0 t) by (split; [exact Hi | split; [apply abs_eq_refl | exact Hd]]).
      apply mw_read.
      assert (Hgo : forall (pre : P), calm (J02 s0 [c]) pre -> machine_wp (Seq pre (upload lay c h v exp)) (AFT (UUpload c h v exp) s0)
                                 (fun _ => OUT (UUpload c h v exp) s0) (OUT (UUpload c h v exp) s0) s0 t).
      { intros pre Hpre. apply (pre_then _ s0 [c]); [exact Hpre | exact HJ |].
        intros s1 t1 H1. apply (unit_from lay (UUpload c h v exp) s0 [c]); [split; assumption | auto | exact H1]. }
      destruct (look s0 (c ++ [h])) as [[|v0]|]; apply Hgo; apply get_many_02; auto; left; reflexivity.
    - (* RDeleteItem *) destruct Hwf as [Hc Hh].
      assert (Hcd : forall c0, In c0 [c] -> is_data c0 = true) by (intros c0 Hin; apply in1 in Hin; subst; apply coll_is_data; exact Hc).
      assert (HJ : J02 s0 [c] s0 t) by (split; [exact Hi | split; [apply abs_eq_refl | exact Hd]]).
      apply (pre_then _ s0 [c]); [apply get_target_02; auto; left; reflexivity | exact HJ |].
      intros s1 t1 H1. apply (unit_from lay (UDeleteItem c h exp) s0 [c]); [split; assumption | auto | exact H1].
    - (* RDeleteColl *)
      assert (Hcd : forall c0, In c0 [c] -> is_data c0 = true) by (intros c0 Hin; apply in1 in Hin; subst; apply coll_is_data; exact Hwf).
      assert (HJ : J02 s0 [c] s0 t) by (split; [exact Hi | split; [apply abs_eq_refl | exact Hd]]).
      cbn [seqs]. apply (pre_then _ s0 [c]); [apply get_many_02; auto; left; reflexivity | exact HJ |].
      intros s1 t1 H1. apply mw_seq.
      eapply mw_mono; [ | | | apply (tail_before (UDeleteColl c) s0 [c] _ s1 t1 (get_many_02 s0 [c] c names true Hcd (or_introl eq_refl) Hwf) H1) ]; cbn beta; auto.
      intros s2 t2 H2. apply (unit_from lay (UDeleteColl c) s0 [c]); [exact Hwf | intros c0 [] | exact H2].
    - (* RMove *) destruct Hwf as (H1 & H2 & H3 & H4 & H5 & H6).
      assert (Hcd : forall c0, In c0 [c; c'] -> is_data c0 = true) by (intros c0 [<- | [<- | []]]; apply coll_is_data; assumption).
      assert (HJ : J02 s0 [c; c'] s0 t) by (split; [exact Hi | split; [apply abs_eq_refl | exact Hd]]).
      cbn [seqs]. apply (pre_then _ s0 [c; c']); [apply get_target_02; auto; left; reflexivity | exact HJ |].
      intros s1 t1 Hs1. apply mw_seq.
      assert (Hmid : calm (J02 s0 [c; c']) (Read (c' ++ [h']) (fun n => match n with
                  | Some (F _) => get_target lay c' h'
                  | _ => if path_eqb c c' then Ret else get_many lay c' names' false end))).
      { apply calm_read. intros [[|v0]|]; try (apply get_target_02; auto; right; left; reflexivity);
          (destruct (path_eqb c c'); try apply calm_ret; apply get_many_02; auto; right; left; reflexivity). }
      eapply mw_mono; [ | | | apply (tail_before (UMove c h c' h' v exp exp') s0 [c; c'] _ s1 t1 Hmid Hs1) ]; cbn beta; auto.
      intros s2 t2 Hs2. apply (unit_from lay (UMove c h c' h' v exp exp') s0 [c; c']); [repeat split; assumption | auto | exact Hs2].
    - (* RPropPatch *) apply (unit_c02 lay (USetMeta c pv) s0 t Hwf); [intros c0 Hc0; apply Hd; exact Hc0 | exact Hi].
    - (* RMkcalendar *) apply (unit_c02 lay (UCreate p None pv) s0 t Hwf Hd Hi).
    - (* RPutColl: the collection ETag is computed from the new collection afterwards *)
      destruct Hwf as (par & x & -> & Hp & Hx). set (u := UCreate (par ++ [x]) (Some its) pv).
      apply mw_seq.
      assert (Hc : machine_wp (create_collection lay (par ++ [x]) (Some its) (Some pv)) (AFT u s0) (fun _ => OUT u s0) (OUT u s0) s0 t).
      { apply create_c02; auto. apply Hd. rewrite parent_snoc. left. reflexivity. }
      eapply mw_mono; [ | | | exact Hc ]; cbn beta; auto.
      intros s1 t1 [Hi1 Hp1].
      assert (Hcd : forall c0, In c0 [par ++ [x]] -> is_data c0 = true) by (intros c0 Hin; apply in1 in Hin; subst; apply coll_item_data; assumption).
      apply (tail_after u s0 s1 [par ++ [x]]); [ | exact Hi1 | exact Hp1 | ].
      + apply get_many_02; [exact Hcd | left; reflexivity | apply coll_snoc; assumption].
      + intros c0 Hin. apply in1 in Hin. subst c0. rewrite (Hp1 (par ++ [x]) (coll_item_data _ _ Hp Hx)).
        cbn [ideal u]. rewrite prefix_refl. unfold strip. rewrite skipn_all. unfold stage. apply fold_stage_nil. reflexivity.
  Qed.
End Req02.

Lemma c02_requests : forall lay r u s0 (o : oracle errno), unit_of r = Some u -> request_wf r ->
  dirs_exist (request_dirs02 r) s0 -> fs_inv_weak s0 ->
  result_ok u s0 (machine_run o (request_prog lay r) (start s0)).
Proof.
  intros lay r u s0 o Hu Hwf Hd Hi.
  pose proof (wp_sound step errno path (option node) fs apply look ls _ _ _ _ s0 [] (request_c02 lay r u s0 [] Hu Hwf Hd Hi) o 0%nat 0) as Hs.
  unfold post_of in Hs. unfold result_ok, machine_run, start.
  destruct (run step errno path (option node) fs apply look ls o (request_prog lay r) (Cfg 0 0 s0 [])) as [c out].
  cbn [fst snd] in *. destruct out as [|e|]; destruct Hs as [H1 H2]; (split; [exact H1|]); split; auto; intro; discriminate.
Qed.

(* C12 for the whole-collection PUT: creation, then the listing of the new collection (cache fills) *)
Lemma c12_putcoll : forall lay par x its pv names s (o : oracle errno), coll_path par = true -> is_safe x = true ->
  fs_inv_weak s -> look s par = Some D ->
  let res := machine_run o (request_prog lay (RPutColl (par ++ [x]) its pv names)) (start s) in
  snd res = ONorm -> durable (done (c_tr (fst res))).
Proof.
  intros lay par x its pv names s o Hp Hx Hi Hd res Hn.
  set (u := UCreate (par ++ [x]) (Some its) pv).
  assert (Hcd : forall c0, In c0 [par ++ [x]] -> is_data c0 = true) by (intros c0 Hin; apply in1 in Hin; subst; apply coll_item_data; assumption).
  assert (Hwp : WP (request_prog lay (RPutColl (par ++ [x]) its pv names)) (J12 [par ++ [x]]) s []).
  { cbn [request_prog]. eapply WP_seq with (M := fun s1 t1 => J12 [] s1 t1 /\ AFT u s s1 t1).
    - pose proof (create_c12 lay par x (Some its) pv s [] Hp Hx (J12_start [] s (fun c (H : In c []) => match H with end))) as H1.
      pose proof (create_c02 lay par x (Some its) pv s [] Hp Hx Hi Hd) as H2.
      unfold WP in *. Local Transparent machine_wp. unfold machine_wp in *.
      eapply wp_mono; [ | | | apply (wp_conj _ _ _ _ _ _ _ _ _ _ _ _ _ _ _ _ _ H1 H2) ]; cbn beta; auto; intros; exact I.
    - intros s1 t1 [[Hm _] [Hi1 Hp1]]. apply (get_many_12 lay [par ++ [x]]); [exact Hcd | left; reflexivity | apply coll_snoc; assumption |].
      split; [exact Hm|]. intros c0 Hin. apply in1 in Hin. subst c0. rewrite (Hp1 (par ++ [x]) (coll_item_data _ _ Hp Hx)).
      cbn [ideal u]. rewrite prefix_refl. unfold strip. rewrite skipn_all. unfold stage. apply fold_stage_nil. reflexivity. }
  apply (J12_durable [par ++ [x]] (c_st (fst res))). apply (run_WP _ _ s o Hwp). exact Hn.
Qed.
