(* C11 -- theorems about the keyed FIFO lock (LockDict), derived from the inductive invariant. *)
From Coq Require Import List Arith Bool Lia.
Import ListNotations.
Require Import RV.Model.C11Base RV.Proofs.C11BaseLemmas RV.Model.LockDict RV.Proofs.LockDictInv.

Lemma lrun_reachable : forall progs sched s, lrun_sched sched (linit progs) = Some s -> lreachable s.
Proof. intros. exists progs. eapply run_reach; eauto. Qed.

Lemma entered_enq : forall th, entered th = true -> enq_pc (l_pc th) = true.
Proof. unfold entered. intros th H. destruct (l_pc th); simpl in *; auto; discriminate. Qed.

Lemma entered_not_parked : forall g t th, entered th = true -> parked g t th -> False.
Proof.
  unfold entered, parked. intros g t th He (P1 & P2 & _). destruct (l_pc th); simpl in *; try discriminate.
  rewrite P1 in He. discriminate.
Qed.

(* ------------------------------------------------------------------ the holder is the head of its key's deque *)
Lemma ld_holder_is_head : forall s t th, lreachable s -> lthr_at s t th -> entered th = true ->
  lookup (l_key th) (d_dict (glob s)) = Some (l_dq th) /\ exists rest, dq (glob s) (l_dq th) = t :: rest.
Proof.
  intros s t th Hr Ht He. apply LInv_reachable in Hr. pose proof (entered_enq _ He) as Hq.
  assert (lookup (l_key th) (d_dict (glob s)) = Some (l_dq th)) as Hl.
  { eapply li_ref; eauto. unfold refs_pc. rewrite Hq. reflexivity. }
  split; auto. pose proof (li_enq _ Hr _ _ Ht Hq) as Hin.
  destruct (dq (glob s) (l_dq th)) as [|x rest] eqn:E; [contradiction|].
  destruct Hin as [->|Hin]; [eauto|]. exfalso.
  eapply entered_not_parked; eauto. eapply (li_rest _ Hr); eauto.
Qed.

(* ------------------------------------------------------------------ same-key holders <= 1 *)
Lemma ld_mutex : forall s t u th thu, lreachable s -> lthr_at s t th -> lthr_at s u thu ->
  entered th = true -> entered thu = true -> l_key th = l_key thu -> t = u.
Proof.
  intros s t u th thu Hr Ht Hu E1 E2 Hk.
  destruct (ld_holder_is_head _ _ _ Hr Ht E1) as (L1 & r1 & D1).
  destruct (ld_holder_is_head _ _ _ Hr Hu E2) as (L2 & r2 & D2).
  rewrite Hk in L1. rewrite L1 in L2. inversion L2 as [Hd]. rewrite Hd in D1. rewrite D1 in D2. inversion D2. auto.
Qed.

Definition holds_key (k : nat) (th : lthread) : bool := entered th && Nat.eqb (l_key th) k.

Lemma ld_mutex_count : forall s k, lreachable s -> count (holds_key k) (thr s) <= 1.
Proof.
  intros s k Hr. destruct (le_lt_dec (count (holds_key k) (thr s)) 1) as [H|H]; auto. exfalso.
  assert (forall l, count (holds_key k) l >= 2 ->
            exists i j x y, i <> j /\ nth_error l i = Some x /\ nth_error l j = Some y /\ holds_key k x = true /\ holds_key k y = true) as Htwo.
  { induction l as [|a l IH]; simpl; intros Hc; [lia|].
    destruct (holds_key k a) eqn:Ea.
    - destruct (count_pos _ (holds_key k) l) as (j & y & Hy & Hhy); [lia|].
      exists 0, (S j), a, y. simpl. repeat split; auto.
    - destruct IH as (i & j & x & y & Hne & Hx & Hy & Hhx & Hhy); [lia|].
      exists (S i), (S j), x, y. simpl. repeat split; auto. }
  destruct (Htwo (thr s)) as (i & j & x & y & Hne & Hx & Hy & Hhx & Hhy); [lia|].
  unfold holds_key in *. apply andb_true_iff in Hhx. apply andb_true_iff in Hhy.
  destruct Hhx as [E1 K1]. destruct Hhy as [E2 K2]. apply Nat.eqb_eq in K1. apply Nat.eqb_eq in K2.
  apply Hne. eapply (ld_mutex s i j x y); eauto. congruence.
Qed.

(* ------------------------------------------------------------------ FIFO: deques change only by append-at-tail of
   the arriving thread and removal of the head by the leaving thread (holds in every state, reachable or not) *)
Lemma ld_fifo_step : forall s t s' d, lstep s t = Some s' ->
  dq (glob s') d = dq (glob s) d \/ dq (glob s') d = dq (glob s) d ++ [t] \/ dq (glob s) d = t :: dq (glob s') d.
Proof.
  intros s t s' d H. lstep_cases H; unfold dq in *; simpl; auto.
  - left. apply nth_app_nil.
  - destruct (Nat.eq_dec (l_dq th) d) as [E|E].
    + subst d. destruct (lt_dec (l_dq th) (List.length (d_deques (glob s)))) as [Hb|Hb].
      * right. left. apply nth_upd_eq''. auto.
      * left. rewrite !nth_overflow; auto; rewrite ?upd_length; lia.
    + left. apply nth_upd_neq''. auto.
  - (* D_Del, last *)
    apply andb_true_iff in Eas. destruct Eas as [Eh _]. apply Nat.eqb_eq in Eh. subst n.
    destruct (Nat.eq_dec (l_dq th) d) as [E|E].
    + subst d. destruct (lt_dec (l_dq th) (List.length (d_deques (glob s)))) as [Hb|Hb].
      * right. right. rewrite nth_upd_eq'' by auto. exact Edq.
      * rewrite nth_overflow in Edq by lia. discriminate.
    + left. apply nth_upd_neq''. auto.
  - apply andb_true_iff in Eas. destruct Eas as [Eh _]. apply Nat.eqb_eq in Eh. subst n.
    destruct (Nat.eq_dec (l_dq th) d) as [E|E].
    + subst d. destruct (lt_dec (l_dq th) (List.length (d_deques (glob s)))) as [Hb|Hb].
      * right. right. rewrite nth_upd_eq'' by auto. exact Edq.
      * rewrite nth_overflow in Edq by lia. discriminate.
    + left. apply nth_upd_neq''. auto.
Qed.

(* everybody behind the head is parked: nobody overtakes *)
Lemma ld_behind_parked : forall s k d x rest u thu, lreachable s -> lookup k (d_dict (glob s)) = Some d ->
  dq (glob s) d = x :: rest -> In u rest -> lthr_at s u thu -> parked (glob s) u thu /\ l_key thu = k.
Proof.
  intros s k d x rest u thu Hr Hl Hd Hin Hu. apply LInv_reachable in Hr. split.
  - eapply (li_rest _ Hr); eauto.
  - assert (In u (dq (glob s) d)) as Hi by (rewrite Hd; right; auto).
    destruct (li_mem _ Hr _ _ _ Hl Hi) as (a & Ha & _ & Hk & _). unfold lthr_at in *. congruence.
Qed.

(* ------------------------------------------------------------------ a release wakes exactly the next waiter *)
Lemma ld_wake_exact : forall s u thu, lreachable s -> lthr_at s u thu -> l_pc thu = D_Wake ->
  exists w rest thw s',
    dq (glob s) (l_dq thu) = w :: rest /\ lthr_at s w thw /\ l_key thw = l_key thu /\ parked (glob s) w thw /\
    lstep s u = Some s' /\ d_unlocked (glob s') = w :: d_unlocked (glob s) /\ d_deques (glob s') = d_deques (glob s)
    /\ d_dict (glob s') = d_dict (glob s).
Proof.
  intros s u thu Hr Hu Hp. apply LInv_reachable in Hr.
  destruct (li_wake _ Hr _ _ Hu Hp) as (w & rest & thw & Hd & Hw & Hpk).
  assert (lookup (l_key thu) (d_dict (glob s)) = Some (l_dq thu)) as Hl by (eapply li_ref; eauto; rewrite Hp; reflexivity).
  assert (In w (dq (glob s) (l_dq thu))) as Hi by (rewrite Hd; left; auto).
  destruct (li_mem _ Hr _ _ _ Hl Hi) as (a & Ha & _ & Hk & _).
  assert (a = thw) by (unfold lthr_at in *; congruence). subst a.
  assert (memb w (d_unlocked (glob s)) = false) as Hm.
  { destruct (memb w (d_unlocked (glob s))) eqn:E; auto. apply memb_In in E. destruct Hpk as (_ & _ & Hn). contradiction. }
  assert (lstep s u = Some (St (LG (d_mutex (glob s)) (d_dict (glob s)) (d_deques (glob s)) (w :: d_unlocked (glob s)))
                               (upd u (lset_pc thu D_Unlock2) (thr s)))) as Hs.
  { unfold lstep, C11Base.step. unfold lthr_at in Hu. rewrite Hu. unfold ltstep. rewrite Hp, Hd, Hm. reflexivity. }
  exists w, rest, thw. eexists. split; [exact Hd|]. split; [exact Hw|]. split; [exact Hk|]. split; [exact Hpk|].
  split; [exact Hs|]. simpl. auto.
Qed.

(* ------------------------------------------------------------------ other keys are never blocked *)
(* a dict entry exists only while some thread is inside the acquire/release region of that key ... *)
Lemma ld_entry_busy : forall s k d, lreachable s -> lookup k (d_dict (glob s)) = Some d ->
  exists u thu, lthr_at s u thu /\ l_key thu = k /\ refs_pc (l_pc thu) = true.
Proof.
  intros s k d Hr Hl. apply LInv_reachable in Hr.
  destruct (dq (glob s) d) as [|x rest] eqn:E.
  - destruct (li_empty _ Hr _ _ Hl E) as (u & thu & _ & Hu & Hp & Hd). exists u, thu. split; auto.
    assert (refs_pc (l_pc thu) = true) as Hrf by (rewrite Hp; reflexivity). split; auto.
    pose proof (li_ref _ Hr _ _ Hu Hrf) as Hl2. rewrite Hd in Hl2. eapply (li_inj _ Hr); eauto.
  - assert (In x (dq (glob s) d)) as Hi by (rewrite E; left; auto).
    destruct (li_mem _ Hr _ _ _ Hl Hi) as (a & Ha & Hq & Hk & _). exists x, a. split; auto. split; auto.
    unfold refs_pc. rewrite Hq. reflexivity.
Qed.

(* ... so the entry is gone when the key is idle, and an arriving thread then does not wait *)
Lemma ld_idle_removed : forall s k, lreachable s ->
  (forall u thu, lthr_at s u thu -> refs_pc (l_pc thu) = true -> l_key thu <> k) -> lookup k (d_dict (glob s)) = None.
Proof.
  intros s k Hr Hidle. destruct (lookup k (d_dict (glob s))) as [d|] eqn:E; auto. exfalso.
  destruct (ld_entry_busy _ _ _ Hr E) as (u & thu & Hu & Hk & Hrf). eapply Hidle; eauto.
Qed.

Lemma ld_idle_no_wait : forall s t th s', lreachable s -> lthr_at s t th -> l_pc th = D_Get ->
  (forall u thu, lthr_at s u thu -> refs_pc (l_pc thu) = true -> l_key thu <> l_key th) ->
  lstep s t = Some s' -> exists th', lthr_at s' t th' /\ l_pc th' = D_WInit /\ l_wait th' = false.
Proof.
  intros s t th s' Hr Ht Hp Hidle Hs. pose proof (ld_idle_removed _ _ Hr Hidle) as Hn.
  unfold lstep, C11Base.step in Hs. unfold lthr_at in Ht. rewrite Ht in Hs. unfold ltstep in Hs. rewrite Hp, Hn in Hs.
  inversion Hs; subst. eexists. split; [unfold lthr_at; simpl; eapply nth_upd_eq; eauto|]. split; reflexivity.
Qed.

(* a thread blocked on its waiter lock is blocked by a thread of the SAME key, the head of that key's deque *)
Lemma ld_blocked_same_key : forall s t th, lreachable s -> lthr_at s t th -> parked (glob s) t th ->
  exists x rest thx, x <> t /\ dq (glob s) (l_dq th) = x :: rest /\ In t rest /\ lthr_at s x thx /\ l_key thx = l_key th
    \/ wake_pending s (l_dq th).
Proof.
  intros s t th Hr Ht Hpk. apply LInv_reachable in Hr.
  assert (enq_pc (l_pc th) = true) as Hq.
  { destruct Hpk as (_ & Hw & _). destruct (l_pc th); simpl in *; auto; discriminate. }
  assert (lookup (l_key th) (d_dict (glob s)) = Some (l_dq th)) as Hl.
  { eapply li_ref; eauto. unfold refs_pc. rewrite Hq. reflexivity. }
  pose proof (li_enq _ Hr _ _ Ht Hq) as Hin.
  destruct (dq (glob s) (l_dq th)) as [|x rest] eqn:E; [contradiction|].
  destruct Hin as [->|Hin].
  - (* t is the head and parked: the wake-up is pending *)
    destruct (li_head _ Hr _ _ _ _ _ Hl E Ht) as [P|[P|[_ P]]].
    + exfalso. eapply entered_not_parked; eauto.
    + exfalso. destruct P as (_ & _ & P). destruct Hpk as (_ & _ & Q). contradiction.
    + exists t, rest, th. right. exact P.
  - assert (In x (dq (glob s) (l_dq th))) as Hi by (rewrite E; left; auto).
    destruct (li_mem _ Hr _ _ _ Hl Hi) as (thx & Hx & _ & Hk & _).
    exists x, rest, thx. left. repeat split; auto.
    intros ->. pose proof (li_nodup _ Hr _ _ Hl) as ND. rewrite E in ND. inversion ND; contradiction.
Qed.

(* ------------------------------------------------------------------ the release path never raises *)
Lemma ld_no_failure : forall s t th, lreachable s -> lthr_at s t th -> lfailed_pc (l_pc th) = false.
Proof. intros s t th Hr Ht. apply LInv_reachable in Hr. eapply li_nofail; eauto. Qed.

(* ------------------------------------------------------------------ no lost wake-up: a parked head has its wake-up pending *)
Lemma ld_no_lost_wakeup : forall s k d x rest thx, lreachable s -> lookup k (d_dict (glob s)) = Some d ->
  dq (glob s) d = x :: rest -> lthr_at s x thx -> parked (glob s) x thx -> wake_pending s d.
Proof.
  intros s k d x rest thx Hr Hl Hd Hx Hpk. apply LInv_reachable in Hr.
  destruct (li_head _ Hr _ _ _ _ _ Hl Hd Hx) as [P|[P|[_ P]]]; auto.
  - exfalso. eapply entered_not_parked; eauto.
  - exfalso. destruct P as (_ & _ & P). destruct Hpk as (_ & _ & Q). contradiction.
Qed.

(* ------------------------------------------------------------------ no deadlock *)
Lemma lowner_enabled : forall s u th, LInv s -> lthr_at s u th -> lowns_mutex (l_pc th) = true -> lenabled s u = true.
Proof.
  intros s u th I Ht Ho. unfold lenabled, C11Base.enabled, C11Base.step. unfold lthr_at in Ht. rewrite Ht.
  unfold ltstep. destruct (l_pc th) eqn:Epc; try discriminate; try reflexivity.
  - destruct (lookup (l_key th) (d_dict (glob s))); reflexivity.
  - destruct (dq (glob s) (l_dq th)) as [|h rest]; [reflexivity|].
    destruct (Nat.eqb h u && opt_is Nat.eqb (lookup (l_key th) (d_dict (glob s))) (l_dq th)); [|reflexivity].
    destruct rest; reflexivity.
  - destruct (dq (glob s) (l_dq th)) as [|w rest]; [reflexivity|]. destruct (memb w (d_unlocked (glob s))); reflexivity.
Qed.

Lemma ld_no_deadlock : forall s, lreachable s ->
  (exists t th, lthr_at s t th /\ l_pc th <> D_Done) -> exists t, lenabled s t = true.
Proof.
  intros s Hr (t & th & Ht & Hnd). pose proof Hr as Hr0. apply LInv_reachable in Hr.
  destruct (d_mutex (glob s)) as [u|] eqn:Em.
  - destruct (li_mx_some _ Hr _ Em) as (thu & Hu & Ho). exists u. eapply lowner_enabled; eauto.
  - assert (forall x thx, lthr_at s x thx -> lowns_mutex (l_pc thx) = false) as Hno.
    { intros x thx Hx. destruct (lowns_mutex (l_pc thx)) eqn:E; auto. pose proof (li_mx_own _ Hr _ _ Hx E). congruence. }
    assert (forall x thx, lthr_at s x thx -> (l_pc thx = D_Lock \/ l_pc thx = D_InCS) -> lenabled s x = true) as Hfree.
    { intros x thx Hx Hp. unfold lenabled, C11Base.enabled, C11Base.step. unfold lthr_at in Hx. rewrite Hx.
      unfold ltstep. destruct Hp as [E|E]; rewrite E, Em; reflexivity. }
    assert (forall x thx, lthr_at s x thx -> l_pc thx = D_Wait -> memb x (d_unlocked (glob s)) = true -> lenabled s x = true) as Hwk.
    { intros x thx Hx Hp Hm. unfold lenabled, C11Base.enabled, C11Base.step. unfold lthr_at in Hx. rewrite Hx.
      unfold ltstep. rewrite Hp, Hm. reflexivity. }
    pose proof (Hno _ _ Ht) as Hnt. pose proof (li_nofail _ Hr _ _ Ht) as Hnf.
    destruct (l_pc th) eqn:Epc; try discriminate; try congruence;
      try (exists t; eapply Hfree; eauto; fail).
    (* t blocks on its waiter lock *)
    destruct (memb t (d_unlocked (glob s))) eqn:Emem; [exists t; eapply Hwk; eauto|].
    assert (l_wait th = true) as Hwt.
    { (* t reached D_Wait only with wait = true: otherwise it would be an entered head at D_Wait *)
      destruct (l_wait th) eqn:E; auto. exfalso.
      assert (lookup (l_key th) (d_dict (glob s)) = Some (l_dq th)) as Hl by (eapply li_ref; eauto; rewrite Epc; reflexivity).
      assert (In t (dq (glob s) (l_dq th))) as Hin by (eapply li_enq; eauto; rewrite Epc; reflexivity).
      destruct (dq (glob s) (l_dq th)) as [|x rest] eqn:Ed; [contradiction|]. destruct Hin as [->|Hin].
      - destruct (li_head _ Hr _ _ _ _ _ Hl Ed Ht) as [P|[P|[P _]]].
        + unfold entered in P. rewrite Epc in P. discriminate.
        + destruct P as (P & _). congruence.
        + destruct P as (P & _). congruence.
      - destruct (li_rest _ Hr _ _ _ _ _ _ Hl Ed Hin Ht) as (P & _). congruence. }
    assert (parked (glob s) t th) as Hpk.
    { split; auto. split; [rewrite Epc; reflexivity|]. intros Hx. apply memb_In in Hx. congruence. }
    destruct (ld_blocked_same_key s t th Hr0 Ht Hpk) as (x & rest & thx & [(Hne & Hd & Hin & Hx & Hk)|Hp]).
    + (* the head x of t's deque can move, or its wake-up is pending (impossible: the mutex is free) *)
      assert (lookup (l_key th) (d_dict (glob s)) = Some (l_dq th)) as Hl by (eapply li_ref; eauto; rewrite Epc; reflexivity).
      pose proof (Hno _ _ Hx) as Hnx.
      destruct (li_head _ Hr _ _ _ _ _ Hl Hd Hx) as [P|[P|[_ (u & ? & Hm & _)]]]; [| |congruence].
      * unfold entered in P. destruct (l_pc thx) eqn:Ex; try discriminate. exists x. eapply Hfree; eauto.
      * destruct P as (_ & P2 & P3). destruct (l_pc thx) eqn:Ex; try discriminate.
        exists x. eapply Hwk; eauto. apply memb_In. auto.
    + destruct Hp as (u & ? & Hm & _). congruence.
Qed.

(* ------------------------------------------------------------------ progress *)
Definition llrun := C11Base.lrun ltstep.

Ltac lrel_done := do 2 eexists; split; [|split; [unfold llrun; simpl; reflexivity|reflexivity]]; lia.

(* whoever owns the mutex gives it up within three of its own steps *)
Lemma lowner_releases_local : forall t g th, lowns_mutex (l_pc th) = true ->
  exists k g' th', k <= 3 /\ llrun t k g th = Some (g', th') /\ d_mutex g' = None.
Proof.
  intros t g th Ho.
  assert (forall g0 th0, l_pc th0 = D_Unlock \/ l_pc th0 = D_Unlock2 \/ l_pc th0 = D_ErrUnlock ->
            exists g' th', llrun t 1 g0 th0 = Some (g', th') /\ d_mutex g' = None) as H1.
  { intros g0 th0 [E|[E|E]]; unfold llrun; simpl; unfold ltstep; rewrite E; do 2 eexists; split; reflexivity. }
  assert (forall g0 th0, l_pc th0 = D_Wake ->
            exists g' th', llrun t 2 g0 th0 = Some (g', th') /\ d_mutex g' = None) as H2w.
  { intros g0 th0 E. unfold llrun. simpl. unfold ltstep at 1. rewrite E.
    destruct (dq g0 (l_dq th0)) as [|w r]; [|destruct (memb w (d_unlocked g0))];
      unfold ltstep; simpl; do 2 eexists; split; reflexivity. }
  assert (forall g0 th0, l_pc th0 = D_WInit ->
            exists g' th', llrun t 2 g0 th0 = Some (g', th') /\ d_mutex g' = None) as H2i.
  { intros g0 th0 E. unfold llrun. simpl. unfold ltstep at 1. rewrite E.
    unfold ltstep; simpl; do 2 eexists; split; reflexivity. }
  destruct (l_pc th) eqn:Epc; try discriminate.
  - (* D_Get *)
    exists 3. unfold llrun. simpl. unfold ltstep at 1. rewrite Epc.
    destruct (lookup (l_key th) (d_dict g)) as [d|].
    + destruct (H2i g (LTh D_WInit (l_key th) d (negb (is_nil (dq g d))) (l_todo th)) eq_refl) as (g' & th' & Hl & Hm).
      exists g', th'. split; [lia|]. split; auto.
    + destruct (H2i (LG (d_mutex g) ((l_key th, List.length (d_deques g)) :: d_dict g) (d_deques g ++ [[]]) (d_unlocked g))
                    (LTh D_WInit (l_key th) (List.length (d_deques g)) false (l_todo th)) eq_refl) as (g' & th' & Hl & Hm).
      exists g', th'. split; [lia|]. split; auto.
  - destruct (H2i g th Epc) as (g' & th' & Hl & Hm). exists 2, g', th'. split; [lia|]. auto.
  - destruct (H1 g th (or_introl Epc)) as (g' & th' & Hl & Hm). exists 1, g', th'. split; [lia|]. auto.
  - (* D_Del *)
    unfold llrun in *. 
    destruct (dq g (l_dq th)) as [|h rest] eqn:Ed.
    + exists 2. simpl. unfold ltstep at 1. rewrite Epc, Ed.
      destruct (H1 g (lset_pc th D_ErrUnlock)) as (g' & th' & Hl & Hm); [right; right; reflexivity|].
      exists g', th'. split; [lia|]. simpl in Hl. split; auto.
    + destruct (Nat.eqb h t && opt_is Nat.eqb (lookup (l_key th) (d_dict g)) (l_dq th)) eqn:Ea.
      * destruct rest as [|r0 rest].
        -- exists 2. simpl. unfold ltstep at 1. rewrite Epc, Ed, Ea.
           match goal with |- context [ltstep t ?g0 ?th0] => destruct (H1 g0 th0) as (g' & th' & Hl & Hm); [right; left; reflexivity|] end.
           exists g', th'. split; [lia|]. simpl in Hl. split; auto.
        -- exists 3. simpl. unfold ltstep at 1. rewrite Epc, Ed, Ea.
           match goal with |- context [ltstep t ?g0 ?th0] => destruct (H2w g0 th0) as (g' & th' & Hl & Hm); [reflexivity|] end.
           exists g', th'. split; [lia|]. simpl in Hl. split; auto.
      * exists 2. simpl. unfold ltstep at 1. rewrite Epc, Ed, Ea.
        destruct (H1 g (lset_pc th D_ErrUnlock)) as (g' & th' & Hl & Hm); [right; right; reflexivity|].
        exists g', th'. split; [lia|]. simpl in Hl. split; auto.
  - destruct (H2w g th Epc) as (g' & th' & Hl & Hm). exists 2, g', th'. split; [lia|]. auto.
  - destruct (H1 g th (or_intror (or_introl Epc))) as (g' & th' & Hl & Hm). exists 1, g', th'. split; [lia|]. auto.
  - destruct (H1 g th (or_intror (or_intror Epc))) as (g' & th' & Hl & Hm). exists 1, g', th'. split; [lia|]. auto.
Qed.

Lemma ld_mutex_released : forall s u, lreachable s -> d_mutex (glob s) = Some u ->
  exists k s', k <= 3 /\ lrun_n u k s = Some s' /\ d_mutex (glob s') = None.
Proof.
  intros s u Hr Hm. apply LInv_reachable in Hr. destruct (li_mx_some _ Hr _ Hm) as (th & Ht & Ho).
  destruct (lowner_releases_local u (glob s) th Ho) as (k & g' & th' & Hk & Hl & Hg).
  exists k, (St g' (upd u th' (thr s))). split; auto. split; auto. eapply lrun_run_n; eauto.
Qed.

(* a woken waiter enters with one step of its own; a thread that finds its key idle enters without waiting *)
Lemma ld_woken_enters : forall s t th, lthr_at s t th -> l_pc th = D_Wait -> In t (d_unlocked (glob s)) ->
  exists s' th', lstep s t = Some s' /\ lthr_at s' t th' /\ l_pc th' = D_InCS.
Proof.
  intros s t th Ht Hp Hin. apply memb_In in Hin.
  eexists. exists (lset_pc th D_InCS). split.
  - unfold lstep, C11Base.step. unfold lthr_at in Ht. rewrite Ht. unfold ltstep. rewrite Hp, Hin. reflexivity.
  - split; [unfold lthr_at; simpl; eapply nth_upd_eq; eauto|reflexivity].
Qed.
