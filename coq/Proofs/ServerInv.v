(* C20 -- the inductive invariant of the server transition system (Model/Server.v) *)
From Coq Require Import List ZArith NArith Bool Lia Permutation.
Import ListNotations.
Require Import RV.Model.Server RV.Proofs.ServerLemmas.
Open Scope Z_scope.

Section Srv.
Variable cfg : config.

Inductive reachable : state -> Prop :=
  | reach_init : reachable init
  | reach_step : forall s e s' o, reachable s -> step cfg s e = Some (s', o) -> reachable s'.

Definition all_ids (s : state) : list N := bids (backlog s) ++ ids (workers s) ++ map fst (finished s).

(* the loop is at a point from which it may still accept in the current iteration *)
Definition may_accept (p : pcs) : bool :=
  match p with
  | PSelect _ b => b
  | PGot _ rls _ => match rls with [] => false | _ => true end
  | _ => false
  end.

Definition snapshot_ok (s : state) : Prop :=
  match pc s with
  | PSelect rlw _ => rlw = ids (workers s)
  | PGot rw rls rst =>
      (forall c, In c rw -> exists w, In w (workers s) /\ w_id w = c /\ is_done w = true)
      /\ (forall l, In l rls -> has_queued (backlog s) l = true)
      /\ (rst = true -> stop s = true)
  | _ => True
  end.

Definition in_handler_or_handled (st : wstatus) : Prop :=
  st = WHandling \/ st = WBody \/ st = WDone OHandled \/ st = WDone OAborted.

Record Inv (s : state) : Prop := mkInv {
  inv_limit : may_accept (pc s) = true -> below_limit cfg (workers s) = true;
  inv_bound : 0 < max_conn cfg -> Z.of_nat (length (workers s)) <= max_conn cfg;
  inv_nodup : NoDup (all_ids s);
  inv_fresh : forall c, In c (all_ids s) -> (c < next_id s)%N;
  inv_cover : pc s <> PDone -> forall c, (c < next_id s)%N -> In c (all_ids s);
  inv_lis : forall b, In b (backlog s) -> (b_lis b < n_listen cfg)%N;
  inv_snap : snapshot_ok s;
  inv_acc : forall c, In c (accepted s) <-> In c (ids (workers s)) \/ In c (map fst (finished s));
  inv_ent : forall c, In c (entered s) ->
      (exists w, In w (workers s) /\ w_id w = c /\ in_handler_or_handled (w_st w))
      \/ In (c, OHandled) (finished s) \/ In (c, OAborted) (finished s);
  inv_final : pc s = PFinal \/ pc s = PDone -> stop s = true
}.

Lemma Inv_init : Inv init.
Proof.
  constructor; simpl.
  - intros H; discriminate.
  - intros H. lia.
  - constructor.
  - intros c [].
  - intros _ c H. lia.
  - intros b [].
  - exact I.
  - intro c. simpl. tauto.
  - intros c [].
  - intros [H|H]; discriminate.
Qed.

Lemma NoDup_ws : forall s, NoDup (all_ids s) -> NoDup (ids (workers s)).
Proof.
  intros s H. unfold all_ids in H. apply NoDup_app_inv in H. destruct H as [_ [H _]]. apply NoDup_app_inv in H. tauto.
Qed.

(* ------------------------------------------------------------------------------------------------ *)
(* events that change what a client has sent: identities and statuses stay *)

Lemma Inv_same_shape : forall s s',
  Inv s -> pc s' = pc s -> stop s' = stop s -> next_id s' = next_id s -> finished s' = finished s ->
  accepted s' = accepted s -> entered s' = entered s ->
  bids (backlog s') = bids (backlog s) -> map b_lis (backlog s') = map b_lis (backlog s) ->
  (forall l, has_queued (backlog s') l = has_queued (backlog s) l) ->
  ids (workers s') = ids (workers s) -> map w_st (workers s') = map w_st (workers s) ->
  Inv s'.
Proof.
  intros s s' HI Hpc Hstop Hnid Hfin Hacc Hent Hb Hbl Hq Hw Hst.
  assert (Hlen : length (workers s') = length (workers s)).
  { rewrite <- (map_length w_id (workers s')), <- (map_length w_id (workers s)). unfold ids in Hw. rewrite Hw. reflexivity. }
  assert (Hall : all_ids s' = all_ids s) by (unfold all_ids; rewrite Hb, Hw, Hfin; reflexivity).
  (* a worker of s' has a counterpart of s with the same id and status *)
  assert (Hcp : forall c st, (exists w, In w (workers s) /\ w_id w = c /\ w_st w = st) ->
                             (exists w, In w (workers s') /\ w_id w = c /\ w_st w = st)).
  { intros c st [w [Hin [Hid Hs]]]. apply In_nth_error in Hin. destruct Hin as [n Hn].
    assert (H1 : nth_error (map w_id (workers s)) n = Some c) by (rewrite nth_error_map, Hn; simpl; congruence).
    assert (H2 : nth_error (map w_st (workers s)) n = Some st) by (rewrite nth_error_map, Hn; simpl; congruence).
    unfold ids in Hw. rewrite <- Hw in H1. rewrite <- Hst in H2. rewrite nth_error_map in H1, H2.
    destruct (nth_error (workers s') n) as [w'|] eqn:E; simpl in *; [|discriminate].
    exists w'. split; [eapply nth_error_In; eauto|]. split; congruence. }
  destruct HI. constructor.
  - rewrite Hpc. intro H. rewrite (below_limit_length cfg _ _ Hlen). auto.
  - rewrite Hlen. auto.
  - rewrite Hall. auto.
  - rewrite Hall, Hnid. auto.
  - rewrite Hall, Hnid, Hpc. auto.
  - intros b Hin. assert (In (b_lis b) (map b_lis (backlog s'))) by (apply in_map; exact Hin).
    rewrite Hbl in H. apply in_map_iff in H. destruct H as [b0 [H1 H2]]. rewrite <- H1. auto.
  - unfold snapshot_ok in *. rewrite Hpc. destruct (pc s); auto.
    + rewrite Hw. auto.
    + destruct inv_snap0 as [A [B C]]. split; [|split].
      * intros c Hc. destruct (A c Hc) as [w [Hin [Hid Hd]]]. unfold is_done in Hd.
        destruct (w_st w) eqn:E; try discriminate.
        destruct (Hcp c (WDone o)) as [w' [H1 [H2 H3]]]; [eauto|]. exists w'. split; [auto|]. split; [auto|].
        unfold is_done. rewrite H3. reflexivity.
      * intros l Hl. rewrite Hq. auto.
      * rewrite Hstop. auto.
  - intro c. rewrite Hacc, Hw, Hfin. auto.
  - intros c Hc. rewrite Hent in Hc. rewrite Hfin. destruct (inv_ent0 c Hc) as [[w [Hin [Hid Hh]]]|H]; [left|right; auto].
    destruct (Hcp c (w_st w)) as [w' [H1 [H2 H3]]]; [eauto|]. exists w'. rewrite H3. auto.
  - rewrite Hpc, Hstop. auto.
Qed.

Lemma map_st_upd_wcl : forall c cl ws, map w_st (upd_w c (set_wcl cl) ws) = map w_st ws.
Proof.
  intros. unfold upd_w. rewrite map_map. apply map_ext. intro w. destruct (N.eqb (w_id w) c); reflexivity.
Qed.

(* ------------------------------------------------------------------------------------------------ *)
(* a thread moves on: the status of the one worker with identity c changes *)

Lemma Inv_upd_st : forall s s' c w st extra,
  Inv s -> find_w c (workers s) = Some w -> is_done w = false ->
  (in_handler_or_handled (w_st w) -> in_handler_or_handled st) ->
  (extra = [] \/ (extra = [c] /\ in_handler_or_handled st)) ->
  pc s' = pc s -> stop s' = stop s -> next_id s' = next_id s -> finished s' = finished s ->
  accepted s' = accepted s -> entered s' = entered s ++ extra -> backlog s' = backlog s ->
  workers s' = upd_w c (set_st st) (workers s) ->
  Inv s'.
Proof.
  intros s s' c w st extra HI Hf Hnd Hh Hex Hpc Hstop Hnid Hfin Hacc Hent Hb Hw.
  assert (Hids : ids (workers s') = ids (workers s)) by (rewrite Hw; apply ids_upd_w; apply keeps_id_set_st).
  assert (Hlen : length (workers s') = length (workers s)) by (rewrite Hw; apply length_upd_w).
  assert (Hall : all_ids s' = all_ids s) by (unfold all_ids; rewrite Hb, Hids, Hfin; reflexivity).
  pose proof (NoDup_ws s (inv_nodup s HI)) as Hndw.
  destruct (find_w_In _ _ _ Hf) as [Hwin Hwid].
  (* any other worker is untouched *)
  assert (Hother : forall w', In w' (workers s) -> w' <> w -> In w' (workers s')).
  { intros w' Hin Hne. rewrite Hw. apply In_upd_w_other; [exact Hin|]. intro He. apply Hne.
    eapply find_w_unique; eauto. }
  destruct HI. constructor.
  - rewrite Hpc. intro H. rewrite (below_limit_length cfg _ _ Hlen). auto.
  - rewrite Hlen. auto.
  - rewrite Hall. auto.
  - rewrite Hall, Hnid. auto.
  - rewrite Hall, Hnid, Hpc. auto.
  - rewrite Hb. auto.
  - unfold snapshot_ok in *. rewrite Hpc. destruct (pc s); auto.
    + rewrite Hids. auto.
    + destruct inv_snap0 as [A [B C]]. split; [|split].
      * intros c' Hc'. destruct (A c' Hc') as [w' [Hin [Hid Hd]]].
        exists w'. split; [|auto]. apply Hother; [exact Hin|]. intro; subst w'. congruence.
      * rewrite Hb. auto.
      * rewrite Hstop. auto.
  - intro c'. rewrite Hacc, Hids, Hfin. auto.
  - intros c' Hc'. rewrite Hent in Hc'. rewrite Hfin. apply in_app_or in Hc'. destruct Hc' as [Hc'|Hc'].
    + destruct (inv_ent0 c' Hc') as [[w' [Hin [Hid Hhh]]]|H]; [left|right; auto].
      destruct (N.eq_dec c' c) as [E|E].
      * subst c'. assert (w' = w) by (eapply find_w_unique; eauto). subst w'.
        exists (set_st st w). split; [rewrite Hw; apply In_upd_w_same; auto|]. split; [simpl; auto|].
        simpl. apply Hh. exact Hhh.
      * exists w'. split; [|auto]. apply Hother; [exact Hin|]. intro; subst w'. congruence.
    + destruct Hex as [Hex|[Hex Hst]]; subst extra; [destruct Hc'|]. destruct Hc' as [Hc'|[]]. subst c'.
      left. exists (set_st st w). split; [rewrite Hw; apply In_upd_w_same; auto|]. split; [simpl; auto|].
      simpl. exact Hst.
  - rewrite Hpc, Hstop. auto.
Qed.

(* ------------------------------------------------------------------------------------------------ *)
(* all_ids under the moves of the loop *)

Lemma reap_perm : forall (ws : list worker) (rw : list N) (fin : list (N * outcome)),
  (forall w, In w ws -> memN (w_id w) rw = true -> is_done w = true) ->
  Permutation (ids ws ++ map fst fin)
              (ids (filter (fun w => negb (memN (w_id w) rw)) ws)
               ++ map fst (fin ++ done_pairs (filter (fun w => memN (w_id w) rw) ws))).
Proof.
  intros ws rw fin Hd. rewrite map_app, done_pairs_ids.
  - set (p := fun w => memN (w_id w) rw).
    pose proof (filter_partition_perm worker p ws) as Hp.
    apply (Permutation_map w_id) in Hp. rewrite map_app in Hp. fold (ids ws) in Hp.
    eapply perm_trans; [apply Permutation_app_tail; exact Hp|]. unfold ids.
    rewrite <- app_assoc.
    eapply perm_trans; [apply Permutation_app_comm|]. rewrite <- app_assoc. apply Permutation_refl.
  - intros w Hw. apply filter_In in Hw. destruct Hw as [H1 H2]. apply Hd; auto.
Qed.


Lemma In_all_ids : forall s c, In c (all_ids s) <->
  In c (bids (backlog s)) \/ In c (ids (workers s)) \/ In c (map fst (finished s)).
Proof. intros s c. unfold all_ids. rewrite !in_app_iff. reflexivity. Qed.

(* ---- a client connects ---- *)
Lemma Inv_connect : forall s l, Inv s -> is_pdone (pc s) = false -> (l < n_listen cfg)%N ->
  Inv (mkS (pc s) (workers s) (backlog s ++ [mkB (next_id s) l CIdle]) (stop s) (N.succ (next_id s))
           (finished s) (accepted s) (entered s)).
Proof.
  intros s l HI Hpd Hl.
  set (s' := mkS (pc s) (workers s) (backlog s ++ [mkB (next_id s) l CIdle]) (stop s) (N.succ (next_id s))
                 (finished s) (accepted s) (entered s)).
  assert (Hperm : Permutation (next_id s :: all_ids s) (all_ids s')).
  { unfold all_ids, s'; simpl. unfold bids. rewrite map_app. simpl. rewrite <- app_assoc. simpl.
    apply Permutation_middle. }
  destruct HI. constructor; simpl.
  - auto.
  - auto.
  - eapply Permutation_NoDup; [exact Hperm|]. constructor; [|auto].
    intro Hin. apply inv_fresh0 in Hin. lia.
  - intros c Hc. eapply Permutation_in in Hc; [|apply Permutation_sym; exact Hperm].
    destruct Hc as [Hc|Hc]; [subst; lia|]. apply inv_fresh0 in Hc. lia.
  - intros Hpc c Hc. eapply Permutation_in; [exact Hperm|].
    destruct (N.eq_dec c (next_id s)) as [E|E]; [left; auto|right]. apply inv_cover0; [exact Hpc | lia].
  - intros b Hb. apply in_app_or in Hb. destruct Hb as [Hb|[Hb|[]]]; [auto|]. subst b. simpl. exact Hl.
  - unfold snapshot_ok in *. simpl. destruct (pc s); auto.
    destruct inv_snap0 as [A [B C]]. split; [auto|]. split; [|auto].
    intros l0 Hl0. rewrite has_queued_app. rewrite (B l0 Hl0). reflexivity.
  - auto.
  - auto.
  - auto.
Qed.

(* ---- the loop moves its program counter only ---- *)
Lemma Inv_pc_only : forall s p, Inv s -> pc s <> PDone -> p <> PDone ->
  (may_accept p = true -> below_limit cfg (workers s) = true) ->
  snapshot_ok (with_pc s p) ->
  (p = PFinal -> stop s = true) ->
  Inv (with_pc s p).
Proof.
  intros s p HI Hnd Hpnd Hlim Hsnap Hfin. destruct HI. constructor; simpl; auto.
  intros [H|H]; [auto | contradiction].
Qed.

(* ---- reaping the finished workers that select reported ---- *)
Lemma Inv_reap : forall s rw rls rst, Inv s -> pc s = PGot rw rls rst ->
  Inv (mkS PTop (filter (fun w => negb (memN (w_id w) rw)) (workers s)) (backlog s) (stop s) (next_id s)
           (finished s ++ done_pairs (filter (fun w => memN (w_id w) rw) (workers s))) (accepted s) (entered s)).
Proof.
  intros s rw rls rst HI Hpc.
  pose proof (NoDup_ws s (inv_nodup s HI)) as Hndw.
  assert (Hdone : forall w, In w (workers s) -> memN (w_id w) rw = true -> is_done w = true).
  { intros w Hin Hm. apply memN_In in Hm. pose proof (inv_snap s HI) as Hs. unfold snapshot_ok in Hs.
    rewrite Hpc in Hs. destruct Hs as [A _]. destruct (A _ Hm) as [w0 [H1 [H2 H3]]].
    assert (w0 = w) by (eapply NoDup_ids_unique; eauto). subst. exact H3. }
  pose proof (reap_perm (workers s) rw (finished s) Hdone) as Hp.
  set (kept := filter (fun w => negb (memN (w_id w) rw)) (workers s)) in *.
  set (reaped := filter (fun w => memN (w_id w) rw) (workers s)) in *.
  assert (Hperm : Permutation (all_ids s) (bids (backlog s) ++ ids kept ++ map fst (finished s ++ done_pairs reaped))).
  { unfold all_ids. apply Permutation_app_head. exact Hp. }
  destruct HI. constructor; simpl.
  - intro H; discriminate.
  - intro H. specialize (inv_bound0 H). pose proof (filter_length_le worker (fun w => negb (memN (w_id w) rw)) (workers s)).
    fold kept in H0. lia.
  - eapply Permutation_NoDup; [exact Hperm|auto].
  - intros c Hc. apply inv_fresh0. eapply Permutation_in; [apply Permutation_sym; exact Hperm|exact Hc].
  - intros _ c Hc. eapply Permutation_in; [exact Hperm|]. apply inv_cover0; [rewrite Hpc; discriminate|exact Hc].
  - auto.
  - exact I.
  - intro c. rewrite inv_acc0. rewrite <- !in_app_iff. split; intro H.
    + eapply Permutation_in; [exact Hp|exact H].
    + eapply Permutation_in; [apply Permutation_sym; exact Hp|exact H].
  - intros c Hc. destruct (inv_ent0 c Hc) as [[w [Hin [Hid Hh]]]|H].
    + destruct (memN (w_id w) rw) eqn:Em.
      * right. pose proof (Hdone w Hin Em) as Hd. unfold is_done in Hd.
        destruct Hh as [Hh|[Hh|[Hh|Hh]]]; rewrite Hh in Hd; try discriminate.
        -- left. apply in_or_app. right. apply In_done_pairs. exists w. split; [apply filter_In; auto|]. auto.
        -- right. apply in_or_app. right. apply In_done_pairs. exists w. split; [apply filter_In; auto|]. auto.
      * left. exists w. split; [apply filter_In; split; [auto|rewrite Em; reflexivity]|auto].
    + right. destruct H as [H|H]; [left|right]; apply in_or_app; left; exact H.
  - intros [H|H]; discriminate.
Qed.

(* ---- accepting the oldest queued connection of a listener ---- *)
Lemma Inv_accept : forall s l b rest, Inv s -> pc s = PTop ->
  take_first l (backlog s) = Some (b, rest) ->
  (0 < max_conn cfg -> Z.of_nat (length (workers s)) < max_conn cfg) ->
  Inv (mkS PTop (workers s ++ [mkW (b_id b) l (b_cl b) WReading]) rest (stop s) (next_id s) (finished s)
           (accepted s ++ [b_id b]) (entered s)).
Proof.
  intros s l b rest HI Hpc Ht Hlt.
  destruct (take_first_perm _ _ _ _ Ht) as [Hpb Hbl].
  set (s' := mkS PTop (workers s ++ [mkW (b_id b) l (b_cl b) WReading]) rest (stop s) (next_id s) (finished s)
                 (accepted s ++ [b_id b]) (entered s)).
  assert (Hperm : Permutation (all_ids s) (all_ids s')).
  { unfold all_ids, s'; simpl. unfold ids. rewrite map_app. simpl. fold (ids (workers s)).
    apply (Permutation_map b_id) in Hpb. simpl in Hpb. fold (bids (backlog s)) in Hpb. fold (bids rest) in Hpb.
    eapply perm_trans; [apply Permutation_app_tail; exact Hpb|]. simpl.
    rewrite <- (app_assoc (ids (workers s)) [b_id b]). simpl.
    apply perm_trans with (b_id b :: (bids rest ++ ids (workers s)) ++ map fst (finished s)).
    - rewrite <- app_assoc. apply Permutation_refl.
    - replace (bids rest ++ ids (workers s) ++ b_id b :: map fst (finished s))
        with ((bids rest ++ ids (workers s)) ++ b_id b :: map fst (finished s))
        by (rewrite <- app_assoc; reflexivity).
      apply Permutation_middle. }
  destruct HI. constructor; simpl.
  - intro H; discriminate.
  - intro H. rewrite app_length. simpl. specialize (Hlt H). lia.
  - eapply Permutation_NoDup; [exact Hperm|auto].
  - intros c Hc. apply inv_fresh0. eapply Permutation_in; [apply Permutation_sym; exact Hperm|exact Hc].
  - intros _ c Hc. eapply Permutation_in; [exact Hperm|]. apply inv_cover0; [rewrite Hpc; discriminate|exact Hc].
  - intros b0 Hb0. apply inv_lis0. eapply Permutation_in; [apply Permutation_sym; exact Hpb|]. right. exact Hb0.
  - exact I.
  - intro c. unfold ids. rewrite map_app. simpl. rewrite !in_app_iff. fold (ids (workers s)). rewrite inv_acc0. simpl. tauto.
  - intros c Hc. destruct (inv_ent0 c Hc) as [[w [Hin [Hid Hh]]]|H]; [left|right; auto].
    exists w. split; [apply in_or_app; left; auto|auto].
  - intros [H|H]; discriminate.
Qed.

(* ---- the finally block ---- *)
Lemma Inv_final_wait : forall s w rest o, Inv s -> pc s = PFinal -> workers s = w :: rest -> w_st w = WDone o ->
  Inv (mkS PFinal rest (backlog s) (stop s) (next_id s) (finished s ++ [(w_id w, o)]) (accepted s) (entered s)).
Proof.
  intros s w rest o HI Hpc Hws Hst.
  set (s' := mkS PFinal rest (backlog s) (stop s) (next_id s) (finished s ++ [(w_id w, o)]) (accepted s) (entered s)).
  assert (Hp : Permutation (ids (workers s) ++ map fst (finished s)) (ids rest ++ map fst (finished s ++ [(w_id w, o)]))).
  { rewrite Hws. simpl. rewrite map_app. simpl. rewrite app_assoc.
    apply Permutation_cons_append. }
  assert (Hperm : Permutation (all_ids s) (all_ids s')).
  { unfold all_ids, s'; simpl. apply Permutation_app_head. exact Hp. }
  destruct HI. constructor; simpl.
  - intro H; discriminate.
  - intro H. specialize (inv_bound0 H). rewrite Hws in inv_bound0. simpl length in inv_bound0. lia.
  - eapply Permutation_NoDup; [exact Hperm|auto].
  - intros c Hc. apply inv_fresh0. eapply Permutation_in; [apply Permutation_sym; exact Hperm|exact Hc].
  - intros _ c Hc. eapply Permutation_in; [exact Hperm|]. apply inv_cover0; [rewrite Hpc; discriminate|exact Hc].
  - auto.
  - exact I.
  - intro c. rewrite inv_acc0. rewrite <- !in_app_iff. split; intro H.
    + eapply Permutation_in; [exact Hp|exact H].
    + eapply Permutation_in; [apply Permutation_sym; exact Hp|exact H].
  - intros c Hc. destruct (inv_ent0 c Hc) as [[w' [Hin [Hid Hh]]]|H].
    + rewrite Hws in Hin. destruct Hin as [Hin|Hin].
      * subst w'. right. destruct Hh as [Hh|[Hh|[Hh|Hh]]]; rewrite Hh in Hst; try discriminate;
          inversion Hst; subst; [left|right]; apply in_or_app; right; left; reflexivity.
      * left. exists w'. auto.
    + right. destruct H as [H|H]; [left|right]; apply in_or_app; left; exact H.
  - intros _. apply inv_final0. left. exact Hpc.
Qed.

Lemma Inv_final_close : forall s, Inv s -> pc s = PFinal -> workers s = [] ->
  Inv (mkS PDone [] [] (stop s) (next_id s) (finished s) (accepted s) (entered s)).
Proof.
  intros s HI Hpc Hws. destruct HI. constructor; simpl.
  - intro H; discriminate.
  - intro H. lia.
  - unfold all_ids in inv_nodup0. apply NoDup_app_inv in inv_nodup0. destruct inv_nodup0 as [_ [H _]].
    apply NoDup_app_inv in H. unfold all_ids. simpl. tauto.
  - intros c Hc. apply inv_fresh0. apply In_all_ids. right. right. exact Hc.
  - intro H. exfalso. apply H. reflexivity.
  - intros b [].
  - exact I.
  - intro c. rewrite inv_acc0, Hws. simpl. tauto.
  - intros c Hc. destruct (inv_ent0 c Hc) as [[w [Hin _]]|H]; [rewrite Hws in Hin; destruct Hin | right; exact H].
  - intros _. apply inv_final0. left. exact Hpc.
Qed.


Lemma not_done_reading : forall w, w_st w = WReading -> is_done w = false.
Proof. intros w H. unfold is_done. rewrite H. reflexivity. Qed.
Lemma not_done_handling : forall w, w_st w = WHandling -> is_done w = false.
Proof. intros w H. unfold is_done. rewrite H. reflexivity. Qed.
Lemma not_done_body : forall w, w_st w = WBody -> is_done w = false.
Proof. intros w H. unfold is_done. rewrite H. reflexivity. Qed.

Lemma reading_not_in_handler : forall w st, w_st w = WReading -> in_handler_or_handled (w_st w) -> in_handler_or_handled st.
Proof. intros w st H1 H2. rewrite H1 in H2. destruct H2 as [H|[H|[H|H]]]; discriminate. Qed.

(* what a client sends changes neither identities nor statuses *)
Ltac client_event HI :=
  eapply Inv_same_shape; [exact HI | try reflexivity ..]; simpl; try reflexivity;
  try (apply bids_upd_b; apply keeps_bid_set_bcl); try (apply lis_upd_b; apply keeps_bid_set_bcl);
  try (intro; apply has_queued_upd_b; apply keeps_bid_set_bcl);
  try (apply ids_upd_w; apply keeps_id_set_wcl); try apply map_st_upd_wcl.

(* ------------------------------------------------------------------------------------------------ *)
Theorem Inv_step : forall s e s' o, Inv s -> step cfg s e = Some (s', o) -> Inv s'.
Proof.
  intros s e s' o HI Hs. destruct e; simpl in Hs.
  - (* EConnect *)
    destruct (is_pdone (pc s)) eqn:Epd; [discriminate|].
    destruct ((l <? n_listen cfg)%N) eqn:El; [|discriminate]. inversion Hs; subst; clear Hs.
    apply Inv_connect; auto. apply N.ltb_lt. exact El.
  - (* EPartial *)
    destruct (find_b c (backlog s)) as [b|] eqn:Eb.
    + destruct (b_cl b); try discriminate. inversion Hs; subst; clear Hs. client_event HI.
    + destruct (find_w c (workers s)) as [w|] eqn:Ew; [|discriminate].
      destruct (w_cl w); try discriminate; destruct (w_st w); try discriminate; inversion Hs; subst; clear Hs;
        client_event HI.
  - (* ESend *)
    destruct (find_b c (backlog s)) as [b|] eqn:Eb.
    + destruct (head_open (b_cl b)); try discriminate. inversion Hs; subst; clear Hs. client_event HI.
    + destruct (find_w c (workers s)) as [w|] eqn:Ew; [|discriminate].
      destruct (head_open (w_cl w)); try discriminate; destruct (w_st w); try discriminate; inversion Hs; subst; clear Hs;
        client_event HI.
  - (* EBody *)
    destruct (find_b c (backlog s)) as [b|] eqn:Eb.
    + destruct (b_cl b) as [| |m [|]|]; try discriminate. inversion Hs; subst; clear Hs. client_event HI.
    + destruct (find_w c (workers s)) as [w|] eqn:Ew; [|discriminate].
      destruct (w_cl w) as [| |m [|]|]; try discriminate; destruct (w_st w); try discriminate; inversion Hs; subst; clear Hs;
        client_event HI.
  - (* EClose *)
    destruct (find_b c (backlog s)) as [b|] eqn:Eb.
    + destruct (b_cl b); try discriminate. inversion Hs; subst; clear Hs. client_event HI.
    + destruct (find_w c (workers s)) as [w|] eqn:Ew; [|discriminate].
      destruct (w_cl w); try discriminate; destruct (w_st w); try discriminate; inversion Hs; subst; clear Hs;
        client_event HI.
  - (* ERelease *)
    destruct (find_w c (workers s)) as [w|] eqn:Ew; [|discriminate].
    destruct (w_st w) eqn:Est; try discriminate. inversion Hs; subst; clear Hs.
    eapply (Inv_upd_st s _ c w (WDone OHandled) []); eauto; simpl; try reflexivity.
    + apply not_done_handling; auto.
    + intros _. right. right. left. reflexivity.
    + rewrite app_nil_r. reflexivity.
  - (* EStop *)
    destruct (stop s) eqn:Est; [inversion Hs; subst; exact HI|]. inversion Hs; subst; clear Hs.
    destruct HI. constructor; simpl; auto.
    unfold snapshot_ok in *. simpl. destruct (pc s); auto. destruct inv_snap0 as [A [B C]]. auto.
  - (* TRead *)
    destruct (find_w c (workers s)) as [w|] eqn:Ew; [|discriminate].
    destruct (w_st w) eqn:Est; try discriminate.
    destruct (w_cl w) as [| |m full|] eqn:Ecl; try discriminate.
    + destruct m as [r|].
      * destruct (gate_status (gate (gc cfg) r)) as [st|] eqn:Eg; inversion Hs; subst; clear Hs.
        -- eapply (Inv_upd_st s _ c w (WDone (OResp st)) []); eauto; simpl; try reflexivity.
           ++ apply not_done_reading; auto.
           ++ apply reading_not_in_handler; auto.
           ++ rewrite app_nil_r. reflexivity.
        -- eapply (Inv_upd_st s _ c w (if r_body r then WBody else WHandling) [c]); eauto; simpl; try reflexivity.
           ++ apply not_done_reading; auto.
           ++ apply reading_not_in_handler; auto.
           ++ right. split; [reflexivity|]. destruct (r_body r); [right; left|left]; reflexivity.
      * inversion Hs; subst; clear Hs.
        eapply (Inv_upd_st s _ c w (WDone (OResp 400%N)) []); eauto; simpl; try reflexivity.
        -- apply not_done_reading; auto.
        -- apply reading_not_in_handler; auto.
        -- rewrite app_nil_r. reflexivity.
    + inversion Hs; subst; clear Hs.
      eapply (Inv_upd_st s _ c w (WDone OEof) []); eauto; simpl; try reflexivity.
      * apply not_done_reading; auto.
      * apply reading_not_in_handler; auto.
      * rewrite app_nil_r. reflexivity.
  - (* TBody *)
    destruct (find_w c (workers s)) as [w|] eqn:Ew; [|discriminate].
    destruct (w_st w) eqn:Est; try discriminate.
    destruct (body_full (w_cl w)); try discriminate. inversion Hs; subst; clear Hs.
    eapply (Inv_upd_st s _ c w WHandling []); eauto; simpl; try reflexivity.
    + apply not_done_body; auto.
    + intros _. left. reflexivity.
    + rewrite app_nil_r. reflexivity.
  - (* TTimeout *)
    destruct (timeout_on cfg); [|discriminate].
    destruct (find_w c (workers s)) as [w|] eqn:Ew; [|discriminate].
    destruct (w_st w) eqn:Est; try discriminate.
    + destruct (head_open (w_cl w)); [|discriminate]. inversion Hs; subst; clear Hs.
      eapply (Inv_upd_st s _ c w (WDone OTimeout) []); eauto; simpl; try reflexivity.
      * apply not_done_reading; auto.
      * apply reading_not_in_handler; auto.
      * rewrite app_nil_r. reflexivity.
    + destruct (body_full (w_cl w)); try discriminate. inversion Hs; subst; clear Hs.
      eapply (Inv_upd_st s _ c w (WDone OAborted) []); eauto; simpl; try reflexivity.
      * apply not_done_body; auto.
      * intros _. right. right. right. reflexivity.
      * rewrite app_nil_r. reflexivity.
  - (* LBuild *)
    destruct (pc s) eqn:Epc; try discriminate. inversion Hs; subst; clear Hs.
    apply Inv_pc_only; auto; try (rewrite Epc; discriminate); try discriminate.
    unfold snapshot_ok. simpl. reflexivity.
  - (* LSelect *)
    destruct (pc s) eqn:Epc; try discriminate.
    set (rw := ids (filter (fun w => is_done w && memN (w_id w) rlw) (workers s))) in *.
    set (rls := if rll then ready_listeners cfg (backlog s) else []) in *.
    assert (Hgoal : Inv (with_pc s (PGot rw rls (stop s)))).
    { apply Inv_pc_only; auto; try (rewrite Epc; discriminate); try discriminate.
      - simpl. intro H. apply (inv_limit s HI). rewrite Epc. simpl. unfold rls in H. destruct rll; [reflexivity|discriminate].
      - unfold snapshot_ok. simpl. split; [|split].
        + intros c Hc. unfold rw, ids in Hc. apply in_map_iff in Hc. destruct Hc as [w [H1 H2]].
          apply filter_In in H2. destruct H2 as [H2 H3]. apply andb_true_iff in H3. destruct H3 as [H3 _].
          exists w. auto.
        + intros l Hl. unfold rls in Hl. destruct rll; [|destruct Hl]. apply In_ready_listeners in Hl. tauto.
        + auto. }
    destruct rw; destruct rls; destruct (stop s); try discriminate; inversion Hs; subst; exact Hgoal.
  - (* LBody *)
    destruct (pc s) as [| | rw rls rst | |] eqn:Epc; try discriminate.
    destruct rst.
    + destruct acc; [discriminate|]. inversion Hs; subst; clear Hs.
      apply Inv_pc_only; auto; try (rewrite Epc; discriminate); try discriminate.
      * unfold snapshot_ok. simpl. exact I.
      * intros _. pose proof (inv_snap s HI) as H. unfold snapshot_ok in H. rewrite Epc in H. tauto.
    + pose proof (Inv_reap s rw rls false HI Epc) as HR.
      destruct rls as [|l0 rls']; destruct acc as [l|]; try discriminate.
      * inversion Hs; subst; clear Hs. exact HR.
      * destruct (memN l (l0 :: rls')) eqn:Em; [|discriminate].
        destruct (take_first l (backlog s)) as [[b rest]|] eqn:Et; [|discriminate].
        inversion Hs; subst; clear Hs.
        match type of HR with Inv ?s1 => pose proof (Inv_accept s1 l b rest HR eq_refl Et) as HA end.
        simpl in HA. apply HA. intro Hmax.
        assert (Hbl : below_limit cfg (workers s) = true) by (apply (inv_limit s HI); rewrite Epc; reflexivity).
        unfold below_limit in Hbl. apply orb_true_iff in Hbl. destruct Hbl as [Hbl|Hbl]; [apply Z.leb_le in Hbl; lia|].
        apply Z.ltb_lt in Hbl.
        pose proof (filter_length_le worker (fun w => negb (memN (w_id w) rw)) (workers s)). lia.
  - (* LFinal *)
    destruct (pc s) eqn:Epc; try discriminate.
    destruct (workers s) as [|w rest] eqn:Ews; [discriminate|].
    destruct (w_st w) eqn:Est; try discriminate. inversion Hs; subst; clear Hs.
    eapply Inv_final_wait; eauto.
  - (* LClose *)
    destruct (pc s) eqn:Epc; try discriminate.
    destruct (workers s) eqn:Ews; [|discriminate]. inversion Hs; subst; clear Hs.
    apply Inv_final_close; auto.
Qed.

Theorem reachable_Inv : forall s, reachable s -> Inv s.
Proof. intros s H. induction H; [apply Inv_init | eapply Inv_step; eauto]. Qed.

End Srv.
