(* The ideal effect of each storage operation on the data view (C02: `ideal u`) IS the L0 store mutation the
   handler model performs: for every mutation pattern of Model/Handlers.v,
       R s0 sigma -> store_inv sigma -> (what the handler has checked) -> dpost (ideal u s0) s' -> R s' sigma'. *)
From Coq Require Import List NArith Bool Lia.
Import ListNotations.
Require RV.Model.Store RV.Proofs.StoreLemmas RV.Proofs.HandlersInv.
Require Import RV.Model.Fs RV.Model.StorageOps RV.Model.Repr RV.Proofs.FsLemmas RV.Proofs.C02Units RV.Proofs.ReprProofs.
Open Scope N_scope.

(* ------------------------------------------------------------------ L0 helpers *)
Definition icode (a : option ST.obj) : option node := match a with Some o => Some (F (ocode o)) | None => None end.

Lemma spath_cases : forall p : ST.path, p = [] \/ exists q x, p = q ++ [x].
Proof.
  intro p. destruct (rev p) as [|x r] eqn:E.
  - left. apply (f_equal (@rev N)) in E. rewrite rev_involutive in E. exact E.
  - right. exists (rev r), x. apply (f_equal (@rev N)) in E. rewrite rev_involutive in E. exact E.
Qed.

Lemma nview_some : forall sigma p c, ST.lookup sigma p = Some c -> nview sigma p = Some D.
Proof. intros sigma p c H. unfold nview, ST.resolve. rewrite H. reflexivity. Qed.

Lemma nview_snoc : forall sigma q h, ST.lookup sigma (q ++ [h]) = None ->
  nview sigma (q ++ [h]) = match ST.lookup sigma q with Some pc => icode (ST.assoc (ST.c_items pc) h) | None => None end.
Proof.
  intros sigma q h H. unfold nview, ST.resolve. rewrite H.
  destruct (q ++ [h]) eqn:E; [destruct q; discriminate|]. rewrite <- E. rewrite parent_snoc', last_name_snoc.
  destruct (ST.lookup sigma q) as [pc|]; [|reflexivity]. destruct (ST.assoc (ST.c_items pc) h); reflexivity.
Qed.

Lemma nview_nil_none : forall sigma, ST.lookup sigma [] = None -> nview sigma [] = None.
Proof. intros sigma H. unfold nview, ST.resolve. rewrite H. reflexivity. Qed.

(* below a path without collections at or below it, the view is empty *)
Lemma nview_below_none : forall tau p, (forall r, ST.lookup tau (p ++ r) = None) -> forall r, r <> [] -> nview tau (p ++ r) = None.
Proof.
  intros tau p H r Hr. destruct (spath_cases r) as [->|[r' [x ->]]]; [congruence|].
  rewrite app_assoc. rewrite nview_snoc; [|rewrite <- app_assoc; apply H]. rewrite H. reflexivity.
Qed.

Lemma spath_eqb_snoc : forall (p : ST.path) r, r <> [] -> ST.path_eqb p (p ++ r) = false.
Proof.
  intros p r Hr. apply SL.path_eqb_neq. intro E. apply (f_equal (@List.length ST.name)) in E. rewrite app_length in E.
  destruct r; [congruence | cbn [List.length] in E; lia].
Qed.

Lemma is_prefix_app : forall (p : ST.path) r, ST.is_prefix p (p ++ r) = true.
Proof. intros. apply SL.is_prefix_spec. exists r. reflexivity. Qed.

(* replacing the collection at pp by one with the same items (except possibly at the names excluded by the
   premise) does not change the view at p' *)
Lemma nview_set_coll : forall sigma pp pc c' p', ST.lookup sigma pp = Some pc ->
  (forall x, pp ++ [x] = p' -> ST.assoc (ST.c_items c') x = ST.assoc (ST.c_items pc) x) ->
  nview (ST.set_coll sigma pp c') p' = nview sigma p'.
Proof.
  intros sigma pp pc c' p' Hl Hx. destruct (ST.path_eqb pp p') eqn:E.
  - apply SL.path_eqb_eq in E. subst p'. rewrite (nview_some _ _ c'), (nview_some _ _ pc); auto. apply SL.lookup_set_same.
  - destruct (ST.lookup sigma p') as [c|] eqn:El.
    + rewrite (nview_some _ _ c), (nview_some _ _ c); auto. rewrite SL.lookup_set, E. exact El.
    + destruct (spath_cases p') as [->|[q [x ->]]].
      * rewrite !nview_nil_none; auto. rewrite SL.lookup_set, E. exact El.
      * rewrite !nview_snoc; auto; [|rewrite SL.lookup_set, E; exact El].
        rewrite SL.lookup_set. destruct (ST.path_eqb pp q) eqn:Eq; [|reflexivity].
        apply SL.path_eqb_eq in Eq. subst q. rewrite Hl. rewrite (Hx x eq_refl). reflexivity.
Qed.

Lemma props_ok_set : forall n sigma pp pc c' p', ST.lookup sigma pp = Some pc ->
  ST.c_tag c' = ST.c_tag pc -> ST.c_props c' = ST.c_props pc ->
  props_ok n sigma p' -> props_ok n (ST.set_coll sigma pp c') p'.
Proof.
  intros n sigma pp pc c' p' Hl Ht Hp H. unfold props_ok in *. rewrite SL.lookup_set.
  destruct (ST.path_eqb pp p') eqn:E; [|exact H]. apply SL.path_eqb_eq in E. subst p'. rewrite Hl in H. rewrite Ht, Hp. exact H.
Qed.

Lemma props_ok_none : forall tau p, ST.lookup tau p = None -> props_ok None tau p.
Proof. intros tau p H. unfold props_ok. rewrite H. reflexivity. Qed.

Ltac post_at Hpost q Hq := rewrite (Hpost q Hq); cbn [ideal].

(* ------------------------------------------------------------------ PUT of an item (new or overwrite) *)
Lemma R_put_item : forall s0 s' sigma pp h o pc exp,
  R s0 sigma -> HI.store_inv sigma -> ST.lookup sigma pp = Some pc -> ST.lookup sigma (pp ++ [h]) = None ->
  dpost (ideal (UUpload (fp pp) (Safe h) (ocode o) exp) s0) s' ->
  R s' (ST.set_coll sigma pp (ST.mkColl (ST.c_tag pc) (ST.c_props pc) (ST.assoc_set (ST.c_items pc) h o))).
Proof.
  intros s0 s' sigma pp h o pc exp HR Hinv Hpp Hp Hpost p'. set (p := pp ++ [h]) in *.
  set (c' := ST.mkColl (ST.c_tag pc) (ST.c_props pc) (ST.assoc_set (ST.c_items pc) h o)).
  assert (Hbelow : forall r, ST.lookup (ST.set_coll sigma pp c') (p ++ r) = None).
  { intro r. rewrite SL.lookup_set. unfold p. rewrite <- app_assoc. rewrite spath_eqb_snoc; [|discriminate].
    rewrite app_assoc. apply no_coll_below; assumption. }
  split.
  - post_at Hpost (fp p') (fp_data p'). rewrite <- fp_snoc. fold p. rewrite fp_eqb, fp_prefix.
    destruct (ST.path_eqb p' p) eqn:E1.
    + apply SL.path_eqb_eq in E1. subst p'. unfold p. rewrite nview_snoc; [|rewrite <- (app_nil_r (pp ++ [h])); apply Hbelow].
      rewrite SL.lookup_set_same. cbn [ST.c_items c']. rewrite SL.assoc_set_same. reflexivity.
    + destruct (ST.is_prefix p p') eqn:E2.
      * apply SL.is_prefix_spec in E2. destruct E2 as [r ->]. symmetry. apply nview_below_none; [exact Hbelow|].
        intros ->. rewrite app_nil_r, SL.path_eqb_refl in E1. discriminate.
      * rewrite (proj1 (HR p')). symmetry. apply (nview_set_coll sigma pp pc c' p' Hpp).
        intros x Hx. cbn [ST.c_items c']. apply SL.assoc_set_other. intros ->. unfold p in E1. rewrite Hx, SL.path_eqb_refl in E1. discriminate.
  - post_at Hpost (fp p' ++ [Props]) (fp_props_data p'). rewrite <- fp_snoc. fold p. rewrite fp_props_neq, fp_prefix_props.
    destruct (ST.is_prefix p p') eqn:E2.
    + apply SL.is_prefix_spec in E2. destruct E2 as [r ->]. apply props_ok_none. apply Hbelow.
    + apply (props_ok_set _ sigma pp pc c' p' Hpp); try reflexivity. apply (proj2 (HR p')).
Qed.

(* ------------------------------------------------------------------ DELETE of an item *)
Lemma R_delete_item : forall s0 s' sigma pp h pc exp,
  R s0 sigma -> HI.store_inv sigma -> ST.lookup sigma pp = Some pc -> ST.lookup sigma (pp ++ [h]) = None ->
  dpost (ideal (UDeleteItem (fp pp) (Safe h) exp) s0) s' ->
  R s' (ST.set_coll sigma pp (ST.mkColl (ST.c_tag pc) (ST.c_props pc) (ST.assoc_del (ST.c_items pc) h))).
Proof.
  intros s0 s' sigma pp h pc exp HR Hinv Hpp Hp Hpost p'. set (p := pp ++ [h]) in *.
  set (c' := ST.mkColl (ST.c_tag pc) (ST.c_props pc) (ST.assoc_del (ST.c_items pc) h)).
  assert (Hbelow : forall r, ST.lookup (ST.set_coll sigma pp c') (p ++ r) = None).
  { intro r. rewrite SL.lookup_set. unfold p. rewrite <- app_assoc. rewrite spath_eqb_snoc; [|discriminate].
    rewrite app_assoc. apply no_coll_below; assumption. }
  split.
  - post_at Hpost (fp p') (fp_data p'). rewrite <- fp_snoc. fold p. rewrite fp_prefix.
    destruct (ST.is_prefix p p') eqn:E2.
    + apply SL.is_prefix_spec in E2. destruct E2 as [r ->]. symmetry. destruct r as [|y r].
      * rewrite app_nil_r. unfold p. rewrite nview_snoc; [|rewrite <- (app_nil_r (pp ++ [h])); apply Hbelow].
        rewrite SL.lookup_set_same. cbn [ST.c_items c']. rewrite SL.assoc_del_same. reflexivity.
      * apply nview_below_none; [exact Hbelow | discriminate].
    + rewrite (proj1 (HR p')). symmetry. apply (nview_set_coll sigma pp pc c' p' Hpp).
      intros x Hx. cbn [ST.c_items c']. apply SL.assoc_del_other. intros ->. unfold p in E2. rewrite Hx, SL.is_prefix_refl in E2. discriminate.
  - post_at Hpost (fp p' ++ [Props]) (fp_props_data p'). rewrite <- fp_snoc. fold p. rewrite fp_prefix_props.
    destruct (ST.is_prefix p p') eqn:E2.
    + apply SL.is_prefix_spec in E2. destruct E2 as [r ->]. apply props_ok_none. apply Hbelow.
    + apply (props_ok_set _ sigma pp pc c' p' Hpp); try reflexivity. apply (proj2 (HR p')).
Qed.

(* ------------------------------------------------------------------ PROPPATCH *)
Lemma R_proppatch : forall s0 s' sigma p c props',
  R s0 sigma -> ST.lookup sigma p = Some c ->
  dpost (ideal (USetMeta (fp p) (pcode (ST.c_tag c) props')) s0) s' ->
  R s' (ST.set_coll sigma p (ST.mkColl (ST.c_tag c) props' (ST.c_items c))).
Proof.
  intros s0 s' sigma p c props' HR Hp Hpost p'. set (c' := ST.mkColl (ST.c_tag c) props' (ST.c_items c)).
  split.
  - post_at Hpost (fp p') (fp_data p'). rewrite fp_neq_props, fp_props_prefix.
    rewrite (proj1 (HR p')). symmetry. apply (nview_set_coll sigma p c c' p' Hp). reflexivity.
  - post_at Hpost (fp p' ++ [Props]) (fp_props_data p'). rewrite fp_props_eqb, fp_props_prefix_props.
    rewrite (SL.path_eqb_sym p p').
    destruct (ST.path_eqb p' p) eqn:E.
    + apply SL.path_eqb_eq in E. subst p'. unfold props_ok. rewrite SL.lookup_set_same. reflexivity.
    + pose proof (proj2 (HR p')) as H. unfold props_ok in *. rewrite SL.lookup_set, (SL.path_eqb_sym p p'), E. exact H.
Qed.

(* ------------------------------------------------------------------ one directory level: MKCOL without props, home creation *)
Lemma R_mkdir : forall s0 s' sigma p,
  R s0 sigma -> HI.store_inv sigma -> ST.resolve sigma p = ST.NNothing ->
  dpost (ideal (UMkdir (fp p)) s0) s' ->
  R s' (ST.set_coll sigma p (ST.mkColl ST.TNone [] [])).
Proof.
  intros s0 s' sigma p HR Hinv Hres Hpost p'. set (c' := ST.mkColl ST.TNone [] []).
  assert (Hp : ST.lookup sigma p = None) by (apply HI.resolve_nothing_lookup; exact Hres).
  assert (Hnv : nview sigma p = None) by (unfold nview; rewrite Hres; reflexivity).
  split.
  - post_at Hpost (fp p') (fp_data p'). rewrite fp_eqb.
    destruct (ST.path_eqb p' p) eqn:E.
    + apply SL.path_eqb_eq in E. subst p'. symmetry. apply (nview_some _ _ c'). apply SL.lookup_set_same.
    + rewrite (proj1 (HR p')). symmetry.
      destruct (ST.lookup sigma p') as [c|] eqn:El.
      * rewrite (nview_some _ _ c), (nview_some _ _ c); auto. rewrite SL.lookup_set, (SL.path_eqb_sym p p'), E. exact El.
      * destruct (spath_cases p') as [->|[q [x ->]]].
        { rewrite !nview_nil_none; auto. rewrite SL.lookup_set, (SL.path_eqb_sym p []), E. exact El. }
        rewrite !nview_snoc; auto; [|rewrite SL.lookup_set, (SL.path_eqb_sym p _), E; exact El].
        rewrite SL.lookup_set. destruct (ST.path_eqb p q) eqn:Eq; [|reflexivity].
        apply SL.path_eqb_eq in Eq. subst q. rewrite Hp. reflexivity.
  - post_at Hpost (fp p' ++ [Props]) (fp_props_data p'). rewrite fp_props_neq.
    pose proof (proj2 (HR p')) as H. unfold props_ok in *. rewrite SL.lookup_set.
    destruct (ST.path_eqb p p') eqn:E; [|exact H]. apply SL.path_eqb_eq in E. subst p'. rewrite Hp in H. rewrite H. split; reflexivity.
Qed.

(* ------------------------------------------------------------------ DELETE of a collection (not the root) *)
Lemma R_delete_coll : forall s0 s' sigma p c,
  R s0 sigma -> HI.store_inv sigma -> ST.lookup sigma p = Some c -> p <> [] ->
  dpost (ideal (UDeleteColl (fp p)) s0) s' ->
  R s' (ST.del_subtree sigma p).
Proof.
  intros s0 s' sigma p c HR Hinv Hp Hne Hpost p'.
  assert (Hbelow : forall r, ST.lookup (ST.del_subtree sigma p) (p ++ r) = None).
  { intro r. rewrite SL.lookup_del_subtree, is_prefix_app. reflexivity. }
  destruct (parent_no_items sigma p c Hinv Hp Hne) as (pc & Hpc & Hnoitems).
  split.
  - post_at Hpost (fp p') (fp_data p'). rewrite fp_prefix.
    destruct (ST.is_prefix p p') eqn:E2.
    + apply SL.is_prefix_spec in E2. destruct E2 as [r ->]. symmetry. destruct r as [|y r].
      * rewrite app_nil_r. unfold nview, ST.resolve. pose proof (Hbelow []) as H0. rewrite app_nil_r in H0. rewrite H0.
        destruct p as [|y p0] eqn:Ep; [congruence|]. rewrite <- Ep in *. rewrite SL.lookup_del_subtree.
        destruct (ST.is_prefix p (ST.parent p)); [reflexivity|]. rewrite Hpc, Hnoitems. reflexivity.
      * apply nview_below_none; [exact Hbelow | discriminate].
    + rewrite (proj1 (HR p')). symmetry. unfold nview, ST.resolve. rewrite !SL.lookup_del_subtree, E2.
      destruct (ST.lookup sigma p'); [reflexivity|]. destruct p' as [|y p'']; [reflexivity|].
      rewrite (HI.not_prefix_parent p (y :: p'')); [reflexivity | discriminate | exact E2].
  - post_at Hpost (fp p' ++ [Props]) (fp_props_data p'). rewrite fp_prefix_props.
    destruct (ST.is_prefix p p') eqn:E2.
    + apply SL.is_prefix_spec in E2. destruct E2 as [r ->]. apply props_ok_none. apply Hbelow.
    + pose proof (proj2 (HR p')) as H. unfold props_ok in *. rewrite SL.lookup_del_subtree, E2. exact H.
Qed.

(* ------------------------------------------------------------------ whole-collection PUT, MKCALENDAR / MKCOL with props *)
Lemma stage_other : forall its M r, (forall it, In it its -> r <> [fst it]) -> fold_left stage_put its M r = M r.
Proof.
  induction its as [|it its IH]; intros M r H; cbn [fold_left]; [reflexivity|].
  rewrite IH; [|intros it' Hi; apply H; right; exact Hi]. unfold stage_put.
  destruct (path_eqb r [fst it]) eqn:E; [|reflexivity]. apply path_eqb_eq in E. exfalso. apply (H it); [left; reflexivity | exact E].
Qed.

Lemma not_in_assoc_none : forall {A} (l : list (N * A)) k, ~ In k (map fst l) -> ST.assoc l k = None.
Proof.
  induction l as [|[k' v] l IH]; intros k H; cbn; [reflexivity|].
  destruct (N.eqb k' k) eqn:E; [apply N.eqb_eq in E; subst; exfalso; apply H; left; reflexivity|].
  apply IH. intro Hin. apply H. right. exact Hin.
Qed.

Lemma stage_item : forall items M x, NoDup (map fst items) ->
  fold_left stage_put (enc_items items) M [Safe x] =
  match ST.assoc items x with Some o => Some (F (ocode o)) | None => M [Safe x] end.
Proof.
  induction items as [|[h o] items IH]; intros M x Hnd; cbn [enc_items map fold_left ST.assoc fst snd]; [reflexivity|].
  inversion Hnd as [|? ? Hnotin Hnd']; subst. fold (enc_items items). rewrite IH; [|exact Hnd'].
  destruct (N.eqb h x) eqn:E.
  - apply N.eqb_eq in E. subst h. rewrite (not_in_assoc_none items x Hnotin). unfold stage_put. cbn. rewrite N.eqb_refl. reflexivity.
  - destruct (ST.assoc items x); [reflexivity|]. unfold stage_put. cbn. rewrite N.eqb_sym, E. reflexivity.
Qed.

Lemma enc_items_keys : forall items it, In it (enc_items items) -> exists h, fst it = Safe h.
Proof. intros items it H. unfold enc_items in H. apply in_map_iff in H. destruct H as [[h o] [<- _]]. exists h. reflexivity. Qed.

Lemma stage_nil : forall items pv, stage (enc_items items) pv [] = Some D.
Proof. intros. unfold stage. rewrite stage_other; [reflexivity|]. intros it _. discriminate. Qed.
Lemma stage_props : forall items pv, stage (enc_items items) pv [Props] = Some (F pv).
Proof.
  intros. unfold stage. rewrite stage_other; [reflexivity|]. intros it Hi E. destruct (enc_items_keys _ _ Hi) as [h Hh].
  rewrite Hh in E. discriminate.
Qed.
Lemma stage_long : forall items pv a b r, stage (enc_items items) pv (a :: b :: r) = None.
Proof. intros. unfold stage. rewrite stage_other; [destruct a; reflexivity|]. intros it _. discriminate. Qed.

Lemma strip_fp : forall p r, strip (fp p) (fp p ++ r) = r.
Proof. intros. apply strip_app. Qed.

Lemma R_create : forall s0 s' sigma p newc,
  R s0 sigma -> NoDup (map fst (ST.c_items newc)) ->
  dpost (ideal (UCreate (fp p) (Some (enc_items (ST.c_items newc))) (pcode (ST.c_tag newc) (ST.c_props newc))) s0) s' ->
  R s' (ST.set_coll (ST.del_subtree sigma p) p newc).
Proof.
  intros s0 s' sigma p newc HR Hnd Hpost p'.
  set (sigma' := ST.set_coll (ST.del_subtree sigma p) p newc).
  assert (Hlk : forall q, ST.lookup sigma' q = if ST.path_eqb p q then Some newc else if ST.is_prefix p q then None else ST.lookup sigma q).
  { intro q. unfold sigma'. rewrite SL.lookup_set, SL.lookup_del_subtree. reflexivity. }
  assert (Hbelow : forall r, r <> [] -> ST.lookup sigma' (p ++ r) = None).
  { intros r Hr. rewrite Hlk, spath_eqb_snoc, is_prefix_app; auto. }
  assert (Hself : ST.lookup sigma' p = Some newc) by (rewrite Hlk, SL.path_eqb_refl; reflexivity).
  split.
  - post_at Hpost (fp p') (fp_data p'). rewrite fp_prefix.
    destruct (ST.is_prefix p p') eqn:E2.
    + apply SL.is_prefix_spec in E2. destruct E2 as [r ->]. rewrite fp_app, strip_fp. symmetry.
      destruct r as [|x [|y r]].
      * cbn [map]. rewrite stage_nil, app_nil_r. apply (nview_some _ _ newc). exact Hself.
      * cbn [map]. unfold stage. rewrite stage_item; [|exact Hnd]. rewrite nview_snoc; [|apply Hbelow; discriminate].
        rewrite Hself. destruct (ST.assoc (ST.c_items newc) x); reflexivity.
      * cbn [map]. rewrite stage_long.
        destruct (spath_cases (x :: y :: r)) as [E|[r' [z E]]]; [discriminate|]. rewrite E, app_assoc.
        assert (Hr' : r' <> []) by (intros ->; discriminate).
        rewrite nview_snoc; [|rewrite <- app_assoc; apply Hbelow; destruct r'; discriminate]. rewrite Hbelow; auto.
    + rewrite (proj1 (HR p')). symmetry.
      assert (Hpp' : ST.path_eqb p p' = false).
      { destruct (ST.path_eqb p p') eqn:E; [|reflexivity]. apply SL.path_eqb_eq in E. subst. rewrite SL.is_prefix_refl in E2. discriminate. }
      destruct (ST.lookup sigma p') as [c|] eqn:El.
      * rewrite (nview_some _ _ c), (nview_some _ _ c); auto. rewrite Hlk, Hpp', E2. exact El.
      * destruct (spath_cases p') as [->|[q [x ->]]].
        { rewrite !nview_nil_none; auto. rewrite Hlk, Hpp', E2. exact El. }
        rewrite !nview_snoc; auto; [|rewrite Hlk, Hpp', E2; exact El]. rewrite Hlk.
        destruct (ST.path_eqb p q) eqn:Eq; [apply SL.path_eqb_eq in Eq; subst q; rewrite is_prefix_app in E2; discriminate|].
        destruct (ST.is_prefix p q) eqn:Epq; [|reflexivity].
        apply SL.is_prefix_spec in Epq. destruct Epq as [r ->]. rewrite <- app_assoc, is_prefix_app in E2. discriminate.
  - post_at Hpost (fp p' ++ [Props]) (fp_props_data p'). rewrite fp_prefix_props.
    destruct (ST.is_prefix p p') eqn:E2.
    + apply SL.is_prefix_spec in E2. destruct E2 as [r ->]. rewrite fp_app, <- app_assoc, strip_fp.
      destruct r as [|x r].
      * cbn [map app]. rewrite stage_props, app_nil_r. unfold props_ok. rewrite Hself. reflexivity.
      * cbn [map app]. destruct (map Safe r ++ [Props]) eqn:Er; [destruct r; discriminate|]. rewrite stage_long.
        apply props_ok_none. apply Hbelow. discriminate.
    + pose proof (proj2 (HR p')) as H. unfold props_ok in *. rewrite Hlk, E2.
      destruct (ST.path_eqb p p') eqn:E; [apply SL.path_eqb_eq in E; subst; rewrite SL.is_prefix_refl in E2; discriminate | exact H].
Qed.

(* MKCALENDAR, MKCOL with props or a tag: set_coll at an absent path *)
Lemma R_mkcoll : forall s0 s' sigma p tg props,
  R s0 sigma -> HI.store_inv sigma -> ST.lookup sigma p = None ->
  dpost (ideal (UCreate (fp p) None (pcode tg props)) s0) s' ->
  R s' (ST.set_coll sigma p (ST.mkColl tg props [])).
Proof.
  intros s0 s' sigma p tg props HR Hinv Hp Hpost.
  apply (R_ext s' (ST.set_coll (ST.del_subtree sigma p) p (ST.mkColl tg props []))).
  - intro q. rewrite !SL.lookup_set, SL.lookup_del_subtree. destruct (ST.path_eqb p q); [reflexivity|].
    destruct (ST.is_prefix p q) eqn:E; [|reflexivity]. apply SL.is_prefix_spec in E. destruct E as [r ->].
    symmetry. apply no_coll_below; assumption.
  - apply (R_create s0 s' sigma p (ST.mkColl tg props [])); [exact HR | constructor | exact Hpost].
Qed.

(* ------------------------------------------------------------------ MOVE of an item (same or another collection, with or without overwrite) *)
Lemma R_move : forall s0 s' sigma (pp : ST.path) (h : ST.name) (tp : ST.path) (h' : ST.name) from_c o tc v exp exp',
  R s0 sigma -> HI.store_inv sigma ->
  ST.lookup sigma pp = Some from_c -> ST.assoc (ST.c_items from_c) h = Some o -> ST.lookup sigma (pp ++ [h]) = None ->
  ST.lookup sigma tp <> None -> ST.lookup sigma (tp ++ [h']) = None -> pp ++ [h] <> tp ++ [h'] ->
  let s1 := ST.set_coll sigma pp (ST.mkColl (ST.c_tag from_c) (ST.c_props from_c) (ST.assoc_del (ST.c_items from_c) h)) in
  ST.lookup s1 tp = Some tc ->
  dpost (ideal (UMove (fp pp) (Safe h) (fp tp) (Safe h') v exp exp') s0) s' ->
  R s' (ST.set_coll s1 tp (ST.mkColl (ST.c_tag tc) (ST.c_props tc) (ST.assoc_set (ST.c_items tc) h' o))).
Proof.
  intros s0 s' sigma pp h tp h' from_c o tc v exp exp' HR Hinv Hpp Ho Ha Htp Hb Hab s1 Htc Hpost p'.
  set (a := pp ++ [h]) in *. set (b := tp ++ [h']) in *.
  set (fc' := ST.mkColl (ST.c_tag from_c) (ST.c_props from_c) (ST.assoc_del (ST.c_items from_c) h)) in *.
  set (tc' := ST.mkColl (ST.c_tag tc) (ST.c_props tc) (ST.assoc_set (ST.c_items tc) h' o)).
  set (sigma' := ST.set_coll s1 tp tc').
  (* a path without a collection in sigma has none in sigma' *)
  assert (Hnone : forall q, ST.lookup sigma q = None -> ST.lookup sigma' q = None).
  { intros q Hq. unfold sigma', s1. rewrite !SL.lookup_set.
    destruct (ST.path_eqb tp q) eqn:E1; [apply SL.path_eqb_eq in E1; subst q; congruence|].
    destruct (ST.path_eqb pp q) eqn:E2; [apply SL.path_eqb_eq in E2; subst q; congruence | exact Hq]. }
  assert (Ha' : forall r, ST.lookup sigma' (a ++ r) = None) by (intro r; apply Hnone; apply no_coll_below; assumption).
  assert (Hb' : forall r, ST.lookup sigma' (b ++ r) = None) by (intro r; apply Hnone; apply no_coll_below; assumption).
  assert (Hsame : forall q, ~ (exists x, q = pp ++ [x] /\ x = h) -> ~ (exists x, q = tp ++ [x] /\ x = h') -> nview sigma' q = nview sigma q).
  { intros q Hq1 Hq2. unfold sigma'. rewrite (nview_set_coll s1 tp tc tc' q Htc).
    - unfold s1. apply (nview_set_coll sigma pp from_c fc' q Hpp). intros x Hx. cbn [ST.c_items fc'].
      apply SL.assoc_del_other. intros ->. apply Hq1. exists x. auto.
    - intros x Hx. cbn [ST.c_items tc']. apply SL.assoc_set_other. intros ->. apply Hq2. exists x. auto. }
  assert (Htags : forall n q, props_ok n sigma q -> props_ok n sigma' q).
  { intros n q H. unfold sigma'. apply (props_ok_set n s1 tp tc tc' q Htc); try reflexivity.
    unfold s1. apply (props_ok_set n sigma pp from_c fc' q Hpp); try reflexivity. exact H. }
  split.
  - post_at Hpost (fp p') (fp_data p'). rewrite <- !fp_snoc. fold a b. rewrite !fp_prefix.
    destruct (ST.is_prefix b p') eqn:Eb.
    + apply SL.is_prefix_spec in Eb. destruct Eb as [r ->]. rewrite (fp_app b r), strip_fp. change (pp ++ [h]) with a. rewrite <- fp_app. rewrite (proj1 (HR (a ++ r))).
      destruct r as [|y r].
      * rewrite !app_nil_r. pose proof (Hb' []) as Xb. rewrite app_nil_r in Xb. change (nview sigma (pp ++ [h]) = nview sigma' (tp ++ [h'])).
        etransitivity; [apply (nview_snoc sigma pp h Ha)|]. etransitivity; [|symmetry; apply (nview_snoc sigma' tp h' Xb)].
        rewrite Hpp, Ho. unfold sigma'. rewrite SL.lookup_set_same. cbn [ST.c_items tc']. rewrite SL.assoc_set_same. reflexivity.
      * rewrite !nview_below_none; auto; try discriminate. intro r0. apply no_coll_below; assumption.
    + destruct (ST.is_prefix a p') eqn:Ea.
      * apply SL.is_prefix_spec in Ea. destruct Ea as [r ->]. symmetry. destruct r as [|y r].
        { rewrite app_nil_r. pose proof (Ha' []) as Xa. rewrite app_nil_r in Xa. change (nview sigma' (pp ++ [h]) = None). etransitivity; [apply (nview_snoc sigma' pp h Xa)|].
          unfold sigma'. rewrite SL.lookup_set. destruct (ST.path_eqb tp pp) eqn:Etp.
          - apply SL.path_eqb_eq in Etp. subst tp. cbn [ST.c_items tc'].
            rewrite SL.assoc_set_other; [|intros ->; apply Hab; reflexivity].
            unfold s1 in Htc. rewrite SL.lookup_set_same in Htc. inversion Htc; subst tc. cbn [ST.c_items fc']. rewrite SL.assoc_del_same. reflexivity.
          - unfold s1. rewrite SL.lookup_set_same. cbn [ST.c_items fc']. rewrite SL.assoc_del_same. reflexivity. }
        apply nview_below_none; [exact Ha' | discriminate].
      * rewrite (proj1 (HR p')). symmetry. apply Hsame.
        -- intros [x [-> ->]]. fold a in Ea. rewrite SL.is_prefix_refl in Ea. discriminate.
        -- intros [x [-> ->]]. fold b in Eb. rewrite SL.is_prefix_refl in Eb. discriminate.
  - post_at Hpost (fp p' ++ [Props]) (fp_props_data p'). rewrite <- !fp_snoc. fold a b. rewrite !fp_prefix_props.
    destruct (ST.is_prefix b p') eqn:Eb.
    + apply SL.is_prefix_spec in Eb. destruct Eb as [r ->]. rewrite (fp_app b r), <- app_assoc, strip_fp. change (pp ++ [h]) with a. rewrite app_assoc, <- fp_app.
      pose proof (proj2 (HR (a ++ r))) as H. unfold props_ok in H. rewrite (no_coll_below sigma a Hinv Ha r) in H. rewrite H.
      apply props_ok_none. apply Hb'.
    + destruct (ST.is_prefix a p') eqn:Ea.
      * apply SL.is_prefix_spec in Ea. destruct Ea as [r ->]. apply props_ok_none. apply Ha'.
      * apply Htags. apply (proj2 (HR p')).
Qed.
