(* C01 / C08: what the ideal store holds after each kind of request (last write wins, deleted and moved-away
   names are gone, a replaced collection holds only the new objects, nothing else changes), and the
   conditional-request facts. *)
From Coq Require Import List NArith Bool Lia.
Import ListNotations.
Require Import RV.Lib.PyStr RV.Lib.Item RV.Model.Store RV.Model.Access RV.Model.Handlers
               RV.Proofs.StoreLemmas RV.Proofs.HandlersInv.
Open Scope N_scope.

Lemma parent_neq : forall p, p <> [] -> parent p <> p.
Proof.
  intros p Hne E. destruct (parent_prefix p Hne) as [x Hx]. rewrite E in Hx.
  apply (f_equal (@List.length name)) in Hx. rewrite app_length in Hx. cbn in Hx. unfold name in *. lia.
Qed.

Lemma resolve_item_intro : forall s p pc o,
  p <> [] -> lookup s p = None -> lookup s (parent p) = Some pc -> assoc (c_items pc) (last_name p) = Some o ->
  resolve s p = NItem pc o.
Proof.
  intros s p pc o Hne Hl Hp Ha. unfold resolve. rewrite Hl. destruct p; [contradiction|]. rewrite Hp, Ha. reflexivity.
Qed.

Lemma not_coll_lookup_none : forall s p, (forall c, resolve s p <> NColl c) -> lookup s p = None.
Proof.
  intros s p H. destruct (lookup s p) as [c|] eqn:E; [|reflexivity].
  exfalso. apply (H c). unfold resolve. rewrite E. reflexivity.
Qed.

(* ---------------- PUT of one item: last write wins, nothing else changes ---------------- *)
Theorem put_item_effect : forall cfg pol s p ct b im inm s' o,
  store_inv s ->
  do_put cfg pol s p ct b im inm = (s', (S201, PEtag (EtItem o))) ->
  exists pc,
    lookup s (parent p) = Some pc
    /\ resolve s' p = NItem (mkColl (c_tag pc) (c_props pc) (assoc_set (c_items pc) (last_name p) o)) o
    /\ (forall q, q <> parent p -> lookup s' q = lookup s q)
    /\ (forall n, n <> last_name p ->
          assoc (assoc_set (c_items pc) (last_name p) o) n = assoc (c_items pc) n).
Proof.
  intros cfg pol s p ct b im inm s' o Hs H. apply do_put_cases in H.
  destruct H as [[_ He]|[(pc & tg & objs & _ & _ & _ & _ & _ & Hr & _)|(pc & o' & Hpar & Htag & Hnc & Hval & Hcf & -> & Hr & _)]];
    [discriminate He|discriminate Hr|].
  inversion Hr; subst o'. clear Hr. apply resolve_coll in Hpar. exists pc.
  assert (Hpne : p <> []).
  { intros ->. cbn in Hpar. apply (Hnc pc). unfold resolve. cbn. rewrite Hpar. reflexivity. }
  split; [exact Hpar|]. split; [|split].
  - apply resolve_item_intro; [exact Hpne| | |].
    + rewrite lookup_set_other; [apply not_coll_lookup_none; exact Hnc|apply parent_neq; exact Hpne].
    + apply lookup_set_same.
    + cbn. apply assoc_set_same.
  - intros q Hq. apply lookup_set_other. congruence.
  - intros n Hn. apply assoc_set_other. congruence.
Qed.

(* ---------------- PUT of a whole collection: exactly the new objects, subtree replaced ---------------- *)
Theorem put_whole_effect : forall cfg pol s p ct b im inm s' newc,
  do_put cfg pol s p ct b im inm = (s', (S201, PEtag (EtColl newc))) ->
  lookup s' p = Some newc
  /\ c_props newc = []
  /\ (exists tg objs, validate b true tg = Some objs /\ newc = mkColl tg [] (items_of_objs objs))
  /\ (forall q, is_prefix p q = true -> q <> p -> lookup s' q = None)
  /\ (forall q, is_prefix p q = false -> lookup s' q = lookup s q).
Proof.
  intros cfg pol s p ct b im inm s' newc H. apply do_put_cases in H.
  destruct H as [[_ He]|[(pc & tg & objs & _ & _ & _ & Hval & -> & Hr & _)|(pc & o' & _ & _ & _ & _ & _ & _ & Hr & _)]];
    [discriminate He| |discriminate Hr].
  inversion Hr; subst newc. clear Hr.
  split; [apply lookup_set_same|]. split; [reflexivity|]. split; [exists tg, objs; split; [exact Hval|reflexivity]|]. split.
  - intros q Hpre Hne. rewrite lookup_set_other by congruence. rewrite lookup_del_subtree, Hpre. reflexivity.
  - intros q Hpre. rewrite lookup_set_other.
    + rewrite lookup_del_subtree, Hpre. reflexivity.
    + intros ->. rewrite is_prefix_refl in Hpre. discriminate.
Qed.

(* ---------------- DELETE ---------------- *)
Theorem delete_effect : forall cfg pol s p im s',
  do_delete cfg pol s p im = (s', (S200, PNone)) ->
  (exists c, resolve s p = NColl c /\ (forall q, is_prefix p q = true -> q <> [] -> lookup s' q = None)
             /\ (forall q, is_prefix p q = false -> lookup s' q = lookup s q))
  \/ (exists pc o, resolve s p = NItem pc o
        /\ lookup s' (parent p) = Some (mkColl (c_tag pc) (c_props pc) (assoc_del (c_items pc) (last_name p)))
        /\ assoc (assoc_del (c_items pc) (last_name p)) (last_name p) = None
        /\ (forall n, n <> last_name p -> assoc (assoc_del (c_items pc) (last_name p)) n = assoc (c_items pc) n)
        /\ (forall q, q <> parent p -> lookup s' q = lookup s q)).
Proof.
  intros cfg pol s p im s' H. unfold do_delete in H.
  repeat (match type of H with context [match ?x with _ => _ end] => destruct x eqn:? end; try discriminate).
  - (* root collection *)
    inversion H; subst. left. eexists. split; [reflexivity|]. split.
    + intros q _ Hq. destruct q; [contradiction|reflexivity].
    + intros q Hpre. destruct p; [discriminate|discriminate].
  - inversion H; subst. left. eexists. split; [reflexivity|]. split.
    + intros q Hpre _. rewrite lookup_del_subtree, Hpre. reflexivity.
    + intros q Hpre. rewrite lookup_del_subtree, Hpre. reflexivity.
  - inversion H; subst. right. do 2 eexists. split; [reflexivity|]. split; [apply lookup_set_same|]. split; [apply assoc_del_same|]. split.
    + intros n Hn. apply assoc_del_other. congruence.
    + intros q Hq. apply lookup_set_other. congruence.
Qed.

(* ---------------- MOVE ---------------- *)
Theorem move_effect : forall pol s p dr dout to ow s' r,
  store_inv s ->
  do_move pol s p dr dout to ow = (s', r) -> is_error (fst r) = false ->
  exists fc o,
    resolve s p = NItem fc o
    /\ resolve s' to = NItem (match lookup s' (parent to) with Some c => c | None => fc end) o
    /\ (p <> to -> resolve s' p = NNothing)
    /\ (forall q, q <> parent p -> q <> parent to -> lookup s' q = lookup s q).
Proof.
  intros pol s p dr dout to ow s' r Hs H He. apply do_move_cases in H.
  destruct H as [[_ He']|(fc & o & toc & tc & Hi & Htc & Htn & Hte & Hcf & Hl & -> & _)]; [congruence|].
  exists fc, o. split; [exact Hi|].
  pose proof (resolve_item _ _ _ _ Hi) as (Hlp & Hpne & Hfl & Hfa).
  pose proof (resolve_coll _ _ _ Htc) as Htl.
  set (fc' := mkColl (c_tag fc) (c_props fc) (assoc_del (c_items fc) (last_name p))) in *.
  set (tc' := mkColl (c_tag tc) (c_props tc) (assoc_set (c_items tc) (last_name to) o)) in *.
  assert (Htone : to <> []).
  { intros ->. cbn in Htl. destruct (resolve_cases s [] toc Htl) as [[c' Hr]|[Hne _]]; [rewrite Hr in Hcf; contradiction|contradiction]. }
  assert (Hlto : lookup s to = None).
  { destruct (resolve_cases s to toc Htl) as [[c' Hr]|[_ Hr]]; [rewrite Hr in Hcf; contradiction|].
    unfold resolve in Hr. destruct (lookup s to); [|reflexivity].
    destruct (assoc (c_items toc) (last_name to)); discriminate. }
  assert (Hlto' : lookup (set_coll (set_coll s (parent p) fc') (parent to) tc') to = None).
  { rewrite !lookup_set.
    destruct (path_eqb (parent to) to) eqn:E1; [apply path_eqb_eq in E1; exfalso; exact (parent_neq to Htone E1)|].
    destruct (path_eqb (parent p) to) eqn:E2; [|exact Hlto].
    apply path_eqb_eq in E2. subst to. congruence. }
  split; [|split].
  - rewrite lookup_set_same. apply resolve_item_intro; [exact Htone|exact Hlto'|apply lookup_set_same|cbn; apply assoc_set_same].
  - intros Hpt. unfold resolve.
    assert (Hlp' : lookup (set_coll (set_coll s (parent p) fc') (parent to) tc') p = None).
    { rewrite !lookup_set.
      destruct (path_eqb (parent to) p) eqn:E1; [apply path_eqb_eq in E1; subst p; congruence|].
      destruct (path_eqb (parent p) p) eqn:E2; [apply path_eqb_eq in E2; exfalso; exact (parent_neq p Hpne E2)|exact Hlp]. }
    rewrite Hlp'. destruct p as [|x p']; [contradiction|].
    rewrite lookup_set. destruct (path_eqb (parent to) (parent (x :: p'))) eqn:Esame.
    + (* same collection: tc is fc' and the moved name differs *)
      apply path_eqb_eq in Esame. rewrite lookup_set in Hl. rewrite path_eqb_sym, (proj2 (path_eqb_eq _ _) Esame) in Hl.
      inversion Hl; subst tc. cbn [tc' c_items fc'].
      assert (Hn : last_name to <> last_name (x :: p')).
      { intros En. apply Hpt. destruct (parent_prefix (x :: p') Hpne) as [a Ha]. destruct (parent_prefix to Htone) as [b' Hb].
        unfold last_name in En. 
        assert (Hla : last (x :: p') 0 = a) by (rewrite Ha at 1; apply last_last).
        assert (Hlb : last to 0 = b') by (rewrite Hb at 1; apply last_last).
        rewrite Ha, Hb, Esame. f_equal. f_equal. congruence. }
      rewrite assoc_set_other by exact Hn. rewrite assoc_del_same. reflexivity.
    + rewrite lookup_set_same. cbn [fc' c_items]. rewrite assoc_del_same. reflexivity.
  - intros q H1 H2. rewrite !lookup_set_other by congruence. reflexivity.
Qed.

(* ---------------- MKCOL / MKCALENDAR / PROPPATCH ---------------- *)
Theorem mkcol_effect : forall pol s p x s',
  do_mkcol pol s p x = (s', (S201, PNone)) ->
  exists c, lookup s' p = Some c /\ c_items c = [] /\ lookup s p = None
            /\ (forall q, q <> p -> lookup s' q = lookup s q).
Proof.
  intros pol s p x s' H. unfold do_mkcol in H.
  repeat (match type of H with context [match ?x with _ => _ end] => destruct x eqn:? end; try discriminate).
  all: inversion H; subst; eexists; split; [apply lookup_set_same|]; split; [reflexivity|]; split;
    [apply resolve_nothing_lookup; assumption|intros q Hq; apply lookup_set_other; congruence].
Qed.

Theorem mkcalendar_effect : forall pol s p x s',
  do_mkcalendar pol s p x = (s', (S201, PNone)) ->
  exists c, lookup s' p = Some c /\ c_items c = [] /\ c_tag c = TCal /\ lookup s p = None
            /\ (forall q, q <> p -> lookup s' q = lookup s q).
Proof.
  intros pol s p x s' H. unfold do_mkcalendar in H.
  repeat (match type of H with context [match ?x with _ => _ end] => destruct x eqn:? end; try discriminate).
  all: inversion H; subst; eexists; split; [apply lookup_set_same|]; split; [reflexivity|]; split; [reflexivity|]; split;
    [apply resolve_nothing_lookup; assumption|intros q Hq; apply lookup_set_other; congruence].
Qed.

Theorem proppatch_effect : forall pol s p x s',
  do_proppatch pol s p x = (s', (S207, PNone)) ->
  exists c c', lookup s p = Some c /\ lookup s' p = Some c' /\ c_tag c' = c_tag c /\ c_items c' = c_items c
            /\ (forall q, q <> p -> lookup s' q = lookup s q).
Proof.
  intros pol s p x s' H. unfold do_proppatch in H.
  repeat (match type of H with context [match ?x with _ => _ end] => destruct x eqn:? end; try discriminate).
  all: inversion H; subst;
    match goal with Hc : resolve _ _ = NColl ?c |- _ => apply resolve_coll in Hc; exists c end;
    eexists; split; [eassumption|]; split; [apply lookup_set_same|]; split; [reflexivity|]; split; [reflexivity|];
    intros q Hq; apply lookup_set_other; congruence.
Qed.

(* ---------------- the observers read the store and never change it ---------------- *)
Theorem observers_pure : forall cfg pol u s r,
  match r with RGet _ | RPropfind _ _ | RMultiget _ _ _ | RQuery _ _ _ => True | _ => False end ->
  fst (handle cfg pol u s r) = ensure_home pol s u.
Proof. intros cfg pol u s r H. destruct r; try contradiction; reflexivity. Qed.

Theorem get_item_reads_store : forall pol s p o, do_get pol s p = (S200, PItem o) -> exists pc, resolve s p = NItem pc o.
Proof.
  intros pol s p o H. unfold do_get in H.
  repeat (match type of H with context [match ?x with _ => _ end] => destruct x eqn:? end; try discriminate).
  all: inversion H; subst; eexists; reflexivity.
Qed.

Theorem get_export_reads_store : forall pol s p t l, do_get pol s p = (S200, PExport t l) ->
  exists c, lookup s p = Some c /\ c_tag c = t /\ l = map snd (c_items c).
Proof.
  intros pol s p t l H. unfold do_get in H.
  repeat (match type of H with context [match ?x with _ => _ end] => destruct x eqn:? end; try discriminate).
  all: inversion H; subst; match goal with Hc : resolve _ _ = NColl ?c |- _ => apply resolve_coll in Hc; exists c end;
    split; [assumption|split; [assumption|reflexivity]].
Qed.

Theorem get_item_served : forall pol s p pc o,
  resolve s p = NItem pc o -> check pol p lr NoItem = true -> check pol p lr IsItem = true ->
  do_get pol s p = (S200, PItem o).
Proof.
  intros pol s p pc o Hr H1 H2. unfold do_get. rewrite H1. cbn [negb andb]. rewrite Hr. cbn [kind_of]. rewrite H2. reflexivity.
Qed.

(* ---------------- C08: conditional requests ---------------- *)
Definition exists_node (n : node) : bool := match n with NNothing => false | _ => true end.

Theorem put_if_match : forall cfg pol s p ct b e inm,
  fst (do_put cfg pol s p ct b (CTag e) inm) = s
  \/ (exists_node (resolve s p) = true /\ etag_eqb_current (resolve s p) e = true).
Proof.
  intros. unfold do_put.
  repeat (brk; cbn [fst]; try (left; reflexivity)).
  all: right; match goal with H : negb (?a && ?b) = false |- _ => apply negb_false_iff in H; apply andb_true_iff in H; exact H end.
Qed.

Theorem put_if_match_fails : forall cfg pol s p ct b e inm st pl s',
  do_put cfg pol s p ct b (CTag e) inm = (s', (st, pl)) ->
  exists_node (resolve s p) && etag_eqb_current (resolve s p) e = false ->
  s' = s /\ is_error st = true.
Proof.
  intros cfg pol s p ct b e inm st pl s' H Hc. unfold do_put in H. fold (exists_node (resolve s p)) in H.
  repeat (match type of H with context [match ?x with _ => _ end] => destruct x eqn:? end;
          try (inversion H; subst; split; reflexivity)); try congruence.
  all: unfold exists_node in *; match goal with Hx : negb (_ && _) = false |- _ => apply negb_false_iff in Hx; congruence end.
Qed.

Theorem put_if_none_match : forall cfg pol s p ct b im,
  fst (do_put cfg pol s p ct b im true) = s \/ resolve s p = NNothing.
Proof.
  intros. unfold do_put.
  repeat (brk; cbn [fst]; try (left; reflexivity)).
  all: match goal with H : ?x && true = false |- _ => rewrite andb_true_r in H end.
  all: right; match goal with |- ?n = NNothing => destruct n; try discriminate; reflexivity end.
Qed.

Theorem delete_if_match : forall cfg pol s p e,
  fst (do_delete cfg pol s p (CTag e)) = s \/ etag_eqb_current (resolve s p) e = true.
Proof.
  intros. unfold do_delete.
  destruct (negb (check pol p lw NoItem)); [left; reflexivity|].
  destruct (resolve s p) eqn:Er; try (left; reflexivity).
  - destruct (negb (check pol p lw (kind_of (NColl c)))); [left; reflexivity|].
    destruct (etag_eqb_current (NColl c) e) eqn:Ee; [right; reflexivity|left; reflexivity].
  - destruct (negb (check pol p lw (kind_of (NItem parent_coll o)))); [left; reflexivity|].
    destruct (etag_eqb_current (NItem parent_coll o) e) eqn:Ee; [right; reflexivity|left; reflexivity].
Qed.

Lemma obj_eqb_eq : forall a b, obj_eqb a b = true <-> a = b.
Proof.
  intros [u c k] [u' c' k']. unfold obj_eqb. cbn. rewrite !andb_true_iff, !N.eqb_eq. split.
  - intros [[-> Hc] ->]. destruct c, c'; try discriminate; reflexivity.
  - intros H. inversion H; subst. repeat split; destruct c'; reflexivity.
Qed.

(* the ETag of an item identifies its content *)
Theorem etag_item_identifies : forall pc o o', etag_eqb_current (NItem pc o) (EtItem o') = true <-> o = o'.
Proof. intros. cbn. apply obj_eqb_eq. Qed.

(* two clients racing from the same ETag: once the first has changed the content, the second is refused *)
Theorem put_race : forall cfg pol s p ct1 b1 inm1 s1 o1 ct2 b2 inm2 o0,
  store_inv s ->
  do_put cfg pol s p ct1 b1 (CTag (EtItem o0)) inm1 = (s1, (S201, PEtag (EtItem o1))) ->
  o1 <> o0 ->
  do_put cfg pol s1 p ct2 b2 (CTag (EtItem o0)) inm2 = (s1, snd (do_put cfg pol s1 p ct2 b2 (CTag (EtItem o0)) inm2))
  /\ is_error (fst (snd (do_put cfg pol s1 p ct2 b2 (CTag (EtItem o0)) inm2))) = true.
Proof.
  intros cfg pol s p ct1 b1 inm1 s1 o1 ct2 b2 inm2 o0 Hs H1 Hne.
  destruct (put_item_effect _ _ _ _ _ _ _ _ _ _ Hs H1) as (pc & _ & Hres & _ & _).
  destruct (do_put cfg pol s1 p ct2 b2 (CTag (EtItem o0)) inm2) as [s2 [st pl]] eqn:E2.
  assert (Hc : exists_node (resolve s1 p) && etag_eqb_current (resolve s1 p) (EtItem o0) = false).
  { rewrite Hres. cbn. apply not_true_iff_false. intros Ht. apply obj_eqb_eq in Ht. contradiction. }
  destruct (put_if_match_fails _ _ _ _ _ _ _ _ _ _ _ E2 Hc) as [-> Herr]. cbn. split; [reflexivity|exact Herr].
Qed.

(* ---------------- C08: the same ETag (the stored object itself) is shown by every read path ---------------- *)
Theorem etag_same_everywhere : forall pol s p pc o w,
  resolve s p = NItem pc o ->
  check pol p lr NoItem = true -> check pol p lr IsItem = true -> entry_allowed pol (parent p) true = Some w ->
  do_get pol s p = (S200, PItem o)
  /\ do_propfind pol s p false = (S207, PListing [EItemE p o w])
  /\ (forall cal : bool, tag_eqb (c_tag pc) (if cal then TCal else TAdr) = true ->
        do_multiget pol s p cal [p] = (S207, PListing [EItemE p o false])).
Proof.
  intros pol s p pc o w Hr H1 H2 Ha.
  pose proof (resolve_item _ _ _ _ Hr) as (Hlp & Hpne & Hpl & Has).
  split; [eapply get_item_served; eassumption|]. split.
  - unfold do_propfind. rewrite H1. cbn [negb]. rewrite Hr. cbn [kind_of]. rewrite H2. cbn [negb]. rewrite Ha. reflexivity.
  - intros cal Ht. unfold do_multiget. rewrite H1. cbn [negb]. rewrite Hr. cbn [kind_of]. rewrite H2. cbn [negb].
    rewrite Ht. cbn [negb]. unfold dedup_paths. cbn [existsb map flat_map].
    assert (E1 : path_eqb p (parent p) = false) by (apply path_eqb_neq; intros E; symmetry in E; exact (parent_neq p Hpne E)).
    rewrite E1, path_eqb_refl. assert (E2 : is_root p = false) by (destruct p; [contradiction|reflexivity]).
    rewrite E2. cbn [negb andb]. rewrite Has. cbn. reflexivity.
Qed.

Theorem etag_coll_identifies : forall c c', EtColl c = EtColl c' -> c = c'.
Proof. intros c c' H. inversion H. reflexivity. Qed.

Theorem put_then_resolves : forall cfg pol s p ct b im inm s' o,
  store_inv s ->
  do_put cfg pol s p ct b im inm = (s', (S201, PEtag (EtItem o))) ->
  exists pc', resolve s' p = NItem pc' o.
Proof.
  intros cfg pol s p ct b im inm s' o Hs H.
  destruct (put_item_effect _ _ _ _ _ _ _ _ _ _ Hs H) as (pc & _ & Hr & _). eexists. exact Hr.
Qed.
