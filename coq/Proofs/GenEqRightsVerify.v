(* Tie T: the regenerated translation of `self._verify_user = ...` (authenticated.Rights.__init__,
   inherited by owner_only and owner_write) equals the hand model of Model/Rights.v. *)
From Coq Require Import List NArith Bool String.
Import ListNotations.
Require Import RV.Lib.PyStr RV.Model.Rights.
Require RV.Gen.RightsVerifyGen.
Open Scope N_scope.

Lemma Gen_verify_user_eq : forall t, RightsVerifyGen.verify_user t = verify_user t.
Proof. intros [t|]; reflexivity. Qed.
