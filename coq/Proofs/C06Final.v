(* C06: the statements of Props/C06.v, proved about the REGENERATED definitions of coq/Gen *)
From Coq Require Import List NArith Bool String.
Import ListNotations.
Require Import RV.Lib.PyStr RV.Model.Path RV.Proofs.PyStrLemmas RV.Proofs.PathProofs RV.Proofs.GenEqPath.
Require RV.Gen.PathGen RV.Gen.SyncTokGen.
Open Scope list_scope. Open Scope N_scope.

Definition gsafe (p : pystr) : Prop := PathGen.is_safe_path_component p = true.
Definition gfs_safe (p : pystr) : Prop := PathGen.is_safe_filesystem_path_component p = true.

Lemma c06_safe_component : forall p, gsafe p <->
  p <> [] /\ contains_char slash p = false /\ p <> [dot] /\ p <> [dot; dot].
Proof. intros p. unfold gsafe. rewrite Gen_is_safe_path_component_eq. apply safe_spec. Qed.

Lemma c06_sanitize : forall s, exists parts tr,
  Forall gsafe parts /\ PathGen.sanitize_path s = render parts ++ tr
  /\ (tr = [] \/ (tr = [slash] /\ parts <> [])).
Proof.
  intros s. rewrite Gen_sanitize_path_eq.
  destruct (sanitize_path_exists_shape s) as (parts & tr & H1 & H2 & H3).
  exists parts, tr. split; [|split; assumption].
  eapply Forall_impl; [|exact H1]. intros a Ha. unfold gsafe. rewrite Gen_is_safe_path_component_eq. exact Ha.
Qed.

Lemma c06_fs_component : forall p, gfs_safe p <->
  p <> [] /\ contains_char slash p = false /\ startswith p [dot] = false /\ endswith p [tilde] = false.
Proof. intros p. unfold gfs_safe. rewrite Gen_is_safe_filesystem_path_component_eq. apply fs_component_spec. Qed.

Lemma c06_to_fs : forall root sp f, root <> [] -> endswith root [slash] = false ->
  path_to_filesystem root sp = Some f ->
  exists parts, f = root ++ List.concat (map (cons slash) parts) /\ Forall gfs_safe parts.
Proof.
  intros root sp f H1 H2 H3. destruct (path_to_filesystem_confined root sp f H1 H2 H3) as (parts & E & Hall).
  exists parts. split; [exact E|]. eapply Forall_impl; [|exact Hall].
  intros a Ha. unfold gfs_safe. rewrite Gen_is_safe_filesystem_path_component_eq. exact Ha.
Qed.

Lemma c06_token : forall t, SyncTokGen.check_token_name t = true ->
  List.length t = 64%nat /\ forallb is_hex t = true /\ gfs_safe t.
Proof.
  intros t H. rewrite Gen_check_token_name_eq in H. unfold gfs_safe.
  rewrite Gen_is_safe_filesystem_path_component_eq. apply check_token_name_safe. exact H.
Qed.

Require Import RV.Proofs.PathIdem RV.Model.Shell RV.Proofs.ShellProofs.

Lemma c06_sanitize_idempotent : forall s, PathGen.sanitize_path (PathGen.sanitize_path s) = PathGen.sanitize_path s.
Proof. intros s. rewrite !Gen_sanitize_path_eq. apply sanitize_path_idempotent. Qed.

Lemma c06_comps : forall s, comps (PathGen.sanitize_path s) = safe_parts s /\ Forall gsafe (safe_parts s).
Proof.
  intros s. rewrite Gen_sanitize_path_eq. split; [apply comps_sanitize|].
  eapply Forall_impl; [|apply safe_parts_safe]. intros a Ha. unfold gsafe. rewrite Gen_is_safe_path_component_eq. exact Ha.
Qed.
