(* C12: the theorems about `run`, obtained from the weakest-precondition facts by wp_sound. *)
From Coq Require Import List NArith Bool Lia PeanoNat.
Import ListNotations.
Require Import RV.Lib.Prog RV.Model.Fs RV.Model.StorageOps RV.Proofs.ProgLemmas RV.Proofs.FsLemmas
  RV.Proofs.FsInv RV.Proofs.MonLemmas RV.Proofs.CacheCalm RV.Proofs.C12Mon RV.Proofs.C12Units RV.Proofs.C12Units2
  RV.Proofs.C12Units3 RV.Proofs.C12Create.
Open Scope N_scope.

(* well-formedness of the arguments of an operation (what the handlers guarantee by construction) *)
Definition unit_wf (u : unit_op) : Prop :=
  match u with
  | UUpload c h _ _ => coll_path c = true /\ is_safe h = true
  | UDeleteItem c h _ => coll_path c = true /\ is_safe h = true
  | UDeleteColl c => coll_path c = true
  | UMove c h c' h' _ _ _ => coll_path c = true /\ coll_path c' = true /\ is_safe h = true /\ is_safe h' = true
                             /\ prefix (c ++ [h]) c' = false /\ prefix (c' ++ [h']) c = false
  | USetMeta c _ => coll_path c = true
  | UMkdir p => coll_path p = true
  | UCreate p _ _ => exists par x, p = par ++ [x] /\ coll_path par = true /\ is_safe x = true
  end.
(* the collections the operation works in: they exist when the handler calls it *)
Definition unit_dirs (u : unit_op) : list path :=
  match u with
  | UUpload c _ _ _ | UDeleteItem c _ _ | USetMeta c _ => [c]
  | UMove c _ c' _ _ _ _ => [c; c']
  | UDeleteColl _ | UMkdir _ | UCreate _ _ _ => []
  end.
Definition dirs_exist (cs : list path) (s : fs) : Prop := forall c, In c cs -> look s c = Some D.

Lemma J12_start : forall cs s, dirs_exist cs s -> J12 cs s [].
Proof. intros cs s H. split; [split; [reflexivity | intros d []] | exact H]. Qed.

Lemma J12_weaken : forall cs cs' s t, (forall c, In c cs' -> In c cs) -> J12 cs s t -> J12 cs' s t.
Proof. intros cs cs' s t Hsub [Hm Hd]. split; [exact Hm | intros c Hc; apply Hd; apply Hsub; exact Hc]. Qed.

Lemma J12_durable : forall cs s t, J12 cs s t -> durable (done t).
Proof.
  intros cs s t [[Hb Hd] _]. split; [exact Hb|]. intros d Hin. destruct (Hd d Hin) as [H|[]]. exact H.
Qed.

Lemma unit_wp12 : forall lay u s t, unit_wf u -> J12 (unit_dirs u) s t ->
  WP (unit_prog lay u) (J12 (unit_dirs u)) s t.
Proof.
  intros lay u s t Hwf H. destruct u; cbn [unit_prog unit_dirs unit_wf] in *.
  - destruct Hwf. apply upload_c12; assumption.
  - destruct Hwf. apply delete_item_c12; assumption.
  - apply delete_coll_c12; assumption.
  - destruct Hwf as (H1 & H2 & H3 & H4 & H5 & H6). apply move_c12; assumption.
  - apply set_meta_c12; assumption.
  - apply mkdir_synced_c12; [apply coll_ne; exact Hwf | exact H].
  - destruct Hwf as (par & x & -> & Hp & Hx). apply create_c12; assumption.
Qed.

Lemma run_WP : forall (p : P) (Q : assertion step fs) s o, WP p Q s [] ->
  let r := machine_run o p (start s) in snd r = ONorm -> Q (c_st (fst r)) (c_tr (fst r)).
Proof.
  intros p Q s o H r Hn. subst r. unfold machine_run, start in *.
  pose proof (wp_sound step errno path (option node) fs apply look ls p Q TE TT s [] H o 0%nat 0) as Hs.
  unfold post_of in Hs. rewrite Hn in Hs. exact Hs.
Qed.

(* C12 for the storage operations, any fault oracle *)
Lemma c12_units : forall lay u s o, unit_wf u -> dirs_exist (unit_dirs u) s ->
  let r := machine_run o (unit_prog lay u) (start s) in snd r = ONorm -> durable (done (c_tr (fst r))).
Proof.
  intros lay u s o Hwf Hd r Hn.
  apply (J12_durable (unit_dirs u) (c_st (fst r))). apply (run_WP (unit_prog lay u) (J12 (unit_dirs u)) s o); [|exact Hn].
  apply unit_wp12; [exact Hwf | apply J12_start; exact Hd].
Qed.

(* _makedirs_synced of any path: every created level is followed by the fsync of its parent *)
Lemma c12_makedirs : forall p s o,
  let r := machine_run o (MD p) (start s) in snd r = ONorm -> durable (done (c_tr (fst r))).
Proof.
  intros p s o r Hn.
  assert (H : TQ (IG (GX [])) (c_st (fst r)) (c_tr (fst r))).
  { apply (run_WP (MD p) (TQ (IG (GX []))) s o); [|exact Hn]. unfold MD. apply md_WP. split; [reflexivity | intros d []]. }
  apply (J12_durable [] (c_st (fst r))). split; [exact H | intros c []].
Qed.

(* ------------------------------------------------------------------ requests *)
Definition request_wf (r : request) : Prop :=
  match r with
  | RPutItem c h _ _ _ => coll_path c = true /\ is_safe h = true
  | RDeleteItem c h _ => coll_path c = true /\ is_safe h = true
  | RDeleteColl c _ => coll_path c = true
  | RMove c h c' h' _ _ _ _ => coll_path c = true /\ coll_path c' = true /\ is_safe h = true /\ is_safe h' = true
                               /\ prefix (c ++ [h]) c' = false /\ prefix (c' ++ [h']) c = false
  | RPropPatch c _ => coll_path c = true
  | RMkcol p => coll_path p = true
  | RMkcalendar p _ => exists par x, p = par ++ [x] /\ coll_path par = true /\ is_safe x = true
  | RPutColl p _ _ _ => exists par x, p = par ++ [x] /\ coll_path par = true /\ is_safe x = true
  | RHome home _ => coll_path home = true
  end.
Definition request_dirs (r : request) : list path :=
  match r with
  | RPutItem c _ _ _ _ | RDeleteItem c _ _ | RDeleteColl c _ | RPropPatch c _ => [c]
  | RMove c _ c' _ _ _ _ _ => [c; c']
  | RMkcol _ | RMkcalendar _ _ | RPutColl _ _ _ _ | RHome _ _ => []
  end.

Section Req.
  Variable lay : layout.

  Lemma get_many_12 : forall cs c xs b s t, (forall c0, In c0 cs -> is_data c0 = true) -> In c cs -> coll_path c = true ->
    J12 cs s t -> WP (get_many lay c xs b) (J12 cs) s t.
  Proof.
    intros cs c xs b s t Hcd Hin Hc H. apply calm_WP; [|exact H].
    apply (calm_get_many _ (J12_ok cs Hcd) (J12_fail cs) c); [ | apply coll_ne; exact Hc | apply coll_is_data; exact Hc].
    intros s0 t0 [_ Hd]. apply Hd. exact Hin.
  Qed.

  (* every request kind except the listing after a whole-collection PUT and the predefined collections
     of a first login (see c12_putcoll, c12_home below) *)
  Lemma get_target_12 : forall cs c x s t, (forall c0, In c0 cs -> is_data c0 = true) -> In c cs -> coll_path c = true ->
    J12 cs s t -> WP (get_target lay c x) (J12 cs) s t.
  Proof.
    intros cs c x s t Hcd Hin Hc H. apply calm_WP; [|exact H].
    apply (calm_get_target _ (J12_ok cs Hcd) (J12_fail cs) c); [ | apply coll_ne; exact Hc | apply coll_is_data; exact Hc].
    intros s0 t0 [_ Hd]. apply Hd. exact Hin.
  Qed.

  Lemma J12_mon : forall cs s t, J12 cs s t -> TQ (IG (GX [])) s t.
  Proof. intros cs s t [Hm _]. exact Hm. Qed.

  (* every request kind except the listing after a whole-collection PUT and the predefined collections
     of a first login (see below) *)
  Lemma request_wp12 : forall r s t, request_wf r ->
    match r with RPutColl _ _ _ _ => False | RHome _ _ => False | _ => True end ->
    J12 (request_dirs r) s t -> WP (request_prog lay r) (TQ (IG (GX []))) s t.
  Proof.
    intros r s t Hwf Hk H. destruct r; cbn [request_prog request_dirs request_wf] in *.
    - (* RPutItem *) destruct Hwf as [Hc Hh].
      assert (Hcd : forall c0, In c0 [c] -> is_data c0 = true) by (intros c0 Hi; apply in1 in Hi; subst; apply coll_is_data; exact Hc).
      apply WP_read. intros n.
      assert (Hup : forall s1 t1, J12 [c] s1 t1 -> WP (upload lay c h v exp) (TQ (IG (GX []))) s1 t1).
      { intros s1 t1 H1. eapply WP_mono; [apply J12_mon | apply upload_c12; assumption]. }
      assert (Hgo : forall xs, WP (Seq (get_many lay c xs false) (upload lay c h v exp)) (TQ (IG (GX []))) s t).
      { intro xs. eapply WP_seq; [apply (get_many_12 [c]); auto; left; reflexivity | exact Hup]. }
      destruct n as [[|v0]|]; apply Hgo.
    - (* RDeleteItem *) destruct Hwf as [Hc Hh].
      assert (Hcd : forall c0, In c0 [c] -> is_data c0 = true) by (intros c0 Hi; apply in1 in Hi; subst; apply coll_is_data; exact Hc).
      eapply WP_seq; [apply (get_target_12 [c]); auto; left; reflexivity|]. intros s1 t1 H1.
      eapply WP_mono; [apply J12_mon | apply delete_item_c12; assumption].
    - (* RDeleteColl *)
      assert (Hcd : forall c0, In c0 [c] -> is_data c0 = true) by (intros c0 Hi; apply in1 in Hi; subst; apply coll_is_data; exact Hwf).
      cbn [seqs]. eapply WP_seq; [apply (get_many_12 [c]); auto; left; reflexivity|]. intros s1 t1 H1.
      eapply WP_seq; [apply (get_many_12 [c]); auto; left; reflexivity|]. intros s2 t2 H2.
      eapply WP_mono; [apply J12_mon | apply delete_coll_c12; [exact Hwf | eapply J12_weaken; [|exact H2]; intros c0 []]].
    - (* RMove *) destruct Hwf as (H1 & H2 & H3 & H4 & H5 & H6).
      assert (Hcd : forall c0, In c0 [c; c'] -> is_data c0 = true) by (intros c0 [<- | [<- | []]]; apply coll_is_data; assumption).
      cbn [seqs]. eapply WP_seq; [apply (get_target_12 [c; c']); auto; left; reflexivity|]. intros s1 t1 Hs1.
      eapply WP_seq with (M := J12 [c; c']).
      { apply WP_read. intros [[|v0]|]; try (apply (get_target_12 [c; c']); auto; right; left; reflexivity);
          (destruct (path_eqb c c'); try exact Hs1; apply (get_many_12 [c; c']); auto; right; left; reflexivity). }
      intros s2 t2 Hs2. eapply WP_mono; [apply J12_mon | apply move_c12; assumption].
    - (* RPropPatch *) eapply WP_mono; [apply J12_mon | apply set_meta_c12; exact H].
    - (* RMkcol *) unfold create_collection, create_collection_gen. destruct H as [Hm _].
      apply (md_WP (GX [])). exact Hm.
    - (* RMkcalendar *) destruct Hwf as (par & x & -> & Hp & Hx). eapply WP_mono; [apply J12_mon | apply create_c12; assumption].
    - contradiction.
    - contradiction.
  Qed.
End Req.

Lemma c12_requests : forall lay r s o, request_wf r ->
  match r with RPutColl _ _ _ _ => False | RHome _ _ => False | _ => True end ->
  dirs_exist (request_dirs r) s ->
  let res := machine_run o (request_prog lay r) (start s) in snd res = ONorm -> durable (done (c_tr (fst res))).
Proof.
  intros lay r s o Hwf Hk Hd res Hn.
  apply (J12_durable [] (c_st (fst res))). split; [|intros c []].
  apply (run_WP (request_prog lay r) (TQ (IG (GX []))) s o); [|exact Hn].
  apply request_wp12; [exact Hwf | exact Hk | apply J12_start; exact Hd].
Qed.

(* Contrapositive, for the record: whatever the oracle does (e.g. it makes an fsync fail), an operation whose
   executed steps are not durable does not end normally -- a failed flush is never acknowledged. *)
Lemma c12_unflushed_aborts : forall lay u s o, unit_wf u -> dirs_exist (unit_dirs u) s ->
  let r := machine_run o (unit_prog lay u) (start s) in ~ durable (done (c_tr (fst r))) -> snd r <> ONorm.
Proof. intros lay u s o Hwf Hd r Hnd Hn. apply Hnd. apply (c12_units lay u s o Hwf Hd Hn). Qed.
