(* C20 -- exit signals: "shuts down cleanly" for every sequence of exit signals *)
From Coq Require Import List NArith Bool Lia.
Import ListNotations.
Require Import RV.Model.ServerMain.

Lemma fold_keeps : forall acts p, forallb keeps_draining acts = true -> forallb (fun a => negb (installs_ignore a)) acts = true ->
  installed p = HShutdown -> alive p = Running ->
  installed (fold_left do_action acts p) = HShutdown /\ alive (fold_left do_action acts p) = Running /\
  (sock_closed p = true -> sock_closed (fold_left do_action acts p) = true).
Proof.
  induction acts as [|a r IH]; intros p Hk Hi Hin Hal; simpl in *; [auto|].
  apply andb_true_iff in Hk. destruct Hk as [Hk1 Hk2]. apply andb_true_iff in Hi. destruct Hi as [Hi1 Hi2].
  destruct a as [|h|]; simpl in *.
  - destruct (IH (mkP (installed p) true (alive p)) Hk2 Hi2 Hin Hal) as [A [B C]]. auto.
  - destruct h; try discriminate. apply (IH (mkP HShutdown (sock_closed p) (alive p)) Hk2 Hi2 eq_refl Hal).
  - apply IH; auto.
Qed.

Lemma fold_closes : forall acts p, existsb closes acts = true ->
  (forall q, sock_closed q = true -> forall a, sock_closed (do_action q a) = true) ->
  sock_closed (fold_left do_action acts p) = true.
Proof.
  induction acts as [|a r IH]; intros p He Hmono; simpl in *; [discriminate|].
  assert (Hstay : forall l q, sock_closed q = true -> sock_closed (fold_left do_action l q) = true).
  { induction l as [|x l IHl]; intros q Hq; simpl; [exact Hq|]. apply IHl. apply Hmono. exact Hq. }
  apply orb_true_iff in He. destruct He as [He|He].
  - destruct a; try discriminate. simpl. apply Hstay. reflexivity.
  - apply IH; auto.
Qed.

Lemma closed_mono : forall q, sock_closed q = true -> forall a, sock_closed (do_action q a) = true.
Proof. intros q Hq a. destruct a; simpl; auto. Qed.

(* For EVERY handler body that closes the socket and never installs a handler that leaves serve() (nor ignores the
   signal before closing...), ANY number n >= 1 of exit signals leaves the process draining: still inside serve(), the
   shutdown requested, the same handler installed. *)
Theorem signals_keep_draining : forall acts n, forallb keeps_draining acts = true ->
  forallb (fun a => negb (installs_ignore a)) acts = true -> existsb closes acts = true ->
  let p := deliver_n acts (S n) proc0 in
  alive p = Running /\ sock_closed p = true /\ installed p = HShutdown.
Proof.
  intros acts n Hk Hi Hc.
  assert (Hone : forall p, installed p = HShutdown -> alive p = Running ->
                 let q := deliver acts p in alive q = Running /\ sock_closed q = true /\ installed q = HShutdown).
  { intros p Hin Hal. unfold deliver. rewrite Hal, Hin. destruct (fold_keeps acts p Hk Hi Hin Hal) as [A [B _]].
    split; [exact B|]. split; [|exact A]. apply fold_closes; [exact Hc|apply closed_mono]. }
  assert (Hmany : forall k p, installed p = HShutdown -> alive p = Running -> sock_closed p = true ->
                  let q := deliver_n acts k p in alive q = Running /\ sock_closed q = true /\ installed q = HShutdown).
  { induction k as [|k IH]; intros p Hin Hal Hcl; simpl; [auto|].
    destruct (Hone p Hin Hal) as [A [B C]]. apply IH; auto. }
  simpl. destruct (Hone proc0 eq_refl eq_refl) as [A [B C]]. apply Hmany; auto.
Qed.

(* the handler of the code as it is *)
Theorem shutdown_handler_model_ok : forall n,
  let p := deliver_n shutdown_handler_model (S n) proc0 in
  alive p = Running /\ sock_closed p = true /\ installed p = HShutdown.
Proof. intro n. apply signals_keep_draining; reflexivity. Qed.

(* delivering a further signal to a draining process changes NOTHING *)
Theorem further_signal_is_noop : forall p, installed p = HShutdown -> alive p = Running -> sock_closed p = true ->
  deliver shutdown_handler_model p = p.
Proof. intros [i c a] Hi Ha Hc. simpl in *. subst. reflexivity. Qed.

(* sensitivity: a handler that re-installs the start-up handler before closing leaves serve() on the SECOND signal *)
Example reinstalling_handler_breaks :
  let bad := [AInstall HExit; ACloseShutdown] in
  alive (deliver_n bad 1 proc0) = Running /\ alive (deliver_n bad 2 proc0) = Exited 1.
Proof. vm_compute. split; reflexivity. Qed.
