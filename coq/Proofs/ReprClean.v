(* A reserved-path invariant of fault-free runs (default cache layout): no temp directory is left, the cache
   folders are directories, the cache / history entries are files.  With it every storage operation ends
   normally (Proofs/ReprProgress2.v) and the invariant is re-established at the end. *)
From Coq Require Import List NArith Bool Lia.
Import ListNotations.
Require Import RV.Lib.Prog RV.Model.Fs RV.Model.StorageOps RV.Proofs.FsLemmas RV.Proofs.FsInv RV.Proofs.NoFault
  RV.Proofs.C12Units RV.Proofs.ReprProgress.
Open Scope N_scope.

Definition is_tmp (x : name) : bool := match x with Tmp _ => true | _ => false end.
Definition cdir_name (x : name) : bool := match x with Cache | CItem | CHist => true | _ => false end.
Definition centry_dir (y : name) : bool := match y with CItem | CHist => true | _ => false end.

(* what may exist at q *)
Definition kind_ok (q : path) (n : node) : Prop :=
  existsb is_tmp q = false
  /\ (forall q' x, q = q' ++ [x] -> cdir_name x = true -> n = D)
  /\ (forall q' y x, q = q' ++ [y; x] -> centry_dir y = true -> exists v, n = F v).

Definition CL (s : fs) : Prop := fs_inv_weak s /\ forall q n, look s q = Some n -> kind_ok q n.

Lemma CL_tmp_free : forall s, CL s -> tmp_free s.
Proof.
  intros s [_ H] q k. destruct (look s (q ++ [Tmp k])) eqn:E; [|reflexivity]. exfalso.
  destruct (H _ _ E) as [Ht _]. rewrite existsb_app in Ht. cbn in Ht. rewrite orb_true_r in Ht. discriminate.
Qed.

Lemma CL_cdir : forall s q x, CL s -> cdir_name x = true -> look s (q ++ [x]) = None \/ look s (q ++ [x]) = Some D.
Proof.
  intros s q x [_ H] Hx. destruct (look s (q ++ [x])) as [n|] eqn:E; [|left; reflexivity]. right.
  destruct (H _ _ E) as (_ & Hd & _). rewrite (Hd q x eq_refl Hx). reflexivity.
Qed.

Lemma CL_entry : forall s q y x, CL s -> centry_dir y = true -> look s (q ++ [y; x]) <> Some D.
Proof.
  intros s q y x [_ H] Hy E. destruct (H _ _ E) as (_ & _ & He). destruct (He q y x eq_refl Hy) as [v Hv]. discriminate.
Qed.

Lemma CL_upd : forall s q v s', CL s -> is_upd s q v s' -> fs_inv_weak s' ->
  (forall n, v = Some n -> kind_ok q n) -> CL s'.
Proof.
  intros s q v s' [_ H] Hu Hi Hk. split; [exact Hi|]. intros r n Hr. rewrite (Hu r) in Hr.
  destruct (path_eqb r q) eqn:E; [apply path_eqb_eq in E; subst r; apply Hk; exact Hr | apply H; exact Hr].
Qed.

Lemma CL_md : forall s p s', CL s -> md_post s p s' -> fs_inv_weak s' ->
  (forall r, prefix r p = true -> r <> [] -> kind_ok r D) -> CL s'.
Proof.
  intros s p s' [_ H] Hm Hi Hk. split; [exact Hi|]. intros r n Hr. rewrite (Hm r) in Hr.
  destruct (prefix r p && nonempty r) eqn:E.
  - apply andb_true_iff in E. destruct E as [E1 E2]. inversion Hr; subst n. apply Hk; [exact E1 | apply nonempty_true; exact E2].
  - apply H. exact Hr.
Qed.

(* ------------------------------------------------------------------ kinds of the paths the operations write *)
Lemma safe_no_tmp : forall l, forallb is_safe l = true -> existsb is_tmp l = false.
Proof.
  induction l as [|y l IH]; intro H; [reflexivity|]. cbn in H. apply andb_true_iff in H. destruct H as [Hy Hl].
  destruct y; try discriminate. cbn. apply IH. exact Hl.
Qed.
Lemma coll_no_tmp : forall c, coll_path c = true -> existsb is_tmp c = false.
Proof.
  intros c H. destruct c as [|x l]; [discriminate|]. destruct x; try discriminate. cbn in *. apply safe_no_tmp. exact H.
Qed.

Lemma coll_last_safe : forall c q x, coll_path c = true -> c = q ++ [x] -> x = Root \/ is_safe x = true.
Proof.
  intros [|r c] q x H E; [discriminate|]. destruct r; try discriminate. cbn in H.
  destruct q as [|y q]; cbn in E; inversion E; subst.
  - left. reflexivity.
  - right. rewrite forallb_app in H. apply andb_true_iff in H. destruct H as [_ H]. cbn in H. apply andb_true_iff in H. apply H.
Qed.

Lemma snoc_inj : forall (a b : path) x y, a ++ [x] = b ++ [y] -> a = b /\ x = y.
Proof. intros. apply app_inj_tail. assumption. Qed.

Lemma snoc2_inj : forall (a b : path) x1 x2 y1 y2, a ++ [x1; x2] = b ++ [y1; y2] -> a = b /\ x1 = y1 /\ x2 = y2.
Proof.
  intros a b x1 x2 y1 y2 H. change (a ++ [x1; x2]) with (a ++ [x1] ++ [x2]) in H. change (b ++ [y1; y2]) with (b ++ [y1] ++ [y2]) in H.
  rewrite !app_assoc in H. apply app_inj_tail in H. destruct H as [H ->]. apply app_inj_tail in H. destruct H as [-> ->]. auto.
Qed.

(* a data directory *)
Lemma kind_coll_prefix : forall c r, coll_path c = true -> prefix r c = true -> r <> [] -> kind_ok r D.
Proof.
  intros c r Hc Hr Hne. apply prefix_spec in Hr. destruct Hr as [e ->].
  pose proof (coll_no_tmp _ Hc) as Ht. rewrite existsb_app in Ht. apply orb_false_iff in Ht. destruct Ht as [Ht _].
  assert (Hall : forall z, In z r -> z = Root \/ is_safe z = true).
  { intros z Hz. destruct r as [|r0 r]; [contradiction|]. destruct r0; try discriminate. cbn in Hc.
    destruct Hz as [<- | Hz]; [left; reflexivity|]. right. rewrite forallb_app in Hc. apply andb_true_iff in Hc. destruct Hc as [Hc _].
    rewrite forallb_forall in Hc. apply Hc. exact Hz. }
  split; [exact Ht|]. split.
  - intros q' x E Hx. reflexivity.
  - intros q' y x E Hy. exfalso. assert (Hin : In y r) by (rewrite E; apply in_or_app; right; left; reflexivity).
    destruct (Hall y Hin) as [-> | Hs]; [discriminate | destruct y; discriminate].
Qed.

(* the item file c/h, the props file *)
Lemma kind_item : forall c h v, coll_path c = true -> (is_safe h = true \/ h = Props) -> kind_ok (c ++ [h]) (F v).
Proof.
  intros c h v Hc Hh. split; [|split].
  - rewrite existsb_app, (coll_no_tmp _ Hc). cbn. destruct Hh as [Hh | ->]; [destruct h; try discriminate|]; reflexivity.
  - intros q' x E Hx. apply snoc_inj in E. destruct E as [_ <-]. destruct Hh as [Hh | ->]; [destruct h; discriminate | discriminate].
  - intros q' y x E Hy. exfalso. change (q' ++ [y; x]) with (q' ++ [y] ++ [x]) in E. rewrite app_assoc in E. apply snoc_inj in E.
    destruct E as [E _]. destruct (coll_last_safe c q' y Hc E) as [-> | Hs]; [discriminate | destruct y; discriminate].
Qed.

(* the cache folders c/.Radicale.cache and c/.Radicale.cache/<sub>, an entry in one of them *)
Lemma kind_cache1 : forall c, coll_path c = true -> kind_ok (c ++ [Cache]) D.
Proof.
  intros c Hc. split; [rewrite existsb_app, (coll_no_tmp _ Hc); reflexivity|]. split; [reflexivity|].
  intros q' y x E Hy. exfalso. change (q' ++ [y; x]) with (q' ++ [y] ++ [x]) in E. rewrite app_assoc in E. apply snoc_inj in E.
  destruct E as [E _]. destruct (coll_last_safe c q' y Hc E) as [-> | Hs]; [discriminate | destruct y; discriminate].
Qed.
Lemma kind_cache2 : forall c sub, coll_path c = true -> centry_dir sub = true -> kind_ok (c ++ [Cache; sub]) D.
Proof.
  intros c sub Hc Hs. split; [rewrite existsb_app, (coll_no_tmp _ Hc); destruct sub; try discriminate; reflexivity|]. split; [reflexivity|].
  intros q' y x E Hy. exfalso. apply snoc2_inj in E. destruct E as (_ & <- & _). discriminate.
Qed.
Lemma kind_cache_entry : forall c sub x v, coll_path c = true -> centry_dir sub = true -> is_safe x = true ->
  kind_ok ((c ++ [Cache; sub]) ++ [x]) (F v).
Proof.
  intros c sub x v Hc Hs Hx. split; [|split].
  - rewrite !existsb_app, (coll_no_tmp _ Hc). destruct sub; try discriminate; destruct x; try discriminate; reflexivity.
  - intros q' z E Hz. apply snoc_inj in E. destruct E as [_ <-]. destruct x; discriminate.
  - intros q' y z E Hy. eexists. reflexivity.
Qed.

Lemma kind_cache_chain : forall c sub r, coll_path c = true -> centry_dir sub = true ->
  prefix r (c ++ [Cache; sub]) = true -> r <> [] -> kind_ok r D.
Proof.
  intros c sub r Hc Hs Hr Hne. change (c ++ [Cache; sub]) with (c ++ [Cache] ++ [sub]) in Hr. rewrite app_assoc in Hr.
  rewrite prefix_of_snoc in Hr. apply orb_true_iff in Hr. destruct Hr as [Hr | Hr].
  - apply path_eqb_eq in Hr. subst r. rewrite <- app_assoc. apply kind_cache2; assumption.
  - rewrite prefix_of_snoc in Hr. apply orb_true_iff in Hr. destruct Hr as [Hr | Hr].
    + apply path_eqb_eq in Hr. subst r. apply kind_cache1. exact Hc.
    + apply (kind_coll_prefix c); assumption.
Qed.
