(* C02, part 4: move. *)
From Coq Require Import List NArith Bool Lia PeanoNat.
Import ListNotations.
Require Import RV.Lib.Prog RV.Model.Fs RV.Model.StorageOps RV.Proofs.ProgLemmas RV.Proofs.FsLemmas
  RV.Proofs.FsInv RV.Proofs.CacheCalm RV.Proofs.C12Units RV.Proofs.C12Units2 RV.Proofs.C02Base RV.Proofs.C02Units
  RV.Proofs.C02Units2.
Open Scope N_scope.

Section Move.
  Variable lay : layout.
  Variables (c c' : path) (h h' : name) (v : N) (exp exp' : list name).
  Hypothesis Hc : coll_path c = true.
  Hypothesis Hc' : coll_path c' = true.
  Hypothesis Hsep1 : prefix (c ++ [h]) c' = false.
  Hypothesis Hsep2 : prefix (c' ++ [h']) c = false.

  Lemma move_c02 : forall s0 t, fs_inv_weak s0 -> look s0 c = Some D -> look s0 c' = Some D ->
    let u := UMove c h c' h' v exp exp' in
    machine_wp (move lay c h c' h' v exp exp') (AFT u s0) (fun _ => OUT u s0) (OUT u s0) s0 t.
  Proof.
    intros s0 t Hi Hd Hd' u.
    assert (Hcd : forall c0, In c0 [c; c'] -> is_data c0 = true) by (intros c0 [<- | [<- | []]]; apply coll_is_data; assumption).
    pose proof (coll_ne c Hc) as Hne. pose proof (coll_ne c' Hc') as Hne'.
    pose proof (coll_is_data c Hc) as Hdat. pose proof (coll_is_data c' Hc') as Hdat'.
    set (a := c ++ [h]). set (b := c' ++ [h']).
    unfold move. fold a b. cbn [seqs]. apply mw_seq. apply mw_catch.
    apply mw_do; [apply OUT_before; exact Hi | intro e; apply mw_raise; apply OUT_before; exact Hi |].
    intros s1 Ha.
    assert (Hi1 : fs_inv_weak s1) by (eapply apply_inv; eauto).
    assert (Hp1 : dpost (ideal u s0) s1).
    { intros q Hq. cbn [ideal u]. fold a b. cbn [apply] in Ha. inv_apply Ha; subst s1; reflexivity. }
    assert (Hd1 : forall c0, In c0 [c; c'] -> look s1 c0 = Some D).
    { intros c0 Hin. rewrite (frame _ _ _ _ Ha).
      - destruct Hin as [<- | [<- | []]]; assumption.
      - cbn [touch]. apply orb_false_iff. destruct Hin as [<- | [<- | []]]; split;
          [unfold a; apply prefix_snoc_self_false | exact Hsep2 | exact Hsep1 | unfold b; apply prefix_snoc_self_false]. }
    assert (Hdir : forall s t, J02 s1 [c; c'] s t -> look s c = Some D) by (intros s2 t2 (_ & _ & Hx); apply Hx; left; reflexivity).
    assert (Hdir' : forall s t, J02 s1 [c; c'] s t -> look s c' = Some D) by (intros s2 t2 (_ & _ & Hx); apply Hx; right; left; reflexivity).
    pose proof (J02_ok s1 [c; c'] Hcd) as Jok. pose proof (J02_fail s1 [c; c']) as Jf.
    apply (tail_after u s0 s1 [c; c']); [ | exact Hi1 | exact Hp1 | exact Hd1].
    apply calm_seq; [apply (calm_fsyncD _ Jok Jf)|].
    apply calm_seq; [destruct (path_eqb c c'); [apply calm_ret | apply (calm_fsyncD _ Jok Jf)]|].
    apply calm_seq; [apply (calm_MD_cache _ Jok Jf c' Hdir' Hne' Hdat')|].
    apply calm_seq.
    { apply (calm_try _ Jok Jf).
      + cbn [nondata_step]. rewrite !nd_cache. reflexivity.
      + apply calm_seq; [apply (calm_MD_cache _ Jok Jf c' Hdir' Hne' Hdat')|].
        destruct (path_eqb (cache_dir lay CItem c) (cache_dir lay CItem c')); [apply calm_ret | apply (calm_MD_cache _ Jok Jf c Hdir Hne Hdat)].
      + intro e. apply calm_ret. }
    apply calm_seq; [apply (calm_update_history _ Jok Jf c' Hdir' Hne' Hdat')|].
    apply calm_seq; [apply (calm_update_history _ Jok Jf c Hdir Hne Hdat)|].
    apply calm_seq; [apply (calm_clean_history _ Jok Jf c')|].
    destruct (path_eqb c c'); [apply calm_ret | apply (calm_clean_history _ Jok Jf c)].
  Qed.
End Move.
