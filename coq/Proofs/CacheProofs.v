(* Proofs/CacheProofs.v -- lemmas about Model/Cache.v (property C13). *)
From Coq Require Import List NArith Bool Lia.
Import ListNotations.
Require Import RV.Model.Cache.
Open Scope N_scope.

(* ------------------------------------------------------------------ association lists *)
Section AMapLemmas.
  Context {K V : Type}.
  Variable keqb : K -> K -> bool.
  Hypothesis keqb_spec : forall a b, keqb a b = true <-> a = b.

  Lemma keqb_refl : forall a, keqb a a = true.
  Proof. intro a. apply keqb_spec. reflexivity. Qed.

  Lemma keqb_false : forall a b, a <> b -> keqb a b = false.
  Proof. intros a b Hne. destruct (keqb a b) eqn:E; [apply keqb_spec in E; contradiction | reflexivity]. Qed.

  Lemma alook_filter_key : forall (q : K -> bool) (m : list (K * V)) k,
    alook keqb (filter (fun kv => q (fst kv)) m) k = if q k then alook keqb m k else None.
  Proof.
    intros q m k. induction m as [|[k' v] r IH]; cbn [filter alook fst].
    - destruct (q k); reflexivity.
    - destruct (q k') eqn:Eq; cbn [alook].
      + destruct (keqb k' k) eqn:Ek.
        * apply keqb_spec in Ek. subst k'. rewrite Eq. reflexivity.
        * exact IH.
      + destruct (keqb k' k) eqn:Ek.
        * apply keqb_spec in Ek. subst k'. rewrite Eq in IH |- *. exact IH.
        * exact IH.
  Qed.

  Lemma alook_adel : forall (m : list (K * V)) k k',
    alook keqb (adel keqb m k) k' = if keqb k' k then None else alook keqb m k'.
  Proof.
    intros m k k'. unfold adel.
    rewrite (alook_filter_key (fun x => negb (keqb x k))).
    destruct (keqb k' k); reflexivity.
  Qed.

  Lemma alook_aput : forall (m : list (K * V)) k v k',
    alook keqb (aput keqb m k v) k' = if keqb k k' then Some v else alook keqb m k'.
  Proof.
    intros m k v k'. unfold aput. cbn [alook].
    destruct (keqb k k') eqn:E; [reflexivity|].
    rewrite alook_adel. destruct (keqb k' k) eqn:E2; [|reflexivity].
    apply keqb_spec in E2. subst k'. rewrite keqb_refl in E. discriminate.
  Qed.
End AMapLemmas.

Lemma fkey_eqb_spec : forall a b, fkey_eqb a b = true <-> a = b.
Proof.
  intros [c h] [c' h']. unfold fkey_eqb. cbn [fst snd]. rewrite andb_true_iff, !N.eqb_eq.
  split; [intros [-> ->]; reflexivity | intros E; inversion E; auto].
Qed.

Lemma loc_eqb_spec : forall a b, loc_eqb a b = true <-> a = b.
Proof.
  intros [|m] [|n]; cbn; split; intro H; try reflexivity; try discriminate.
  - apply N.eqb_eq in H. subst. reflexivity.
  - inversion H. apply N.eqb_refl.
Qed.

Lemma ekey_eqb_spec : forall a b, ekey_eqb a b = true <-> a = b.
Proof.
  intros [[l c] h] [[l' c'] h']. unfold ekey_eqb. rewrite !andb_true_iff, !N.eqb_eq, loc_eqb_spec.
  split; [intros [[-> ->] ->]; reflexivity | intros E; inversion E; auto].
Qed.

Lemma ckey_eqb_spec : forall a b, ckey_eqb a b = true <-> a = b.
Proof.
  intros [v x|v s m] [w y|w t n]; cbn [ckey_eqb]; rewrite ?andb_true_iff, ?N.eqb_eq;
    split; intro H; try discriminate.
  - destruct H as [-> ->]. reflexivity.
  - inversion H. auto.
  - destruct H as [[-> ->] ->]. reflexivity.
  - inversion H. auto.
Qed.

(* ------------------------------------------------------------------ soundness of caches *)
Section Sound.
  Context {D : Type}.
  Variable derive : N -> content -> option D.
  Variable U : file -> Prop.          (* the file versions that exist at some time of the history *)

  (* [k] is the key the server computes for [f] in one of the two modes (under k's own version) *)
  Definition key_for (f : file) (k : ckey) : Prop :=
    k = KHash (key_ver k) (f_bytes f) \/ k = KStat (key_ver k) (f_size f) (f_mtime f).

  (* an entry the server itself wrote at some time: for some file version, in some mode, under some version *)
  Definition entry_sound (e : @entry D) : Prop :=
    match e with
    | EOk k d => exists f, U f /\ key_for f k /\ derive (key_ver k) (f_bytes f) = Some d
    | EGarbage => True
    | EEmpty => False
    end.

  Definition cache_sound (ca : @cache D) : Prop :=
    forall l c h e, clook ca l c h = Some e -> entry_sound e.

  (* the stat-mode assumption: size and mtime identify the bytes among the file versions of the history *)
  Definition stat_ok : Prop :=
    forall f1 f2, U f1 -> U f2 -> f_size f1 = f_size f2 -> f_mtime f1 = f_mtime f2 -> f_bytes f1 = f_bytes f2.

  Definition mode_ok (g : cfg) : Prop := g_mode g = MStat -> stat_ok.

  Definition files_in (fs : files) : Prop := forall c h f, flook fs c h = Some f -> U f.

  Lemma key_of_ver : forall g f, key_ver (key_of g f) = g_ver g.
  Proof. intros g f. unfold key_of. destruct (g_mode g); reflexivity. Qed.

  Lemma key_for_key_of : forall g f, key_for f (key_of g f).
  Proof. intros g f. unfold key_for, key_of. destruct (g_mode g); cbn; auto. Qed.

  Lemma fresh_entry_sound : forall g f d,
    U f -> derive (g_ver g) (f_bytes f) = Some d -> entry_sound (EOk (key_of g f) d).
  Proof.
    intros g f d HU Hd. cbn. exists f. rewrite key_of_ver. auto using key_for_key_of.
  Qed.

  (* the central fact: a sound entry whose key equals the current key of the file holds the file's derivation *)
  Lemma matching_entry : forall g f k d,
    mode_ok g -> U f -> entry_sound (EOk k d) -> k = key_of g f ->
    derive (g_ver g) (f_bytes f) = Some d.
  Proof.
    intros g f k d Hm HU [f' [HU' [Hk Hd]]] ->.
    rewrite key_of_ver in *. unfold key_for in Hk. rewrite key_of_ver in Hk.
    unfold mode_ok in Hm. unfold key_of in Hk. destruct (g_mode g) eqn:Em.
    - destruct Hk as [Hk|Hk]; [|discriminate]. inversion Hk as [Hb]. rewrite Hb. exact Hd.
    - destruct Hk as [Hk|Hk]; [discriminate|]. inversion Hk as [[Hs Ht]].
      rewrite (Hm eq_refl f f' HU HU' Hs Ht). exact Hd.
  Qed.

  Lemma load_hit_sound : forall g ca c h f d,
    mode_ok g -> U f -> cache_sound ca ->
    load_item_cache g ca c h (key_of g f) = LHit d -> derive (g_ver g) (f_bytes f) = Some d.
  Proof.
    intros g ca c h f d Hm HU Hs. unfold load_item_cache.
    destruct (clook ca (g_loc g) c h) as [[k d'| |]|] eqn:El; try discriminate.
    destruct (ckey_eqb k (key_of g f)) eqn:Ek; [|discriminate].
    intros E. inversion E. subst d'. apply ckey_eqb_spec in Ek.
    eapply matching_entry; eauto.
  Qed.

  Lemma load_no_raise : forall g ca c h key, cache_sound ca -> load_item_cache g ca c h key <> @LRaise D.
  Proof.
    intros g ca c h key Hs. unfold load_item_cache.
    destruct (clook ca (g_loc g) c h) as [[k d'| |]|] eqn:El; try discriminate.
    - destruct (ckey_eqb k key); discriminate.
    - exfalso. exact (Hs _ _ _ _ El).
  Qed.

  (* ---------------------------------------------------------------- cache writes keep soundness *)
  Lemma clook_aput : forall (ca : @cache D) k e l c h,
    clook (aput ekey_eqb ca k e) l c h = if ekey_eqb k (l, c, h) then Some e else clook ca l c h.
  Proof. intros. unfold clook. apply alook_aput. exact ekey_eqb_spec. Qed.

  Lemma clook_adel : forall (ca : @cache D) k l c h,
    clook (adel ekey_eqb ca k) l c h = if ekey_eqb (l, c, h) k then None else clook ca l c h.
  Proof. intros. unfold clook. apply alook_adel. exact ekey_eqb_spec. Qed.

  Lemma clook_filter : forall (q : ekey -> bool) (ca : @cache D) l c h,
    clook (filter (fun kv => q (fst kv)) ca) l c h = if q (l, c, h) then clook ca l c h else None.
  Proof. intros. unfold clook. apply alook_filter_key. exact ekey_eqb_spec. Qed.

  Lemma sound_aput : forall ca k e, cache_sound ca -> entry_sound e -> cache_sound (aput ekey_eqb ca k e).
  Proof.
    intros ca k e Hs He l c h e' Hl. rewrite clook_aput in Hl.
    destruct (ekey_eqb k (l, c, h)); [inversion Hl; subst; exact He | eapply Hs; eauto].
  Qed.

  Lemma sound_adel : forall ca k, cache_sound ca -> cache_sound (adel ekey_eqb ca k).
  Proof.
    intros ca k Hs l c h e Hl. rewrite clook_adel in Hl.
    destruct (ekey_eqb (l, c, h) k); [discriminate | eapply Hs; eauto].
  Qed.

  Lemma sound_filter : forall (q : ekey -> bool) ca,
    cache_sound ca -> cache_sound (filter (fun kv => q (fst kv)) ca).
  Proof.
    intros q ca Hs l c h e Hl. rewrite clook_filter in Hl.
    destruct (q (l, c, h)); [eapply Hs; eauto | discriminate].
  Qed.

  Lemma sound_nil : cache_sound [].
  Proof. intros l c h e Hl. discriminate. Qed.

  Lemma sound_store : forall g ca c h f d,
    cache_sound ca -> U f -> derive (g_ver g) (f_bytes f) = Some d ->
    cache_sound (store_item_cache g ca c h (key_of g f) d).
  Proof. intros. unfold store_item_cache. apply sound_aput; auto using fresh_entry_sound. Qed.

  Lemma sound_clean : forall g fs ca c, cache_sound ca -> cache_sound (clean_item_cache g fs ca c).
  Proof.
    intros g fs ca c Hs. unfold clean_item_cache.
    apply (sound_filter (fun k => match k with (l, c', h) =>
             negb (loc_eqb l (g_loc g) && N.eqb c' c && match flook fs c h with None => true | Some _ => false end) end)).
    exact Hs.
  Qed.

  (* ---------------------------------------------------------------- files *)
  Lemma flook_aput : forall (fs : files) k f c h,
    flook (aput fkey_eqb fs k f) c h = if fkey_eqb k (c, h) then Some f else flook fs c h.
  Proof. intros. unfold flook. apply alook_aput. exact fkey_eqb_spec. Qed.

  Lemma flook_adel : forall (fs : files) k c h,
    flook (adel fkey_eqb fs k) c h = if fkey_eqb (c, h) k then None else flook fs c h.
  Proof. intros. unfold flook. apply alook_adel. exact fkey_eqb_spec. Qed.

  Lemma flook_filter : forall (q : fkey -> bool) (fs : files) c h,
    flook (filter (fun kv => q (fst kv)) fs) c h = if q (c, h) then flook fs c h else None.
  Proof. intros. unfold flook. apply alook_filter_key. exact fkey_eqb_spec. Qed.

  Lemma files_in_aput : forall fs k f, files_in fs -> U f -> files_in (aput fkey_eqb fs k f).
  Proof.
    intros fs k f Hf HU c h f' Hl. rewrite flook_aput in Hl.
    destruct (fkey_eqb k (c, h)); [inversion Hl; subst; exact HU | eapply Hf; eauto].
  Qed.

  Lemma files_in_adel : forall fs k, files_in fs -> files_in (adel fkey_eqb fs k).
  Proof.
    intros fs k Hf c h f' Hl. rewrite flook_adel in Hl.
    destruct (fkey_eqb (c, h) k); [discriminate | eapply Hf; eauto].
  Qed.

  Lemma files_in_filter : forall (q : fkey -> bool) fs, files_in fs -> files_in (filter (fun kv => q (fst kv)) fs).
  Proof.
    intros q fs Hf c h f' Hl. rewrite flook_filter in Hl.
    destruct (q (c, h)); [eapply Hf; eauto | discriminate].
  Qed.

  Lemma files_in_nil : files_in [].
  Proof. intros c h f Hl. discriminate. Qed.

  (* ---------------------------------------------------------------- _get *)
  Lemma get_at_correct : forall g lk cl fs ca ca2 c h,
    mode_ok g -> files_in fs -> cache_sound ca -> cache_sound ca2 ->
    o_res (get_at derive g lk cl fs ca ca2 c h) = cold derive g (flook fs c h)
    /\ cache_sound (o_cache (get_at derive g lk cl fs ca ca2 c h)).
  Proof.
    intros g lk cl fs ca ca2 c h Hm Hf Hs Hs2. unfold get_at, cold.
    destruct (flook fs c h) as [f|] eqn:Ef; [|cbn [o_res o_cache]; auto].
    assert (HU : U f) by (eapply Hf; eauto).
    destruct (load_item_cache g ca c h (key_of g f)) as [d| |] eqn:E1.
    - cbn [o_res o_cache]. rewrite (load_hit_sound _ _ _ _ _ _ Hm HU Hs E1). auto.
    - set (cb := match lk with LkR => ca2 | LkW => ca end).
      assert (Hsb : cache_sound cb) by (unfold cb; destruct lk; assumption).
      destruct (match lk with LkR => load_item_cache g cb c h (key_of g f) | LkW => LMiss end) as [d| |] eqn:E2.
      + destruct lk; [|discriminate]. cbn [o_res o_cache].
        rewrite (load_hit_sound _ _ _ _ _ _ Hm HU Hsb E2). auto.
      + destruct (derive (g_ver g) (f_bytes f)) as [d|] eqn:Ed.
        * destruct (g_cw g), cl; cbn [o_res o_cache]; split; auto using sound_store, sound_clean.
        * cbn [o_res o_cache]. auto.
      + destruct lk; [|discriminate]. exfalso. exact (load_no_raise _ _ _ _ _ Hsb E2).
    - exfalso. exact (load_no_raise _ _ _ _ _ Hs E1).
  Qed.

  (* ---------------------------------------------------------------- the other operations *)
  Definition st_ok (s : @st D) : Prop := files_in (s_files s) /\ cache_sound (s_cache s).

  Definition item_ok (g : cfg) (x : href * file * D) : Prop :=
    match x with (_, f, d) => U f /\ derive (g_ver g) (f_bytes f) = Some d end.

  Definition op_ok (g : cfg) (o : @sop D) : Prop :=
    match o with
    | OUpload _ _ _ f d => U f /\ derive (g_ver g) (f_bytes f) = Some d
    | OUploadFail _ _ f => U f
    | OCreate _ items => Forall (item_ok g) items
    | _ => True
    end.

  Lemma upload_write_ok : forall g s c h f d,
    st_ok s -> U f -> derive (g_ver g) (f_bytes f) = Some d -> st_ok (upload_write g s c h f d).
  Proof.
    intros g s c h f d [Hf Hs] HU Hd. unfold upload_write. split; cbn.
    - apply files_in_aput; assumption.
    - apply sound_store; assumption.
  Qed.

  Lemma bulk_files_in : forall g items fs c, files_in fs -> Forall (item_ok g) items -> files_in (bulk_files fs c items).
  Proof.
    intros g items. induction items as [|[[h f] d] r IH]; intros fs c Hf Hi; cbn [bulk_files]; [exact Hf|].
    inversion Hi as [|x l Hx Hr]; subst. destruct Hx as [HU Hd]. apply IH; [apply files_in_aput; assumption | assumption].
  Qed.

  Lemma bulk_cache_sound : forall g items ca c,
    cache_sound ca -> Forall (item_ok g) items -> cache_sound (bulk_cache g ca c items).
  Proof.
    intros g items. induction items as [|[[h f] d] r IH]; intros ca c Hs Hi; cbn [bulk_cache]; [exact Hs|].
    inversion Hi as [|x l Hx Hr]; subst. destruct Hx as [HU Hd]. apply IH; [|assumption].
    apply sound_aput; auto using fresh_entry_sound.
  Qed.

  Lemma not_coll_file_filter : forall c (fs : files), files_in fs -> files_in (filter (not_coll_file c) fs).
  Proof. intros c fs Hf. apply (files_in_filter (fun k => negb (N.eqb (fst k) c))). exact Hf. Qed.

  Lemma not_in_coll_entry_filter : forall c (ca : @cache D), cache_sound ca -> cache_sound (filter (not_in_coll_entry c) ca).
  Proof.
    intros c ca Hs.
    apply (sound_filter (fun k => match k with (l, c', _) => negb (loc_eqb l LIn && N.eqb c' c) end)). exact Hs.
  Qed.

  Lemma create_collection_ok : forall g s c items,
    st_ok s -> Forall (item_ok g) items -> st_ok (create_collection g s c items).
  Proof.
    intros g s c items [Hf Hs] Hi. unfold create_collection. split; cbn.
    - eapply bulk_files_in; eauto using not_coll_file_filter.
    - destruct (g_loc g); [apply bulk_cache_sound|]; auto using not_in_coll_entry_filter.
  Qed.

  Lemma delete_item_ok : forall g s c h s', st_ok s -> delete_item g s c h = Some s' -> st_ok s'.
  Proof.
    intros g s c h s' [Hf Hs]. unfold delete_item. destruct (flook (s_files s) c h); [|discriminate].
    intros E. inversion E. split; cbn; auto using files_in_adel, sound_adel.
  Qed.

  Lemma delete_coll_ok : forall s c, st_ok s -> st_ok (delete_coll s c).
  Proof.
    intros s c [Hf Hs]. unfold delete_coll. split; cbn; auto using not_coll_file_filter, not_in_coll_entry_filter.
  Qed.

  Lemma move_item_ok : forall g s c h c2 h2 s', st_ok s -> move_item g s c h c2 h2 = Some s' -> st_ok s'.
  Proof.
    intros g s c h c2 h2 s' [Hf Hs]. unfold move_item. destruct (flook (s_files s) c h) as [f|] eqn:Ef; [|discriminate].
    intros E. inversion E. split; cbn.
    - apply files_in_aput; [apply files_in_adel; assumption | eapply Hf; eauto].
    - destruct (clook (s_cache s) (g_loc g) c h) as [e|] eqn:Ee; [|assumption].
      apply sound_aput; [apply sound_adel; assumption | eapply Hs; eauto].
  Qed.

  (* every storage call: same answer and same files as the cache-less server, and the state stays sound *)
  Lemma exec_op_refines : forall g lk o r,
    mode_ok g -> op_ok g o -> st_ok (r_st r) ->
    let '(a, _, r') := exec_op derive g lk o r in
    let '(a', fs') := spec_op derive g o (s_files (r_st r)) in
    a = a' /\ s_files (r_st r') = fs' /\ st_ok (r_st r').
  Proof.
    intros g lk o r Hm Ho [Hf Hs]. destruct o as [obj c h|c|obj c h f d|c h f|c items|c h c2 h2|c h|c]; cbn [exec_op spec_op].
    - unfold exec_get, get. cbn [r_st r_cleaned].
      destruct (get_at_correct g lk (is_cleaned (r_cleaned r) obj) _ _ _ c h Hm Hf Hs Hs) as [Hr Hc].
      rewrite Hr. repeat split; assumption.
    - repeat split; assumption.
    - destruct Ho as [HU Hd]. unfold exec_get, get. cbn [r_st r_cleaned].
      destruct (upload_write_ok g (r_st r) c h f d (conj Hf Hs) HU Hd) as [Hf' Hs'].
      destruct (get_at_correct g lk (is_cleaned (r_cleaned r) obj) _ _ _ c h Hm Hf' Hs' Hs') as [Hr Hc].
      rewrite Hr. split; [|split; [reflexivity|split; [exact Hf'|exact Hc]]].
      cbn [upload_write s_files]. rewrite flook_aput.
      rewrite (proj2 (fkey_eqb_spec (c, h) (c, h)) eq_refl). reflexivity.
    - split; [reflexivity | split; [reflexivity | split; cbn [r_st s_files s_cache]; auto using files_in_aput]].
    - destruct (create_collection_ok g (r_st r) c items (conj Hf Hs) Ho) as [Hf' Hs'].
      repeat split; assumption.
    - unfold move_item. destruct (flook (s_files (r_st r)) c h) as [f|] eqn:Ef.
      + assert (Hok : st_ok (r_st r)) by (split; assumption).
        pose proof (move_item_ok g (r_st r) c h c2 h2) as Hmv. unfold move_item in Hmv. rewrite Ef in Hmv.
        specialize (Hmv _ Hok eq_refl). repeat split; cbn; try reflexivity; apply Hmv.
      + repeat split; assumption.
    - unfold delete_item. destruct (flook (s_files (r_st r)) c h) as [f|] eqn:Ef.
      + assert (Hok : st_ok (r_st r)) by (split; assumption).
        pose proof (delete_item_ok g (r_st r) c h) as Hdl. unfold delete_item in Hdl. rewrite Ef in Hdl.
        specialize (Hdl _ Hok eq_refl). repeat split; cbn; try reflexivity; apply Hdl.
      + repeat split; assumption.
    - destruct (delete_coll_ok (r_st r) c (conj Hf Hs)) as [Hf' Hs'].
      repeat split; assumption.
  Qed.

  (* ---------------------------------------------------------------- handlers = programs over storage calls *)
  Inductive prog_ok {R} (g : cfg) : @prog D R -> Prop :=
  | ok_ret : forall x, prog_ok g (Ret x)
  | ok_do : forall o k, op_ok g o -> (forall a, prog_ok g (k a)) -> prog_ok g (Do o k).

  Lemma run_refines : forall R g lk (p : @prog D R) r,
    mode_ok g -> prog_ok g p -> st_ok (r_st r) ->
    fst (run derive g lk p r) = fst (run_spec derive g p (s_files (r_st r)))
    /\ s_files (r_st (snd (run derive g lk p r))) = snd (run_spec derive g p (s_files (r_st r)))
    /\ st_ok (r_st (snd (run derive g lk p r))).
  Proof.
    intros R g lk p. induction p as [x|o k IH]; intros r Hm Hp Hok.
    - cbn. auto.
    - inversion Hp as [|o' k' Ho Hk]; subst.
      assert (Hk' : forall a, prog_ok g (k a)).
      { intro a. specialize (Hk a).
        (* dependent inversion leaves existT equalities only when R is not a set of decidable eq; avoid them *)
        exact Hk. }
      cbn [run run_spec].
      pose proof (exec_op_refines g lk o r Hm Ho Hok) as He.
      destruct (exec_op derive g lk o r) as [[a evs] r'].
      destruct (spec_op derive g o (s_files (r_st r))) as [a' fs'].
      destruct He as [-> [Hfs Hok']]. rewrite <- Hfs. apply IH; auto.
  Qed.
End Sound.
