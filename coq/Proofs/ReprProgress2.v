(* Progress and preservation of the reserved-path invariant CL for the operations with cache / history tails
   (default cache layout): item upload and item delete. *)
From Coq Require Import List NArith Bool Lia.
Import ListNotations.
Require Import RV.Lib.Prog RV.Model.Fs RV.Model.StorageOps RV.Proofs.FsLemmas RV.Proofs.FsInv RV.Proofs.NoFault
  RV.Proofs.C12Units RV.Proofs.ReprProgress RV.Proofs.ReprClean.
Open Scope N_scope.

Definition dframe (s s' : fs) : Prop := forall q, is_data q = true -> look s' q = look s q.

Lemma cdir_of_entry : forall sub, centry_dir sub = true -> cdir_name sub = true.
Proof. intros []; intro H; try discriminate; reflexivity. Qed.

Lemma cache_chain_ok : forall s c sub, CL s -> coll_path c = true -> centry_dir sub = true -> look s c = Some D ->
  chain_ok s (c ++ [Cache; sub]).
Proof.
  intros s c sub Hcl Hc Hs Hlc q Hq Hne. change (c ++ [Cache; sub]) with (c ++ [Cache] ++ [sub]) in Hq. rewrite app_assoc in Hq.
  rewrite prefix_of_snoc in Hq. apply orb_true_iff in Hq. destruct Hq as [Hq | Hq].
  - apply path_eqb_eq in Hq. subst q. apply CL_cdir; [exact Hcl | apply cdir_of_entry; exact Hs].
  - rewrite prefix_of_snoc in Hq. apply orb_true_iff in Hq. destruct Hq as [Hq | Hq].
    + apply path_eqb_eq in Hq. subst q. apply CL_cdir; [exact Hcl | reflexivity].
    + right. apply (closed_prefix_dir s c); [apply Hcl | exact Hlc | exact Hq].
Qed.

Lemma data_prefix_of_cache : forall c sub q, is_data q = true -> prefix q (c ++ [Cache; sub]) = true -> prefix q c = true.
Proof.
  intros c sub q Hd Hq. change (c ++ [Cache; sub]) with (c ++ [Cache] ++ [sub]) in Hq. rewrite app_assoc in Hq.
  rewrite prefix_of_snoc in Hq. apply orb_true_iff in Hq. destruct Hq as [Hq | Hq].
  - apply path_eqb_eq in Hq. subst q. rewrite <- app_assoc in Hd. cbn [app] in Hd. rewrite is_data_cache in Hd. discriminate.
  - rewrite prefix_of_snoc in Hq. apply orb_true_iff in Hq. destruct Hq as [Hq | Hq]; [|exact Hq].
    apply path_eqb_eq in Hq. subst q. rewrite is_data_cache in Hd. discriminate.
Qed.

(* _makedirs_synced of a cache folder, then the atomic write of one entry *)
Lemma cache_write_nf : forall c sub x v s n (Q : npost) EE,
  coll_path c = true -> centry_dir sub = true -> is_safe x = true -> CL s -> look s c = Some D ->
  (forall s', CL s' -> dframe s s' -> look s' ((c ++ [Cache; sub]) ++ [x]) = Some (F v) ->
     (forall sub' y, sub' <> sub -> look s' ((c ++ [Cache; sub']) ++ [y]) = look s ((c ++ [Cache; sub']) ++ [y])) ->
     Q s' (N.succ n)) ->
  nfwp (Seq (MD (c ++ [Cache; sub])) (suppress_perm (AW (c ++ [Cache; sub]) x v))) Q EE s n.
Proof.
  intros c sub x v s n Q EE Hc Hs Hx Hcl Hlc HQ. set (cd := c ++ [Cache; sub]). cbn [nfwp].
  apply md_nf; [apply Hcl | apply cache_chain_ok; assumption |]. intros s1 I1 P1.
  assert (Hcl1 : CL s1) by (apply (CL_md s cd s1 Hcl P1 I1); intros r Hr Hne; apply (kind_cache_chain c sub); assumption).
  assert (Hcdne : cd <> []) by (unfold cd; destruct c; discriminate).
  unfold suppress_perm. cbn [nfwp].
  apply aw_nf; [exact I1 | exact Hcdne | | apply (CL_tmp_free s1 Hcl1) | | destruct x; discriminate |].
  { rewrite (P1 cd), prefix_refl. destruct cd; [congruence | reflexivity]. }
  { unfold cd. rewrite <- app_assoc. cbn [app]. replace (c ++ [Cache; sub; x]) with ((c ++ [Cache]) ++ [sub; x]) by (rewrite <- app_assoc; reflexivity).
    apply CL_entry; assumption. }
  intros s2 I2 U2.
  assert (Hcl2 : CL s2).
  { apply (CL_upd s1 (cd ++ [x]) (Some (F v)) s2 Hcl1 U2 I2). intros n0 Hn0. inversion Hn0; subst n0. apply kind_cache_entry; assumption. }
  apply HQ; [exact Hcl2 | | | ].
  - intros q Hd. rewrite (U2 q).
    assert (E1 : path_eqb q (cd ++ [x]) = false).
    { apply path_eqb_neq. intros ->. unfold cd in Hd. rewrite <- app_assoc in Hd. cbn [app] in Hd. rewrite is_data_cache in Hd. discriminate. }
    rewrite E1, (P1 q). destruct (prefix q cd && nonempty q) eqn:E; [|reflexivity].
    apply andb_true_iff in E. destruct E as [E _]. symmetry.
    apply (closed_prefix_dir s c); [apply Hcl | exact Hlc | apply (data_prefix_of_cache c sub); assumption].
  - fold cd. rewrite (U2 (cd ++ [x])), path_eqb_refl. reflexivity.
  - intros sub' y Hne. rewrite (U2 _).
    assert (E1 : path_eqb ((c ++ [Cache; sub']) ++ [y]) (cd ++ [x]) = false).
    { apply path_eqb_neq. intro E. apply snoc_inj in E. destruct E as [E _]. unfold cd in E. apply snoc2_inj in E. destruct E as (_ & _ & E). congruence. }
    rewrite E1, (P1 _).
    assert (E2 : prefix ((c ++ [Cache; sub']) ++ [y]) cd = false).
    { destruct (prefix ((c ++ [Cache; sub']) ++ [y]) cd) eqn:E; [|reflexivity]. apply prefix_length in E. unfold cd in E. rewrite !app_length in E. cbn in E. lia. }
    rewrite E2. reflexivity.
Qed.

Lemma cache_dir_lay0 : forall sub c, centry_dir sub = true -> cache_dir lay0 sub c = c ++ [Cache; sub].
Proof. intros sub c H. unfold cache_dir. destruct sub; try discriminate; reflexivity. Qed.

(* _update_history_etag *)
Lemma update_history_nf : forall c x ov s n (Q : npost) EE,
  coll_path c = true -> is_safe x = true -> CL s -> look s c = Some D ->
  (forall s' n', CL s' -> dframe s s' ->
     (forall y, look s' ((c ++ [Cache; CItem]) ++ [y]) = look s ((c ++ [Cache; CItem]) ++ [y])) -> Q s' n') ->
  nfwp (update_history lay0 c x ov) Q EE s n.
Proof.
  intros c x ov s n Q EE Hc Hx Hcl Hlc HQ. unfold update_history. rewrite (cache_dir_lay0 CHist c eq_refl). cbn [nfwp].
  match goal with |- nfwp (if ?b then _ else _) _ _ _ _ => destruct b end.
  - cbn [nfwp]. apply HQ; [exact Hcl | intros q _; reflexivity | intro y; reflexivity].
  - apply cache_write_nf; try assumption; [reflexivity|]. intros s' Hcl' Hdf _ Hoth. apply HQ; [exact Hcl' | exact Hdf |].
    intro y. apply Hoth. discriminate.
Qed.

Lemma item_path_data : forall c h, coll_path c = true -> is_safe h = true -> is_data (c ++ [h]) = true.
Proof. intros. apply coll_item_data; assumption. Qed.

(* Collection.upload *)
Lemma upload_nf : forall c h v s0 n,
  coll_path c = true -> is_safe h = true -> CL s0 -> look s0 c = Some D -> look s0 (c ++ [h]) <> Some D ->
  nfwp (upload lay0 c h v []) (fun s' _ => CL s') NoExn s0 n.
Proof.
  intros c h v s0 n Hc Hh Hcl Hlc Hnd. unfold upload. cbn [seqs nfwp].
  pose proof (coll_ne c Hc) as Hne.
  apply aw_nf; [apply Hcl | exact Hne | exact Hlc | apply (CL_tmp_free s0 Hcl) | exact Hnd | destruct h; discriminate |].
  intros s1 I1 U1.
  assert (Hcl1 : CL s1).
  { apply (CL_upd s0 (c ++ [h]) (Some (F v)) s1 Hcl U1 I1). intros n0 Hn0. inversion Hn0; subst. apply kind_item; auto. }
  assert (Hlc1 : look s1 c = Some D).
  { rewrite (U1 c). destruct (path_eqb c (c ++ [h])) eqn:E; [apply path_eqb_eq in E; apply snoc_neq_self in E; contradiction | exact Hlc]. }
  assert (Hitem1 : look s1 (c ++ [h]) = Some (F v)) by (rewrite (U1 _), path_eqb_refl; reflexivity).
  (* the item cache entry *)
  unfold store_cache. rewrite (cache_dir_lay0 CItem c eq_refl).
  apply cache_write_nf; try assumption; [reflexivity|]. intros s2 Hcl2 Hdf2 Hent2 _.
  assert (Hlc2 : look s2 c = Some D) by (rewrite (Hdf2 c (coll_is_data c Hc)); exact Hlc1).
  (* the history entry *)
  apply update_history_nf; try assumption. intros s3 n3 Hcl3 Hdf3 Hci3.
  (* no expired history entries; the item just stored is found with a valid cache entry *)
  unfold clean_history. cbn [clean_list nfwp get_many].
  rewrite (Hdf3 _ (item_path_data c h Hc Hh)), (Hdf2 _ (item_path_data c h Hc Hh)), Hitem1.
  rewrite (cache_dir_lay0 CItem c eq_refl). cbn [nfwp]. rewrite (Hci3 h), Hent2, N.eqb_refl. cbn [nfwp]. exact Hcl3.
Qed.

(* Collection.delete(href) *)
Lemma delete_item_nf : forall c h v0 s0 n,
  coll_path c = true -> is_safe h = true -> CL s0 -> look s0 c = Some D -> look s0 (c ++ [h]) = Some (F v0) ->
  nfwp (delete_item lay0 c h []) (fun s' _ => CL s') NoExn s0 n.
Proof.
  intros c h v0 s0 n Hc Hh Hcl Hlc Hitem. unfold delete_item. cbn [nfwp]. rewrite Hitem. cbn [seqs nfwp]. unfold Do. cbn [nfwp].
  rewrite (unlink_ok s0 _ v0 Hitem). cbn [nfwp]. set (s1 := upd (c ++ [h]) None s0).
  assert (I1 : fs_inv_weak s1) by (apply (apply_inv (Unlink (c ++ [h])) s0); [apply Hcl | apply (unlink_ok s0 _ v0 Hitem)]).
  assert (U1 : is_upd s0 (c ++ [h]) None s1) by (intro r; reflexivity).
  assert (Hcl1 : CL s1) by (apply (CL_upd s0 _ None s1 Hcl U1 I1); intros n0 Hn0; discriminate).
  assert (Hlc1 : look s1 c = Some D).
  { rewrite (U1 c). destruct (path_eqb c (c ++ [h])) eqn:E; [apply path_eqb_eq in E; apply snoc_neq_self in E; contradiction | exact Hlc]. }
  unfold fsyncD at 1. cbn [nfwp]. rewrite (fsyncD_ok s1 c Hlc1). cbn [nfwp].
  apply update_history_nf; try assumption. intros s2 n2 Hcl2 Hdf2 Hci2.
  unfold clean_history. cbn [clean_list nfwp]. rewrite (cache_dir_lay0 CItem c eq_refl).
  destruct (look s2 ((c ++ [Cache; CItem]) ++ [h])) as [[|cv]|] eqn:Ece; cbn [nfwp]; try exact Hcl2.
  { unfold Do, fsyncD. cbn [nfwp]. rewrite (unlink_ok s2 _ cv Ece). cbn [nfwp].
    set (s3 := upd ((c ++ [Cache; CItem]) ++ [h]) None s2).
    assert (I3 : fs_inv_weak s3) by (apply (apply_inv (Unlink ((c ++ [Cache; CItem]) ++ [h])) s2); [apply Hcl2 | apply (unlink_ok s2 _ cv Ece)]).
    assert (Hcd : look s3 (c ++ [Cache; CItem]) = Some D).
    { unfold s3. cbn [look upd]. destruct (path_eqb (c ++ [Cache; CItem]) ((c ++ [Cache; CItem]) ++ [h])) eqn:E;
        [apply path_eqb_eq in E; apply snoc_neq_self in E; contradiction|].
      apply (closed_parent_dir s2 _ h); [apply Hcl2 | rewrite Ece; discriminate]. }
    rewrite (fsyncD_ok s3 _ Hcd). cbn [nfwp].
    apply (CL_upd s2 ((c ++ [Cache; CItem]) ++ [h]) None s3 Hcl2); [intro r; reflexivity | exact I3 | intros n0 Hn0; discriminate]. }
Qed.
