(* C07 -- invariants of the sync model and the facts about _update_history_etag / the state computation. *)
From Coq Require Import List NArith ZArith Bool Lia.
Import ListNotations.
Require Import RV.Model.Sync RV.Proofs.SyncLemmas.
Open Scope Z_scope.

(* what a history etag says about the item: the etag hashed last ("" for a deleted item) *)
Definition last_etag (he : hetag) : option etag := match he with HChain _ e => e | HSeed _ => None end.
(* the view a snapshot (= the content of a token) stands for *)
Definition view_of_snap (s : snapshot) (h : href) : option etag :=
  match aget h s with Some he => last_etag he | None => None end.
Definition hetag_of (hi : hist) (h : href) : hetag :=
  match aget h hi with Some (_, he, _) => he | None => HSeed 0 end.

Definition hrec_ok (p : href * hrec) : Prop := let '(_, (ce, he, _)) := p in exists q, he = HChain q ce.
Definition hist_wf (hi : hist) : Prop := Forall hrec_ok hi.
Definition trec_ok (now : Z) (p : token * trec) : Prop := fst p = Tok (fst (snd p)) /\ snd (snd p) <= now.
Definition toks_ok (now : Z) (ts : tstore) : Prop := Forall (trec_ok now) ts.

Record inv_c (now : Z) (x : coll) : Prop := mkInvC {
  ic_items : asorted (c_items x);
  ic_hist : asorted (c_hist x);
  ic_wf : hist_wf (c_hist x);
  ic_toks : toks_ok now (c_toks x)
}.

(* ------------------------------------------------------------------ small list facts *)
Lemma Forall_filter_keep : forall {A} (P : A -> Prop) f (l : list A), Forall P l -> Forall P (filter f l).
Proof.
  intros A P f l H; apply Forall_forall; intros x Hx; apply filter_In in Hx.
  rewrite Forall_forall in H; apply H; tauto.
Qed.

Lemma Forall_ains : forall {V} (P : N * V -> Prop) k v l, P (k, v) -> Forall P l -> Forall P (ains k v l).
Proof.
  intros V P k v l Hp H; induction H as [| [k0 v0] r H0 H1 IH]; cbn.
  - constructor; [exact Hp | constructor].
  - destruct (N.eqb k k0); [constructor; assumption |].
    destruct (N.ltb k k0); constructor; try assumption. constructor; assumption.
Qed.

Lemma Forall_tset : forall (P : token * trec -> Prop) t r l, P (t, r) -> Forall P l -> Forall P (tset t r l).
Proof.
  intros P t r l Hp H; apply Forall_forall; intros p Hin. apply In_tset in Hin.
  destruct Hin as [-> | Hin]; [exact Hp | rewrite Forall_forall in H; apply H; exact Hin].
Qed.

Lemma aget_app : forall {V} k (l1 l2 : list (N * V)),
  aget k (l1 ++ l2) = match aget k l1 with Some v => Some v | None => aget k l2 end.
Proof.
  intros V k l1 l2; induction l1 as [| [k0 v0] r IH]; cbn; [reflexivity |].
  destruct (N.eqb k k0); [reflexivity | exact IH].
Qed.

Lemma hist_wf_aget : forall (hi : hist) h ce he mt, hist_wf hi -> aget h hi = Some (ce, he, mt) -> exists q, he = HChain q ce.
Proof.
  intros hi h ce he mt Hwf H. apply aget_In in H. unfold hist_wf in Hwf. rewrite Forall_forall in Hwf.
  apply (Hwf _ H).
Qed.

(* ------------------------------------------------------------------ _update_history_etag *)
Lemma upd_hist_inv : forall now hi seed h e hi' seed' he,
  upd_hist now (hi, seed) h e = ((hi', seed'), he) -> asorted hi -> hist_wf hi ->
  asorted hi' /\ hist_wf hi' /\ (forall k, k <> h -> aget k hi' = aget k hi) /\
  (In h (akeys hi) -> akeys hi' = akeys hi).
Proof.
  intros now hi seed h e hi' seed' he H Hs Hwf. unfold upd_hist in H.
  destruct (aget h hi) as [[[ce he0] mt0] |] eqn:E.
  - destruct (oetag_eqb e ce) eqn:E2; inversion H; subst; clear H.
    + repeat split; auto.
    + repeat split.
      * apply asorted_ains; exact Hs.
      * apply Forall_ains; [cbn; eexists; reflexivity | exact Hwf].
      * intros k Hk. rewrite aget_ains. destruct (N.eqb k h) eqn:E3; [apply N.eqb_eq in E3; contradiction | reflexivity].
      * intro Hin. apply akeys_ains_present; assumption.
  - destruct (oetag_eqb e None) eqn:E2; inversion H; subst; clear H.
    + repeat split; auto.
    + repeat split.
      * apply asorted_ains; exact Hs.
      * apply Forall_ains; [cbn; eexists; reflexivity | exact Hwf].
      * intros k Hk. rewrite aget_ains. destruct (N.eqb k h) eqn:E3; [apply N.eqb_eq in E3; contradiction | reflexivity].
      * intro Hin. apply akeys_ains_present; assumption.
Qed.

Lemma upd_hist_res : forall now hi seed h e hi' seed' he,
  upd_hist now (hi, seed) h e = ((hi', seed'), he) -> hist_wf hi ->
  (e <> None \/ aget h hi <> None) ->
  exists q mt, he = HChain q e /\ aget h hi' = Some (e, he, mt).
Proof.
  intros now hi seed h e hi' seed' he H Hwf Hpre. unfold upd_hist in H.
  destruct (aget h hi) as [[[ce he0] mt0] |] eqn:E.
  - destruct (oetag_eqb e ce) eqn:E2; inversion H; subst; clear H.
    + apply oetag_eqb_eq in E2; subst ce. destruct (hist_wf_aget _ _ _ _ _ Hwf E) as [q Hq].
      exists q, mt0; split; [exact Hq | exact E].
    + exists he0, now; split; [reflexivity |]. rewrite aget_ains, N.eqb_refl; reflexivity.
  - destruct (oetag_eqb e None) eqn:E2; inversion H; subst; clear H.
    + apply oetag_eqb_eq in E2; subst e. destruct Hpre as [Hp | Hp]; exfalso; apply Hp; reflexivity.
    + exists (HSeed seed), now; split; [reflexivity |]. rewrite aget_ains, N.eqb_refl; reflexivity.
Qed.

Lemma upd_hist_idem : forall now (hi : hist) seed h e he mt,
  aget h hi = Some (e, he, mt) -> upd_hist now (hi, seed) h e = ((hi, seed), he).
Proof.
  intros now hi seed h e he mt H; unfold upd_hist; cbn beta iota; rewrite H, oetag_eqb_refl; reflexivity.
Qed.

(* ------------------------------------------------------------------ the loop of sync() *)
Lemma pass_inv : forall work now hi seed hi' seed' out,
  pass now work (hi, seed) = ((hi', seed'), out) -> asorted hi -> hist_wf hi ->
  asorted hi' /\ hist_wf hi' /\ (forall k, ~ In k (map fst work) -> aget k hi' = aget k hi) /\
  ((forall k, In k (map fst work) -> In k (akeys hi)) -> akeys hi' = akeys hi) /\
  map fst out = map fst work.
Proof.
  induction work as [| [h e] r IH]; intros now hi seed hi' seed' out H Hs Hwf; cbn [pass] in H.
  - inversion H; subst; repeat split; auto.
  - destruct (upd_hist now (hi, seed) h e) as [[hi1 seed1] he] eqn:E1.
    destruct (pass now r (hi1, seed1)) as [[hi2 seed2] out'] eqn:E2.
    inversion H; subst; clear H.
    destruct (upd_hist_inv _ _ _ _ _ _ _ _ E1 Hs Hwf) as [Hs1 [Hwf1 [Ho1 Hk1]]].
    destruct (IH _ _ _ _ _ _ E2 Hs1 Hwf1) as [Hs2 [Hwf2 [Ho2 [Hk2 Hm2]]]].
    split; [exact Hs2 |]. split; [exact Hwf2 |]. split; [| split].
    + intros k Hk; cbn in Hk. rewrite Ho2; [apply Ho1 |]; intro Hc; apply Hk; [left; symmetry; exact Hc | right; exact Hc].
    + intro Hall; cbn in Hall. assert (Hh : In h (akeys hi)) by (apply Hall; left; reflexivity).
      rewrite Hk2; [apply Hk1; exact Hh |]. intros k Hk. rewrite (Hk1 Hh). apply Hall; right; exact Hk.
    + cbn; f_equal; exact Hm2.
Qed.

Lemma pass_res : forall work now hi seed hi' seed' out,
  pass now work (hi, seed) = ((hi', seed'), out) -> asorted hi -> hist_wf hi ->
  NoDup (map fst work) ->
  (forall h e, In (h, e) work -> e <> None \/ aget h hi <> None) ->
  out = map (fun w => (fst w, hetag_of hi' (fst w))) work /\
  (forall h e, In (h, e) work -> exists q mt, aget h hi' = Some (e, HChain q e, mt)).
Proof.
  induction work as [| [h e] r IH]; intros now hi seed hi' seed' out H Hs Hwf Hnd Hpre; cbn [pass] in H.
  - inversion H; subst; split; [reflexivity | intros ? ? []].
  - destruct (upd_hist now (hi, seed) h e) as [[hi1 seed1] he] eqn:E1.
    destruct (pass now r (hi1, seed1)) as [[hi2 seed2] out'] eqn:E2.
    inversion H; subst; clear H. cbn in Hnd. inversion Hnd as [| ? ? Hnotin Hnd']; subst.
    destruct (upd_hist_inv _ _ _ _ _ _ _ _ E1 Hs Hwf) as [Hs1 [Hwf1 [Ho1 Hk1]]].
    destruct (upd_hist_res _ _ _ _ _ _ _ _ E1 Hwf (Hpre h e (or_introl eq_refl))) as [q [mt [Hq Hg]]].
    destruct (pass_inv _ _ _ _ _ _ _ E2 Hs1 Hwf1) as [_ [_ [Ho2 _]]].
    assert (Hpre' : forall h0 e0, In (h0, e0) r -> e0 <> None \/ aget h0 hi1 <> None).
    { intros h0 e0 Hin. assert (Hne : h0 <> h).
      { intro Hc; subst h0. apply Hnotin. apply (in_map fst) in Hin; exact Hin. }
      rewrite (Ho1 _ Hne). apply Hpre; right; exact Hin. }
    destruct (IH _ _ _ _ _ _ E2 Hs1 Hwf1 Hnd' Hpre') as [Hout Hall].
    assert (Hgh : aget h hi' = Some (e, he, mt)) by (rewrite (Ho2 _ Hnotin); exact Hg).
    split.
    + cbn. f_equal; [| exact Hout]. unfold hetag_of; rewrite Hgh; reflexivity.
    + intros h0 e0 [Hin | Hin].
      * inversion Hin; subst h0 e0. exists q, mt. rewrite Hgh, Hq; reflexivity.
      * apply Hall; exact Hin.
Qed.


Lemma pass_idem : forall work now (hi : hist) seed,
  (forall h e, In (h, e) work -> exists he mt, aget h hi = Some (e, he, mt)) ->
  pass now work (hi, seed) = ((hi, seed), map (fun w => (fst w, hetag_of hi (fst w))) work).
Proof.
  induction work as [| [h e] r IH]; intros now hi seed Hall; cbn [pass map]; [reflexivity |].
  destruct (Hall h e (or_introl eq_refl)) as [he [mt Hg]].
  rewrite (upd_hist_idem _ _ _ _ _ _ _ Hg). rewrite IH; [| intros; apply Hall; right; assumption].
  cbn [fst]. assert (Hh : hetag_of hi h = he) by (unfold hetag_of; rewrite Hg; reflexivity).
  rewrite Hh; reflexivity.
Qed.

(* ------------------------------------------------------------------ compute_state *)
Lemma deleted_NoDup : forall items (hi : hist), asorted hi -> NoDup (deleted_hrefs items hi).
Proof. intros items hi H; unfold deleted_hrefs; apply NoDup_filter; apply asorted_NoDup; exact H. Qed.

Lemma in_deleted : forall items (hi : hist) h,
  In h (deleted_hrefs items hi) <-> In h (akeys hi) /\ aget h items = None.
Proof.
  intros items hi h; unfold deleted_hrefs; rewrite filter_In, negb_true_iff, amem_false_iff; reflexivity.
Qed.

Lemma map_fst_work1 : forall items : list (href * etag),
  map fst (map (fun p : href * etag => (fst p, Some (snd p))) items) = akeys items.
Proof. intros; unfold akeys; rewrite map_map; reflexivity. Qed.

Lemma map_fst_work2 : forall dels : list href, map fst (map (fun h => (h, @None etag)) dels) = dels.
Proof. intros; rewrite map_map; cbn; apply map_id. Qed.

Lemma asorted_In_aget : forall {V} (l : list (N * V)) k v, asorted l -> In (k, v) l -> aget k l = Some v.
Proof.
  intros V l k v; induction l as [| [k0 v0] r IH]; intros Hs Hin; [destruct Hin |].
  cbn in Hs; destruct Hs as [Hlb Hsr]. cbn. destruct Hin as [Hin | Hin].
  - inversion Hin; subst; rewrite N.eqb_refl; reflexivity.
  - destruct (N.eqb k k0) eqn:E; [| apply IH; assumption].
    apply N.eqb_eq in E; subst k0. rewrite Forall_forall in Hlb. specialize (Hlb _ Hin); cbn in Hlb; lia.
Qed.

(* looking up a key of a duplicate-free work list in the snapshot the loop produced *)
Lemma aget_out : forall (f : href -> hetag) (work : list (href * option etag)) h e,
  In (h, e) work -> aget h (map (fun w => (fst w, f (fst w))) work) = Some (f h).
Proof.
  intros f work h e; induction work as [| [h0 e0] r IH]; intro Hin; [destruct Hin |].
  cbn. destruct (N.eqb h h0) eqn:E.
  - apply N.eqb_eq in E; subst h0; reflexivity.
  - destruct Hin as [Hin | Hin]; [inversion Hin; subst; rewrite N.eqb_refl in E; discriminate | apply IH; exact Hin].
Qed.

Lemma aget_out_none : forall (f : href -> hetag) (work : list (href * option etag)) h,
  ~ In h (map fst work) -> aget h (map (fun w => (fst w, f (fst w))) work) = None.
Proof.
  intros f work h; induction work as [| [h0 e0] r IH]; intro Hn; [reflexivity |].
  cbn. destruct (N.eqb h h0) eqn:E.
  - apply N.eqb_eq in E; subst h0. exfalso; apply Hn; left; reflexivity.
  - apply IH. intro Hc; apply Hn; right; exact Hc.
Qed.

Theorem compute_state_spec : forall now items (hi : hist) seed hi' seed' state,
  compute_state now items (hi, seed) = ((hi', seed'), state) ->
  asorted items -> asorted hi -> hist_wf hi ->
  asorted hi' /\ hist_wf hi' /\
  (forall h, view_of_snap state h = aget h items) /\
  (forall now2 seed2, compute_state now2 items (hi', seed2) = ((hi', seed2), state)).
Proof.
  intros now items hi seed hi' seed' state H Hsi Hs Hwf. unfold compute_state in H.
  set (work1 := map (fun p : href * etag => (fst p, Some (snd p))) items) in *.
  destruct (pass now work1 (hi, seed)) as [[hi1 seed1] out1] eqn:E1. cbn [fst] in H.
  set (dels := deleted_hrefs items hi1) in *.
  set (work2 := map (fun h => (h, @None etag)) dels) in *.
  destruct (pass now work2 (hi1, seed1)) as [[hi2 seed2] out2] eqn:E2.
  inversion H; subst hi2 seed2 state; clear H.
  destruct (pass_inv _ _ _ _ _ _ _ E1 Hs Hwf) as [Hs1 [Hwf1 [Ho1 [_ Hm1]]]].
  destruct (pass_inv _ _ _ _ _ _ _ E2 Hs1 Hwf1) as [Hs2 [Hwf2 [Ho2 [Hk2 Hm2]]]].
  assert (Hnd1 : NoDup (map fst work1)) by (unfold work1; rewrite map_fst_work1; apply asorted_NoDup; exact Hsi).
  assert (Hpre1 : forall h e, In (h, e) work1 -> e <> None \/ aget h hi <> None).
  { intros h e Hin; left. unfold work1 in Hin; apply in_map_iff in Hin. destruct Hin as [[h0 e0] [Heq _]].
    inversion Heq; discriminate. }
  destruct (pass_res _ _ _ _ _ _ _ E1 Hs Hwf Hnd1 Hpre1) as [Hout1 Hall1].
  assert (Hnd2 : NoDup (map fst work2)) by (unfold work2; rewrite map_fst_work2; apply deleted_NoDup; exact Hs1).
  assert (Hpre2 : forall h e, In (h, e) work2 -> e <> None \/ aget h hi1 <> None).
  { intros h e Hin; right. unfold work2 in Hin; apply in_map_iff in Hin. destruct Hin as [h0 [Heq Hin]].
    inversion Heq; subst h0 e. apply in_deleted in Hin. destruct Hin as [Hin _].
    intro Hc; apply aget_none_notin in Hc; contradiction. }
  destruct (pass_res _ _ _ _ _ _ _ E2 Hs1 Hwf1 Hnd2 Hpre2) as [Hout2 Hall2].
  assert (Hkeys2 : akeys hi' = akeys hi1).
  { apply Hk2. intros k Hk. unfold work2 in Hk; rewrite map_fst_work2 in Hk. apply in_deleted in Hk; tauto. }
  (* present items are not touched by the second loop *)
  assert (Hpres : forall h e, aget h items = Some e -> aget h hi' = aget h hi1).
  { intros h e Hg. apply Ho2. unfold work2; rewrite map_fst_work2. intro Hc. apply in_deleted in Hc.
    destruct Hc as [_ Hc]; congruence. }
  split; [exact Hs2 |]. split; [exact Hwf2 |]. split.
  - (* the snapshot tells the view *)
    intro h. unfold view_of_snap. rewrite aget_app.
    destruct (aget h items) as [e |] eqn:Eg.
    + assert (Hin : In (h, Some e) work1).
      { unfold work1. apply in_map_iff. exists (h, e); split; [reflexivity | apply aget_In; exact Eg]. }
      destruct (Hall1 _ _ Hin) as [q [mt Hg1]].
      rewrite Hout1, (aget_out _ _ _ _ Hin). unfold hetag_of; rewrite Hg1; reflexivity.
    + assert (Hno : aget h out1 = None).
      { rewrite Hout1. apply aget_out_none. unfold work1; rewrite map_fst_work1.
        apply aget_none_notin; exact Eg. }
      rewrite Hno. destruct (in_dec N.eq_dec h dels) as [Hd | Hd].
      * assert (Hin : In (h, @None etag) work2).
        { unfold work2; apply in_map_iff; exists h; split; [reflexivity | exact Hd]. }
        destruct (Hall2 _ _ Hin) as [q [mt Hg2]].
        rewrite Hout2, (aget_out _ _ _ _ Hin). unfold hetag_of; rewrite Hg2; reflexivity.
      * rewrite Hout2, aget_out_none; [reflexivity |]. unfold work2; rewrite map_fst_work2; exact Hd.
  - (* recomputing on the updated history changes nothing and gives the same snapshot *)
    intros now2 seed2. unfold compute_state. fold work1.
    assert (Hitem : forall h0 e0, In (h0, e0) items -> aget h0 hi' = aget h0 hi1).
    { intros h0 e0 Hin. apply (Hpres h0 e0). apply asorted_In_aget; assumption. }
    assert (Hidem1 : forall h e, In (h, e) work1 -> exists he mt, aget h hi' = Some (e, he, mt)).
    { intros h e Hin. destruct (Hall1 _ _ Hin) as [q [mt Hg1]].
      unfold work1 in Hin; apply in_map_iff in Hin. destruct Hin as [[h0 e0] [Heq Hin]]; inversion Heq; subst h e.
      cbn [fst snd] in *. exists (HChain q (Some e0)), mt. rewrite (Hitem h0 e0 Hin); exact Hg1. }
    rewrite (pass_idem work1 now2 hi' seed2 Hidem1). cbn [fst].
    assert (Hdels : deleted_hrefs items hi' = dels).
    { unfold dels, deleted_hrefs. rewrite Hkeys2; reflexivity. }
    rewrite Hdels. fold work2.
    assert (Hidem2 : forall h e, In (h, e) work2 -> exists he mt, aget h hi' = Some (e, he, mt)).
    { intros h e Hin. destruct (Hall2 _ _ Hin) as [q [mt Hg2]]. eexists; eexists; exact Hg2. }
    rewrite (pass_idem work2 now2 hi' seed2 Hidem2).
    f_equal. rewrite Hout1, Hout2. f_equal.
    apply map_ext_in. intros [h e] Hin. cbn [fst]. f_equal.
    unfold work1 in Hin; apply in_map_iff in Hin. destruct Hin as [[h0 e0] [Heq Hin]]; inversion Heq; subst h e.
    unfold hetag_of. cbn [fst]. rewrite (Hitem h0 e0 Hin); reflexivity.
Qed.
