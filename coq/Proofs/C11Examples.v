(* C11 -- non-vacuity: concrete reachable states (computed by running the models) that satisfy the hypotheses of
   the theorems, and concrete runs that exhibit the behaviours the theorems talk about. *)
From Coq Require Import List Arith Bool ZArith Lia.
Import ListNotations.
Require Import RV.Model.C11Base RV.Proofs.C11BaseLemmas.
Require Import RV.Model.RwLockCond RV.Proofs.RwLockCondInv RV.Proofs.RwLockCondThms.
Require Import RV.Model.RwLockFile RV.Proofs.RwLockFileInv RV.Proofs.RwLockFileThms.
Require Import RV.Model.LockDict RV.Proofs.LockDictInv RV.Proofs.LockDictThms.

Open Scope nat_scope.

Definition rd := Cy R 0.
Definition wr := Cy W 0.
Definition rdq := Cy R 1.

Definition st_of (o : option RwLockCond.state) : RwLockCond.state :=
  match o with Some s => s | None => RwLockCond.init [] end.

(* two readers inside the critical section at the same time *)
Definition s_two_readers := st_of (RwLockCond.run [0;0;0;0;1;1;1;1] (RwLockCond.init [[rd];[rd]])).
Example ex_cond_two_readers : reachable s_two_readers /\ readers_in_cs s_two_readers = 2 /\ writers_in_cs s_two_readers = 0.
Proof. split; [eapply (run_reachable [[rd];[rd]] [0;0;0;0;1;1;1;1]); vm_compute; reflexivity|]. vm_compute. auto. Qed.

(* a writer inside, a reader and a writer blocked on the condition, not notified, predicate false *)
Definition s_writer_in := st_of (RwLockCond.run [0;0;0;0;1;1;1;1;2;2;2;2] (RwLockCond.init [[wr];[rd];[wr]])).
Example ex_cond_writer_in :
  reachable s_writer_in /\ writers_in_cs s_writer_in = 1 /\ readers_in_cs s_writer_in = 0 /\
  waiters (glob s_writer_in) = [1; 2] /\ writer (glob s_writer_in) = true /\ mutex (glob s_writer_in) = None /\
  RwLockCond.enabled s_writer_in 1 = false /\ RwLockCond.enabled s_writer_in 2 = false /\ RwLockCond.enabled s_writer_in 0 = true.
Proof. split; [eapply (run_reachable [[wr];[rd];[wr]] [0;0;0;0;1;1;1;1;2;2;2;2]); vm_compute; reflexivity|]. vm_compute. repeat split; auto. Qed.

(* the window of C11_no_lost_wakeup: the writer has reset _writer, both waiters' predicates may be true, the
   notify_all is imminent (pc R_Check with _readers = 0) *)
Definition s_window := st_of (RwLockCond.run [0;0] s_writer_in).
Example ex_cond_window :
  reachable s_window /\ waiting_unnotified s_window 1 /\ pred R (glob s_window) = true /\ notifying s_window.
Proof.
  assert (reachable s_window) as Hr.
  { eapply (run_reachable [[wr];[rd];[wr]] ([0;0;0;0;1;1;1;1;2;2;2;2] ++ [0;0])); vm_compute; reflexivity. }
  split; auto. split; [vm_compute; auto|]. split; [vm_compute; reflexivity|].
  apply (cond_no_lost_wakeup s_window 1 (Th A_Blocked R 0 [] LNone) Hr).
  - vm_compute. reflexivity.
  - vm_compute. auto.
  - vm_compute. reflexivity.
Qed.

(* ... and after the release both are notified, re-test, and the reader gets in *)
Example ex_cond_wakeup_served :
  match RwLockCond.run [0;0;0;0;0; 1;1;1;1;1] s_window with
  | Some s => readers_in_cs s = 1 /\ waiters (glob s) = [] /\ notified (glob s) = [2]
  | None => False
  end.
Proof. vm_compute. auto. Qed.

(* `locked` called from inside the critical section *)
Example ex_cond_locked :
  match RwLockCond.run [0;0;0;0; 0;0] (RwLockCond.init [[Cy W 1]]) with
  | Some s => exists th, nth_error (thr s) 0 = Some th /\ t_seen th = LW
  | None => False
  end.
Proof. vm_compute. eexists. split; reflexivity. Qed.

(* reader preference: a writer can wait while readers overlap -- NOT a violation of C11 (progress is promised
   only once excluding holders have left); here the writer is still excluded after a full reader turnover *)
Example ex_cond_reader_preference :
  match RwLockCond.run [0;0;0;0; 2;2;2;2; 1;1;1;1; 0;0;0;0; 0;0;0;0; 1;1;1;1] (RwLockCond.init [[rd;rd];[rd];[wr]]) with
  | Some s => readers_in_cs s = 1 /\ writers_in_cs s = 0 /\ waiters (glob s) = [2] /\ pred W (glob s) = false
  | None => False
  end.
Proof. vm_compute. auto. Qed.

(* ---------------------------------------------------------------- file lock *)
Definition fst_of (o : option fstate) : fstate := match o with Some s => s | None => finit [] end.
Definition frd := FCy R 0 false.
Definition fwr := FCy W 0 false.

(* readers of two different processes inside together; a writer of a third process blocked in flock() *)
Definition fs_readers := fst_of (frun [0;0;0;0;0; 1;1;1;1;1] (finit [(0, [frd]); (1, [frd]); (2, [fwr])])).
Example ex_file_two_procs :
  freachable fs_readers /\ count (fin_cs R) (thr fs_readers) = 2 /\ k_sh (glob fs_readers) = 2 /\
  fenabled fs_readers 2 = false /\
  p_readers (proc_of (glob fs_readers) 0) = 1%Z /\ p_readers (proc_of (glob fs_readers) 1) = 1%Z.
Proof.
  split; [eapply (frun_reachable [(0, [frd]); (1, [frd]); (2, [fwr])] [0;0;0;0;0; 1;1;1;1;1]); vm_compute; reflexivity|].
  vm_compute. repeat split; auto.
Qed.

(* two threads of ONE process: the flock locks of their separate descriptors conflict *)
Example ex_file_same_proc :
  match frun [0;0;0;0;0] (finit [(0, [fwr]); (0, [frd])]) with
  | Some s => count (fin_cs W) (thr s) = 1 /\ fenabled s 1 = false /\ p_writer (proc_of (glob s) 0) = true
  | None => False
  end.
Proof. vm_compute. auto. Qed.

(* a thread at the "Guarantees failed" test (the hypothesis of file_check_passes is satisfiable) *)
Example ex_file_at_check :
  match frun [0] (finit [(0, [fwr])]) with
  | Some s => exists th, nth_error (thr s) 0 = Some th /\ f_pc th = F_Lock1
  | None => False
  end.
Proof. vm_compute. eexists. split; reflexivity. Qed.

(* ---------------------------------------------------------------- LockDict *)
Definition lst_of (o : option lstate) : lstate := match o with Some s => s | None => linit [] end.

(* t0 holds key 5, t1 and t3 wait for key 5 in arrival order, t2 holds key 7 at the same time *)
Definition ls_busy := lst_of (lrun_sched [0;0;0;0; 1;1;1;1; 2;2;2;2; 3;3;3;3] (linit [[5];[5];[7];[5]])).
Example ex_ld_busy :
  lreachable ls_busy /\ count (holds_key 5) (thr ls_busy) = 1 /\ count (holds_key 7) (thr ls_busy) = 1 /\
  lookup 5 (d_dict (glob ls_busy)) = Some 0 /\ dq (glob ls_busy) 0 = [0; 1; 3] /\
  lenabled ls_busy 1 = false /\ lenabled ls_busy 3 = false /\ lenabled ls_busy 2 = true.
Proof.
  split; [eapply (lrun_reachable [[5];[5];[7];[5]] [0;0;0;0; 1;1;1;1; 2;2;2;2; 3;3;3;3]); vm_compute; reflexivity|].
  vm_compute. repeat split; auto.
Qed.

(* the release of key 5 wakes exactly thread 1 (the first arrival), thread 3 stays parked *)
Example ex_ld_fifo :
  match lrun_sched [0;0;0] ls_busy with
  | Some s => d_unlocked (glob s) = [1] /\ dq (glob s) 0 = [1; 3] /\ lenabled s 1 = true /\ lenabled s 3 = false
  | None => False
  end.
Proof. vm_compute. auto. Qed.

(* when the last thread of a key leaves, the dict entry is removed *)
Example ex_ld_entry_removed :
  match lrun_sched [2;2;2] ls_busy with
  | Some s => lookup 7 (d_dict (glob s)) = None /\ lookup 5 (d_dict (glob s)) = Some 0
  | None => False
  end.
Proof. vm_compute. auto. Qed.

(* a thread at D_Wake (hypothesis of ld_wake_exact) *)
Example ex_ld_at_wake :
  match lrun_sched [0;0] ls_busy with
  | Some s => exists th, nth_error (thr s) 0 = Some th /\ l_pc th = D_Wake
  | None => False
  end.
Proof. vm_compute. eexists. split; reflexivity. Qed.

(* the hypotheses of C11_eventually (b) hold in a non-trivial state: thread 0 reads, thread 1 asks to read *)
Definition s_reader_and_requester := st_of (RwLockCond.run [0;0;0;0] (RwLockCond.init [[rd];[rd]])).
Example ex_cond_eventually_applies :
  reachable s_reader_and_requester /\ readers_in_cs s_reader_and_requester = 1 /\
  thr_at s_reader_and_requester 1 (Th A_Lock R 0 [] LNone) /\ requesting_pc A_Lock = true /\
  not_excluded s_reader_and_requester 1 R /\ mutex (glob s_reader_and_requester) = None.
Proof.
  split; [eapply (run_reachable [[rd];[rd]] [0;0;0;0]); vm_compute; reflexivity|].
  split; [vm_compute; reflexivity|]. split; [vm_compute; reflexivity|]. split; [reflexivity|]. split; [|vm_compute; reflexivity].
  intros u thu Hu Hne. destruct u as [|[|u]].
  - vm_compute in Hu. inversion Hu; subst. reflexivity.
  - congruence.
  - vm_compute in Hu. destruct u; discriminate.
Qed.

(* ... while a writer that asks at the same moment IS excluded (by the reader), so nothing is promised to it yet *)
Example ex_cond_writer_excluded :
  match RwLockCond.run [0;0;0;0] (RwLockCond.init [[rd];[wr]]) with
  | Some s => exists th, nth_error (thr s) 0 = Some th /\ excludes W th = true
  | None => False
  end.
Proof. vm_compute. eexists. split; reflexivity. Qed.

(* a FAILED acquisition (flock raises OSError) is an event of the model: while thread 0 reads, the attempts of thread 1
   (same process, mode w, then mode r) fail; the bookkeeping still says "one reader", `locked` = "r"; afterwards the
   reader leaves and a writer of the same process is admitted (no "Guarantees failed" later on) *)
Definition fs_after_failures :=
  fst_of (frun [0;0;0;0;0; 1;1; 1;1] (finit [(0, [frd]); (0, [FCy W 0 true; FCy R 0 true; fwr])])).
Example ex_file_failed_attempts :
  freachable fs_after_failures /\ p_readers (proc_of (glob fs_after_failures) 0) = 1%Z /\
  p_writer (proc_of (glob fs_after_failures) 0) = false /\ flocked_val (proc_of (glob fs_after_failures) 0) = FLR /\
  count (fholds_in 0 R) (thr fs_after_failures) = 1 /\ k_sh (glob fs_after_failures) = 1 /\
  match frun [0;0;0;0; 1;1;1;1;1] fs_after_failures with
  | Some s => count (fin_cs W) (thr s) = 1 /\ p_writer (proc_of (glob s) 0) = true /\ p_readers (proc_of (glob s) 0) = 0%Z
  | None => False
  end.
Proof.
  split; [eapply (frun_reachable [(0, [frd]); (0, [FCy W 0 true; FCy R 0 true; fwr])] [0;0;0;0;0; 1;1; 1;1]); vm_compute; reflexivity|].
  vm_compute. repeat split; auto.
Qed.
