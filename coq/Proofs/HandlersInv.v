(* C15: the well-formedness invariant of the ideal store is preserved by every request,
   and a request answered with an error status leaves the store unchanged (home creation aside). *)
From Coq Require Import List NArith Bool Lia.
Import ListNotations.
Require Import RV.Lib.PyStr RV.Lib.Item RV.Model.Store RV.Model.Access RV.Model.Handlers RV.Proofs.StoreLemmas.
Open Scope N_scope.

Definition valid_for (t : tag) (o : obj) : Prop :=
  match t with TCal => cal_comp o = true | TAdr => card_comp o = true | TNone => False end.

Definition uid_of (no : name * obj) : N := o_uid (snd no).

Definition coll_inv (c : coll) : Prop :=
  NoDup (map fst (c_items c)) /\ NoDup (map uid_of (c_items c))
  /\ (forall n o, In (n, o) (c_items c) -> valid_for (c_tag c) o).

Definition store_inv (s : store) : Prop :=
  NoDup (map fst s)
  /\ (exists rc, lookup s [] = Some rc /\ c_tag rc = TNone)
  /\ (forall p c, lookup s p = Some c -> coll_inv c)
  /\ (forall p c, lookup s p = Some c -> p <> [] ->
        exists pc, lookup s (parent p) = Some pc /\ c_tag pc = TNone).

(* ---------- assoc-list facts ---------- *)
Lemma assoc_In : forall {A} (l : list (N * A)) k v, assoc l k = Some v -> In (k, v) l.
Proof.
  induction l as [|[k' v'] l IH]; intros k v H; cbn in H; [discriminate|].
  destruct (N.eqb k' k) eqn:E; [apply N.eqb_eq in E; inversion H; subst; left; reflexivity|right; apply IH; exact H].
Qed.

Lemma In_assoc_set : forall {A} (l : list (N * A)) k v k' v',
  In (k', v') (assoc_set l k v) -> (k' = k /\ v' = v) \/ (k' <> k /\ In (k', v') l) \/ (k' = k /\ In (k', v') l).
Proof.
  induction l as [|[k0 v0] l IH]; intros k v k' v' H; cbn in H.
  - destruct H as [H|[]]. inversion H; subst. left. split; reflexivity.
  - destruct (N.eqb k0 k) eqn:E.
    + apply N.eqb_eq in E. subst. destruct H as [H|H]; [inversion H; subst; left; split; reflexivity|].
      destruct (N.eq_dec k' k) as [->|Hne]; [right; right; split; [reflexivity|right; exact H]|right; left; split; [exact Hne|right; exact H]].
    + destruct H as [H|H].
      * inversion H; subst. right. left. split; [apply N.eqb_neq; exact E|left; reflexivity].
      * apply IH in H. destruct H as [H|[[H1 H2]|[H1 H2]]]; [left; exact H|right; left; split; [exact H1|right; exact H2]|right; right; split; [exact H1|right; exact H2]].
Qed.

Lemma assoc_set_keys : forall {A} (l : list (N * A)) k v x,
  In x (map fst (assoc_set l k v)) <-> x = k \/ In x (map fst l).
Proof.
  induction l as [|[k0 v0] l IH]; intros k v x; cbn.
  - intuition congruence.
  - destruct (N.eqb k0 k) eqn:E; cbn.
    + apply N.eqb_eq in E. subst. intuition congruence.
    + rewrite IH. intuition congruence.
Qed.

Lemma assoc_set_NoDup : forall {A} (l : list (N * A)) k v, NoDup (map fst l) -> NoDup (map fst (assoc_set l k v)).
Proof.
  induction l as [|[k0 v0] l IH]; intros k v H; cbn.
  - constructor; [intros []|constructor].
  - inversion H as [|? ? Hni Hnd]; subst. destruct (N.eqb k0 k) eqn:E; cbn.
    + apply N.eqb_eq in E. subst. constructor; assumption.
    + constructor; [|apply IH; exact Hnd]. intros Hin. apply assoc_set_keys in Hin.
      destruct Hin as [->|Hin]; [rewrite N.eqb_refl in E; discriminate|contradiction].
Qed.

Lemma assoc_del_In : forall {A} (l : list (N * A)) k x, In x (assoc_del l k) -> In x l /\ fst x <> k.
Proof.
  intros A l k x H. unfold assoc_del in H. apply filter_In in H as [H1 H2]. split; [exact H1|].
  apply negb_true_iff in H2. apply N.eqb_neq. exact H2.
Qed.

Lemma NoDup_map_filter : forall {A B} (f : A -> B) (g : A -> bool) (l : list A),
  NoDup (map f l) -> NoDup (map f (filter g l)).
Proof.
  induction l as [|x l IH]; intros H; cbn; [constructor|].
  inversion H as [|? ? Hni Hnd]; subst. destruct (g x); cbn; [|apply IH; exact Hnd].
  constructor; [|apply IH; exact Hnd]. intros Hin. apply Hni.
  apply in_map_iff in Hin as [y [Hy Hin]]. apply filter_In in Hin as [Hin _]. rewrite <- Hy. apply in_map. exact Hin.
Qed.

Lemma assoc_None_not_in : forall {A} (l : list (N * A)) k, assoc l k = None -> ~ In k (map fst l).
Proof.
  induction l as [|[k0 v0] l IH]; intros k H Hin; cbn in *; [contradiction|].
  destruct (N.eqb k0 k) eqn:E; [discriminate|]. destruct Hin as [->|Hin]; [rewrite N.eqb_refl in E; discriminate|].
  exact (IH k H Hin).
Qed.

(* uids after replacing / inserting one entry *)
Lemma uids_assoc_set_fresh : forall (l : list (name * obj)) k o,
  NoDup (map uid_of l) -> ~ In k (map fst l) -> ~ In (o_uid o) (map uid_of l) ->
  NoDup (map uid_of (assoc_set l k o)).
Proof.
  induction l as [|[k0 v0] l IH]; intros k o Hnd Hk Hu; cbn.
  - constructor; [intros []|constructor].
  - cbn in Hk, Hu. destruct (N.eqb k0 k) eqn:E; [apply N.eqb_eq in E; subst; exfalso; apply Hk; left; reflexivity|].
    inversion Hnd as [|? ? Hni Hnd']; subst. cbn. constructor.
    + intros Hin. apply in_map_iff in Hin as [[k1 o1] [Hy Hin]]. unfold uid_of in Hy. cbn in Hy.
      apply In_assoc_set in Hin. destruct Hin as [[-> ->]|[[_ Hin]|[_ Hin]]].
      * apply Hu. left. unfold uid_of. cbn. congruence.
      * apply Hni. apply in_map_iff. exists (k1, o1). split; [exact Hy|exact Hin].
      * apply Hni. apply in_map_iff. exists (k1, o1). split; [exact Hy|exact Hin].
    + apply IH; [exact Hnd'|intros H; apply Hk; right; exact H|intros H; apply Hu; right; exact H].
Qed.

Lemma uids_assoc_set_replace : forall (l : list (name * obj)) k old o,
  NoDup (map fst l) -> NoDup (map uid_of l) -> assoc l k = Some old -> o_uid old = o_uid o ->
  NoDup (map uid_of (assoc_set l k o)).
Proof.
  induction l as [|[k0 v0] l IH]; intros k old o Hk Hnd Ha Hu; cbn in *; [discriminate|].
  inversion Hk as [|? ? Hki Hk']; subst. inversion Hnd as [|? ? Hni Hnd']; subst.
  destruct (N.eqb k0 k) eqn:E; cbn.
  - inversion Ha; subst. constructor; [|exact Hnd']. unfold uid_of at 1. cbn. rewrite <- Hu. exact Hni.
  - constructor; [|eapply IH; eassumption].
    intros Hin. apply in_map_iff in Hin as [[k1 o1] [Hy Hin]]. unfold uid_of in Hy. cbn in Hy.
    apply In_assoc_set in Hin. destruct Hin as [[-> ->]|[[_ Hin]|[_ Hin]]].
    + apply Hni. apply in_map_iff. exists (k, old). split; [unfold uid_of; cbn; congruence|apply assoc_In; exact Ha].
    + apply Hni. apply in_map_iff. exists (k1, o1). split; [exact Hy|exact Hin].
    + apply Hni. apply in_map_iff. exists (k1, o1). split; [exact Hy|exact Hin].
Qed.

Lemma has_uid_false : forall c u, has_uid c u = false -> ~ In u (map uid_of (c_items c)).
Proof.
  intros c u H Hin. unfold has_uid in H. apply in_map_iff in Hin as [[k o] [Hy Hin]].
  assert (existsb (fun no => N.eqb (o_uid (snd no)) u) (c_items c) = true).
  { apply existsb_exists. exists (k, o). split; [exact Hin|]. unfold uid_of in Hy. cbn in *. apply N.eqb_eq. exact Hy. }
  congruence.
Qed.

Definition is_error (st : status) : bool :=
  match st with S200 | S201 | S204 | S207 => false | _ => true end.

(* ---------- a small inversion tactic for early-return handlers ---------- *)
Ltac brk :=
  match goal with
  | |- context [match ?x with _ => _ end] =>
      match type of x with
      | sumbool _ _ => fail 1
      | _ => destruct x eqn:?
      end
  end.

Lemma store_inv_lookup_coll : forall s p c, store_inv s -> lookup s p = Some c -> coll_inv c.
Proof. intros s p c (_ & _ & H & _) Hl. exact (H p c Hl). Qed.

Lemma resolve_coll : forall s p c, resolve s p = NColl c -> lookup s p = Some c.
Proof.
  intros s p c H. unfold resolve in H. destruct (lookup s p) eqn:E; [inversion H; reflexivity|].
  destruct p; [discriminate|]. destruct (lookup s (parent (n :: p))); [|discriminate].
  destruct (assoc _ _); discriminate.
Qed.

Lemma resolve_item : forall s p pc o, resolve s p = NItem pc o ->
  lookup s p = None /\ p <> [] /\ lookup s (parent p) = Some pc /\ assoc (c_items pc) (last_name p) = Some o.
Proof.
  intros s p pc o H. unfold resolve in H. destruct (lookup s p) eqn:E; [discriminate|].
  destruct p as [|n p]; [discriminate|]. destruct (lookup s (parent (n :: p))) eqn:E2; [|discriminate].
  destruct (assoc (c_items c) (last_name (n :: p))) eqn:E3; [|discriminate]. inversion H; subst.
  repeat split; try assumption. discriminate.
Qed.

Lemma resolve_nothing_lookup : forall s p, resolve s p = NNothing -> lookup s p = None.
Proof.
  intros s p H. unfold resolve in H. destruct (lookup s p); [discriminate|reflexivity].
Qed.

(* replacing a collection by one with the same tag and an invariant-respecting item list *)
Lemma store_inv_set_same_tag : forall s p c c',
  store_inv s -> lookup s p = Some c -> c_tag c' = c_tag c -> coll_inv c' ->
  store_inv (set_coll s p c').
Proof.
  intros s p c c' (Hnd & (rc & Hr & Hrt) & Hc & Hp) Hl Ht Hi. refine (conj _ (conj _ (conj _ _))).
  - apply set_coll_NoDup. exact Hnd.
  - rewrite lookup_set. destruct (path_eqb p []) eqn:E.
    + apply path_eqb_eq in E. subst. exists c'. split; [reflexivity|]. rewrite Ht. congruence.
    + exists rc. split; assumption.
  - intros q cq Hq. rewrite lookup_set in Hq. destruct (path_eqb p q); [inversion Hq; subst; exact Hi|exact (Hc q cq Hq)].
  - intros q cq Hq Hne. rewrite lookup_set in Hq.
    assert (Hex : exists c0, lookup s q = Some c0).
    { destruct (path_eqb p q) eqn:E; [apply path_eqb_eq in E; subst; exists c; exact Hl|exists cq; exact Hq]. }
    destruct Hex as [c0 Hc0]. destruct (Hp q c0 Hc0 Hne) as (pc & Hpc & Hpt).
    rewrite lookup_set. destruct (path_eqb p (parent q)) eqn:E2.
    + apply path_eqb_eq in E2. subst. exists c'. split; [reflexivity|]. rewrite Ht. congruence.
    + exists pc. split; assumption.
Qed.

(* adding a new collection below an existing untagged one *)
Lemma store_inv_add : forall s p c pc,
  store_inv s -> p <> [] -> lookup s p = None -> lookup s (parent p) = Some pc -> c_tag pc = TNone ->
  coll_inv c -> store_inv (set_coll s p c).
Proof.
  intros s p c pc (Hnd & (rc & Hr & Hrt) & Hc & Hp) Hne Hl Hpl Hpt Hi. refine (conj _ (conj _ (conj _ _))).
  - apply set_coll_NoDup. exact Hnd.
  - rewrite lookup_set. destruct (path_eqb p []) eqn:E; [apply path_eqb_eq in E; contradiction|].
    exists rc. split; assumption.
  - intros q cq Hq. rewrite lookup_set in Hq. destruct (path_eqb p q); [inversion Hq; subst; exact Hi|exact (Hc q cq Hq)].
  - intros q cq Hq Hqne. rewrite lookup_set in Hq. rewrite lookup_set.
    destruct (path_eqb p q) eqn:E.
    + apply path_eqb_eq in E. subst q.
      destruct (path_eqb p (parent p)) eqn:E2; [apply path_eqb_eq in E2; rewrite <- E2 in Hpl; congruence|].
      exists pc. split; assumption.
    + destruct (Hp q cq Hq Hqne) as (pq & Hpq & Hpqt).
      destruct (path_eqb p (parent q)) eqn:E2; [apply path_eqb_eq in E2; subst; congruence|].
      exists pq. split; assumption.
Qed.

Lemma is_prefix_parent : forall p q, is_prefix p q = true -> p <> q -> is_prefix p (parent q) = true.
Proof.
  intros p q H Hne. apply is_prefix_spec in H as [r ->]. destruct r as [|x r] using rev_ind.
  - rewrite app_nil_r in Hne. contradiction.
  - unfold parent. rewrite app_assoc, removelast_last. apply is_prefix_spec. exists r. reflexivity.
Qed.

Lemma parent_prefix : forall q, q <> [] -> exists x, q = parent q ++ [x].
Proof. intros q H. exists (last q 0). unfold parent. apply app_removelast_last. exact H. Qed.

Lemma not_prefix_parent : forall p q, q <> [] -> is_prefix p q = false -> is_prefix p (parent q) = false.
Proof.
  intros p q Hne H. destruct (is_prefix p (parent q)) eqn:E; [|reflexivity].
  apply is_prefix_spec in E as [r Hr]. destruct (parent_prefix q Hne) as [x Hx].
  assert (is_prefix p q = true). { apply is_prefix_spec. exists (r ++ [x]). rewrite Hx at 1. rewrite Hr. rewrite <- app_assoc. reflexivity. }
  congruence.
Qed.

(* removing a whole subtree (not the root) *)
Lemma store_inv_del_subtree : forall s p, store_inv s -> p <> [] -> store_inv (del_subtree s p).
Proof.
  intros s p (Hnd & (rc & Hr & Hrt) & Hc & Hp) Hne. refine (conj _ (conj _ (conj _ _))).
  - apply del_subtree_NoDup. exact Hnd.
  - exists rc. rewrite lookup_del_subtree. destruct p; [contradiction|]. cbn. split; assumption.
  - intros q cq Hq. rewrite lookup_del_subtree in Hq. destruct (is_prefix p q); [discriminate|exact (Hc q cq Hq)].
  - intros q cq Hq Hqne. rewrite lookup_del_subtree in Hq. destruct (is_prefix p q) eqn:E; [discriminate|].
    destruct (Hp q cq Hq Hqne) as (pq & Hpq & Hpqt). exists pq. rewrite lookup_del_subtree.
    rewrite (not_prefix_parent p q Hqne E). split; assumption.
Qed.

(* replacing the subtree at p (p <> root, parent exists and is untagged) by one new collection *)
Lemma store_inv_replace : forall s p c pc,
  store_inv s -> p <> [] -> lookup s (parent p) = Some pc -> c_tag pc = TNone -> coll_inv c ->
  store_inv (set_coll (del_subtree s p) p c).
Proof.
  intros s p c pc Hs Hne Hpl Hpt Hi.
  apply (store_inv_add (del_subtree s p) p c pc).
  - apply store_inv_del_subtree; assumption.
  - exact Hne.
  - rewrite lookup_del_subtree, is_prefix_refl. reflexivity.
  - rewrite lookup_del_subtree.
    destruct (is_prefix p (parent p)) eqn:E; [|exact Hpl].
    exfalso. apply is_prefix_spec in E as [r Hr]. destruct (parent_prefix p Hne) as [x Hx].
    rewrite Hr in Hx. apply (f_equal (@List.length N)) in Hx. rewrite !app_length in Hx. cbn [List.length] in Hx. unfold name in *. lia.
  - exact Hpt.
  - exact Hi.
Qed.

Lemma coll_inv_empty : forall t props, coll_inv (mkColl t props []).
Proof. intros. repeat split; cbn; try constructor. intros n o []. Qed.

Lemma empty_store_inv : store_inv empty_store.
Proof.
  refine (conj _ (conj _ (conj _ _))).
  - cbn. constructor; [intros []|constructor].
  - eexists. split; reflexivity.
  - intros p c H. cbn in H. destruct p; [|discriminate]. inversion H; subst. apply coll_inv_empty.
  - intros p c H Hne. cbn in H. destruct p; [contradiction|discriminate].
Qed.

Lemma coll_inv_del : forall c k, coll_inv c -> coll_inv (mkColl (c_tag c) (c_props c) (assoc_del (c_items c) k)).
Proof.
  intros c k (H1 & H2 & H3). unfold assoc_del. repeat split; cbn.
  - apply NoDup_map_filter. exact H1.
  - apply NoDup_map_filter. exact H2.
  - intros n o Hin. apply filter_In in Hin as [Hin _]. exact (H3 n o Hin).
Qed.

Lemma coll_inv_props : forall c props, coll_inv c -> coll_inv (mkColl (c_tag c) props (c_items c)).
Proof. intros c props H. exact H. Qed.

Lemma ensure_home_inv : forall pol s u, store_inv s -> store_inv (ensure_home pol s u).
Proof.
  intros pol s u Hs. unfold ensure_home. destruct u as [u|]; [|exact Hs].
  destruct (resolve s [u]) eqn:E; try exact Hs.
  destruct (has lW (pol [u])); [|exact Hs].
  pose proof Hs as (_ & (rc & Hr & Hrt) & _ & _).
  apply (store_inv_add s [u] _ rc); try assumption.
  - discriminate.
  - apply resolve_nothing_lookup. exact E.
  - apply coll_inv_empty.
Qed.

Lemma do_delete_inv : forall cfg pol s p im, store_inv s -> store_inv (fst (do_delete cfg pol s p im)).
Proof.
  intros cfg pol s p im Hs. unfold do_delete.
  repeat (brk; cbn [fst]; try exact Hs).
  - exact empty_store_inv.
  - apply store_inv_del_subtree; [exact Hs|]. intros ->. discriminate.
  - match goal with H : resolve s p = NItem ?pc ?o |- _ => apply resolve_item in H as (_ & Hne & Hpl & _) end.
    eapply store_inv_set_same_tag; [exact Hs|eassumption|reflexivity|].
    apply coll_inv_del. eapply store_inv_lookup_coll; eassumption.
Qed.

Lemma do_mkcol_inv : forall pol s p x, store_inv s -> store_inv (fst (do_mkcol pol s p x)).
Proof.
  intros pol s p x Hs. unfold do_mkcol.
  repeat (brk; cbn [fst]; try exact Hs);
  match goal with
  | Hn : resolve s p = NNothing, Hp : resolve s (parent p) = NColl ?pc |- _ =>
      apply resolve_nothing_lookup in Hn; apply resolve_coll in Hp;
      apply (store_inv_add s p _ pc); try assumption;
      [intros ->; pose proof Hs as (_ & (rc & Hr & _) & _ & _); cbn in Hn; congruence | apply coll_inv_empty]
  end.
Qed.

Lemma do_mkcalendar_inv : forall pol s p x, store_inv s -> store_inv (fst (do_mkcalendar pol s p x)).
Proof.
  intros pol s p x Hs. unfold do_mkcalendar.
  repeat (brk; cbn [fst]; try exact Hs);
  match goal with
  | Hn : resolve s p = NNothing, Hp : resolve s (parent p) = NColl ?pc |- _ =>
      apply resolve_nothing_lookup in Hn; apply resolve_coll in Hp;
      apply (store_inv_add s p _ pc); try assumption;
      [intros ->; pose proof Hs as (_ & (rc & Hr & _) & _ & _); cbn in Hn; congruence | apply coll_inv_empty]
  end.
Qed.

Lemma do_proppatch_inv : forall pol s p x, store_inv s -> store_inv (fst (do_proppatch pol s p x)).
Proof.
  intros pol s p x Hs. unfold do_proppatch.
  repeat (brk; cbn [fst]; try exact Hs);
  match goal with
  | Hc : resolve s p = NColl ?c |- _ =>
      apply resolve_coll in Hc; eapply store_inv_set_same_tag; [exact Hs|exact Hc|reflexivity|];
      try (apply (coll_inv_props c)); eapply store_inv_lookup_coll; eassumption
  end.
Qed.

Lemma coll_inv_put : forall c k o,
  coll_inv c -> valid_for (c_tag c) o ->
  match assoc (c_items c) k with
  | Some old => o_uid old = o_uid o
  | None => ~ In (o_uid o) (map uid_of (c_items c))
  end ->
  coll_inv (mkColl (c_tag c) (c_props c) (assoc_set (c_items c) k o)).
Proof.
  intros c k o (H1 & H2 & H3) Hv Hu. refine (conj _ (conj _ _)); cbn.
  - apply assoc_set_NoDup. exact H1.
  - destruct (assoc (c_items c) k) as [old|] eqn:Ea.
    + eapply uids_assoc_set_replace; eassumption.
    + apply uids_assoc_set_fresh; [exact H2|apply assoc_None_not_in; exact Ea|exact Hu].
  - intros n o' Hin. apply In_assoc_set in Hin. destruct Hin as [[_ ->]|[[_ Hin]|[_ Hin]]]; [exact Hv|exact (H3 n o' Hin)|exact (H3 n o' Hin)].
Qed.

Lemma uids_del_fresh : forall (l : list (name * obj)) k o,
  NoDup (map fst l) -> NoDup (map uid_of l) -> assoc l k = Some o ->
  ~ In (o_uid o) (map uid_of (assoc_del l k)).
Proof.
  induction l as [|[k0 v0] l IH]; intros k o Hk Hu Ha; cbn in *; [discriminate|].
  inversion Hk as [|? ? Hki Hk']; subst. inversion Hu as [|? ? Hui Hu']; subst.
  destruct (N.eqb k0 k) eqn:E; cbn.
  - inversion Ha; subst. intros Hin. apply Hui. apply in_map_iff in Hin as [x [Hx Hin]].
    apply filter_In in Hin as [Hin _]. apply in_map_iff. exists x. split; assumption.
  - intros [Heq|Hin].
    + apply Hui. unfold uid_of in Heq at 1. cbn in Heq. apply in_map_iff. exists (k, o). split; [unfold uid_of; cbn; congruence|apply assoc_In; exact Ha].
    + exact (IH k o Hk' Hu' Ha Hin).
Qed.

Lemma assoc_del_assoc : forall {A} (l : list (N * A)) k k',
  assoc (assoc_del l k) k' = if N.eqb k k' then None else assoc l k'.
Proof.
  intros A l k k'. destruct (N.eqb k k') eqn:E.
  - apply N.eqb_eq in E. subst. apply assoc_del_same.
  - apply assoc_del_other. apply N.eqb_neq. exact E.
Qed.

Lemma not_in_uids_del : forall (l : list (name * obj)) k u, ~ In u (map uid_of l) -> ~ In u (map uid_of (assoc_del l k)).
Proof.
  intros l k u H Hin. apply H. apply in_map_iff in Hin as [x [Hx Hin]]. apply filter_In in Hin as [Hin _].
  apply in_map_iff. exists x. split; assumption.
Qed.

Lemma resolve_nothing_assoc : forall s p pc, p <> [] -> resolve s p = NNothing -> lookup s (parent p) = Some pc ->
  assoc (c_items pc) (last_name p) = None.
Proof.
  intros s p pc Hne H Hl. unfold resolve in H. destruct (lookup s p); [discriminate|].
  destruct p; [contradiction|]. rewrite Hl in H. destruct (assoc (c_items pc) (last_name (n :: p))); [discriminate|reflexivity].
Qed.

Lemma valid_for_tag_eq : forall t t' o, tag_eqb t t' = true -> valid_for t o -> valid_for t' o.
Proof. intros [] [] o H; try discriminate; auto. Qed.

Lemma do_move_cases : forall pol s p dr dout to ow s' r,
  do_move pol s p dr dout to ow = (s', r) ->
  (s' = s /\ is_error (fst r) = true) \/
  exists fc o toc tc,
    resolve s p = NItem fc o /\ resolve s (parent to) = NColl toc
    /\ tag_eqb (c_tag fc) TNone = false /\ tag_eqb (c_tag fc) (c_tag toc) = true
    /\ (match resolve s to with
        | NItem _ old => o_uid o = o_uid old
        | NColl _ => False
        | NNothing => path_eqb (parent to) (parent p) = true \/ has_uid toc (o_uid o) = false
        end)
    /\ lookup (set_coll s (parent p) (mkColl (c_tag fc) (c_props fc) (assoc_del (c_items fc) (last_name p)))) (parent to) = Some tc
    /\ s' = set_coll (set_coll s (parent p) (mkColl (c_tag fc) (c_props fc) (assoc_del (c_items fc) (last_name p))))
                     (parent to) (mkColl (c_tag tc) (c_props tc) (assoc_set (c_items tc) (last_name to) o))
    /\ is_error (fst r) = false.
Proof.
  intros pol s p dr dout to ow s' r H. unfold do_move in H.
  repeat (match type of H with context [match ?x with _ => _ end] => destruct x eqn:? end;
          try (inversion H; subst; left; split; reflexivity)).
  all: inversion H; subst; clear H; right.
  all: do 4 eexists; repeat split; try eassumption; try reflexivity.
  all: try (apply negb_false_iff; assumption).
  all: try match goal with
           | H : negb (N.eqb ?a ?b) = false |- ?a = ?b => apply negb_false_iff in H; apply N.eqb_eq in H; exact H
           | H : negb (path_eqb ?a ?b) && ?h = false |- _ =>
               apply andb_false_iff in H; destruct H as [H|H]; [left; apply negb_false_iff; exact H|right; exact H]
           end.
Qed.

Lemma resolve_cases : forall s q pc, lookup s (parent q) = Some pc ->
  (exists c', resolve s q = NColl c') \/
  (q <> [] /\ resolve s q = match assoc (c_items pc) (last_name q) with Some old => NItem pc old | None => NNothing end).
Proof.
  intros s q pc Hl. unfold resolve. destruct (lookup s q) eqn:E; [left; eexists; reflexivity|].
  destruct q as [|x q]; [cbn in Hl; congruence|]. right. split; [discriminate|]. rewrite Hl. reflexivity.
Qed.

Lemma tag_eqb_eq : forall a b, tag_eqb a b = true -> a = b.
Proof. intros [] [] H; try discriminate; reflexivity. Qed.

Lemma do_move_inv : forall pol s p dr dout to ow, store_inv s -> store_inv (fst (do_move pol s p dr dout to ow)).
Proof.
  intros pol s p dr dout to ow Hs.
  destruct (do_move pol s p dr dout to ow) as [s' r] eqn:E. cbn [fst].
  apply do_move_cases in E. destruct E as [[-> _]|(fc & o & toc & tc & Hi & Htc & Htn & Hte & Hcf & Hl & -> & _)]; [exact Hs|].
  pose proof (resolve_item _ _ _ _ Hi) as (_ & Hpne & Hfl & Hfa).
  pose proof (store_inv_lookup_coll _ _ _ Hs Hfl) as Hfci.
  pose proof (resolve_coll _ _ _ Htc) as Htl.
  pose proof (store_inv_lookup_coll _ _ _ Hs Htl) as Htci.
  apply tag_eqb_eq in Hte.
  assert (Hvo : valid_for (c_tag fc) o) by (destruct Hfci as (_ & _ & Hv); exact (Hv _ _ (assoc_In _ _ _ Hfa))).
  set (fc' := mkColl (c_tag fc) (c_props fc) (assoc_del (c_items fc) (last_name p))) in *.
  assert (Hs1 : store_inv (set_coll s (parent p) fc'))
    by (eapply store_inv_set_same_tag; [exact Hs|exact Hfl|reflexivity|apply coll_inv_del; exact Hfci]).
  eapply store_inv_set_same_tag; [exact Hs1|exact Hl|reflexivity|].
  rewrite lookup_set in Hl. destruct (path_eqb (parent p) (parent to)) eqn:Esame.
  - (* same collection *)
    apply path_eqb_eq in Esame. inversion Hl; subst tc; clear Hl.
    assert (toc = fc) by congruence. subst toc.
    apply coll_inv_put; [apply coll_inv_del; exact Hfci|exact Hvo|].
    cbn [c_items fc']. rewrite assoc_del_assoc.
    destruct (N.eqb (last_name p) (last_name to)) eqn:En.
    + apply uids_del_fresh; [apply Hfci|apply Hfci|exact Hfa].
    + destruct (assoc (c_items fc) (last_name to)) as [old|] eqn:Eo.
      * rewrite <- Esame in Htl. 
        destruct (resolve_cases s to fc (eq_trans (f_equal (lookup s) (eq_sym Esame)) Hfl)) as [[c' Hr]|[Hne Hr]];
          rewrite Hr in Hcf; [contradiction|]. rewrite Eo in Hcf. symmetry. exact Hcf.
      * apply uids_del_fresh; [apply Hfci|apply Hfci|exact Hfa].
  - (* different collections *)
    assert (tc = toc) by congruence. subst tc.
    apply coll_inv_put; [exact Htci|rewrite <- Hte; exact Hvo|].
    destruct (resolve_cases s to toc Htl) as [[c' Hr]|[Hne Hr]]; rewrite Hr in Hcf; [contradiction|].
    destruct (assoc (c_items toc) (last_name to)) as [old|]; [symmetry; exact Hcf|].
    destruct Hcf as [Hcf|Hcf]; [rewrite path_eqb_sym in Hcf; congruence|apply has_uid_false; exact Hcf].
Qed.

(* ---------- PUT ---------- *)
Lemma validate_spec : forall b whole t objs, validate b whole t = Some objs ->
  (forall o, In o objs -> valid_for t o) /\ (whole = false -> exists o, objs = [o]).
Proof.
  intros b whole t objs H. unfold validate in H.
  destruct t; [discriminate| |].
  - destruct b as [| |l|l]; try discriminate. destruct (forallb cal_comp l) eqn:Ef; [|discriminate].
    rewrite forallb_forall in Ef. destruct whole.
    + inversion H; subst. split; [intros o Ho; exact (Ef o Ho)|discriminate].
    + destruct l as [|o [|]]; try discriminate. inversion H; subst. split; [intros o' Ho'; exact (Ef o' Ho')|intros _; eexists; reflexivity].
  - destruct b as [| |l|l]; try discriminate.
    + destruct whole; [|discriminate]. inversion H; subst. split; [intros o []|discriminate].
    + destruct (forallb card_comp l) eqn:Ef; [|discriminate]. rewrite forallb_forall in Ef. destruct whole.
      * destruct (nodup_uids l); [|discriminate]. inversion H; subst. split; [intros o Ho; exact (Ef o Ho)|discriminate].
      * destruct l as [|o [|]]; try discriminate. inversion H; subst. split; [intros o' Ho'; exact (Ef o' Ho')|intros _; eexists; reflexivity].
Qed.

Lemma prepare_spec : forall b ct pm ppm t0 w0 t2 w2 objs,
  prepare b ct pm ppm t0 w0 = PRes t2 w2 (Some objs) ->
  objs = [] \/ exists t whole, t2 = Some t /\ w2 = Some whole /\ validate b whole t = Some objs.
Proof.
  intros b ct pm ppm t0 w0 t2 w2 objs H. unfold prepare in H.
  destruct (match w0 with Some true => true | _ => false end || pm && negb ppm).
  - destruct (predict_whole b ct) as [t|]; [|discriminate]. inversion H; subst. right. exists t, true. repeat split; reflexivity || assumption.
  - destruct (match w0 with Some false => true | _ => false end || negb pm && ppm).
    + destruct (match t0 with None => predict_parent b | Some _ => t0 end) as [t'|] eqn:Et.
      * inversion H; subst. right. exists t', false. repeat split; reflexivity || assumption.
      * inversion H; subst. left. reflexivity.
    + inversion H; subst. left. reflexivity.
Qed.

Definition class_base (t : tag) : N := match t with TAdr => 200 | _ => 100 end.

Lemma name_of_uid_valid : forall t o, valid_for t o -> name_of_uid (o_comp o) (o_uid o) = class_base t + o_uid o.
Proof.
  intros t o H. unfold name_of_uid, class_base. destruct t; cbn in H; [contradiction| |];
  unfold cal_comp, card_comp in H; destruct (o_comp o); try discriminate; reflexivity.
Qed.

Lemma regroup_valid : forall t o, valid_for t o -> valid_for t (regroup o) /\ o_uid (regroup o) = o_uid o /\ o_comp (regroup o) = o_comp o.
Proof.
  intros t o H. unfold regroup. destruct (o_comp o) eqn:E; cbn; repeat split; try exact H; try (symmetry; exact E);
  destruct t; cbn in *; try contradiction; unfold cal_comp, card_comp in *; cbn; rewrite ?E in *; try reflexivity; try discriminate; try exact H.
Qed.

Definition acc_ok (t : tag) (acc : list (name * obj)) : Prop :=
  NoDup (map fst acc) /\ forall n o, In (n, o) acc -> valid_for t o /\ n = class_base t + o_uid o.

Lemma items_fold_ok : forall t objs acc, acc_ok t acc -> (forall o, In o objs -> valid_for t o) ->
  acc_ok t (fold_left (fun acc o => assoc_set acc (name_of_uid (o_comp o) (o_uid o)) (regroup o)) objs acc).
Proof.
  induction objs as [|o objs IH]; intros acc Hacc Hv; cbn [fold_left]; [exact Hacc|].
  apply IH; [|intros o' Ho'; apply Hv; right; exact Ho'].
  destruct Hacc as [Hnd Hall]. pose proof (Hv o (or_introl eq_refl)) as Hvo.
  destruct (regroup_valid t o Hvo) as (Hrv & Hru & Hrc).
  split; [apply assoc_set_NoDup; exact Hnd|].
  intros n o' Hin. apply In_assoc_set in Hin. destruct Hin as [[-> ->]|[[_ Hin]|[_ Hin]]].
  - split; [exact Hrv|]. rewrite Hru. apply name_of_uid_valid. exact Hvo.
  - exact (Hall n o' Hin).
  - exact (Hall n o' Hin).
Qed.

Lemma acc_ok_coll_inv : forall t props acc, acc_ok t acc -> coll_inv (mkColl t props acc).
Proof.
  intros t props acc [Hnd Hall]. refine (conj Hnd (conj _ _)); cbn.
  - assert (Hmap : map fst acc = map (N.add (class_base t)) (map uid_of acc)).
    { rewrite map_map. apply map_ext_in. intros [n o] Hin. cbn. unfold uid_of. cbn. exact (proj2 (Hall n o Hin)). }
    rewrite Hmap in Hnd. exact (NoDup_map_inv _ _ Hnd).
  - intros n o Hin. exact (proj1 (Hall n o Hin)).
Qed.

Lemma items_of_objs_inv : forall t objs, (forall o, In o objs -> valid_for t o) -> coll_inv (mkColl t [] (items_of_objs objs)).
Proof.
  intros t objs Hv. apply acc_ok_coll_inv. unfold items_of_objs. apply items_fold_ok; [|exact Hv].
  split; [constructor|intros n o []].
Qed.

Lemma ptag_eqb_eq : forall a b, ptag_eqb a b = true -> a = b.
Proof. intros [a|] [b|] H; cbn in H; try discriminate; [apply tag_eqb_eq in H; congruence|reflexivity]. Qed.

Lemma obool_eqb_eq : forall a b, obool_eqb a b = true -> a = Some b.
Proof. intros [a|] b H; cbn in H; [apply eqb_prop in H; congruence|discriminate]. Qed.

Lemma put_prep_whole : forall b ct pm ppm t t2 w2 objs,
  put_prep b ct pm ppm t true (prepare b ct pm ppm None None) = PRes t2 w2 (Some objs) ->
  exists tg, t2 = Some tg /\ validate b true tg = Some objs.
Proof.
  intros b ct pm ppm t t2 w2 objs H. unfold put_prep in H.
  destruct (prepare b ct pm ppm None None) as [|t1 w1 i1] eqn:E1; [discriminate|].
  assert (Hb1 : forall t0, prepare b ct pm ppm t0 (Some true) = PRes t2 w2 (Some objs) ->
                 exists tg, t2 = Some tg /\ validate b true tg = Some objs).
  { intros t0 Hp. unfold prepare in Hp. cbn [orb] in Hp. destruct (predict_whole b ct) as [tg|]; [|discriminate].
    inversion Hp; subst. exists tg. split; [reflexivity|first [assumption|symmetry; assumption|congruence]]. }
  destruct (negb (ptag_eqb t t1) || negb (obool_eqb w1 true)) eqn:Ec; [exact (Hb1 _ H)|].
  apply orb_false_iff in Ec as [_ Ew]. apply negb_false_iff in Ew. apply obool_eqb_eq in Ew. subst w1.
  inversion H; subst. clear H.
  unfold prepare in E1. cbn [orb] in E1.
  destruct (pm && negb ppm).
  - destruct (predict_whole b ct) as [tg|]; [|discriminate]. inversion E1; subst. exists tg. split; [reflexivity|first [assumption|symmetry; assumption|congruence]].
  - destruct (negb pm && ppm); [destruct (predict_parent b); discriminate|discriminate].
Qed.

Lemma put_prep_item : forall b ct pm tg t2 w2 objs,
  put_prep b ct pm true (Some tg) false (prepare b ct pm true None None) = PRes t2 w2 (Some objs) ->
  validate b false tg = Some objs.
Proof.
  intros b ct pm tg t2 w2 objs H. unfold put_prep in H.
  destruct (prepare b ct pm true None None) as [|t1 w1 i1] eqn:E1; [discriminate|].
  destruct (negb (ptag_eqb (Some tg) t1) || negb (obool_eqb w1 false)) eqn:Ec.
  - unfold prepare in H. cbn [orb negb andb] in H. rewrite andb_false_r in H. cbn [orb] in H.
    inversion H; subst. reflexivity.
  - apply orb_false_iff in Ec as [Et Ew]. apply negb_false_iff in Et, Ew.
    apply ptag_eqb_eq in Et. apply obool_eqb_eq in Ew. subst t1 w1. inversion H; subst. clear H.
    unfold prepare in E1. cbn [orb negb andb] in E1. rewrite andb_false_r in E1. rewrite andb_true_r in E1.
    destruct (negb pm); [|discriminate].
    destruct (predict_parent b) as [t'|]; [|discriminate]. inversion E1; subst. reflexivity.
Qed.

Lemma inter_lw : forall p, has lw p = true -> inter p [lw] = true.
Proof. intros p H. unfold inter. cbn. rewrite H. reflexivity. Qed.

Lemma pperms_of_nonroot : forall pol p, is_root p = false -> pperms_of pol p = pol (parent p).
Proof. intros pol p H. unfold pperms_of. rewrite H. reflexivity. Qed.

Lemma do_put_cases : forall cfg pol s p ct b im inm s' r,
  do_put cfg pol s p ct b im inm = (s', r) ->
  (s' = s /\ is_error (fst r) = true)
  \/ (exists pc tg objs,
        is_root p = false /\ resolve s (parent p) = NColl pc
        /\ ((exists c, resolve s p = NColl c) \/ c_tag pc = TNone)
        /\ validate b true tg = Some objs
        /\ s' = set_coll (del_subtree s p) p (mkColl tg [] (items_of_objs objs))
        /\ r = (S201, PEtag (EtColl (mkColl tg [] (items_of_objs objs))))
        /\ has (match tg with TNone => lW | _ => lw end) (pol p) = true
        /\ (if permit_overwrite cfg then has lo (pol p) = false else has lO (pol p) = true))
  \/ (exists pc o,
        resolve s (parent p) = NColl pc /\ c_tag pc <> TNone
        /\ (forall c, resolve s p <> NColl c)
        /\ validate b false (c_tag pc) = Some [o]
        /\ (match resolve s p with
            | NItem _ old => o_uid old = o_uid o
            | _ => has_uid pc (o_uid o) = false
            end)
        /\ s' = set_coll s (parent p) (mkColl (c_tag pc) (c_props pc) (assoc_set (c_items pc) (last_name p) o))
        /\ r = (S201, PEtag (EtItem o))
        /\ has lw (pol (parent p)) = true /\ is_root p = false).
Proof.
  intros cfg pol s p ct b im inm s' r H. unfold do_put in H.
  destruct (negb (check pol p lw NoItem)); [inversion H; left; split; reflexivity|].
  assert (Hb : (match b with BBad => True | _ => False end) \/ b <> BBad) by (destruct b; [left; exact I|right; discriminate..]).
  destruct Hb as [Hb|Hb]; [destruct b; try contradiction; inversion H; left; split; reflexivity|].
  set (pm := inter (pol p) [lW; lw]) in *. set (ppm := inter (pperms_of pol p) [lw]) in *.
  assert (H' : match prepare b ct pm ppm None None with
               | PRaise => (s, (S500, PNone))
               | PRes ptag1 pwwc1 pitems1 => _ end = (s', r)) by (destruct b; try contradiction; exact H).
  clear H. destruct (prepare b ct pm ppm None None) as [|t1 w1 i1] eqn:E1; [inversion H'; left; split; reflexivity|].
  destruct (resolve s (parent p)) as [pc| |] eqn:Epar; try (inversion H'; left; split; reflexivity).
  remember ((match resolve s p with NColl _ => true | _ => false end)
            || match c_tag pc with TNone => true | _ => false end) as wwc eqn:Ew.
  destruct (wwc && is_root p) eqn:Eroot; [inversion H'; left; split; reflexivity|].
  destruct wwc; cbv iota in H'.
  - (* whole collection *)
    cbn [andb] in Eroot.
    match type of H' with (if ?c then _ else _) = _ => destruct c eqn:Eperm1; [inversion H'; left; split; reflexivity|] end.
    match type of H' with (if ?c then _ else _) = _ => destruct c; [inversion H'; left; split; reflexivity|] end.
    match type of H' with (if ?c then _ else _) = _ => destruct c; [inversion H'; left; split; reflexivity|] end.
    rewrite <- E1 in H'.
    destruct (put_prep b ct pm ppm t1 true (prepare b ct pm ppm None None)) as [|t2 w2 oi] eqn:Epp;
      try (inversion H'; left; split; reflexivity).
    match type of H' with (if ?c then _ else _) = _ => destruct c eqn:Eperm2; [inversion H'; left; split; reflexivity|] end.
    destruct oi as [objs|]; try (inversion H'; left; split; reflexivity).
    apply put_prep_whole in Epp as (tg & -> & Hval). inversion H'; subst. right. left.
    exists pc, tg, objs.
    assert (Hp2 : has (match tg with TNone => lW | _ => lw end) (pol p) = true).
    { cbn [andb] in Eperm2. apply negb_false_iff in Eperm2. destruct tg; exact Eperm2. }
    assert (Hflag : if permit_overwrite cfg then has lo (pol p) = false else has lO (pol p) = true).
    { apply orb_false_iff in Eperm1 as [_ Ef]. destruct (permit_overwrite cfg); [exact Ef|apply negb_false_iff in Ef; exact Ef]. }
    split; [exact Eroot|]. split; [reflexivity|]. split.
    { symmetry in Ew. apply orb_true_iff in Ew as [Ew|Ew].
      + left. destruct (resolve s p); try discriminate. eexists. reflexivity.
      + right. destruct (c_tag pc); try discriminate. reflexivity. }
    split; [exact Hval|]. split; [reflexivity|]. split; [reflexivity|]. split; [exact Hp2|exact Hflag].
  - (* single item *)
    symmetry in Ew. apply orb_false_iff in Ew as [Ew1 Ew2].
    match type of H' with (if ?c then _ else _) = _ => destruct c eqn:Eperm; [inversion H'; left; split; reflexivity|] end.
    apply negb_false_iff in Eperm. apply inter_lw in Eperm. fold ppm in Eperm.
    match type of H' with (if ?c then _ else _) = _ => destruct c; [inversion H'; left; split; reflexivity|] end.
    match type of H' with (if ?c then _ else _) = _ => destruct c; [inversion H'; left; split; reflexivity|] end.
    rewrite <- E1 in H'. rewrite Eperm in *.
    destruct (put_prep b ct pm true (Some (c_tag pc)) false (prepare b ct pm true None None)) as [|t2 w2 oi] eqn:Epp;
      try (inversion H'; left; split; reflexivity).
    cbn [andb] in H'. destruct oi as [objs|]; try (inversion H'; left; split; reflexivity).
    apply put_prep_item in Epp.
    destruct objs as [|o [|]]; try (inversion H'; left; split; reflexivity).
    match type of H' with (if ?c then _ else _) = _ => destruct c eqn:Econf; [inversion H'; left; split; reflexivity|] end.
    assert (Hnr : is_root p = false).
    { destruct p; [|reflexivity]. exfalso. cbn [parent removelast] in Epar. rewrite Epar in Ew1. discriminate. }
    assert (Hpw : has lw (pol (parent p)) = true).
    { unfold ppm, inter in Eperm. cbn [existsb] in Eperm. rewrite orb_false_r in Eperm. rewrite pperms_of_nonroot in Eperm by exact Hnr. exact Eperm. }
    inversion H'; subst. right. right. exists pc, o. repeat split; try assumption; try reflexivity.
    + intros Ht. rewrite Ht in Ew2. discriminate.
    + intros c Hc. rewrite Hc in Ew1. discriminate.
    + destruct (resolve s p); try exact Econf. apply negb_false_iff in Econf. apply N.eqb_eq in Econf. exact Econf.
Qed.

Lemma do_put_inv : forall cfg pol s p ct b im inm, store_inv s -> store_inv (fst (do_put cfg pol s p ct b im inm)).
Proof.
  intros cfg pol s p ct b im inm Hs.
  destruct (do_put cfg pol s p ct b im inm) as [s' r] eqn:E. cbn [fst].
  apply do_put_cases in E.
  destruct E as [[-> _]|[(pc & tg & objs & Hroot & Hpar & Hwhy & Hval & -> & _)|(pc & o & Hpar & Htag & Hnc & Hval & Hcf & -> & _)]]; [exact Hs| |].
  - (* whole collection replaced *)
    assert (Hpne : p <> []) by (intros ->; discriminate).
    apply resolve_coll in Hpar.
    assert (Hpt : c_tag pc = TNone).
    { destruct Hwhy as [[c Hc]|Ht]; [|exact Ht].
      apply resolve_coll in Hc. destruct Hs as (_ & _ & _ & Hp). destruct (Hp p c Hc Hpne) as (pc' & Hl & Ht). congruence. }
    apply (store_inv_replace s p _ pc Hs Hpne Hpar Hpt).
    apply items_of_objs_inv. apply (validate_spec _ _ _ _ Hval).
  - (* one item stored *)
    apply resolve_coll in Hpar.
    eapply store_inv_set_same_tag; [exact Hs|exact Hpar|reflexivity|].
    apply coll_inv_put; [eapply store_inv_lookup_coll; eassumption| |].
    + apply (validate_spec _ _ _ _ Hval). left. reflexivity.
    + destruct (resolve_cases s p pc Hpar) as [[c' Hr]|[Hne Hr]]; [exfalso; exact (Hnc c' Hr)|].
      rewrite Hr in Hcf. destruct (assoc (c_items pc) (last_name p)); [exact Hcf|apply has_uid_false; exact Hcf].
Qed.

Theorem handle_inv : forall cfg pol u s r, store_inv s -> store_inv (fst (handle cfg pol u s r)).
Proof.
  intros cfg pol u s r Hs. unfold handle. pose proof (ensure_home_inv pol s u Hs) as Hh.
  destruct r; cbn [fst];
    [apply do_put_inv|apply do_delete_inv|apply do_move_inv|apply do_mkcol_inv|apply do_mkcalendar_inv
     |apply do_proppatch_inv|..]; exact Hh.
Qed.

Theorem run_history_inv : forall cfg pol u rs s, store_inv s -> store_inv (fst (run_history cfg pol u s rs)).
Proof.
  intros cfg pol u rs. induction rs as [|r rs IH]; intros s Hs; cbn [run_history fst]; [exact Hs|].
  destruct (handle cfg pol u s r) as [s' out] eqn:E.
  pose proof (handle_inv cfg pol u s r Hs) as H1. rewrite E in H1. cbn [fst] in H1.
  specialize (IH s' H1). destruct (run_history cfg pol u s' rs) as [s'' outs]. exact IH.
Qed.

(* The invariant, spelled out: what C15 promises about every reachable store *)
Theorem store_inv_meaning : forall s, store_inv s ->
  forall p c, lookup s p = Some c ->
    NoDup (map uid_of (c_items c))                                      (* no two objects with one UID *)
    /\ (c_tag c <> TNone -> forall q c', lookup s q = Some c' -> parent q = p -> q = [])  (* no child collections *)
    /\ (forall n o, In (n, o) (c_items c) -> valid_for (c_tag c) o).    (* every object valid for the type *)
Proof.
  intros s (Hnd & Hroot & Hc & Hp) p c Hl. destruct (Hc p c Hl) as (_ & Hu & Hv).
  refine (conj Hu (conj _ Hv)). intros Ht q c' Hq Hpar.
  destruct q as [|x q]; [reflexivity|]. exfalso.
  destruct (Hp (x :: q) c' Hq ltac:(discriminate)) as (pc & Hpl & Hpt). rewrite Hpar in Hpl. congruence.
Qed.

Example store_inv_nonvacuous :
  let s := fst (run_history (mkConfig true true) (fun _ => [82; 87; 114; 119]) (Some 10) empty_store
                 [RMkcalendar [10; 20] XNone; RPut [10; 20; 100] CTNone (BCal [mkObj 0 CEvent 0]) CNone false]) in
  store_inv s /\ exists c, lookup s [10; 20] = Some c /\ c_items c = [(100, mkObj 0 CEvent 0)].
Proof.
  split; [apply run_history_inv; exact empty_store_inv|]. vm_compute. eexists. split; reflexivity.
Qed.

(* ---------- error answers leave the store untouched (home creation aside) ---------- *)

Ltac unchanged_or_ok := repeat (brk; cbn [fst snd]; try (left; reflexivity)); right; reflexivity.

Lemma do_delete_uo : forall cfg pol s p im, fst (do_delete cfg pol s p im) = s \/ is_error (fst (snd (do_delete cfg pol s p im))) = false.
Proof. intros. unfold do_delete. unchanged_or_ok. Qed.
Lemma do_mkcol_uo : forall pol s p x, fst (do_mkcol pol s p x) = s \/ is_error (fst (snd (do_mkcol pol s p x))) = false.
Proof. intros. unfold do_mkcol. unchanged_or_ok. Qed.
Lemma do_mkcalendar_uo : forall pol s p x, fst (do_mkcalendar pol s p x) = s \/ is_error (fst (snd (do_mkcalendar pol s p x))) = false.
Proof. intros. unfold do_mkcalendar. unchanged_or_ok. Qed.
Lemma do_proppatch_uo : forall pol s p x, fst (do_proppatch pol s p x) = s \/ is_error (fst (snd (do_proppatch pol s p x))) = false.
Proof. intros. unfold do_proppatch. unchanged_or_ok. Qed.
Lemma do_move_uo : forall pol s p dr dout to ow, fst (do_move pol s p dr dout to ow) = s \/ is_error (fst (snd (do_move pol s p dr dout to ow))) = false.
Proof. intros. unfold do_move. unchanged_or_ok. Qed.
Lemma do_put_uo : forall cfg pol s p ct b im inm, fst (do_put cfg pol s p ct b im inm) = s \/ is_error (fst (snd (do_put cfg pol s p ct b im inm))) = false.
Proof. intros. unfold do_put. unchanged_or_ok. Qed.

(* A request answered with an error status (4xx/5xx) leaves every collection, item and property as it was,
   apart from the automatic creation of the authenticated user's home collection. *)
Theorem handle_error_unchanged : forall cfg pol u s r,
  is_error (fst (snd (handle cfg pol u s r))) = true ->
  fst (handle cfg pol u s r) = ensure_home pol s u.
Proof.
  intros cfg pol u s r He. unfold handle in *. set (s1 := ensure_home pol s u) in *.
  destruct r; cbn [fst snd] in *; try reflexivity.
  - destruct (do_put_uo cfg pol s1 p ct b if_match if_none_match_star) as [E|E]; [exact E|congruence].
  - destruct (do_delete_uo cfg pol s1 p if_match) as [E|E]; [exact E|congruence].
  - destruct (do_move_uo pol s1 p (negb dest_ok) false to overwrite) as [E|E]; [exact E|congruence].
  - destruct (do_mkcol_uo pol s1 p x) as [E|E]; [exact E|congruence].
  - destruct (do_mkcalendar_uo pol s1 p x) as [E|E]; [exact E|congruence].
  - destruct (do_proppatch_uo pol s1 p x) as [E|E]; [exact E|congruence].
Qed.

(* the only thing ensure_home may do: add the (empty, untagged) home collection of the user *)
Theorem ensure_home_only_home : forall pol s u,
  ensure_home pol s u = s \/ exists n, u = Some n /\ lookup s [n] = None /\ ensure_home pol s u = set_coll s [n] (mkColl TNone [] []).
Proof.
  intros pol s u. unfold ensure_home. destruct u as [n|]; [|left; reflexivity].
  destruct (resolve s [n]) eqn:E; try (left; reflexivity).
  destruct (has lW (pol [n])); [|left; reflexivity].
  right. exists n. repeat split. apply resolve_nothing_lookup. exact E.
Qed.
