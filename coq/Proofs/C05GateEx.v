(* C05: non-vacuity of the gate theorems -- concrete parties and requests that satisfy the hypotheses
   of each implication, evaluated by vm_compute. *)
From Coq Require Import List NArith ZArith Bool String.
Import ListNotations.
Require Import RV.Lib.PyStr RV.Model.Path RV.Model.C05Text RV.Model.LoginMap RV.Model.Gate.
Open Scope N_scope.

(* back-end: accepts password "pw" for every login, returns the unsafe name "a/b" for login "eve" *)
Definition ex_backend (l pw : pystr) : option pystr :=
  if eqs l (str "eve") then Some (str "a/b") else if eqs pw (str "pw") then Some l else Some [].
(* the three payloads used below, as the real base64 + utf-8 decoding answers them *)
Definition ex_decode (ct p : pystr) : option pystr :=
  if eqs p (str "YWxpY2U6cHc=") then Some (str "alice:pw")
  else if eqs p (str "YWxpY2U6bm8=") then Some (str "alice:no")
  else if eqs p (str "ZXZlOnB3") then Some (str "eve:pw")
  else if eqs p (str "YWxpY2U=") then Some (str "alice")
  else None.
Definition ex_cfg (k : auth_kind) : config :=
  {| c_script_name := []; c_internal := true; c_max_len := 100%Z; c_kind := k;
     c_lc := false; c_uc := false; c_sd := false |}.
Definition ex_env (authorization remote_user : pystr) : environ :=
  {| e_method := str "propfind"; e_path_info := str "/alice/"; e_fwd_for := []; e_fwd_host := [];
     e_fwd_proto := []; e_fwd_server := []; e_x_script := None; e_script := []; e_auth := authorization;
     e_ctype := []; e_remote_user := remote_user; e_x_remote_user := str "root"; e_clen := CLNum 10%Z |}.
Definition ex_gate := gate lower_ascii upper_ascii ex_decode ex_backend (fun _ _ _ _ => HNotAllowed)
                           (fun _ => false) (fun _ => false) (fun _ => true) (fun _ => false).

(* c05_gate: a handler does run with a non-empty user (and the home is created first) *)
Example ex_gate_dispatch :
  ex_gate (ex_cfg AOther) (ex_env (str "Basic YWxpY2U6cHc=") []) =
  {| r_effects := [EBackend (str "alice") (str "pw"); EHomeRecheck (str "alice") false; EHome (str "alice") true;
                   EDispatch (str "PROPFIND") [] (str "/alice/") (str "alice")];
     r_final := FForbidden |}.
Proof. vm_compute. reflexivity. Qed.

(* c05_rejected: wrong password -> 401, only the back-end was asked *)
Example ex_gate_rejected :
  creds ex_decode (ex_cfg AOther) (ex_env (str "Basic YWxpY2U6bm8=") []) = CCreds false (str "alice") (str "no")
  /\ ex_backend (str "alice") (str "no") = Some []
  /\ ex_gate (ex_cfg AOther) (ex_env (str "Basic YWxpY2U6bm8=") []) =
     {| r_effects := [EBackend (str "alice") (str "no")]; r_final := FUnauthorized |}.
Proof. vm_compute. repeat split; reflexivity. Qed.

(* c05_rejected, unsafe user name returned by the back-end *)
Example ex_gate_unsafe_name :
  ex_backend (str "eve") (str "pw") = Some (str "a/b") /\ is_safe_path_component (str "a/b") = false
  /\ ex_gate (ex_cfg AOther) (ex_env (str "Basic ZXZlOnB3") []) =
     {| r_effects := [EBackend (str "eve") (str "pw")]; r_final := FUnauthorized |}.
Proof. vm_compute. repeat split; reflexivity. Qed.

(* c05_malformed: valid base64 without a colon / invalid base64 *)
Example ex_gate_malformed :
  reaches_auth upper_ascii (ex_cfg AOther) (ex_env (str "Basic YWxpY2U=") []) = true
  /\ ex_gate (ex_cfg AOther) (ex_env (str "Basic YWxpY2U=") []) = early FError
  /\ ex_gate (ex_cfg AOther) (ex_env (str "Basic !!!") []) = early FError.
Proof. vm_compute. repeat split; reflexivity. Qed.

(* c05_spoof: REMOTE_USER / X-Remote-User change nothing for another back-end (anonymous -> 401),
   and are honoured by exactly the matching back-end *)
Example ex_gate_spoof :
  ex_gate (ex_cfg AOther) (ex_env [] (str "root")) =
    {| r_effects := [EDispatch (str "PROPFIND") [] (str "/alice/") []]; r_final := FUnauthorized |}
  /\ ex_gate (ex_cfg ARemoteUser) (ex_env [] (str "bob")) =
    {| r_effects := [EBackend (str "bob") []; EHomeRecheck (str "bob") false; EHome (str "bob") true;
                     EDispatch (str "PROPFIND") [] (str "/alice/") (str "bob")];
       r_final := FForbidden |}
  /\ ex_gate (ex_cfg AXRemoteUser) (ex_env [] (str "bob")) =
    {| r_effects := [EBackend (str "root") []; EHomeRecheck (str "root") false; EHome (str "root") true;
                     EDispatch (str "PROPFIND") [] (str "/alice/") (str "root")];
       r_final := FForbidden |}.
Proof. vm_compute. repeat split; reflexivity. Qed.

(* early exits come before the credentials are looked at *)
Example ex_gate_early :
  r_final (ex_gate (ex_cfg AOther)
     {| e_method := str "PROPFIND"; e_path_info := str "/.well-known/caldav"; e_fwd_for := []; e_fwd_host := [];
        e_fwd_proto := []; e_fwd_server := []; e_x_script := None; e_script := []; e_auth := str "Basic !!!";
        e_ctype := []; e_remote_user := []; e_x_remote_user := []; e_clen := CLNum 0%Z |}) = FRedirect (str "/").
Proof. vm_compute. reflexivity. Qed.
