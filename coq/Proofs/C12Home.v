(* C12, part 6: first-login home creation with predefined collections.  The handler logs and ignores a
   ValueError of a predefined collection, so durability is claimed for runs in which no step failed
   (the property's scope: no faults). *)
From Coq Require Import List NArith Bool Lia PeanoNat.
Import ListNotations.
Require Import RV.Lib.Prog RV.Model.Fs RV.Model.StorageOps RV.Proofs.ProgLemmas RV.Proofs.FsLemmas
  RV.Proofs.FsInv RV.Proofs.MonLemmas RV.Proofs.CacheCalm RV.Proofs.C12Mon RV.Proofs.C12Units RV.Proofs.C12Units2
  RV.Proofs.C12Units3 RV.Proofs.C12Create RV.Proofs.C12Final.
Open Scope N_scope.

Definition all_ok (t : list ev) : bool := forallb snd t.

Lemma all_ok_snoc_fail : forall t st, all_ok (t ++ [(st, false)]) = false.
Proof. intros. unfold all_ok. rewrite forallb_app. cbn. apply andb_false_r. Qed.
Lemma all_ok_snoc : forall t e, all_ok t = false -> all_ok (t ++ [e]) = false.
Proof. intros t e H. unfold all_ok in *. rewrite forallb_app. apply andb_false_iff. left. exact H. Qed.

Definition FAIL : asrt := fun _ t => all_ok t = false.

Lemma failed_stays : forall (p : P) s t, all_ok t = false -> machine_wp p FAIL (fun _ => FAIL) FAIL s t.
Proof.
  intros p s t H. apply (wp_all_steps step errno path (option node) fs apply look ls (fun _ => True) FAIL); auto.
  - intros st s0 s' t0 _ H0 _. apply all_ok_snoc. exact H0.
  - intros st s0 t0 _ H0. apply all_ok_snoc. exact H0.
  - clear. induction p; cbn; auto.
Qed.

(* programs that raise only after a failed step (Raise occurs only in error continuations and handlers) *)
Fixpoint no_spont (p : P) : Prop :=
  match p with
  | Ret => True
  | Raise _ => False
  | Try _ kok _ => no_spont kok
  | Fresh k => forall id, no_spont (k id)
  | Seq p q => no_spont p /\ no_spont q
  | Read _ k => forall r, no_spont (k r)
  | Ls _ k => forall r, no_spont (k r)
  | Catch p _ => no_spont p
  end.

Lemma exn_needs_failure : forall (p : P), no_spont p -> forall s t, machine_wp p TT (fun _ => FAIL) TT s t.
Proof.
  induction p as [ | e | st kok IHok kerr IHerr | k IHk | p IHp q IHq | pa k IHk | pa k IHk | p IHp h IHh ];
    intros Hn s t; unfold machine_wp in *; cbn [wp no_spont] in *.
  - exact I.
  - contradiction.
  - split; [exact I|]. split.
    + intro e. eapply wp_mono; [ | | | apply (failed_stays (kerr e) s _ (all_ok_snoc_fail t st)) ]; cbn; auto; intros; exact I.
    + intros s' _. apply IHok. exact Hn.
  - intro id. apply IHk. apply Hn.
  - destruct Hn as [Hp Hq]. eapply wp_mono; [ | | | apply (IHp Hp s t) ]; cbn beta; auto; try (intros s1 t1 _; apply IHq; exact Hq).
  - apply IHk. apply Hn.
  - apply IHk. apply Hn.
  - eapply wp_mono; [ | | | apply (IHp Hn s t) ]; cbn beta; auto; try (intros e s1 t1 H1; eapply wp_mono; [ | | | apply (failed_stays (h e) s1 t1 H1) ]; cbn; auto; intros; exact I).
Qed.

(* durability conditional on "no step failed so far" *)
Definition QOK : asrt := fun _ t => all_ok t = true -> IG (GX []) (mon_of t).

Lemma cond_wp : forall (p : P), no_spont p ->
  (forall s t, IG (GX []) (mon_of t) -> WP p (TQ (IG (GX []))) s t) ->
  forall s t, QOK s t -> machine_wp p QOK (fun _ => FAIL) TT s t.
Proof.
  intros p Hn Hwp s t H. destruct (all_ok t) eqn:E.
  - pose proof (Hwp s t (H E)) as H1. pose proof (exn_needs_failure p Hn s t) as H2. unfold WP, machine_wp in *.
    eapply wp_mono; [ | | | apply (wp_conj _ _ _ _ _ _ _ _ _ _ _ _ _ _ _ _ _ H1 H2) ]; cbn.
    + intros s1 t1 [A _] _. exact A.
    + intros e s1 t1 [_ B]. exact B.
    + intros; exact I.
  - unfold machine_wp. eapply wp_mono; [ | | | apply (failed_stays p s t E) ]; cbn.
    + intros s1 t1 A B. unfold FAIL in A. congruence.
    + auto.
    + intros; exact I.
Qed.

(* ------------------------------------------------------------------ the programs concerned raise only after failures *)
Lemma ns_md_rev : forall rp, no_spont (md_rev rp).
Proof.
  induction rp as [|x rest IH]; cbn; [exact I|]. intros [[|v]|]; cbn; auto.
Qed.

Lemma ns_AW : forall d x v, no_spont (AW d x v).
Proof. intros. cbn. tauto. Qed.

Lemma ns_upload_each : forall tc cd its, no_spont (upload_each tc cd its).
Proof. induction its as [|[h v] its IH]; cbn; tauto. Qed.

Lemma ns_create : forall lay p items pv, no_spont (create_collection lay p items (Some pv)).
Proof.
  intros. unfold create_collection, create_collection_gen. cbn [no_spont]. split; [apply ns_md_rev|].
  intro id. cbn. repeat split; auto.
  - destruct items as [its|]; cbn; auto. repeat split; auto; [apply ns_md_rev | apply ns_upload_each].
  - intros [n|]; cbn; auto.
Qed.

Lemma predefined_wp : forall lay home l s t, coll_path home = true -> (forall x pv, In (x, pv) l -> is_safe x = true) ->
  QOK s t -> machine_wp (predefined_prog lay home l) QOK (fun _ => FAIL) TT s t.
Proof.
  intros lay home l. induction l as [|[x pv] l IH]; intros s t Hh Hl H; cbn [predefined_prog]; [exact H|].
  unfold machine_wp in *. cbn [wp].
  assert (Hc : machine_wp (create_collection lay (home ++ [x]) None (Some pv)) QOK (fun _ => FAIL) TT s t).
  { apply cond_wp; [apply ns_create | | exact H]. intros s0 t0 H0.
    eapply WP_mono; [apply J12_mon|]. apply create_c12; [exact Hh | apply (Hl x pv); left; reflexivity |].
    split; [exact H0 | intros c []]. }
  unfold machine_wp in Hc.
  eapply wp_mono; [ | | | exact Hc ]; cbn beta; auto.
  - intros s1 t1 H1. apply IH; auto. intros y pv' Hi. apply (Hl y pv'). right. exact Hi.
  - intros e s1 t1 H1. destruct e as [e| |]; cbn [wp]; try exact H1.
    (* ValueError: logged, the loop goes on; a step has failed, nothing is claimed any more *)
    apply IH; auto; [intros y pv' Hi; apply (Hl y pv'); right; exact Hi|].
    intro Hok. unfold FAIL in H1. congruence.
Qed.

Lemma home_wp : forall lay home l s, coll_path home = true -> (forall x pv, In (x, pv) l -> is_safe x = true) ->
  machine_wp (request_prog lay (RHome home l)) QOK TE TT s [].
Proof.
  intros lay home l s Hh Hl. cbn [request_prog]. unfold machine_wp. cbn [wp].
  assert (H0 : QOK s []) by (intros _; split; [reflexivity | intros d []]).
  assert (Hmd : machine_wp (create_collection lay home None None) QOK (fun _ => FAIL) TT s []).
  { unfold create_collection, create_collection_gen. apply cond_wp; [apply ns_md_rev | | exact H0].
    intros s0 t0 Hm. apply (md_WP (GX [])). exact Hm. }
  unfold machine_wp in Hmd.
  eapply wp_mono; [ | | | exact Hmd ]; cbn beta; auto.
  - intros s1 t1 H1. pose proof (predefined_wp lay home l s1 t1 Hh Hl H1) as Hp. unfold machine_wp in Hp.
    eapply wp_mono; [ | | | exact Hp ]; cbn beta; auto.
    intros e s2 t2 H2. destruct e as [e| |]; cbn [wp]; try exact I. intro Hok. unfold FAIL in H2. congruence.
  - intros e s1 t1 H1. destruct e as [e| |]; cbn [wp]; try exact I. intro Hok. unfold FAIL in H1. congruence.
Qed.

Lemma c12_home : forall lay home l s o, coll_path home = true -> (forall x pv, In (x, pv) l -> is_safe x = true) ->
  let res := machine_run o (request_prog lay (RHome home l)) (start s) in
  snd res = ONorm -> all_ok (c_tr (fst res)) = true -> durable (done (c_tr (fst res))).
Proof.
  intros lay home l s o Hh Hl res Hn Hok.
  pose proof (wp_sound step errno path (option node) fs apply look ls _ QOK TE TT s [] (home_wp lay home l s Hh Hl) o 0%nat 0) as Hs.
  unfold post_of in Hs. subst res. unfold machine_run, start in *. rewrite Hn in Hs.
  apply (J12_durable [] (c_st (fst (run step errno path (option node) fs apply look ls o (request_prog lay (RHome home l)) (Cfg 0 0 s []))))).
  split; [apply Hs; exact Hok | intros c []].
Qed.
