(* C18: percent coding: unquote after quote is the identity; shape of quoted text *)
From Coq Require Import List NArith Bool Lia ZifyBool ZArith.
Import ListNotations.
Require Import RV.Lib.PyStr RV.Model.Url RV.Proofs.PyStrLemmas RV.Proofs.UrlUtf8.
Open Scope N_scope.
Ltac Zify.zify_post_hook ::= Z.to_euclidean_division_equations.

(* ---------------------------------------------------------------- characters *)
Lemma quote_safe_not_percent : forall c, quote_safe c = true -> (c =? percent) = false.
Proof. intros c. unfold quote_safe, is_unreserved, is_upper, is_lower, is_digit, percent. lia. Qed.

Lemma quote_safe_ascii : forall c, quote_safe c = true -> c < 128.
Proof. intros c. unfold quote_safe, is_unreserved, is_upper, is_lower, is_digit. lia. Qed.

Lemma hexval_hexdig : forall n, n < 16 -> hexval (hexdig_upper n) = Some n.
Proof.
  intros n H. unfold hexval, hexdig_upper, is_digit.
  destruct (n <? 10) eqn:E.
  - apply N.ltb_lt in E. replace ((48 <=? 48 + n) && (48 + n <=? 57)) with true by lia. f_equal. lia.
  - apply N.ltb_ge in E. replace ((48 <=? 55 + n) && (55 + n <=? 57)) with false by lia.
    replace ((65 <=? 55 + n) && (55 + n <=? 70)) with true by lia. f_equal. lia.
Qed.

Lemma hexdig_is_hex_upper : forall n, n < 16 -> is_hex_upper (hexdig_upper n) = true.
Proof. intros n H. unfold is_hex_upper, hexdig_upper, is_digit. destruct (n <? 10) eqn:E; lia. Qed.

Lemma is_hex_upper_safe : forall c, is_hex_upper c = true -> quote_safe c = true.
Proof. intros c. unfold is_hex_upper, quote_safe, is_unreserved, is_upper, is_lower, is_digit. lia. Qed.

(* ---------------------------------------------------------------- bytes level *)
Lemma unquote_quote_byte : forall x rest, x < 256 ->
  unquote_to_bytes (quote_byte x ++ rest) = x :: unquote_to_bytes rest.
Proof.
  intros x rest Hx. unfold quote_byte. destruct (quote_safe x) eqn:Es.
  - cbn [app unquote_to_bytes]. rewrite (quote_safe_not_percent x Es). reflexivity.
  - cbn [app unquote_to_bytes]. replace (percent =? percent) with true by reflexivity.
    rewrite !hexval_hexdig by lia. f_equal. lia.
Qed.

Theorem unquote_quote_bytes : forall b, forallb is_byte b = true ->
  unquote_to_bytes (quote_from_bytes b) = b.
Proof.
  induction b as [|x b IH]; intros H; [reflexivity|].
  cbn [forallb] in H. apply andb_true_iff in H as [Hx Hb]. unfold is_byte in Hx. apply N.ltb_lt in Hx.
  unfold quote_from_bytes. cbn [flat_map]. rewrite unquote_quote_byte by exact Hx. f_equal. apply IH. exact Hb.
Qed.

Lemma wf_quote_byte : forall x rest, x < 256 -> wf_quoted (quote_byte x ++ rest) = wf_quoted rest.
Proof.
  intros x rest Hx. unfold quote_byte. destruct (quote_safe x) eqn:Es.
  - cbn [app wf_quoted]. rewrite (quote_safe_not_percent x Es), Es. reflexivity.
  - cbn [app wf_quoted]. replace (percent =? percent) with true by reflexivity.
    rewrite !hexdig_is_hex_upper by lia. reflexivity.
Qed.

Theorem wf_quote_from_bytes : forall b, forallb is_byte b = true -> wf_quoted (quote_from_bytes b) = true.
Proof.
  induction b as [|x b IH]; intros H; [reflexivity|].
  cbn [forallb] in H. apply andb_true_iff in H as [Hx Hb]. unfold is_byte in Hx. apply N.ltb_lt in Hx.
  unfold quote_from_bytes. cbn [flat_map]. rewrite wf_quote_byte by exact Hx. apply IH. exact Hb.
Qed.

(* the characters of a well-formed quoted string *)
Definition url_char (c : N) : bool := quote_safe c || (c =? percent).

Lemma wf_quoted_chars : forall n s, (List.length s <= n)%nat -> wf_quoted s = true -> forallb url_char s = true.
Proof.
  induction n as [|n IH]; intros s Hl H.
  - destruct s; [reflexivity|cbn in Hl; lia].
  - destruct s as [|c t]; [reflexivity|]. cbn [wf_quoted] in H. cbn [forallb]. unfold url_char at 1.
    destruct (c =? percent) eqn:Ec.
    + destruct t as [|h1 [|h2 r]]; try discriminate.
      apply andb_true_iff in H as [H12 Hr]. apply andb_true_iff in H12 as [H1 H2].
      rewrite orb_true_r. cbn [andb forallb]. unfold url_char at 1 2.
      rewrite (is_hex_upper_safe h1 H1), (is_hex_upper_safe h2 H2). cbn [orb andb].
      apply IH; [cbn in Hl; lia|exact Hr].
    + apply andb_true_iff in H as [Hs Ht]. rewrite Hs. cbn [orb andb]. apply IH; [cbn in Hl; lia|exact Ht].
Qed.

Lemma wf_quoted_url_chars : forall s, wf_quoted s = true -> forallb url_char s = true.
Proof. intros s. apply (wf_quoted_chars (List.length s)). lia. Qed.

Lemma url_char_range : forall c, url_char c = true -> 32 < c /\ c < 128.
Proof. intros c. unfold url_char, quote_safe, is_unreserved, is_upper, is_lower, is_digit, percent. lia. Qed.

Lemma url_chars_ascii : forall s, forallb url_char s = true -> all_ascii s = true.
Proof.
  induction s as [|c s IH]; intros H; [reflexivity|]. unfold all_ascii in *. cbn [forallb] in *.
  apply andb_true_iff in H as [H1 H2]. apply url_char_range in H1. rewrite (IH H2), andb_true_r. lia.
Qed.

Lemma url_chars_lack : forall x s, url_char x = false -> forallb url_char s = true -> contains_char x s = false.
Proof.
  intros x. induction s as [|c s IH]; intros Hx H; [reflexivity|]. cbn [forallb contains_char] in *.
  apply andb_true_iff in H as [H1 H2]. rewrite (IH Hx H2), orb_false_r.
  destruct (c =? x) eqn:E; [apply N.eqb_eq in E; subst; congruence|reflexivity].
Qed.

(* ---------------------------------------------------------------- str level *)
Lemma all_ascii_app : forall a b, all_ascii (a ++ b) = all_ascii a && all_ascii b.
Proof. intros. unfold all_ascii. apply forallb_app. Qed.

Lemma unquote_runs_ascii : forall s run, all_ascii s = true ->
  unquote_runs s run = flush_run (rev s ++ run).
Proof.
  induction s as [|c s IH]; intros run H; [reflexivity|].
  unfold all_ascii in *. cbn [forallb] in H. apply andb_true_iff in H as [H1 H2].
  cbn [unquote_runs]. rewrite H1. rewrite IH by exact H2. cbn [rev]. rewrite <- app_assoc. reflexivity.
Qed.

Lemma unquote_to_bytes_no_percent : forall s, contains_char percent s = false -> unquote_to_bytes s = s.
Proof.
  induction s as [|c s IH]; intros H; [reflexivity|]. cbn [contains_char] in H.
  apply orb_false_iff in H as [H1 H2]. cbn [unquote_to_bytes]. rewrite H1. f_equal. apply IH. exact H2.
Qed.

(* on ASCII text unquote is: to bytes, then decode (the shortcut for '%'-free text agrees) *)
Lemma unquote_ascii : forall s, all_ascii s = true -> unquote s = utf8_decode (unquote_to_bytes s).
Proof.
  intros s H. unfold unquote. destruct (contains_char percent s) eqn:E.
  - rewrite unquote_runs_ascii by exact H. unfold flush_run. rewrite app_nil_r, rev_involutive. reflexivity.
  - rewrite unquote_to_bytes_no_percent by exact E. rewrite utf8_decode_ascii by exact H. reflexivity.
Qed.

Theorem quote_spec : forall s q, quote s = Some q ->
  exists b, utf8_encode s = Some b /\ forallb is_byte b = true /\ q = quote_from_bytes b.
Proof.
  intros s q H. unfold quote in H. destruct (utf8_encode s) as [b|] eqn:E; [|discriminate].
  inversion H; subst. exists b. split; [reflexivity|]. split; [eapply utf8_encode_bytes; exact E|reflexivity].
Qed.

Theorem quote_wf : forall s q, quote s = Some q -> wf_quoted q = true.
Proof. intros s q H. destruct (quote_spec s q H) as (b & _ & Hb & ->). apply wf_quote_from_bytes. exact Hb. Qed.

(* the key lemma: for every str that can be quoted at all, unquote (quote s) = s *)
Theorem unquote_quote : forall s q, quote s = Some q -> unquote q = s.
Proof.
  intros s q H. pose proof (quote_wf s q H) as Hwf. destruct (quote_spec s q H) as (b & Hb & Hbytes & ->).
  rewrite unquote_ascii by (apply url_chars_ascii, wf_quoted_url_chars; exact Hwf).
  rewrite unquote_quote_bytes by exact Hbytes. apply utf8_roundtrip. exact Hb.
Qed.

Theorem quote_defined : forall s, forallb valid_cp s = true <-> quote s <> None.
Proof.
  intros s. rewrite utf8_encode_defined. unfold quote. destruct (utf8_encode s); split; congruence.
Qed.

Lemma quote_app : forall a b qa qb, quote a = Some qa -> quote b = Some qb -> quote (a ++ b) = Some (qa ++ qb).
Proof.
  intros a b qa qb Ha Hb. unfold quote in *.
  destruct (utf8_encode a) as [ea|] eqn:Ea; [|discriminate]. destruct (utf8_encode b) as [eb|] eqn:Eb; [|discriminate].
  inversion Ha; inversion Hb; subst. rewrite (utf8_encode_app a b ea eb Ea Eb).
  unfold quote_from_bytes. rewrite flat_map_app. reflexivity.
Qed.

Lemma quote_app_inv : forall a b q, quote (a ++ b) = Some q ->
  exists qa qb, quote a = Some qa /\ quote b = Some qb /\ q = qa ++ qb.
Proof.
  intros a b q H. assert (Hv : forallb valid_cp (a ++ b) = true) by (apply quote_defined; congruence).
  rewrite forallb_app in Hv. apply andb_true_iff in Hv as [Hva Hvb].
  apply quote_defined in Hva, Hvb.
  destruct (quote a) as [qa|] eqn:Ea; [|congruence]. destruct (quote b) as [qb|] eqn:Eb; [|congruence].
  exists qa, qb. split; [reflexivity|]. split; [reflexivity|].
  rewrite (quote_app a b qa qb Ea Eb) in H. congruence.
Qed.

(* a quoted path "/x..." with x <> "/" does not start with "//" *)
Lemma quote_byte_head : forall x, exists h t, quote_byte x = h :: t /\ (h = slash -> x = slash).
Proof.
  intros x. unfold quote_byte. destruct (quote_safe x); eexists; eexists; (split; [reflexivity|]).
  - tauto.
  - unfold percent, slash. intros H. discriminate H.
Qed.

Lemma quote_no_double_slash : forall c r q, c <> slash -> quote (slash :: c :: r) = Some q ->
  startswith q [slash; slash] = false.
Proof.
  intros c r q Hc H. unfold quote in H. cbn [utf8_encode] in H.
  replace (valid_cp slash) with true in H by reflexivity.
  destruct (valid_cp c) eqn:Hv; [|discriminate]. destruct (utf8_encode r) as [b|]; [|discriminate].
  inversion H; subst; clear H.
  destruct (utf8_enc_cp_head c) as (b0 & bs & E & Hlo & Hhi). rewrite E.
  replace (utf8_enc_cp slash) with [slash] by reflexivity. cbn [app]. unfold quote_from_bytes. cbn [flat_map].
  replace (quote_byte slash) with [slash] by reflexivity.
  destruct (quote_byte_head b0) as (h & t & Eq & Hh). rewrite Eq. cbn [app startswith].
  rewrite N.eqb_refl. cbn [andb]. rewrite andb_true_r.
  apply N.eqb_neq. intros Hs. specialize (Hh Hs). subst b0.
  destruct (N.lt_ge_cases c 128) as [Hl|Hg].
  - apply Hc. symmetry. apply Hlo. exact Hl.
  - specialize (Hhi Hg). unfold slash in Hhi. lia.
Qed.
