(* C04_escape_inert: whatever went through `re.escape` is tokenized as LITERALS (outside a class) or
   as literal class members (inside a class), whatever the characters are; hence a user name or a
   captured group with regex metacharacters cannot widen a rule.  End to end, a pattern that is a
   bare "{user}" hole matches exactly the user name.  Model: Model/Regex.v (not edited). *)
From Coq Require Import List NArith PeanoNat Bool Lia String.
Import ListNotations.
Require Import RV.Lib.PyStr RV.Model.Regex RV.Proofs.PyStrLemmas.
Open Scope N_scope.

(* ------------------------------------------------------------------ generalities on tok_run *)
Lemma tok_run_app : forall st a b, tok_run st (a ++ b) = tok_run (tok_run st a) b.
Proof. intros st a b. unfold tok_run. apply fold_left_app. Qed.

Lemma tok_run_nil : forall st, tok_run st [] = st.
Proof. reflexivity. Qed.

Lemma tok_run_cons : forall st c s, tok_run st (c :: s) = tok_run (step st c) s.
Proof. reflexivity. Qed.

Lemma escape_cons : forall c s, escape (c :: s) = escape_char c ++ escape s.
Proof. reflexivity. Qed.

Lemma escape_app : forall a b, escape (a ++ b) = escape a ++ escape b.
Proof. intros a b. unfold escape. apply flat_map_app. Qed.

(* ------------------------------------------------------------------ 1. escaped characters are literals *)
(* a backslash followed by any of the 24 special characters is that character, in and out of a class *)
Lemma special_decode : forall c, is_special c = true ->
  decode_esc false c = EscLit c /\ decode_esc true c = EscLit c.
Proof.
  intros c H. unfold is_special, special_chars in H. cbn [existsb] in H.
  repeat (apply orb_true_iff in H; destruct H as [H|H];
          [apply N.eqb_eq in H; subst c; split; reflexivity|]).
  discriminate H.
Qed.

Lemma nonspecial_neq : forall c x, is_special c = false -> is_special x = true -> (c =? x) = false.
Proof.
  intros c x Hc Hx. destruct (c =? x) eqn:E; [|reflexivity].
  apply N.eqb_eq in E. subst x. congruence.
Qed.

(* a character that re.escape leaves alone is not a metacharacter of the normal state *)
Lemma nonspecial_normal : forall c acc, is_special c = false ->
  normal acc c = TS MNormal (acc ++ [TLit c]).
Proof.
  intros c acc H. unfold normal.
  rewrite (nonspecial_neq c 92 H eq_refl), (nonspecial_neq c 91 H eq_refl),
          (nonspecial_neq c 123 H eq_refl), (nonspecial_neq c 40 H eq_refl),
          (nonspecial_neq c 41 H eq_refl), (nonspecial_neq c 124 H eq_refl),
          (nonspecial_neq c 42 H eq_refl), (nonspecial_neq c 43 H eq_refl),
          (nonspecial_neq c 63 H eq_refl), (nonspecial_neq c 46 H eq_refl),
          (nonspecial_neq c 94 H eq_refl), (nonspecial_neq c 36 H eq_refl).
  reflexivity.
Qed.

Lemma escape_char_normal : forall c acc,
  tok_run (TS MNormal acc) (escape_char c) = TS MNormal (acc ++ [TLit c]).
Proof.
  intros c acc. unfold escape_char. destruct (is_special c) eqn:H.
  - destruct (special_decode c H) as [Hd _].
    rewrite !tok_run_cons, tok_run_nil.
    change (step (TS MNormal acc) 92) with (TS MEsc acc).
    cbn [step]. rewrite Hd. reflexivity.
  - rewrite tok_run_cons, tok_run_nil. cbn [step]. apply nonspecial_normal. exact H.
Qed.

Theorem escape_normal_run : forall s acc,
  tok_run (TS MNormal acc) (escape s) = TS MNormal (acc ++ lits s).
Proof.
  induction s as [|c s IH]; intros acc.
  - cbn. rewrite app_nil_r. reflexivity.
  - rewrite escape_cons, tok_run_app, escape_char_normal, IH.
    rewrite <- app_assoc. reflexivity.
Qed.

Corollary tokenize_escape : forall s, tokenize (escape s) = Ok (lits s).
Proof. intros s. unfold tokenize. rewrite escape_normal_run. reflexivity. Qed.

(* ------------------------------------------------------------------ 2. inside a character class *)
Lemma escape_char_cls_item : forall c neg items acc,
  tok_run (TS (MClsItem neg items) acc) (escape_char c) = TS (MClsAfter1 neg items (CChar c)) acc.
Proof.
  intros c neg items acc. unfold escape_char. destruct (is_special c) eqn:H.
  - destruct (special_decode c H) as [_ Hd].
    rewrite !tok_run_cons, tok_run_nil.
    change (step (TS (MClsItem neg items) acc) 92) with (TS (MClsEsc1 neg items) acc).
    cbn [step]. rewrite Hd. reflexivity.
  - rewrite tok_run_cons, tok_run_nil. cbn [step]. unfold cls_item.
    rewrite (nonspecial_neq c 93 H eq_refl), (nonspecial_neq c 92 H eq_refl). reflexivity.
Qed.

Lemma escape_char_cls_after : forall c neg items code1 acc,
  tok_run (TS (MClsAfter1 neg items code1) acc) (escape_char c)
  = TS (MClsAfter1 neg (items ++ [code1]) (CChar c)) acc.
Proof.
  intros c neg items code1 acc. rewrite <- escape_char_cls_item.
  unfold escape_char. destruct (is_special c) eqn:H.
  - reflexivity.
  - rewrite !tok_run_cons, !tok_run_nil. cbn [step].
    rewrite (nonspecial_neq c 45 H eq_refl). reflexivity.
Qed.

(* right after "[": an unescaped '^' would negate the class; '^' is special, so it is escaped *)
Lemma escape_char_cls_open : forall c acc,
  tok_run (TS MClsOpen acc) (escape_char c) = TS (MClsAfter1 false [] (CChar c)) acc.
Proof.
  intros c acc. rewrite <- escape_char_cls_item.
  unfold escape_char. destruct (is_special c) eqn:H.
  - reflexivity.
  - rewrite !tok_run_cons, !tok_run_nil. cbn [step].
    rewrite (nonspecial_neq c 94 H eq_refl). reflexivity.
Qed.

Theorem escape_class_run_after : forall s c neg items code1 acc,
  tok_run (TS (MClsAfter1 neg items code1) acc) (escape (s ++ [c]))
  = TS (MClsAfter1 neg (items ++ [code1] ++ map CChar s) (CChar c)) acc.
Proof.
  induction s as [|a s IH]; intros c neg items code1 acc.
  - cbn [app map]. rewrite escape_cons, tok_run_app, escape_char_cls_after. reflexivity.
  - cbn [app map]. rewrite escape_cons, tok_run_app, escape_char_cls_after.
    change (a :: s ++ [c]) with (a :: (s ++ [c])).
    rewrite IH. rewrite <- app_assoc. reflexivity.
Qed.

Theorem escape_class_run_item : forall s c neg items acc,
  tok_run (TS (MClsItem neg items) acc) (escape (s ++ [c]))
  = TS (MClsAfter1 neg (items ++ map CChar s) (CChar c)) acc.
Proof.
  intros [|a s] c neg items acc.
  - cbn [app map]. rewrite app_nil_r, escape_cons, tok_run_app, escape_char_cls_item. reflexivity.
  - cbn [app map]. rewrite escape_cons, tok_run_app, escape_char_cls_item.
    rewrite escape_class_run_after. reflexivity.
Qed.

Theorem escape_class_run_open : forall s c acc,
  tok_run (TS MClsOpen acc) (escape (s ++ [c]))
  = TS (MClsAfter1 false (map CChar s) (CChar c)) acc.
Proof.
  intros [|a s] c acc.
  - cbn [app map]. rewrite escape_cons, tok_run_app, escape_char_cls_open. reflexivity.
  - cbn [app map]. rewrite escape_cons, tok_run_app, escape_char_cls_open.
    rewrite escape_class_run_after. reflexivity.
Qed.

Lemma nonempty_snoc : forall (A : Type) (l : list A) (x : A), nonempty (l ++ [x]) = true.
Proof. intros A [|y l] x; reflexivity. Qed.

(* a whole class made of an escaped non-empty string: exactly the set of its characters *)
Corollary escape_class_closed : forall s c acc,
  tok_run (TS MNormal acc) ([91] ++ escape (s ++ [c]) ++ [93])
  = TS MNormal (acc ++ [TSet false (map CChar (s ++ [c]))]).
Proof.
  intros s c acc. rewrite tok_run_app. change (tok_run (TS MNormal acc) [91]) with (TS MClsOpen acc).
  rewrite tok_run_app, escape_class_run_open. rewrite map_app.
  rewrite tok_run_cons, tok_run_nil. cbn [step]. change (93 =? 45) with false. cbv iota.
  unfold cls_item. rewrite nonempty_snoc. reflexivity.
Qed.

(* ------------------------------------------------------------------ 3. the accumulator is only appended to *)
Definition prepend (a : list token) (st : tstate) : tstate :=
  match st with TS m acc => TS m (a ++ acc) | x => x end.

Ltac break_if := match goal with |- context [if ?b then _ else _] => destruct b end.
Ltac fin := cbn [prepend]; repeat rewrite <- app_assoc; reflexivity.

Lemma normal_prepend : forall a acc c, normal (a ++ acc) c = prepend a (normal acc c).
Proof. intros a acc c. unfold normal. repeat break_if; fin. Qed.

Lemma cls_item_prepend : forall a neg items acc c,
  cls_item neg items (a ++ acc) c = prepend a (cls_item neg items acc c).
Proof. intros a neg items acc c. unfold cls_item. repeat break_if; fin. Qed.

Lemma mk_range_prepend : forall a neg items c1 c2 acc,
  mk_range neg items c1 c2 (a ++ acc) = prepend a (mk_range neg items c1 c2 acc).
Proof. intros a neg items c1 c2 acc. unfold mk_range. destruct c1, c2; try reflexivity. break_if; fin. Qed.

Lemma brace_token_prepend : forall a lo hi acc,
  brace_token lo hi (a ++ acc) = prepend a (brace_token lo hi acc).
Proof.
  intros a lo hi acc. unfold brace_token. cbv zeta.
  destruct hi as [[|h hs]|]; repeat break_if; fin.
Qed.

Lemma step_prepend : forall a st c, step (prepend a st) c = prepend a (step st c).
Proof.
  intros a [md acc| |] c; [|reflexivity|reflexivity].
  destruct md; cbn [prepend step];
    try (destruct (decode_esc false c)); try (destruct (decode_esc true c));
    repeat break_if; repeat rewrite <- app_assoc;
    rewrite ?normal_prepend, ?cls_item_prepend, ?mk_range_prepend, ?brace_token_prepend;
    try reflexivity; fin.
Qed.

Lemma tok_run_prepend : forall a s st, tok_run (prepend a st) s = prepend a (tok_run st s).
Proof.
  intros a. induction s as [|c s IH]; intros st; [reflexivity|].
  rewrite !tok_run_cons, step_prepend. apply IH.
Qed.

Definition prefix_res (a : list token) (r : res (list token)) : res (list token) :=
  match r with Ok t => Ok (a ++ t) | Err => Err | Unsup => Unsup end.

Lemma finish_prepend : forall a st, finish (prepend a st) = prefix_res a (finish st).
Proof.
  intros a [md acc| |]; [|reflexivity|reflexivity].
  destruct md; cbn [prepend finish prefix_res]; repeat rewrite <- app_assoc; reflexivity.
Qed.

(* a pattern whose prefix ends in the normal state: the rest is tokenized independently *)
Lemma tokenize_after_normal : forall pre post tpre,
  tok_run (TS MNormal []) pre = TS MNormal tpre ->
  tokenize (pre ++ post) = prefix_res tpre (tokenize post).
Proof.
  intros pre post tpre Hpre. unfold tokenize. rewrite tok_run_app, Hpre.
  replace (TS MNormal tpre) with (prepend tpre (TS MNormal [])) by (cbn; rewrite app_nil_r; reflexivity).
  rewrite tok_run_prepend. apply finish_prepend.
Qed.

(* ------------------------------------------------------------------ 4. the main theorem *)
Lemma escape_inert_gen : forall pre s post tpre,
  tok_run (TS MNormal []) pre = TS MNormal tpre ->
  tokenize (pre ++ escape s ++ post) = prefix_res (tpre ++ lits s) (tokenize post).
Proof.
  intros pre s post tpre Hpre. rewrite app_assoc.
  apply tokenize_after_normal. rewrite tok_run_app, Hpre. apply escape_normal_run.
Qed.

Theorem escape_inert : forall pre s post tpre tpost,
  tok_run (TS MNormal []) pre = TS MNormal tpre ->
  tokenize post = Ok tpost ->
  tokenize (pre ++ escape s ++ post) = Ok (tpre ++ lits s ++ tpost).
Proof.
  intros pre s post tpre tpost Hpre Hpost.
  rewrite (escape_inert_gen pre s post tpre Hpre), Hpost. cbn. rewrite <- app_assoc. reflexivity.
Qed.

Theorem escape_inert_err : forall pre s post tpre,
  tok_run (TS MNormal []) pre = TS MNormal tpre ->
  tokenize post = Err ->
  tokenize (pre ++ escape s ++ post) = Err.
Proof.
  intros pre s post tpre Hpre Hpost.
  rewrite (escape_inert_gen pre s post tpre Hpre), Hpost. reflexivity.
Qed.

Theorem escape_inert_unsup : forall pre s post tpre,
  tok_run (TS MNormal []) pre = TS MNormal tpre ->
  tokenize post = Unsup ->
  tokenize (pre ++ escape s ++ post) = Unsup.
Proof.
  intros pre s post tpre Hpre Hpost.
  rewrite (escape_inert_gen pre s post tpre Hpre), Hpost. reflexivity.
Qed.

(* the same inside a class: "pre [ escape(s c) ] post" *)
Theorem escape_inert_class : forall pre s c post tpre,
  tok_run (TS MNormal []) pre = TS MNormal tpre ->
  tokenize (pre ++ ([91] ++ escape (s ++ [c]) ++ [93]) ++ post)
  = prefix_res (tpre ++ [TSet false (map CChar (s ++ [c]))]) (tokenize post).
Proof.
  intros pre s c post tpre Hpre. rewrite app_assoc.
  apply tokenize_after_normal. rewrite tok_run_app, Hpre. apply escape_class_closed.
Qed.

(* the hypothesis is satisfiable and the statement is not trivial *)
Example ex_pre : tok_run (TS MNormal []) (str "(?:") = TS MNormal [TOpen false].
Proof. vm_compute. reflexivity. Qed.

Example ex_escape : escape (str ".*|(") = str "\.\*\|\(".
Proof. vm_compute. reflexivity. Qed.

Example ex_escaped_tokens :
  tokenize (str "(?:" ++ escape (str ".*|(") ++ str "|public)/[^/]+")
  = Ok ([TOpen false] ++ [TLit 46; TLit 42; TLit 124; TLit 40]
        ++ [TBar; TLit 112; TLit 117; TLit 98; TLit 108; TLit 105; TLit 99; TClose; TLit 47;
            TSet true [CChar 47]; TPlus]).
Proof. vm_compute. reflexivity. Qed.

Example ex_escaped_tokens_by_theorem :
  tokenize (str "(?:" ++ escape (str ".*|(") ++ str "|public)/[^/]+")
  = Ok ([TOpen false] ++ lits (str ".*|(")
        ++ [TBar; TLit 112; TLit 117; TLit 98; TLit 108; TLit 105; TLit 99; TClose; TLit 47;
            TSet true [CChar 47]; TPlus]).
Proof. apply escape_inert; vm_compute; reflexivity. Qed.

(* WITHOUT escape the same name is syntax: '.' '*' '|' '(' become TAny TStar TBar TOpen ... *)
Example ex_unescaped_tokens :
  tokenize (str "(?:" ++ str ".*|(" ++ str "|public)/[^/]+")
  = Ok ([TOpen false] ++ [TAny; TStar; TBar; TOpen true]
        ++ [TBar; TLit 112; TLit 117; TLit 98; TLit 108; TLit 105; TLit 99; TClose; TLit 47;
            TSet true [CChar 47]; TPlus]).
Proof. vm_compute. reflexivity. Qed.

(* ... and the pattern does not even compile (missing parenthesis), while the escaped one does *)
Example ex_unescaped_compile :
  compile (str "(?:" ++ str ".*|(" ++ str "|public)/[^/]+") = Err.
Proof. vm_compute. reflexivity. Qed.

Example ex_escaped_compile :
  exists r, compile (str "(?:" ++ escape (str ".*|(") ++ str "|public)/[^/]+") = Ok (r, 0).
Proof. eexists. vm_compute. reflexivity. Qed.

(* a name ".*" unescaped matches everything, escaped only itself *)
Example ex_unescaped_widens : fullmatch_py (str ".*") (str "anybody") = FmYes [].
Proof. vm_compute. reflexivity. Qed.
Example ex_escaped_narrow : fullmatch_py (escape (str ".*")) (str "anybody") = FmNo.
Proof. vm_compute. reflexivity. Qed.
Example ex_escaped_self : fullmatch_py (escape (str ".*")) (str ".*") = FmYes [].
Proof. vm_compute. reflexivity. Qed.

(* in a class: "^" "]" "-" "\" escaped are members, unescaped they negate / close / range *)
Example ex_class_escaped :
  tokenize (str "[" ++ escape (str "^a-z]\") ++ str "]")
  = Ok [TSet false [CChar 94; CChar 97; CChar 45; CChar 122; CChar 93; CChar 92]].
Proof. vm_compute. reflexivity. Qed.
Example ex_class_unescaped :
  tokenize (str "[" ++ str "^a-z" ++ str "]") = Ok [TSet true [CRange 97 122]].
Proof. vm_compute. reflexivity. Qed.

(* ------------------------------------------------------------------ 5. a bare hole is exact *)
Definition lit_seq (u : pystr) : regex := fold_right (fun c r => Cat (Chr c) r) Eps u.

Lemma lit_seq_cons : forall x u, lit_seq (x :: u) = Cat (Chr x) (lit_seq u).
Proof. reflexivity. Qed.

Lemma parse_quant_lits : forall a u, parse_quant a (lits u) = Ok (a, lits u).
Proof. intros a [|x u]; reflexivity. Qed.

Lemma parse_seq_lit : forall f c rest g,
  parse_seq (S f) (TLit c :: rest) g
  = bind (parse_quant (Chr c) rest) (fun y =>
      let '(a', rest2) := y in
      bind (parse_seq f rest2 g) (fun z => let '(r, rest3, g3) := z in Ok (Cat a' r, rest3, g3))).
Proof. reflexivity. Qed.

Lemma parse_seq_nil : forall f g, parse_seq (S f) [] g = Ok (Eps, [], g).
Proof. reflexivity. Qed.

Lemma parse_alt_S : forall f toks g,
  parse_alt (S f) toks g
  = bind (parse_seq f toks g) (fun x =>
      let '(r, rest, g1) := x in
      match rest with
      | TBar :: rest' =>
          bind (parse_alt f rest' g1) (fun y => let '(r2, rest2, g2) := y in Ok (Alt r r2, rest2, g2))
      | _ => Ok (r, rest, g1)
      end).
Proof. reflexivity. Qed.

Lemma parse_seq_lits : forall u fuel g, (List.length u < fuel)%nat ->
  parse_seq fuel (lits u) g = Ok (lit_seq u, [], g).
Proof.
  induction u as [|x u IH]; intros fuel g Hf.
  - destruct fuel as [|f]; [inversion Hf|]. reflexivity.
  - destruct fuel as [|f]; [inversion Hf|].
    change (lits (x :: u)) with (TLit x :: lits u).
    rewrite parse_seq_lit, parse_quant_lits. cbn [bind].
    rewrite IH by (cbn [List.length] in Hf; lia). reflexivity.
Qed.

Lemma lits_length : forall u, List.length (lits u) = List.length u.
Proof. intros u. unfold lits. apply map_length. Qed.

Theorem parse_lits : forall u, parse_tokens (lits u) = Ok (lit_seq u, 0).
Proof.
  intros u. unfold parse_tokens. rewrite lits_length.
  replace (4 * List.length u + 8)%nat with (S (4 * List.length u + 7))%nat by lia.
  rewrite parse_alt_S, parse_seq_lits by lia. reflexivity.
Qed.

Theorem compile_escape : forall u, compile (escape u) = Ok (lit_seq u, 0).
Proof. intros u. unfold compile. rewrite tokenize_escape. cbn [bind]. apply parse_lits. Qed.

Lemma m_cat : forall f a b s c k,
  m (S f) (Cat a b) s c k = m f a s c (fun s' c' => m f b s' c' k).
Proof. reflexivity. Qed.

Lemma m_chr : forall f x s c k,
  m (S f) (Chr x) s c k
  = match s with y :: s' => if y =? x then k s' c else MFail | [] => MFail end.
Proof. reflexivity. Qed.

Lemma m_eps : forall f s c k, m (S f) Eps s c k = k s c.
Proof. reflexivity. Qed.

Theorem m_lit_seq : forall u fuel s c k, (List.length u < fuel)%nat ->
  m fuel (lit_seq u) s c k
  = if startswith s u then k (skipn (List.length u) s) c else MFail.
Proof.
  induction u as [|x u IH]; intros fuel s c k Hf.
  - destruct fuel as [|f]; [inversion Hf|]. reflexivity.
  - destruct fuel as [|f]; [inversion Hf|].
    destruct f as [|f]; [cbn [List.length] in Hf; lia|].
    rewrite lit_seq_cons, m_cat, m_chr.
    destruct s as [|y s]; [reflexivity|].
    cbn [startswith List.length skipn].
    destruct (y =? x); cbn [andb]; [|reflexivity].
    apply IH. cbn [List.length] in Hf. lia.
Qed.

Lemma startswith_at_end : forall u p c,
  (if startswith p u then at_end (skipn (List.length u) p) c else MFail)
  = if eqs p u then MOk c else MFail.
Proof.
  induction u as [|x u IH]; intros [|y p] c; try reflexivity.
  cbn [startswith eqs List.length skipn].
  destruct (y =? x); cbn [andb]; [apply IH | reflexivity].
Qed.

Lemma uses_cat_lit_seq : forall u, uses_cat (lit_seq u) = false.
Proof. induction u as [|x u IH]; [reflexivity|]. rewrite lit_seq_cons. cbn [uses_cat orb]. exact IH. Qed.

Lemma rsize_lit_seq : forall u, rsize (lit_seq u) = (2 * List.length u + 1)%nat.
Proof.
  induction u as [|x u IH]; [reflexivity|].
  rewrite lit_seq_cons. cbn [rsize List.length]. rewrite IH. lia.
Qed.

Lemma default_fuel_lit_seq : forall u p, (List.length u < default_fuel (lit_seq u) p)%nat.
Proof.
  intros u p. unfold default_fuel. rewrite rsize_lit_seq.
  rewrite Nat.mul_add_distr_l. lia.
Qed.

Theorem fullmatch_escape_exact : forall u p,
  fullmatch_py (escape u) p = if eqs p u then FmYes [] else FmNo.
Proof.
  intros u p. unfold fullmatch_py. rewrite compile_escape, uses_cat_lit_seq. cbn [andb].
  unfold fullmatch_fuel. rewrite m_lit_seq by apply default_fuel_lit_seq.
  rewrite startswith_at_end. destruct (eqs p u); reflexivity.
Qed.

Corollary fullmatch_escape_iff : forall u p, fullmatch_py (escape u) p = FmYes [] <-> p = u.
Proof.
  intros u p. rewrite fullmatch_escape_exact. split; intros H.
  - destruct (eqs p u) eqn:E; [apply eqs_eq; exact E | discriminate H].
  - subst p. rewrite eqs_refl. reflexivity.
Qed.

Theorem format_user_hole : forall args u, format args (Some u) (str "{user}") = Ok u.
Proof. intros args u. reflexivity. Qed.

Theorem format_group_hole0 : forall a rest u, format (a :: rest) u (str "{0}") = Ok a.
Proof. intros a rest u. reflexivity. Qed.

(* what from_file does for a rights pattern "{user}": re.fullmatch(pattern.format(user=re.escape(u)), p) *)
Theorem user_hole_exact : forall args u p,
  match format args (Some (escape u)) (str "{user}") with
  | Ok cp => fullmatch_py cp p
  | _ => FmErr
  end = if eqs p u then FmYes [] else FmNo.
Proof. intros args u p. rewrite format_user_hole. apply fullmatch_escape_exact. Qed.

(* the same for a captured group substituted into the collection pattern "{0}" *)
Theorem group_hole0_exact : forall a rest user p,
  match format (escape a :: rest) user (str "{0}") with
  | Ok cp => fullmatch_py cp p
  | _ => FmErr
  end = if eqs p a then FmYes [] else FmNo.
Proof. intros a rest user p. rewrite format_group_hole0. apply fullmatch_escape_exact. Qed.

Print Assumptions escape_normal_run.
Print Assumptions escape_class_run_item.
Print Assumptions escape_class_run_after.
Print Assumptions escape_inert.
Print Assumptions escape_inert_class.
Print Assumptions fullmatch_escape_exact.
Print Assumptions user_hole_exact.
Print Assumptions group_hole0_exact.
