(* C17 -- soundness, transparency and totality of the (repaired) login cache, for all histories.
   Invariant on the cache contents + induction over the history. *)
From Coq Require Import List ZArith NArith Bool Lia.
Import ListNotations.
Require Import RV.Lib.PyStr RV.Proofs.PyStrLemmas RV.Model.LoginCache RV.Proofs.LoginCacheDict RV.Proofs.LoginCacheSweep.
Open Scope Z_scope.

Lemma nonempty_true : forall (u : pystr), nonempty u = true <-> u <> [].
Proof. intros [|x r]; cbn; split; congruence. Qed.
Lemma nonempty_false : forall (u : pystr), nonempty u = false <-> u = [].
Proof. intros [|x r]; cbn; split; congruence. Qed.

Lemma after_sweep_fix_digest : forall cfg bk now sd fd l d pw,
  after_sweep Vfix cfg bk now sd fd l d pw = after_sweep Vfix cfg bk now sd fd l DEmpty pw.
Proof. reflexivity. Qed.

(* the repaired login = sweep by filtering, then the look-ups *)
Lemma login_fix_unfold : forall cfg bk now c l0 pw,
  NoDup (map fst (failed c)) ->
  login_body Vfix cfg bk now c l0 pw =
  if negb (c_cache cfg) then mkResult c (ORet (bk (map_login cfg l0) pw) false) true
  else after_sweep Vfix cfg bk now (succ c) (sweepf (c_exp_f cfg) now (failed c)) (map_login cfg l0) DEmpty pw.
Proof.
  intros cfg bk now c l0 pw ND. unfold login_body.
  destruct (negb (c_cache cfg)); [reflexivity|].
  destruct (sweep_spec Vfix (c_exp_f cfg) now (failed c) (mkLocals (map_login cfg l0) DEmpty [] 0 0) ND) as [lo' [E L]].
  rewrite E. rewrite (L eq_refl). cbn [v_login]. apply after_sweep_fix_digest.
Qed.

Ltac split4 := refine (conj _ (conj _ (conj _ _))).

Section Sound.
  Context {B : Type} (backend : B -> pystr -> pystr -> pystr) (cfg : config).

  Definition sinv (M : list (Z * B)) (sd : sdict) : Prop :=
    forall l d t u, In (l, (d, t, u)) sd ->
      u <> [] /\ exists salt p b, d = cache_digest l p salt /\ In (t, b) M /\ backend b l p = u.

  Definition finv (M : list (Z * B)) (fd : fdict) : Prop :=
    forall k t l, In (k, (t, l)) fd ->
      exists p b, k = failed_key (c_salt cfg) l p /\ In (t, b) M /\ backend b l p = [].

  Definition cinv (M : list (Z * B)) (c : cache) : Prop :=
    NoDup (map fst (succ c)) /\ NoDup (map fst (failed c)) /\ sinv M (succ c) /\ finv M (failed c).

  (* the back-end answers u right now, or answered u at a moment whose age in whole seconds is <= exp *)
  Definition evid (M : list (Z * B)) (b : B) (now exp : Z) (l pw u : pystr) : Prop :=
    backend b l pw = u \/ exists t b', In (t, b') M /\ age_s now t <= exp /\ backend b' l pw = u.

  Definition good (M : list (Z * B)) (b : B) (now : Z) (l pw : pystr) (r : lresult) : Prop :=
    exists u cached, r_out r = ORet u cached
      /\ (u <> [] -> evid M b now (c_exp_s cfg) l pw u)
      /\ (u = [] -> evid M b now (c_exp_f cfg) l pw [])
      /\ (r_called r = true -> u = backend b l pw)
      /\ (r_called r = false -> cached = true).

  Lemma cinv_mono : forall M M' c, incl M M' -> cinv M c -> cinv M' c.
  Proof.
    intros M M' c Hi (N1 & N2 & Hs & Hf). split4; try assumption.
    - intros l d t u Hin. destruct (Hs l d t u Hin) as [Hu (salt & p & b & E & Hm & Hb)].
      split; [exact Hu|]. exists salt, p, b. auto.
    - intros k t l Hin. destruct (Hf k t l Hin) as (p & b & E & Hm & Hb). exists p, b. auto.
  Qed.

  Lemma cinv_empty : forall M, cinv M empty_cache.
  Proof.
    intros M. split4; cbn.
    - constructor.
    - constructor.
    - intros l d t u H. contradiction.
    - intros k t l H. contradiction.
  Qed.

  Lemma backend_part_fix : forall M b now sd fd l pw dg fc,
    let kf := failed_key (c_salt cfg) l pw in
    NoDup (map fst sd) -> NoDup (map fst fd) -> sinv M sd -> finv M fd -> In (now, b) M ->
    dget dval_eqb fd kf = None ->
    (dg = DEmpty \/ exists s, dg = cache_digest l pw s) ->
    let r := backend_part cfg (backend b) now sd fd l pw kf dg [] fc in
    cinv M (r_cache r) /\ r_out r = ORet (backend b l pw) fc /\ r_called r = true.
  Proof.
    intros M b now sd fd l pw dg fc kf N1 N2 Hs Hf Hm Hnone Hdg r. subst r.
    unfold backend_part. cbn [nonempty]. fold kf. rewrite Hnone.
    destruct (nonempty (backend b l pw)) eqn:En; cbn [r_cache r_out r_called succ failed].
    - apply nonempty_true in En. split; [|split; reflexivity].
      split4; cbn [succ failed]; try assumption.
      + apply (dset_NoDup eqs eqs_eq). exact N1.
      + intros l' d t u Hin. apply (dset_In eqs eqs_eq) in Hin as [[-> Hv]|Hin]; [|apply Hs; exact Hin].
        inversion Hv; subst. split; [exact En|].
        destruct Hdg as [->|[s ->]]; cbn [is_dempty].
        * exists now, pw, b. auto.
        * exists s, pw, b. auto.
    - apply nonempty_false in En. rewrite En. split; [|split; reflexivity].
      split4; cbn [succ failed]; try assumption.
      + apply (dset_NoDup dval_eqb dval_eqb_eq). exact N2.
      + intros k t l' Hin. apply (dset_In dval_eqb dval_eqb_eq) in Hin as [[-> Hv]|Hin]; [|apply Hf; exact Hin].
        inversion Hv; subst. exists pw, b. auto.
  Qed.

  Lemma good_of_called : forall M b now l pw r fc,
    r_out r = ORet (backend b l pw) fc -> r_called r = true -> good M b now l pw r.
  Proof.
    intros M b now l pw r fc Ho Hc. exists (backend b l pw), fc. split; [exact Ho|].
    split; [intros _; left; reflexivity|]. split; [intros E; left; exact E|].
    split; [reflexivity|]. rewrite Hc. discriminate.
  Qed.

  Lemma sinv_ddel : forall M sd l, sinv M sd -> sinv M (ddel eqs sd l).
  Proof. intros M sd l Hs l' d t u Hin. apply Hs. eapply ddel_In. exact Hin. Qed.

  Lemma after_sweep_fix : forall M b now sd fd l D pw,
    NoDup (map fst sd) -> NoDup (map fst fd) -> sinv M sd -> finv M fd -> In (now, b) M ->
    (forall k t l', In (k, (t, l')) fd -> age_s now t <= c_exp_f cfg) ->
    let r := after_sweep Vfix cfg (backend b) now sd fd l D pw in
    cinv M (r_cache r) /\ good M b now l pw r.
  Proof.
    intros M b now sd fd l D pw N1 N2 Hs Hf Hm Hlive r. subst r.
    unfold after_sweep. cbn [fix2 fix3 Vfix].
    set (kf := failed_key (c_salt cfg) l pw).
    destruct (dget dval_eqb fd kf) as [[t l']|] eqn:Ef.
    - (* found in the failed cache *)
      split; [split4; assumption|].
      exists [], true. cbn [r_out r_called]. split; [reflexivity|].
      split; [congruence|]. split; [|split; [discriminate|reflexivity]].
      intros _. right. apply (dget_In dval_eqb dval_eqb_eq) in Ef.
      destruct (Hf _ _ _ Ef) as (p & b' & Ek & Hin & Hb).
      unfold kf in Ek. apply failed_key_inj in Ek as [El Ep]. subst l' p.
      exists t, b'. split; [exact Hin|]. split; [|exact Hb].
      eapply Hlive. exact Ef.
    - destruct (dget eqs sd l) as [[[dc tc] uc]|] eqn:Es.
      + destruct (dval_eqb (cache_digest l pw tc) dc) eqn:Ed.
        * apply dval_eqb_eq in Ed. subst dc.
          destruct (age_s now tc >? c_exp_s cfg) eqn:Ea.
          -- (* matching but expired: entry deleted, back-end asked *)
             destruct (backend_part_fix M b now (ddel eqs sd l) fd l pw DEmpty false) as (C & O & Cl); auto.
             ++ apply (ddel_NoDup eqs). exact N1.
             ++ apply sinv_ddel. exact Hs.
             ++ split; [exact C|]. eapply good_of_called; eassumption.
          -- (* matching and fresh: answered from the cache *)
             apply (dget_In eqs eqs_eq) in Es.
             destruct (Hs _ _ _ _ Es) as [Hu (salt & p & b' & Ed & Hin & Hb)].
             apply cache_digest_same_login in Ed as [Et Ep]. subst salt p. subst uc.
             unfold backend_part. rewrite (proj2 (nonempty_true _) Hu).
             split; [split4; assumption|].
             exists (backend b' l pw), true. cbn [r_out r_called]. split; [reflexivity|].
             split; [|split; [congruence|split; [discriminate|reflexivity]]].
             intros _. right. exists tc, b'. split; [exact Hin|]. split; [|reflexivity].
             rewrite Z.gtb_ltb in Ea. apply Z.ltb_ge in Ea. exact Ea.
        * (* login known, other password *)
          destruct (backend_part_fix M b now sd fd l pw (cache_digest l pw tc) false) as (C & O & Cl); eauto.
          split; [exact C|]. eapply good_of_called; eassumption.
      + destruct (backend_part_fix M b now sd fd l pw (cache_digest l pw now) false) as (C & O & Cl); eauto.
        split; [exact C|]. eapply good_of_called; eassumption.
  Qed.

  Lemma finv_sweepf : forall M exp now fd, finv M fd -> finv M (sweepf exp now fd).
  Proof. intros M exp now fd Hf k t l Hin. apply sweepf_In in Hin as [Hin _]. apply Hf. exact Hin. Qed.

  (* one login: the invariant is kept and the outcome is justified *)
  Lemma login_fix_props : forall M b now c l0 pw,
    cinv M c -> In (now, b) M ->
    let r := login_body Vfix cfg (backend b) now c l0 pw in
    cinv M (r_cache r) /\ good M b now (map_login cfg l0) pw r.
  Proof.
    intros M b now c l0 pw (N1 & N2 & Hs & Hf) Hm r. subst r.
    rewrite login_fix_unfold by exact N2.
    destruct (negb (c_cache cfg)).
    - split; [split4; assumption|]. eapply good_of_called; reflexivity.
    - apply after_sweep_fix; try assumption.
      + apply sweepf_NoDup. exact N2.
      + apply finv_sweepf. exact Hf.
      + intros k t l' Hin. apply sweepf_In in Hin as [_ H]. exact H.
  Qed.

  (* ---------------------------------------------------------------- histories *)
  Notation runF := (run backend Vfix cfg).
  Notation momentsF := (moments backend Vfix cfg).

  Lemma run_inv : forall h s M,
    cinv M (s_cache s) ->
    let s' := fst (runF s h) in
    cinv (M ++ momentsF s h) (s_cache s') /\ In (s_now s', s_bk s') (M ++ momentsF s h).
  Proof.
    induction h as [|e h IH]; intros s M Hc.
    - cbn [run moments fst]. split.
      + eapply cinv_mono; [|exact Hc]. apply incl_appl. apply incl_refl.
      + apply in_or_app. right. left. reflexivity.
    - cbn [run moments].
      destruct (step backend Vfix cfg s e) as [s1 o1] eqn:E1.
      destruct (runF s1 h) as [s2 o2] eqn:E2. cbn [fst].
      assert (Hc1 : cinv (M ++ [(s_now s, s_bk s)]) (s_cache s1)).
      { destruct e as [l p|dt|b']; cbn [step] in E1; inversion E1; subst; cbn [s_cache].
        - apply login_fix_props.
          + eapply cinv_mono; [|exact Hc]. apply incl_appl. apply incl_refl.
          + apply in_or_app. right. left. reflexivity.
        - eapply cinv_mono; [|exact Hc]. apply incl_appl. apply incl_refl.
        - eapply cinv_mono; [|exact Hc]. apply incl_appl. apply incl_refl. }
      specialize (IH s1 (M ++ [(s_now s, s_bk s)]) Hc1). rewrite E2 in IH. cbn [fst] in IH.
      rewrite <- app_assoc in IH. cbn [app] in IH. exact IH.
  Qed.

  (* every outcome after every history is justified by the moments of that history *)
  Theorem login_after_history : forall t0 b0 h l p,
    let s := fst (runF (init t0 b0) h) in
    good (momentsF (init t0 b0) h) (s_bk s) (s_now s) (map_login cfg l) p
         (login_body Vfix cfg (backend (s_bk s)) (s_now s) (s_cache s) l p).
  Proof.
    intros t0 b0 h l p s.
    destruct (run_inv h (init t0 b0) [] (cinv_empty [])) as [Hc Hm]. cbn [app] in Hc, Hm.
    apply login_fix_props; assumption.
  Qed.

  Theorem success_sound : forall t0 b0 h l p u cached,
    let s := fst (runF (init t0 b0) h) in
    r_out (login_body Vfix cfg (backend (s_bk s)) (s_now s) (s_cache s) l p) = ORet u cached ->
    u <> [] ->
    backend (s_bk s) (map_login cfg l) p = u \/
    exists t b, In (t, b) (momentsF (init t0 b0) h) /\ age_s (s_now s) t <= c_exp_s cfg
                /\ backend b (map_login cfg l) p = u.
  Proof.
    intros t0 b0 h l p u cached s Ho Hu.
    destruct (login_after_history t0 b0 h l p) as (u' & c' & Ho' & Hs & _). fold s in Ho'.
    rewrite Ho in Ho'. inversion Ho'; subst. apply Hs. exact Hu.
  Qed.

  Theorem failure_sound : forall t0 b0 h l p cached,
    let s := fst (runF (init t0 b0) h) in
    r_out (login_body Vfix cfg (backend (s_bk s)) (s_now s) (s_cache s) l p) = ORet [] cached ->
    backend (s_bk s) (map_login cfg l) p = [] \/
    exists t b, In (t, b) (momentsF (init t0 b0) h) /\ age_s (s_now s) t <= c_exp_f cfg
                /\ backend b (map_login cfg l) p = [].
  Proof.
    intros t0 b0 h l p cached s Ho.
    destruct (login_after_history t0 b0 h l p) as (u' & c' & Ho' & _ & Hf & _). fold s in Ho'.
    rewrite Ho in Ho'. inversion Ho'; subst. apply Hf. reflexivity.
  Qed.

  Theorem total : forall t0 b0 h l p,
    let s := fst (runF (init t0 b0) h) in
    exists u cached, r_out (login_body Vfix cfg (backend (s_bk s)) (s_now s) (s_cache s) l p) = ORet u cached.
  Proof.
    intros t0 b0 h l p s.
    destruct (login_after_history t0 b0 h l p) as (u' & c' & Ho' & _). eauto.
  Qed.


  (* when the back-end is asked its present answer is returned; when it is not, the answer is flagged as cached *)
  Theorem called_fresh : forall t0 b0 h l p,
    let s := fst (runF (init t0 b0) h) in
    let r := login_body Vfix cfg (backend (s_bk s)) (s_now s) (s_cache s) l p in
    (r_called r = true -> exists cached, r_out r = ORet (backend (s_bk s) (map_login cfg l) p) cached)
    /\ (r_called r = false -> exists u, r_out r = ORet u true).
  Proof.
    intros t0 b0 h l p s r.
    destruct (login_after_history t0 b0 h l p) as (u & c & Ho & _ & _ & Hc & Hn). fold s in Ho, Hc, Hn. fold r in Ho, Hc, Hn.
    split.
    - intros E. exists c. rewrite Ho, (Hc E). reflexivity.
    - intros E. exists u. rewrite Ho, (Hn E). reflexivity.
  Qed.

  (* no attempt anywhere in any history raises *)
  Definition is_ret (o : outcome) : bool := match o with ORet _ _ => true | ORaise _ => false end.

  Lemma run_no_raise_gen : forall h s M, cinv M (s_cache s) ->
    forallb (fun o => is_ret (o_out o)) (snd (runF s h)) = true.
  Proof.
    induction h as [|e h IH]; intros s M Hc; [reflexivity|].
    cbn [run]. destruct (step backend Vfix cfg s e) as [s1 o1] eqn:E1.
    destruct (runF s1 h) as [s2 o2] eqn:E2. cbn [snd]. rewrite forallb_app.
    destruct e as [l p|dt|b']; cbn [step] in E1; inversion E1; subst; clear E1.
    - destruct (login_fix_props (M ++ [(s_now s, s_bk s)]) (s_bk s) (s_now s) (s_cache s) l p) as [Hc1 Hg].
      + eapply cinv_mono; [|exact Hc]. apply incl_appl. apply incl_refl.
      + apply in_or_app. right. left. reflexivity.
      + destruct Hg as (u & c & Ho & _). cbn [forallb o_out]. rewrite Ho. cbn [is_ret andb].
        match type of E2 with runF ?S1 h = _ => specialize (IH S1 _ Hc1) end.
        rewrite E2 in IH. exact IH.
    - cbn [forallb andb]. specialize (IH (mkState (s_cache s) (s_now s + dt) (s_bk s)) M Hc).
      rewrite E2 in IH. exact IH.
    - cbn [forallb andb]. specialize (IH (mkState (s_cache s) (s_now s) b') M Hc).
      rewrite E2 in IH. exact IH.
  Qed.

  Theorem run_no_raise : forall t0 b0 h,
    forallb (fun o => is_ret (o_out o)) (snd (runF (init t0 b0) h)) = true.
  Proof. intros. apply (run_no_raise_gen h (init t0 b0) []). apply cinv_empty. Qed.

  (* transparency: if the back-end's answer for this login and password was the same at every moment of
     the history that lies within the respective lifetime, the cache is invisible *)
  Theorem transparent : forall t0 b0 h l p,
    let s := fst (runF (init t0 b0) h) in
    let m := map_login cfg l in
    (forall t b, In (t, b) (momentsF (init t0 b0) h) ->
                 age_s (s_now s) t <= Z.max (c_exp_s cfg) (c_exp_f cfg) ->
                 backend b m p = backend (s_bk s) m p) ->
    exists cached, r_out (login_body Vfix cfg (backend (s_bk s)) (s_now s) (s_cache s) l p)
                   = ORet (backend (s_bk s) m p) cached.
  Proof.
    intros t0 b0 h l p s m Hconst.
    destruct (login_after_history t0 b0 h l p) as (u & c & Ho & Hs & Hf & _). fold s in Ho, Hs, Hf. fold m in Hs, Hf.
    exists c. rewrite Ho. f_equal.
    destruct u as [|x u'].
    - destruct (Hf eq_refl) as [E|(t & b & Hin & Ha & Hb)]; [congruence|].
      rewrite <- (Hconst t b Hin); [congruence|]. lia.
    - destruct Hs as [E|(t & b & Hin & Ha & Hb)]; [discriminate|congruence|].
      rewrite <- (Hconst t b Hin); [congruence|]. lia.
  Qed.

  (* with no credential change at all in the history *)
  Fixpoint no_change (h : list (@event B)) : bool :=
    match h with
    | [] => true
    | Change _ :: _ => false
    | _ :: r => no_change r
    end.

  Lemma moments_no_change : forall h s t b, no_change h = true -> In (t, b) (momentsF s h) -> b = s_bk s.
  Proof.
    induction h as [|e h IH]; intros s t b Hn Hin; cbn [moments] in Hin.
    - destruct Hin as [E|[]]. congruence.
    - destruct Hin as [E|Hin]; [congruence|].
      destruct e as [l p|dt|b']; cbn [no_change] in Hn; try discriminate;
        apply (IH _ _ _ Hn) in Hin; cbn [step fst s_bk] in Hin; exact Hin.
  Qed.

  Lemma run_no_change_bk : forall h s, no_change h = true -> s_bk (fst (runF s h)) = s_bk s.
  Proof.
    induction h as [|e h IH]; intros s Hn; [reflexivity|].
    cbn [run]. destruct (step backend Vfix cfg s e) as [s1 o1] eqn:E1.
    destruct (runF s1 h) as [s2 o2] eqn:E2. cbn [fst].
    destruct e as [l p|dt|b']; cbn [no_change] in Hn; try discriminate;
      cbn [step] in E1; inversion E1; subst;
      match type of E2 with runF ?S1 h = _ => specialize (IH S1 Hn) end; rewrite E2 in IH; exact IH.
  Qed.

  Corollary transparent_unchanged : forall t0 b0 h l p,
    no_change h = true ->
    let s := fst (runF (init t0 b0) h) in
    exists cached, r_out (login_body Vfix cfg (backend (s_bk s)) (s_now s) (s_cache s) l p)
                   = ORet (backend b0 (map_login cfg l) p) cached.
  Proof.
    intros t0 b0 h l p Hn s.
    assert (Hb : s_bk s = b0) by (apply (run_no_change_bk h (init t0 b0) Hn)).
    destruct (transparent t0 b0 h l p) as [c Hc].
    - intros t b Hin _. apply (moments_no_change h _ _ _ Hn) in Hin. cbn in Hin. fold s. rewrite Hb, Hin. reflexivity.
    - fold s in Hc. exists c. rewrite Hc. rewrite Hb. reflexivity.
  Qed.
End Sound.
