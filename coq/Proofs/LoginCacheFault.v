(* C17 -- a login during which the back-end raises (Model/LoginCache.v, login_body_fault): the exception is passed on
   and NOTHING is recorded -- no success, and in particular no rejection: afterwards the failed dictionary is exactly
   what the housekeeping left and the successful dictionary has no new entry.  (A back-end failure is no verdict.) *)
From Coq Require Import List ZArith NArith Bool Lia.
Import ListNotations.
Require Import RV.Lib.PyStr RV.Proofs.PyStrLemmas RV.Model.LoginCache RV.Proofs.LoginCacheDict
               RV.Proofs.LoginCacheSweep RV.Proofs.LoginCacheSound.
Open Scope Z_scope.

(* either the back-end is not reached (answer from the cache, as without the fault), or its exception comes out *)
Lemma fault_outcome : forall v cfg now c l p,
  let rf := login_body_fault v cfg now c l p in
  let r := login_body v cfg (fun _ _ => []) now c l p in
  (r_called r = false /\ rf = r) \/ (r_called r = true /\ r_out rf = ORaise BackendError /\ r_called rf = true).
Proof.
  intros v cfg now c l p rf r. subst rf. unfold login_body_fault. fold r.
  destruct (r_called r); [right|left]; auto.
Qed.

Lemma removelast_dset_fresh : forall (fd : fdict) k x,
  dget dval_eqb fd k = None -> removelast (dset dval_eqb fd k x) = fd.
Proof.
  intros fd k x H. rewrite (dset_notin_app dval_eqb dval_eqb_eq).
  - apply removelast_last.
  - apply (dget_None dval_eqb dval_eqb_eq). exact H.
Qed.

Lemma backend_part_reject : forall cfg now sd fd l pw dg res fc,
  dget dval_eqb fd (failed_key (c_salt cfg) l pw) = None ->
  let r := backend_part cfg (fun _ _ => []) now sd fd l pw (failed_key (c_salt cfg) l pw) dg res fc in
  r_called r = true -> succ (r_cache r) = sd /\ removelast (failed (r_cache r)) = fd.
Proof.
  intros cfg now sd fd l pw dg res fc Hn r. subst r. unfold backend_part.
  destruct (nonempty res); cbn [r_called]; [discriminate|]. cbn [nonempty r_cache succ failed]. intros _.
  split; [reflexivity|]. apply removelast_dset_fresh. exact Hn.
Qed.

Theorem fault_records_nothing : forall cfg now c l p,
  c_cache cfg = true -> NoDup (map fst (failed c)) ->
  let rf := login_body_fault Vfix cfg now c l p in
  r_out rf = ORaise BackendError ->
  failed (r_cache rf) = sweepf (c_exp_f cfg) now (failed c)
  /\ (forall e, In e (succ (r_cache rf)) -> In e (succ c)).
Proof.
  intros cfg now c l p Hc ND rf. subst rf. unfold login_body_fault.
  rewrite login_fix_unfold by exact ND. rewrite Hc. cbn [negb].
  set (m := map_login cfg l). set (fd := sweepf (c_exp_f cfg) now (failed c)).
  unfold after_sweep. cbn [fix2 fix3 Vfix].
  destruct (dget dval_eqb fd (failed_key (c_salt cfg) m p)) as [x|] eqn:Ef.
  - cbn [r_called r_out]. discriminate.
  - destruct (dget eqs (succ c) m) as [[[dc tc] uc]|] eqn:Es.
    + destruct (dval_eqb (cache_digest m p tc) dc).
      * destruct (age_s now tc >? c_exp_s cfg).
        -- match goal with |- context [backend_part ?a ?b ?c0 ?d ?e ?f ?g ?h ?i ?j ?k] =>
             pose proof (backend_part_reject a c0 d e f g i j k Ef) as H; cbv zeta in H;
             destruct (r_called (backend_part a b c0 d e f g h i j k)) eqn:Ecl end.
           ++ destruct (H eq_refl) as [H1 H2]. cbn [r_cache r_out succ failed]. intros _. rewrite H1, H2.
              split; [reflexivity|]. intros e He. eapply ddel_In. exact He.
           ++ unfold backend_part in Ecl |- *. cbn [nonempty] in Ecl |- *. cbn [r_called] in Ecl. discriminate.
        -- match goal with |- context [backend_part ?a ?b ?c0 ?d ?e ?f ?g ?h ?i ?j ?k] =>
             pose proof (backend_part_reject a c0 d e f g i j k Ef) as H; cbv zeta in H;
             destruct (r_called (backend_part a b c0 d e f g h i j k)) eqn:Ecl end.
           ++ destruct (H eq_refl) as [H1 H2]. cbn [r_cache r_out succ failed]. intros _. rewrite H1, H2. auto.
           ++ intros Ho. unfold backend_part in Ho. destruct (nonempty uc); cbn [r_out] in Ho; discriminate.
      * match goal with |- context [backend_part ?a ?b ?c0 ?d ?e ?f ?g ?h ?i ?j ?k] =>
          pose proof (backend_part_reject a c0 d e f g i j k Ef) as H; cbv zeta in H;
          destruct (r_called (backend_part a b c0 d e f g h i j k)) eqn:Ecl end.
        -- destruct (H eq_refl) as [H1 H2]. cbn [r_cache r_out succ failed]. intros _. rewrite H1, H2. auto.
        -- unfold backend_part in Ecl. cbn [nonempty r_called] in Ecl. discriminate.
    + match goal with |- context [backend_part ?a ?b ?c0 ?d ?e ?f ?g ?h ?i ?j ?k] =>
        pose proof (backend_part_reject a c0 d e f g i j k Ef) as H; cbv zeta in H;
        destruct (r_called (backend_part a b c0 d e f g h i j k)) eqn:Ecl end.
      * destruct (H eq_refl) as [H1 H2]. cbn [r_cache r_out succ failed]. intros _. rewrite H1, H2. auto.
      * unfold backend_part in Ecl. cbn [nonempty r_called] in Ecl. discriminate.
Qed.
