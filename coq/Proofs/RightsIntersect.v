(* C04: rights.intersect keeps exactly the permission letters present in both arguments. *)
From Coq Require Import List NArith Bool.
Import ListNotations.
Require Import RV.Lib.PyStr RV.Model.Rights RV.Proofs.PyStrLemmas RV.Proofs.GenEqRights.
Require RV.Gen.RightsGen.
Open Scope N_scope.

Lemma contains_intersect_chars : forall c a b,
  contains_char c (intersect_chars a b) = contains_char c a && contains_char c b.
Proof.
  intros c a b. induction a as [|x r IH]; [reflexivity|].
  cbn [intersect_chars contains_char].
  destruct (N.eqb_spec x c) as [Hxc|Hxc].
  - subst x. cbn [orb].
    destruct (contains_char c b) eqn:Eb; destruct (contains_char c r) eqn:Er; cbn [andb negb].
    + rewrite IH. reflexivity.
    + cbn [contains_char]. rewrite N.eqb_refl. reflexivity.
    + rewrite IH. reflexivity.
    + rewrite IH. reflexivity.
  - apply N.eqb_neq in Hxc. cbn [orb].
    destruct (contains_char x b && negb (contains_char x r)).
    + cbn [contains_char]. rewrite Hxc. cbn [orb]. exact IH.
    + exact IH.
Qed.

Lemma c04_intersect : forall a b c,
  contains_char c (RightsGen.intersect a b) = contains_char c a && contains_char c b.
Proof. intros a b c. rewrite Gen_intersect_eq. apply contains_intersect_chars. Qed.

Example ex_intersect_letters :
  RightsGen.intersect [82; 87] [82; 114] = [82] /\ RightsGen.intersect [114; 119] [] = [].
Proof. split; reflexivity. Qed.
