(* C11 -- theorems about the flock-based lock, derived from the inductive invariant. *)
From Coq Require Import List Arith Bool ZArith Lia.
Import ListNotations.
Require Import RV.Model.C11Base RV.Proofs.C11BaseLemmas RV.Model.RwLockFile RV.Proofs.RwLockFileInv.
Open Scope Z_scope.

Lemma frun_reachable : forall progs sched s, frun sched (finit progs) = Some s -> freachable s.
Proof. intros. exists progs. eapply run_reach; eauto. Qed.

Lemma fin_cs_fheld : forall m th, fin_cs m th = true -> fheld m th = true.
Proof. unfold fin_cs, fheld. intros m th H. destruct (f_pc th); simpl in *; auto; discriminate. Qed.

(* ------------------------------------------------------------------ mutual exclusion, over ALL processes *)
Lemma file_mutex_flock : forall s, freachable s ->
  (count (fheld W) (thr s) <= 1)%nat /\ (count (fheld W) (thr s) = 1%nat -> count (fheld R) (thr s) = 0%nat).
Proof.
  intros s Hr. apply FInv_reachable in Hr. pose proof (fi_ksh _ Hr). pose proof (fi_kex _ Hr).
  destruct (fi_kexcl _ Hr). split; intros; lia.
Qed.

Lemma file_mutex : forall s, freachable s ->
  (count (fin_cs W) (thr s) <= 1)%nat /\ (count (fin_cs W) (thr s) = 1%nat -> count (fin_cs R) (thr s) = 0%nat).
Proof.
  intros s Hr. destruct (file_mutex_flock s Hr) as [H1 H2].
  pose proof (count_le _ (fin_cs W) (fheld W) (thr s) (fin_cs_fheld W)).
  pose proof (count_le _ (fin_cs R) (fheld R) (thr s) (fin_cs_fheld R)).
  split; [lia|]. intros. assert (count (fheld W) (thr s) = 1%nat) as E by lia. specialize (H2 E). lia.
Qed.

Lemma file_mutex_pair : forall s t u th thu, freachable s -> t <> u -> fthr_at s t th -> fthr_at s u thu ->
  flock_pc (f_pc th) = true -> flock_pc (f_pc thu) = true -> f_mode th = R /\ f_mode thu = R.
Proof.
  intros s t u th thu Hr Hne Ht Hu H1 H2. destruct (file_mutex_flock s Hr) as [M1 M2].
  assert (forall m x, flock_pc (f_pc x) = true -> f_mode x = m -> fheld m x = true) as Hh.
  { intros m x Hx <-. unfold fheld. rewrite Hx. destruct (f_mode x); reflexivity. }
  destruct (f_mode th) eqn:E1; destruct (f_mode thu) eqn:E2; auto; exfalso.
  - pose proof (count_nth _ _ _ _ _ Hu (Hh W _ H2 E2)). pose proof (count_nth _ _ _ _ _ Ht (Hh R _ H1 E1)). lia.
  - pose proof (count_nth _ _ _ _ _ Ht (Hh W _ H1 E1)). pose proof (count_nth _ _ _ _ _ Hu (Hh R _ H2 E2)). lia.
  - pose proof (count_two _ _ _ _ _ _ _ Hne Ht Hu (Hh W _ H1 E1) (Hh W _ H2 E2)). lia.
Qed.

(* ------------------------------------------------------------------ bookkeeping, per RwLock object *)
Lemma file_bookkeeping : forall s p, freachable s -> (p < List.length (procs (glob s)))%nat ->
  p_readers (proc_of (glob s) p) = Z.of_nat (count (fholds_in p R) (thr s)) /\
  (p_writer (proc_of (glob s) p) = true <-> count (fholds_in p W) (thr s) = 1%nat) /\
  (p_writer (proc_of (glob s) p) = false <-> count (fholds_in p W) (thr s) = 0%nat).
Proof.
  intros s p Hr Hp. apply FInv_reachable in Hr.
  pose proof (fi_writer _ Hr p Hp) as HW. split; [apply (fi_readers _ Hr p Hp)|].
  destruct (p_writer (proc_of (glob s) p)); split; split; intros; auto; try lia; try discriminate.
Qed.

Lemma file_locked_val : forall s p, freachable s -> (p < List.length (procs (glob s)))%nat ->
  (flocked_val (proc_of (glob s) p) = FLR <-> (count (fholds_in p R) (thr s) > 0)%nat) /\
  (flocked_val (proc_of (glob s) p) = FLW <-> count (fholds_in p W) (thr s) = 1%nat) /\
  (flocked_val (proc_of (glob s) p) = FLFree <->
     (count (fholds_in p R) (thr s) = 0 /\ count (fholds_in p W) (thr s) = 0)%nat).
Proof.
  intros s p Hr Hp. destruct (file_bookkeeping s p Hr Hp) as (H1 & H2 & H3).
  apply FInv_reachable in Hr. pose proof (fbook_excl _ _ Hr Hp) as HX.
  unfold flocked_val. destruct (Z.ltb 0 (p_readers (proc_of (glob s) p))) eqn:E.
  - apply Z.ltb_lt in E. repeat split; intros; try discriminate; try lia.
    destruct (p_writer (proc_of (glob s) p)); [specialize (HX eq_refl); lia|]. assert (count (fholds_in p W) (thr s) = 0%nat) by (apply H3; auto). lia.
  - apply Z.ltb_ge in E. destruct (p_writer (proc_of (glob s) p)) eqn:Ew.
    + assert (count (fholds_in p W) (thr s) = 1%nat) by (apply H2; auto). repeat split; intros; try discriminate; auto; try lia.
    + assert (count (fholds_in p W) (thr s) = 0%nat) by (apply H3; auto). repeat split; intros; try discriminate; auto; try lia.
Qed.

Lemma file_locked_in_cs : forall s t th, freachable s -> fthr_at s t th -> f_pc th = FQ_Read ->
  flocked_val (proc_of (glob s) (f_proc th)) = (match f_mode th with R => FLR | W => FLW end).
Proof.
  intros s t th Hr Ht Hpc. pose proof (FInv_reachable _ Hr) as I. pose proof (fi_proc _ I _ _ Ht) as Hp.
  destruct (file_locked_val s _ Hr Hp) as (L1 & L2 & L3).
  pose proof (fi_writer _ I _ Hp) as HW.
  assert (fholds_in (f_proc th) (f_mode th) th = true) as Hh.
  { unfold fholds_in, fholds. rewrite Hpc, Nat.eqb_refl. destruct (f_mode th); reflexivity. }
  destruct (f_mode th) eqn:Em.
  - apply L1. eapply count_nth; eauto.
  - pose proof (count_nth _ _ _ _ _ Ht Hh). apply L2. destruct (p_writer (proc_of (glob s) (f_proc th))); lia.
Qed.

(* the RuntimeError("Locking the storage failed: Guarantees failed") branch is dead code *)
Lemma file_no_failure : forall s t th, freachable s -> fthr_at s t th -> failed_pc (f_pc th) = false.
Proof. intros s t th Hr Ht. apply FInv_reachable in Hr. eapply fi_nofail; eauto. Qed.

Lemma file_check_passes : forall s t th, freachable s -> fthr_at s t th -> f_pc th = F_Check ->
  guard_fails (f_mode th) (proc_of (glob s) (f_proc th)) = false.
Proof. intros s t th Hr. apply FInv_reachable in Hr. apply check_passes; auto. Qed.

(* ------------------------------------------------------------------ no deadlock *)
Lemma fowner_enabled : forall s u th, fthr_at s u th -> fowns_mutex (f_pc th) = true -> fenabled s u = true.
Proof.
  intros s u th Ht Ho. unfold fenabled, C11Base.enabled, C11Base.step. unfold fthr_at in Ht. rewrite Ht.
  unfold ftstep. destruct (f_pc th); try discriminate; reflexivity.
Qed.

Lemma fmutex_waiter_ok : forall s x thx, FInv s -> fthr_at s x thx -> (f_pc thx = F_Lock1 \/ f_pc thx = F_InCS) ->
  exists u, fenabled s u = true.
Proof.
  intros s x thx I Hx Hp. destruct (p_mutex (proc_of (glob s) (f_proc thx))) as [u|] eqn:Em.
  - destruct (fi_mx_some _ I _ _ Em) as (thu & Hu & _ & Ho). exists u. eapply fowner_enabled; eauto.
  - exists x. unfold fenabled, C11Base.enabled, C11Base.step. unfold fthr_at in Hx. rewrite Hx.
    unfold ftstep. destruct Hp as [E|E]; rewrite E, Em; reflexivity.
Qed.

Lemma fclose_enabled : forall s x thx, fthr_at s x thx -> f_pc thx = FR_Close -> fenabled s x = true.
Proof.
  intros s x thx Hx E. unfold fenabled, C11Base.enabled, C11Base.step. unfold fthr_at in Hx. rewrite Hx.
  unfold ftstep. rewrite E. reflexivity.
Qed.

Lemma file_no_deadlock : forall s, freachable s ->
  (exists t th, fthr_at s t th /\ f_pc th <> F_Done) -> exists t, fenabled s t = true.
Proof.
  intros s Hr (t & th & Ht & Hnd). apply FInv_reachable in Hr.
  assert (forall x thx, fthr_at s x thx -> flock_pc (f_pc thx) = true -> exists u, fenabled s u = true) as Hholder.
  { intros x thx Hx Hf. pose proof (fi_nofail _ Hr _ _ Hx) as Hnf.
    destruct (f_pc thx) eqn:E; try discriminate;
      try (eapply fmutex_waiter_ok; eauto; fail);
      try (exists x; eapply fowner_enabled; eauto; rewrite E; reflexivity).
    exists x. eapply fclose_enabled; eauto. }
  pose proof (fi_nofail _ Hr _ _ Ht) as Hnf.
  destruct (f_pc th) eqn:Epc; try discriminate; try congruence;
    try (eapply Hholder; eauto; rewrite Epc; reflexivity).
  2: { (* the failed attempt only has to close its descriptor *)
       exists t. unfold fenabled, C11Base.enabled, C11Base.step. unfold fthr_at in Ht. rewrite Ht.
       unfold ftstep. rewrite Epc. reflexivity. }
  (* t is blocked in flock(): some descriptor holds an incompatible lock, and its thread can move *)
  destruct (f_fail th) eqn:Efl.
  { exists t. unfold fenabled, C11Base.enabled, C11Base.step. unfold fthr_at in Ht. rewrite Ht.
    unfold ftstep. rewrite Epc, Efl. reflexivity. }
  destruct (kcompat (f_mode th) (glob s)) eqn:Ek.
  - exists t. unfold fenabled, C11Base.enabled, C11Base.step. unfold fthr_at in Ht. rewrite Ht.
    unfold ftstep. rewrite Epc, Efl, Ek. reflexivity.
  - pose proof (fi_ksh _ Hr) as KS. pose proof (fi_kex _ Hr) as KE.
    assert (exists m, (count (fheld m) (thr s) > 0)%nat) as (m & Hc).
    { unfold kcompat in Ek. destruct (f_mode th).
      - apply Nat.eqb_neq in Ek. exists W. lia.
      - apply andb_false_iff in Ek. destruct Ek as [Ek|Ek]; apply Nat.eqb_neq in Ek; [exists W|exists R]; lia. }
    destruct (count_pos _ _ _ Hc) as (x & thx & Hx & Hh). eapply Hholder; eauto.
    unfold fheld in Hh. apply andb_true_iff in Hh. tauto.
Qed.

(* ------------------------------------------------------------------ progress *)
Definition flrun := C11Base.lrun ftstep.

Lemma frun_n_of_lrun : forall k t s th g' th', fthr_at s t th -> flrun t k (glob s) th = Some (g', th') ->
  frun_n t k s = Some (St g' (upd t th' (thr s))).
Proof. intros. eapply lrun_run_n; eauto. Qed.

(* the owner of a process's mutex gives it up within three of its own steps *)
Lemma fowner_releases_local : forall t g th, fowns_mutex (f_pc th) = true -> (f_proc th < List.length (procs g))%nat ->
  exists k g' th', (k <= 3)%nat /\ flrun t k g th = Some (g', th') /\ p_mutex (proc_of g' (f_proc th)) = None
                   /\ f_proc th' = f_proc th.
Proof.
  intros t g th Ho Hp. destruct (f_pc th) eqn:Epc; try discriminate.
  - (* F_Check *) destruct (guard_fails (f_mode th) (proc_of g (f_proc th))) eqn:Eg.
    + exists 2%nat. do 2 eexists. split; [lia|]. unfold flrun. simpl. unfold ftstep at 1. rewrite Epc, Eg.
      unfold ftstep. simpl. split; [reflexivity|]. rewrite proc_of_set_eq by auto. split; reflexivity.
    + exists 3%nat. do 2 eexists. split; [lia|]. unfold flrun. simpl. unfold ftstep at 1. rewrite Epc, Eg.
      unfold ftstep. simpl. split; [reflexivity|]. rewrite proc_of_set_eq by (rewrite procs_set_length; auto).
      split; reflexivity.
  - exists 2%nat. do 2 eexists. split; [lia|]. unfold flrun. simpl. unfold ftstep at 1. rewrite Epc.
    unfold ftstep. simpl. split; [reflexivity|]. rewrite proc_of_set_eq by (rewrite procs_set_length; auto).
    split; reflexivity.
  - exists 1%nat. do 2 eexists. split; [lia|]. unfold flrun. simpl. unfold ftstep at 1. rewrite Epc.
    split; [reflexivity|]. rewrite proc_of_set_eq by auto. split; reflexivity.
  - exists 2%nat. do 2 eexists. split; [lia|]. unfold flrun. simpl. unfold ftstep at 1. rewrite Epc.
    unfold ftstep. simpl. split; [reflexivity|]. rewrite proc_of_set_eq by auto. split; reflexivity.
  - exists 1%nat. do 2 eexists. split; [lia|]. unfold flrun. simpl. unfold ftstep at 1. rewrite Epc.
    split; [reflexivity|]. rewrite proc_of_set_eq by auto. split; reflexivity.
  - exists 2%nat. do 2 eexists. split; [lia|]. unfold flrun. simpl. unfold ftstep at 1. rewrite Epc.
    unfold ftstep. simpl. split; [reflexivity|]. rewrite proc_of_set_eq by (rewrite procs_set_length; auto).
    split; reflexivity.
  - exists 1%nat. do 2 eexists. split; [lia|]. unfold flrun. simpl. unfold ftstep at 1. rewrite Epc.
    split; [reflexivity|]. rewrite proc_of_set_eq by auto. split; reflexivity.
  - exists 1%nat. do 2 eexists. split; [lia|]. unfold flrun. simpl. unfold ftstep at 1. rewrite Epc.
    split; [reflexivity|]. rewrite proc_of_set_eq by auto. split; reflexivity.
Qed.

Lemma file_mutex_released : forall s p u, freachable s -> p_mutex (proc_of (glob s) p) = Some u ->
  exists k s', (k <= 3)%nat /\ frun_n u k s = Some s' /\ p_mutex (proc_of (glob s') p) = None.
Proof.
  intros s p u Hr Hm. apply FInv_reachable in Hr. destruct (fi_mx_some _ Hr _ _ Hm) as (th & Ht & Hp & Ho).
  pose proof (fi_proc _ Hr _ _ Ht) as Hlt.
  destruct (fowner_releases_local u (glob s) th Ho Hlt) as (k & g' & th' & Hk & Hl & Hg & _).
  exists k, (St g' (upd u th' (thr s))). split; auto. split; [eapply frun_n_of_lrun; eauto|]. simpl. congruence.
Qed.

(* a requester that the kernel can serve takes the lock in four own steps when its process's mutex is free *)
Lemma facquire_local : forall t g th, (f_proc th < List.length (procs g))%nat ->
  p_mutex (proc_of g (f_proc th)) = None ->
  (forall g1, procs g1 = procs g -> guard_fails (f_mode th) (proc_of g1 (f_proc th)) = false) ->
  ((f_pc th = F_Flock /\ f_fail th = false /\ kcompat (f_mode th) g = true) \/ f_pc th = F_Lock1) ->
  exists k g', (k <= 4)%nat /\ flrun t k g th = Some (g', fset_pc th F_Unlock1).
Proof.
  intros t g th Hp Hm Hg Hc.
  assert (forall g0, procs g0 = procs g ->
            exists g', flrun t 3 g0 (fset_pc th F_Lock1) = Some (g', fset_pc th F_Unlock1)) as Hl1.
  { intros g0 E0. unfold flrun. simpl. unfold ftstep at 1. simpl.
    assert (proc_of g0 (f_proc th) = proc_of g (f_proc th)) as Epo by (unfold proc_of; rewrite E0; reflexivity).
    rewrite Epo, Hm. unfold ftstep at 1. simpl.
    rewrite proc_of_set_eq by (rewrite E0; auto).
    assert (guard_fails (f_mode th) (set_pmutex (proc_of g (f_proc th)) (Some t)) = false) as ->.
    { specialize (Hg g eq_refl). unfold guard_fails in *. simpl. exact Hg. }
    unfold ftstep. simpl. eexists. reflexivity. }
  destruct Hc as [(Hpc & Hfl & Hk)|Hpc].
  - destruct (Hl1 (kgrant (f_mode th) g)) as (g' & H); [apply procs_kgrant|].
    exists 4%nat, g'. split; [lia|]. unfold flrun in *. simpl. unfold ftstep at 1. rewrite Hpc, Hfl, Hk. exact H.
  - destruct (Hl1 g eq_refl) as (g' & H). exists 3%nat, g'. split; [lia|].
    assert (fset_pc th F_Lock1 = th) as E by (destruct th; simpl in *; subst; reflexivity).
    rewrite E in H. exact H.
Qed.

Lemma file_eventually : forall s t th, freachable s -> fthr_at s t th ->
  ((f_pc th = F_Flock /\ f_fail th = false /\ kcompat (f_mode th) (glob s) = true) \/ f_pc th = F_Lock1) ->
  p_mutex (proc_of (glob s) (f_proc th)) = None ->
  exists k s', (k <= 4)%nat /\ frun_n t k s = Some s' /\ fthr_at s' t (fset_pc th F_Unlock1).
Proof.
  intros s t th Hr Ht Hc Hm. pose proof (FInv_reachable _ Hr) as I. pose proof (fi_proc _ I _ _ Ht) as Hp.
  assert (forall g1, procs g1 = procs (glob s) -> guard_fails (f_mode th) (proc_of g1 (f_proc th)) = false) as Hg.
  { (* no holder excludes t: the bookkeeping of t's process agrees *)
    intros g1 E1. assert (proc_of g1 (f_proc th) = proc_of (glob s) (f_proc th)) as -> by (unfold proc_of; rewrite E1; reflexivity).
    pose proof (fi_readers _ I _ Hp) as HR. pose proof (fi_writer _ I _ Hp) as HW.
    pose proof (fi_ksh _ I) as KS. pose proof (fi_kex _ I) as KE. destruct (fi_kexcl _ I) as [X1 X2].
    set (p := f_proc th) in *.
    pose proof (count_le _ (fholds_in p W) (fheld W) (thr s) (fholds_in_fheld p W)) as LW.
    pose proof (count_le _ (fholds_in p R) (fheld R) (thr s) (fholds_in_fheld p R)) as LR.
    assert (forall m, fholds_in p m th = false) as Hnh.
    { intros; unfold fholds_in, fholds. destruct Hc as [[E _]|E]; rewrite E; simpl; apply andb_false_r. }
    destruct Hc as [(Hpc & _ & Hk)|Hpc].
    - unfold kcompat in Hk. unfold guard_fails. destruct (f_mode th).
      + apply Nat.eqb_eq in Hk. destruct (p_writer (proc_of (glob s) p)); auto. lia.
      + apply andb_true_iff in Hk. destruct Hk as [K1 K2]. apply Nat.eqb_eq in K1. apply Nat.eqb_eq in K2.
        destruct (p_writer (proc_of (glob s) p)); [lia|]. simpl.
        assert (p_readers (proc_of (glob s) p) = 0) as -> by lia. reflexivity.
    - unfold guard_fails. destruct (f_mode th) eqn:Em.
      + assert (fheld R th = true) as Hh by (unfold fheld; rewrite Hpc, Em; reflexivity).
        pose proof (count_nth _ _ _ _ _ Ht Hh). destruct (p_writer (proc_of (glob s) p)); auto. lia.
      + assert (fheld W th = true) as Hh by (unfold fheld; rewrite Hpc, Em; reflexivity).
        pose proof (count_lt _ (fholds_in p W) (fheld W) _ _ _ (fholds_in_fheld p W) Ht (Hnh W) Hh).
        destruct (p_writer (proc_of (glob s) p)); [lia|]. simpl.
        assert (p_readers (proc_of (glob s) p) = 0) as -> by lia. reflexivity. }
  destruct (facquire_local t (glob s) th Hp Hm Hg Hc) as (k & g' & Hk & Hl).
  exists k, (St g' (upd t (fset_pc th F_Unlock1) (thr s))). split; auto. split.
  - eapply frun_n_of_lrun; eauto.
  - unfold fthr_at. simpl. eapply nth_upd_eq; eauto.
Qed.

(* a holder leaves (bookkeeping undone, descriptor closed) by its own steps alone *)
Lemma fholder_leaves_local : forall q t g th, f_pc th = F_InCS -> f_q th = q ->
  (f_proc th < List.length (procs g))%nat -> p_mutex (proc_of g (f_proc th)) = None ->
  exists k g' th', (k <= 3 * q + 4)%nat /\ flrun t k g th = Some (g', th') /\ flock_pc (f_pc th') = false.
Proof.
  induction q as [|q IH]; intros t g th Hpc Hq Hp Hm.
  - exists 4%nat. do 2 eexists. split; [lia|]. unfold flrun. simpl. unfold ftstep at 1. cbv zeta. rewrite Hpc, Hm, Hq.
    unfold ftstep. simpl. split; [reflexivity|]. unfold fnext_cycle. simpl. destruct (f_todo th); reflexivity.
  - set (ps := proc_of g (f_proc th)).
    set (g3 := set_proc (set_proc g (f_proc th) (set_pmutex ps (Some t))) (f_proc th)
                        (set_pmutex (set_pmutex ps (Some t)) None)).
    destruct (IH t g3 (FTh F_InCS (f_proc th) (f_mode th) q (f_fail th) (f_todo th) (flocked_val (set_pmutex ps (Some t)))))
      as (k & g' & th' & Hk & Hl & Hf); auto.
    { unfold g3. rewrite !procs_set_length. exact Hp. }
    { unfold g3. simpl. rewrite proc_of_set_eq by (rewrite procs_set_length; auto). reflexivity. }
    exists (3 + k)%nat, g', th'. split; [lia|]. split; auto. unfold flrun in *.
    erewrite lrun_add; [exact Hl|]. simpl. unfold ftstep at 1. cbv zeta. rewrite Hpc, Hm, Hq. fold ps.
    unfold ftstep at 1. cbv zeta. cbn [f_pc fset_pc f_proc f_mode f_q f_todo f_seen]. rewrite proc_of_set_eq by auto.
    unfold ftstep. cbv zeta. cbn [f_pc fset_pc f_proc f_mode f_q f_todo f_seen].
    rewrite proc_of_set_eq by (rewrite ?procs_set_length; auto). rewrite Hq. reflexivity.
Qed.

Lemma file_holder_leaves : forall s t th, freachable s -> fthr_at s t th -> f_pc th = F_InCS ->
  p_mutex (proc_of (glob s) (f_proc th)) = None ->
  exists k s' th', (k <= 3 * f_q th + 4)%nat /\ frun_n t k s = Some s' /\ fthr_at s' t th' /\ flock_pc (f_pc th') = false.
Proof.
  intros s t th Hr Ht Hpc Hm. pose proof (FInv_reachable _ Hr) as I. pose proof (fi_proc _ I _ _ Ht) as Hp.
  destruct (fholder_leaves_local (f_q th) t (glob s) th Hpc eq_refl Hp Hm) as (k & g' & th' & Hk & Hl & Hf).
  exists k, (St g' (upd t th' (thr s))), th'. split; auto. split; [eapply frun_n_of_lrun; eauto|].
  split; auto. unfold fthr_at. simpl. eapply nth_upd_eq; eauto.
Qed.
