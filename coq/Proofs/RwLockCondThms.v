(* C11 -- theorems about the condition-variable lock, derived from the inductive invariant. *)
From Coq Require Import List Arith Bool ZArith Lia.
Import ListNotations.
Require Import RV.Model.C11Base RV.Proofs.C11BaseLemmas RV.Model.RwLockCond RV.Proofs.RwLockCondInv.
Open Scope Z_scope.

Lemma run_reachable : forall progs sched s, run sched (init progs) = Some s -> reachable s.
Proof. intros. exists progs. eapply run_reach; eauto. Qed.

Lemma in_cs_holds : forall m th, in_cs m th = true -> holds m th = true.
Proof. unfold in_cs, holds. intros m th H. destruct (t_pc th); simpl in *; auto; discriminate. Qed.

(* ------------------------------------------------------------------ mutual exclusion *)
Lemma cond_mutex_holding : forall s, reachable s ->
  (writers_holding s <= 1)%nat /\ (writers_holding s = 1%nat -> readers_holding s = 0%nat).
Proof.
  intros s Hr. apply Inv_reachable in Hr. unfold writers_holding, readers_holding.
  pose proof (inv_writer _ Hr) as HW. pose proof (inv_excl _ Hr) as HX.
  destruct (writer (glob s)); split; intros; try lia; auto.
Qed.

Lemma cond_mutex : forall s, reachable s ->
  (writers_in_cs s <= 1)%nat /\ (writers_in_cs s = 1%nat -> readers_in_cs s = 0%nat).
Proof.
  intros s Hr. destruct (cond_mutex_holding s Hr) as [H1 H2].
  unfold writers_in_cs, readers_in_cs, writers_holding, readers_holding in *.
  pose proof (count_le _ (in_cs W) (holds W) (thr s) (in_cs_holds W)).
  pose proof (count_le _ (in_cs R) (holds R) (thr s) (in_cs_holds R)).
  split; [lia|]. intros. assert (count (holds W) (thr s) = 1%nat) as E by lia. specialize (H2 E). lia.
Qed.

(* two threads inside the `with` body: both readers *)
Lemma cond_mutex_pair : forall s t u th thu, reachable s -> t <> u -> thr_at s t th -> thr_at s u thu ->
  holds_pc (t_pc th) = true -> holds_pc (t_pc thu) = true -> t_mode th = R /\ t_mode thu = R.
Proof.
  intros s t u th thu Hr Hne Ht Hu H1 H2. apply Inv_reachable in Hr.
  pose proof (inv_writer _ Hr) as HW. pose proof (inv_excl _ Hr) as HX.
  assert (forall m x, holds_pc (t_pc x) = true -> t_mode x = m -> holds m x = true) as Hh.
  { intros m x Hx <-. unfold holds. rewrite Hx. destruct (t_mode x); reflexivity. }
  destruct (t_mode th) eqn:E1; destruct (t_mode thu) eqn:E2; auto; exfalso.
  - pose proof (count_nth _ _ _ _ _ Hu (Hh W _ H2 E2)). pose proof (count_nth _ _ _ _ _ Ht (Hh R _ H1 E1)).
    destruct (writer (glob s)); [specialize (HX eq_refl)|]; lia.
  - pose proof (count_nth _ _ _ _ _ Ht (Hh W _ H1 E1)). pose proof (count_nth _ _ _ _ _ Hu (Hh R _ H2 E2)).
    destruct (writer (glob s)); [specialize (HX eq_refl)|]; lia.
  - pose proof (count_two _ _ _ _ _ _ _ Hne Ht Hu (Hh W _ H1 E1) (Hh W _ H2 E2)).
    destruct (writer (glob s)); lia.
Qed.

(* ------------------------------------------------------------------ bookkeeping *)
Lemma cond_bookkeeping : forall s, reachable s ->
  readers (glob s) = Z.of_nat (readers_holding s) /\
  (writer (glob s) = true <-> writers_holding s = 1%nat) /\
  (writer (glob s) = false <-> writers_holding s = 0%nat).
Proof.
  intros s Hr. apply Inv_reachable in Hr. unfold writers_holding, readers_holding.
  pose proof (inv_writer _ Hr) as HW. split; [apply (inv_readers _ Hr)|].
  destruct (writer (glob s)); split; split; intros; auto; try lia; try discriminate.
Qed.

(* what `locked` answers (evaluated under the mutex) is exactly who holds the lock *)
Lemma cond_locked_val : forall s, reachable s ->
  (locked_val (glob s) = LR <-> (readers_holding s > 0)%nat) /\
  (locked_val (glob s) = LW <-> writers_holding s = 1%nat) /\
  (locked_val (glob s) = LFree <-> (readers_holding s = 0 /\ writers_holding s = 0)%nat).
Proof.
  intros s Hr. destruct (cond_bookkeeping s Hr) as (H1 & H2 & H3). destruct (cond_mutex_holding s Hr) as [H4 H5].
  unfold locked_val. destruct (Z.ltb 0 (readers (glob s))) eqn:E.
  - apply Z.ltb_lt in E. repeat split; intros; try discriminate; try lia.
  - apply Z.ltb_ge in E. destruct (writer (glob s)) eqn:Ew.
    + assert (writers_holding s = 1%nat) by (apply H2; auto). repeat split; intros; try discriminate; auto; try lia.
    + assert (writers_holding s = 0%nat) by (apply H3; auto). repeat split; intros; try discriminate; auto; try lia.
Qed.

(* a thread inside its critical section that calls `locked` gets its own mode; the answer "w" means that the
   caller is the only holder (this is what Collection._acquire_cache_lock relies on) *)
Lemma cond_locked_in_cs : forall s t th, reachable s -> thr_at s t th -> t_pc th = Q_Read ->
  locked_val (glob s) = (match t_mode th with R => LR | W => LW end) /\
  (locked_val (glob s) = LW -> writers_holding s = 1%nat /\ readers_holding s = 0%nat).
Proof.
  intros s t th Hr Ht Hpc. destruct (cond_locked_val s Hr) as (L1 & L2 & L3).
  destruct (cond_mutex_holding s Hr) as [M1 M2]. destruct (cond_bookkeeping s Hr) as (B1 & B2 & B3).
  assert (holds (t_mode th) th = true) as Hh by (unfold holds; rewrite Hpc; destruct (t_mode th); reflexivity).
  split.
  - destruct (t_mode th) eqn:Em.
    + apply L1. unfold readers_holding. eapply count_nth; eauto.
    + pose proof (count_nth _ _ _ _ _ Ht Hh). apply L2. unfold writers_holding in *. lia.
  - intros HL. apply L2 in HL. auto.
Qed.

(* ------------------------------------------------------------------ no lost wake-up *)
Lemma cond_no_lost_wakeup : forall s t th, reachable s -> thr_at s t th -> waiting_unnotified s t ->
  pred (t_mode th) (glob s) = true -> notifying s.
Proof. intros s t th Hr Ht Hw Hp. apply Inv_reachable in Hr. eapply inv_nolost; eauto. Qed.

Lemma cond_no_lost_wakeup_free : forall s t th, reachable s -> thr_at s t th -> waiting_unnotified s t ->
  mutex (glob s) = None -> pred (t_mode th) (glob s) = false.
Proof.
  intros s t th Hr Ht Hw Hm. destruct (pred (t_mode th) (glob s)) eqn:E; auto.
  destruct (cond_no_lost_wakeup _ _ _ Hr Ht Hw E) as (u & ? & Hu & _). congruence.
Qed.

(* the waiters deque is exactly the set of threads blocked on their (still locked) waiter lock *)
Lemma cond_waiters_exact : forall s t, reachable s ->
  (waiting_unnotified s t <->
   exists th, thr_at s t th /\ (t_pc th = A_WRel \/ (t_pc th = A_Blocked /\ ~ In t (notified (glob s))))).
Proof.
  intros s t Hr. apply Inv_reachable in Hr. split.
  - intros Hin. destruct (inv_wait_in _ Hr _ Hin) as (th & H1 & H2 & H3). exists th. tauto.
  - intros (th & H1 & H2). eapply inv_wait_conv; eauto.
Qed.

(* ------------------------------------------------------------------ no deadlock *)
Lemma owner_enabled : forall s u th, thr_at s u th -> owns_mutex (t_pc th) = true -> enabled s u = true.
Proof.
  intros s u th Ht Ho. unfold enabled, C11Base.enabled, C11Base.step. unfold thr_at in Ht. rewrite Ht.
  unfold tstep. destruct (t_pc th); try discriminate; try reflexivity.
  destruct (waiters (glob s)); [reflexivity|]. destruct n; reflexivity.
Qed.

Lemma cond_no_deadlock : forall s, reachable s ->
  (exists t th, thr_at s t th /\ t_pc th <> Done) -> exists t, enabled s t = true.
Proof.
  intros s Hr (t & th & Ht & Hnd). apply Inv_reachable in Hr.
  destruct (mutex (glob s)) as [u|] eqn:Em.
  - destruct (inv_mx_some _ Hr _ Em) as (thu & Hu & Ho). exists u. eapply owner_enabled; eauto.
  - assert (forall x thx, thr_at s x thx -> owns_mutex (t_pc thx) = false) as Hno.
    { intros x thx Hx. destruct (owns_mutex (t_pc thx)) eqn:E; auto.
      pose proof (inv_mx_own _ Hr _ _ Hx E). congruence. }
    assert (forall x thx, thr_at s x thx -> (t_pc thx = A_Lock \/ t_pc thx = A_Reacq \/ t_pc thx = InCS) ->
                          enabled s x = true) as Hfree.
    { intros x thx Hx Hp. unfold enabled, C11Base.enabled, C11Base.step. unfold thr_at in Hx. rewrite Hx.
      unfold tstep. destruct Hp as [E|[E|E]]; rewrite E, Em; reflexivity. }
    pose proof (Hno _ _ Ht) as Hnt.
    destruct (t_pc th) eqn:Epc; try discriminate; try congruence;
      try (exists t; eapply Hfree; eauto; fail).
    (* t is blocked on its waiter lock *)
    destruct (memb t (notified (glob s))) eqn:Emem.
    + exists t. unfold enabled, C11Base.enabled, C11Base.step. unfold thr_at in Ht. rewrite Ht.
      unfold tstep. rewrite Epc, Emem. reflexivity.
    + assert (In t (waiters (glob s))) as Hin.
      { eapply inv_wait_conv; eauto. right. split; auto. intros Hx. apply memb_In in Hx. congruence. }
      destruct (pred (t_mode th) (glob s)) eqn:Ep.
      * destruct (inv_nolost _ Hr _ _ Hin Ht Ep) as (u & ? & Hu & _). congruence.
      * (* the predicate is false: somebody holds the lock, and that thread can move *)
        assert (exists x thx, thr_at s x thx /\ holds_pc (t_pc thx) = true) as (x & thx & Hx & Hh).
        { unfold pred in Ep. pose proof (inv_readers _ Hr) as HR. pose proof (inv_writer _ Hr) as HW.
          destruct (writer (glob s)).
          - destruct (count_pos _ (holds W) (thr s)) as (x & thx & Hx & Hh); [lia|].
            exists x, thx. split; auto. unfold holds in Hh. apply andb_true_iff in Hh. tauto.
          - simpl in Ep. destruct (t_mode th); [discriminate|]. apply Z.eqb_neq in Ep.
            destruct (count_pos _ (holds R) (thr s)) as (x & thx & Hx & Hh); [lia|].
            exists x, thx. split; auto. unfold holds in Hh. apply andb_true_iff in Hh. tauto. }
        pose proof (Hno _ _ Hx) as Hnx. exists x.
        destruct (t_pc thx) eqn:Ex; try discriminate. eapply Hfree; eauto.
Qed.

(* ------------------------------------------------------------------ progress *)
Definition lrun := C11Base.lrun tstep.

Lemma run_n_of_lrun : forall k t s th g' th', thr_at s t th -> lrun t k (glob s) th = Some (g', th') ->
  run_n t k s = Some (St g' (upd t th' (thr s))).
Proof. intros. eapply lrun_run_n; eauto. Qed.

(* notify_all terminates: the loop runs at most once per waiter *)
Lemma notify_loop : forall ws t n g th, t_pc th = R_Notify n -> waiters g = ws ->
  exists k g' th', (k <= List.length ws + 2)%nat /\ lrun t k g th = Some (g', th') /\ mutex g' = None.
Proof.
  induction ws as [|w ws IH]; intros t n g th Hpc Hw.
  - exists 2%nat. do 2 eexists. split; [simpl; lia|]. unfold lrun. simpl. unfold tstep at 1. rewrite Hpc, Hw.
    unfold tstep. simpl. split; reflexivity.
  - destruct n as [|n].
    + exists 2%nat. do 2 eexists. split; [simpl; lia|]. unfold lrun. simpl. unfold tstep at 1. rewrite Hpc, Hw.
      unfold tstep. simpl. split; reflexivity.
    + destruct (IH t n (Gl (mutex g) (readers g) (writer g) ws (w :: notified g)) (set_pc th (R_Notify n)))
        as (k & g' & th' & Hk & Hl & Hm); [reflexivity|reflexivity|].
      exists (S k), g', th'. split; [simpl; lia|]. split; auto.
      unfold lrun in *. simpl. unfold tstep at 1. rewrite Hpc, Hw. exact Hl.
Qed.

(* whoever owns the mutex gives it up after a bounded number of its own steps: nothing blocks inside *)
Lemma owner_releases_local : forall t g th, owns_mutex (t_pc th) = true ->
  exists k g' th', (k <= List.length (waiters g) + 4)%nat /\ lrun t k g th = Some (g', th') /\ mutex g' = None.
Proof.
  intros t g th Ho. destruct (t_pc th) eqn:Epc; try discriminate.
  - (* A_Test *) destruct (pred (t_mode th) g) eqn:Ep.
    + exists 3%nat. do 2 eexists. split; [lia|]. unfold lrun. simpl. unfold tstep at 1. rewrite Epc, Ep.
      unfold tstep. simpl. split; reflexivity.
    + exists 3%nat. do 2 eexists. split; [lia|]. unfold lrun. simpl. unfold tstep at 1. rewrite Epc, Ep.
      unfold tstep. simpl. split; reflexivity.
  - exists 2%nat. do 2 eexists. split; [lia|]. unfold lrun. simpl. unfold tstep at 1. rewrite Epc.
    unfold tstep. simpl. split; reflexivity.
  - exists 1%nat. do 2 eexists. split; [lia|]. unfold lrun. simpl. unfold tstep at 1. rewrite Epc. split; reflexivity.
  - exists 2%nat. do 2 eexists. split; [lia|]. unfold lrun. simpl. unfold tstep at 1. rewrite Epc.
    unfold tstep. simpl. split; reflexivity.
  - exists 1%nat. do 2 eexists. split; [lia|]. unfold lrun. simpl. unfold tstep at 1. rewrite Epc. split; reflexivity.
  - exists 2%nat. do 2 eexists. split; [lia|]. unfold lrun. simpl. unfold tstep at 1. rewrite Epc.
    unfold tstep. simpl. split; reflexivity.
  - exists 1%nat. do 2 eexists. split; [lia|]. unfold lrun. simpl. unfold tstep at 1. rewrite Epc. split; reflexivity.
  - (* R_Upd *)
    remember (Gl (mutex g) (match t_mode th with R => readers g - 1 | W => readers g end) false (waiters g) (notified g))
      as g1 eqn:Eg1.
    assert (waiters g1 = waiters g) as Ew1 by (rewrite Eg1; reflexivity).
    destruct (Z.eqb (readers g1) 0) eqn:Ez.
    + destruct (notify_loop (waiters g) t (List.length (waiters g1)) g1 (set_pc th (R_Notify (List.length (waiters g1)))))
        as (k & g' & th' & Hk & Hl & Hm); [reflexivity|exact Ew1|].
      exists (S (S k)), g', th'. split; [lia|]. split; auto. unfold lrun in *. simpl. unfold tstep at 1. rewrite Epc.
      rewrite <- Eg1. unfold tstep at 1. simpl. rewrite Ez. exact Hl.
    + exists 3%nat. do 2 eexists. split; [lia|]. unfold lrun. simpl. unfold tstep at 1. rewrite Epc. rewrite <- Eg1.
      unfold tstep at 1. simpl. rewrite Ez. unfold tstep. simpl. split; reflexivity.
  - (* R_Check *)
    destruct (Z.eqb (readers g) 0) eqn:Ez.
    + destruct (notify_loop (waiters g) t (List.length (waiters g)) g (set_pc th (R_Notify (List.length (waiters g)))))
        as (k & g' & th' & Hk & Hl & Hm); [reflexivity|reflexivity|].
      exists (S k), g', th'. split; [lia|]. split; auto. unfold lrun in *. simpl. unfold tstep at 1. rewrite Epc, Ez.
      exact Hl.
    + exists 2%nat. do 2 eexists. split; [lia|]. unfold lrun. simpl. unfold tstep at 1. rewrite Epc, Ez.
      unfold tstep. simpl. split; reflexivity.
  - destruct (notify_loop (waiters g) t n g th) as (k & g' & th' & Hk & Hl & Hm); auto.
    exists k, g', th'. split; [lia|]. auto.
  - exists 1%nat. do 2 eexists. split; [lia|]. unfold lrun. simpl. unfold tstep at 1. rewrite Epc. split; reflexivity.
Qed.

Lemma cond_mutex_released : forall s u, reachable s -> mutex (glob s) = Some u ->
  exists k s', (k <= List.length (waiters (glob s)) + 4)%nat /\ run_n u k s = Some s' /\ mutex (glob s') = None.
Proof.
  intros s u Hr Hm. apply Inv_reachable in Hr. destruct (inv_mx_some _ Hr _ Hm) as (th & Ht & Ho).
  destruct (owner_releases_local u (glob s) th Ho) as (k & g' & th' & Hk & Hl & Hg).
  exists k, (St g' (upd u th' (thr s))). split; auto. split; auto. eapply run_n_of_lrun; eauto.
Qed.

(* ---- a requester that no holder excludes takes the lock by its own steps alone, once the mutex is free *)
Definition not_excluded (s : state) (t : nat) (m : mode) : Prop :=
  forall u thu, thr_at s u thu -> u <> t -> excludes m thu = false.

Lemma not_excluded_pred : forall s t th, Inv s -> thr_at s t th -> requesting_pc (t_pc th) = true ->
  not_excluded s t (t_mode th) -> pred (t_mode th) (glob s) = true.
Proof.
  intros s t th I Ht Hq Hne. pose proof (inv_readers _ I) as HR. pose proof (inv_writer _ I) as HW.
  assert (forall m x thx, thr_at s x thx -> holds m thx = true -> x <> t) as Hx.
  { intros m x thx Hx Hh ->. unfold thr_at in *. rewrite Ht in Hx. inversion Hx; subst.
    unfold holds in Hh. destruct (t_pc thx); simpl in *; discriminate. }
  assert (writer (glob s) = false) as Hwf.
  { destruct (writer (glob s)) eqn:Ew; auto. exfalso.
    destruct (count_pos _ (holds W) (thr s)) as (x & thx & H1 & H2); [lia|].
    pose proof (Hne _ _ H1 (Hx _ _ _ H1 H2)) as He. unfold excludes, granted_pc, holds in *.
    apply andb_true_iff in H2. destruct H2 as [H2 H3]. rewrite H2 in He. simpl in He.
    destruct (t_mode thx); [discriminate|]. destruct (t_mode th); discriminate. }
  unfold pred. rewrite Hwf. simpl. destruct (t_mode th) eqn:Em; auto. apply Z.eqb_eq.
  destruct (count (holds R) (thr s)) eqn:Ec; [lia|]. exfalso.
  destruct (count_pos _ (holds R) (thr s)) as (x & thx & H1 & H2); [lia|].
  pose proof (Hne _ _ H1 (Hx _ _ _ H1 H2)) as He. unfold excludes, granted_pc, holds in *.
  apply andb_true_iff in H2. destruct H2 as [H2 H3]. rewrite H2 in He. simpl in He. discriminate.
Qed.

Lemma acquire_local : forall t g th, pred (t_mode th) g = true ->
  (((t_pc th = A_Lock \/ t_pc th = A_Reacq) /\ mutex g = None) \/ t_pc th = A_Test \/ t_pc th = A_Upd
   \/ (t_pc th = A_Blocked /\ memb t (notified g) = true /\ mutex g = None)) ->
  exists k g', (k <= 5)%nat /\ lrun t k g th = Some (g', set_pc th A_Unlock).
Proof.
  intros t g th Hp Hc.
  assert (forall g0, pred (t_mode th) g0 = true -> mutex g0 = None ->
            forall th0, (t_pc th0 = A_Lock \/ t_pc th0 = A_Reacq) -> set_pc th0 A_Unlock = set_pc th A_Unlock ->
            t_mode th0 = t_mode th ->
            exists g', lrun t 3 g0 th0 = Some (g', set_pc th A_Unlock)) as Hacq.
  { intros g0 Hp0 Hm0 th0 Hpc Hs Hmo. unfold lrun. simpl.
    assert (tstep t g0 th0 = Some (set_mutex g0 (Some t), set_pc th0 A_Test)) as ->.
    { unfold tstep. destruct Hpc as [-> | ->]; rewrite Hm0; reflexivity. }
    unfold tstep at 1. simpl. rewrite Hmo. rewrite pred_set_mutex, Hp0. unfold tstep. simpl.
    eexists. f_equal. f_equal. exact Hs. }
  destruct Hc as [[Hpc Hm]|[Hpc|[Hpc|(Hpc & Hn & Hm)]]].
  - destruct (Hacq g Hp Hm th Hpc eq_refl eq_refl) as (g' & H). exists 3%nat, g'. split; [lia|]. exact H.
  - exists 2%nat. eexists. split; [lia|]. unfold lrun. simpl. unfold tstep at 1. rewrite Hpc, Hp.
    unfold tstep. simpl. reflexivity.
  - exists 1%nat. eexists. split; [lia|]. unfold lrun. simpl. unfold tstep. rewrite Hpc. reflexivity.
  - set (g1 := Gl (mutex g) (readers g) (writer g) (waiters g) (remove_nat t (notified g))).
    destruct (Hacq g1 Hp Hm (set_pc th A_Reacq)) as (g' & H); auto.
    exists 4%nat, g'. split; [lia|]. unfold lrun in *. simpl. unfold tstep at 1. rewrite Hpc, Hn. exact H.
Qed.

Lemma cond_eventually : forall s t th, reachable s -> thr_at s t th -> requesting_pc (t_pc th) = true ->
  not_excluded s t (t_mode th) -> (mutex (glob s) = None \/ mutex (glob s) = Some t) ->
  exists k s', (k <= 5)%nat /\ run_n t k s = Some s' /\ thr_at s' t (set_pc th A_Unlock).
Proof.
  intros s t th Hr Ht Hq Hne Hm. apply Inv_reachable in Hr.
  pose proof (not_excluded_pred _ _ _ Hr Ht Hq Hne) as Hp.
  assert (mutex (glob s) = Some t -> owns_mutex (t_pc th) = true) as Hown.
  { intros E. destruct (inv_mx_some _ Hr _ E) as (th0 & H0 & Ho). unfold thr_at in *. congruence. }
  assert (owns_mutex (t_pc th) = true -> mutex (glob s) = Some t) as Hown'.
  { intros E. eapply inv_mx_own; eauto. }
  assert (exists k g', (k <= 5)%nat /\ lrun t k (glob s) th = Some (g', set_pc th A_Unlock)) as (k & g' & Hk & Hl).
  { apply acquire_local; auto.
    destruct (t_pc th) eqn:Epc; try discriminate; auto.
    - left. split; auto. destruct Hm as [Hm|Hm]; auto. specialize (Hown Hm). discriminate.
    - exfalso. pose proof (inv_winit _ Hr _ _ Ht Epc). congruence.
    - exfalso. assert (In t (waiters (glob s))) as Hin by (eapply inv_wait_conv; eauto).
      pose proof (inv_nolost _ Hr _ _ Hin Ht Hp) as N. specialize (Hown' eq_refl).
      destruct (notifying_owner _ _ _ N Ht Hown') as [[E _]|(? & E & _)]; rewrite Epc in E; discriminate.
    - right. right. right. split; auto.
      assert (mutex (glob s) = None) as Hmn.
      { destruct Hm as [Hm|Hm]; auto. specialize (Hown Hm). discriminate. }
      split; auto. destruct (memb t (notified (glob s))) eqn:Emem; auto. exfalso.
      assert (In t (waiters (glob s))) as Hin.
      { eapply inv_wait_conv; eauto. right. split; auto. intros Hx. apply memb_In in Hx. congruence. }
      destruct (inv_nolost _ Hr _ _ Hin Ht Hp) as (u & ? & Hu & _). congruence.
    - left. split; auto. destruct Hm as [Hm|Hm]; auto. specialize (Hown Hm). discriminate. }
  exists k, (St g' (upd t (set_pc th A_Unlock) (thr s))). split; auto. split.
  - eapply run_n_of_lrun; eauto.
  - unfold thr_at. simpl. eapply nth_upd_eq; eauto.
Qed.

(* ---- a holder leaves by its own steps alone (each `locked` query and the release take the mutex, which is
        free whenever only this thread runs) *)
Lemma holder_leaves_local : forall q t g th, t_pc th = InCS -> t_q th = q -> mutex g = None ->
  exists k g' th', (k <= 3 * q + 3)%nat /\ lrun t k g th = Some (g', th') /\ t_pc th' = R_Check.
Proof.
  induction q as [|q IH]; intros t g th Hpc Hq Hm.
  - exists 2%nat. do 2 eexists. split; [lia|]. unfold lrun. simpl. unfold tstep at 1. rewrite Hpc, Hm, Hq.
    unfold tstep. simpl. split; reflexivity.
  - destruct g as [mx rd wr ws nt]. simpl in Hm. subst mx.
    set (g := Gl None rd wr ws nt) in *.
    destruct (IH t g (Th InCS (t_mode th) q (t_todo th) (locked_val (set_mutex g (Some t))))) as (k & g' & th' & Hk & Hl & Hp);
      auto.
    exists (3 + k)%nat, g', th'. split; [lia|]. split; auto. unfold lrun in *.
    erewrite lrun_add; [exact Hl|]. simpl. unfold tstep at 1. rewrite Hpc, Hq. simpl.
    unfold tstep. simpl. rewrite Hq. reflexivity.
Qed.

Lemma cond_holder_leaves : forall s t th, reachable s -> thr_at s t th -> t_pc th = InCS -> mutex (glob s) = None ->
  exists k s' th', (k <= 3 * t_q th + 3)%nat /\ run_n t k s = Some s' /\ thr_at s' t th' /\ holds_pc (t_pc th') = false.
Proof.
  intros s t th Hr Ht Hpc Hm.
  destruct (holder_leaves_local (t_q th) t (glob s) th Hpc eq_refl Hm) as (k & g' & th' & Hk & Hl & Hp).
  exists k, (St g' (upd t th' (thr s))), th'. split; auto. split; [eapply run_n_of_lrun; eauto|].
  split; [unfold thr_at; simpl; eapply nth_upd_eq; eauto|]. rewrite Hp. reflexivity.
Qed.
