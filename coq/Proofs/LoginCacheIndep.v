(* C17 -- independence: what a login attempt under login m returns (and what it leaves in the cache
   about m) does not depend on cache entries stored under other logins, nor on attempts made under
   other logins anywhere in the history (clock monotone). *)
From Coq Require Import List ZArith NArith Bool Lia.
Import ListNotations.
Require Import RV.Lib.PyStr RV.Proofs.PyStrLemmas RV.Model.LoginCache RV.Proofs.LoginCacheDict
               RV.Proofs.LoginCacheSweep RV.Proofs.LoginCacheSound.
Open Scope Z_scope.

Definition key_is (m : pystr) (k : dval) : bool :=
  match k with DKey kl _ _ => eqs kl m | _ => false end.

(* the entries of login m *)
Definition fs (m : pystr) : pystr * sentry -> bool := fkey (fun k => eqs k m).
Definition ff (m : pystr) : dval * fentry -> bool := fkey (key_is m).
Definition restrict (m : pystr) (c : cache) : cache :=
  mkCache (filter (fs m) (succ c)) (filter (ff m) (failed c)).

(* whose entry a failed-cache key is can be read off the key -- because the login is its prefix (the digest
   alone would not tell: cache_digest_not_injective); this is what the restriction to one login rests on *)
Lemma key_is_failed_key : forall m s l p, key_is m (failed_key s l p) = eqs l m.
Proof. reflexivity. Qed.

Ltac beta_refl := cbv beta; unfold failed_key; cbn [key_is]; rewrite ?eqs_refl.

Lemma backend_part_restrict : forall cfg bk now sd fd l pw dg res fc,
  let kf := failed_key (c_salt cfg) l pw in
  let r := backend_part cfg bk now sd fd l pw kf dg res fc in
  let r' := backend_part cfg bk now (filter (fs l) sd) (filter (ff l) fd) l pw kf dg res fc in
  r_out r = r_out r' /\ r_called r = r_called r' /\ restrict l (r_cache r) = r_cache r'.
Proof.
  intros cfg bk now sd fd l pw dg res fc kf r r'. subst r r' kf. unfold backend_part, failed_key.
  destruct (nonempty res); [cbn; auto|].
  destruct (nonempty (bk l pw)); cbn [r_out r_called r_cache];
    (split; [reflexivity|split; [reflexivity|]]); unfold restrict; cbn [succ failed]; f_equal.
  - unfold fs. rewrite (filter_key_dset eqs eqs_eq). beta_refl. reflexivity.
  - unfold ff. rewrite (dget_filter_key dval_eqb dval_eqb_eq). beta_refl.
    destruct (dget dval_eqb fd (DKey l (c_salt cfg) (l ++ pw))); [|reflexivity].
    rewrite (filter_key_ddel dval_eqb dval_eqb_eq). beta_refl. reflexivity.
  - unfold ff. rewrite (filter_key_dset dval_eqb dval_eqb_eq). beta_refl. reflexivity.
Qed.

Lemma after_sweep_restrict : forall cfg bk now sd fd l D pw,
  let r := after_sweep Vfix cfg bk now sd fd l D pw in
  let r' := after_sweep Vfix cfg bk now (filter (fs l) sd) (filter (ff l) fd) l D pw in
  r_out r = r_out r' /\ r_called r = r_called r' /\ restrict l (r_cache r) = r_cache r'.
Proof.
  intros cfg bk now sd fd l D pw r r'. subst r r'. unfold after_sweep. cbn [fix2 fix3 Vfix]. unfold failed_key.
  unfold ff, fs. rewrite !(dget_filter_key dval_eqb dval_eqb_eq). rewrite !(dget_filter_key eqs eqs_eq). beta_refl.
  fold (ff l). fold (fs l).
  destruct (dget dval_eqb fd (DKey l (c_salt cfg) (l ++ pw))) as [x|] eqn:Ef.
  - cbn [r_out r_called r_cache]. auto.
  - destruct (dget eqs sd l) as [[[dc tc] uc]|] eqn:Es.
    + destruct (dval_eqb (cache_digest l pw tc) dc).
      * destruct (age_s now tc >? c_exp_s cfg).
        -- assert (E : filter (fs l) (ddel eqs sd l) = ddel eqs (filter (fs l) sd) l).
           { unfold fs. rewrite (filter_key_ddel eqs eqs_eq). cbv beta. rewrite eqs_refl. reflexivity. }
           rewrite <- E. apply backend_part_restrict.
        -- apply backend_part_restrict.
      * apply backend_part_restrict.
    + apply backend_part_restrict.
Qed.

(* frame: an attempt under another login leaves m's entries alone *)
Lemma backend_part_frame : forall cfg bk now sd fd l pw dg res fc m,
  eqs l m = false ->
  restrict m (r_cache (backend_part cfg bk now sd fd l pw (failed_key (c_salt cfg) l pw) dg res fc))
  = restrict m (mkCache sd fd).
Proof.
  intros cfg bk now sd fd l pw dg res fc m Hne. unfold backend_part, failed_key.
  destruct (nonempty res); [reflexivity|].
  destruct (nonempty (bk l pw)); cbn [r_cache]; unfold restrict; cbn [succ failed]; f_equal.
  - unfold fs. rewrite (filter_key_dset eqs eqs_eq). cbv beta. rewrite Hne. reflexivity.
  - destruct (dget dval_eqb fd (DKey l (c_salt cfg) (l ++ pw))); [|reflexivity].
    unfold ff. rewrite (filter_key_ddel dval_eqb dval_eqb_eq). unfold failed_key. cbn [key_is]. rewrite Hne. reflexivity.
  - unfold ff. rewrite (filter_key_dset dval_eqb dval_eqb_eq). unfold failed_key. cbn [key_is]. rewrite Hne. reflexivity.
Qed.

Lemma after_sweep_frame : forall cfg bk now sd fd l D pw m,
  eqs l m = false ->
  restrict m (r_cache (after_sweep Vfix cfg bk now sd fd l D pw)) = restrict m (mkCache sd fd).
Proof.
  intros cfg bk now sd fd l D pw m Hne. unfold after_sweep. cbn [fix2 fix3 Vfix]. unfold failed_key.
  destruct (dget dval_eqb fd (DKey l (c_salt cfg) (l ++ pw))) as [x|]; [reflexivity|].
  destruct (dget eqs sd l) as [[[dc tc] uc]|].
  - destruct (dval_eqb (cache_digest l pw tc) dc).
    + destruct (age_s now tc >? c_exp_s cfg).
      * rewrite backend_part_frame by exact Hne. unfold restrict. cbn [succ failed]. f_equal.
        unfold fs. rewrite (filter_key_ddel eqs eqs_eq). cbv beta. rewrite Hne. reflexivity.
      * apply backend_part_frame. exact Hne.
    + apply backend_part_frame. exact Hne.
  - apply backend_part_frame. exact Hne.
Qed.

Lemma after_sweep_nodup_failed : forall cfg bk now sd fd l D pw,
  NoDup (map fst fd) -> NoDup (map fst (failed (r_cache (after_sweep Vfix cfg bk now sd fd l D pw)))).
Proof.
  intros cfg bk now sd fd l D pw ND. unfold after_sweep, backend_part. cbn [fix2 fix3 Vfix].
  repeat match goal with
         | |- context [match ?x with _ => _ end] => destruct x
         end; cbn [r_cache failed]; try assumption;
    try (apply (dset_NoDup dval_eqb dval_eqb_eq); assumption); try (apply (ddel_NoDup dval_eqb); assumption).
Qed.

(* ---------------------------------------------------------------- login level *)
Definition sw (cfg : config) (now : Z) (c : cache) : cache :=
  mkCache (succ c) (sweepf (c_exp_f cfg) now (failed c)).
Definition norm (cfg : config) (m : pystr) (now : Z) (c : cache) : cache := sw cfg now (restrict m c).

Lemma sw_restrict : forall cfg m now c, sw cfg now (restrict m c) = restrict m (sw cfg now c).
Proof. intros. unfold sw, restrict, sweepf. cbn [succ failed]. f_equal. apply filter_comm. Qed.

Lemma restrict_idem : forall m c, restrict m (restrict m c) = restrict m c.
Proof. intros. unfold restrict. cbn [succ failed]. f_equal; apply filter_filter_same. Qed.

Lemma login_fix_nodup : forall cfg bk now c l0 pw,
  NoDup (map fst (failed c)) -> NoDup (map fst (failed (r_cache (login_body Vfix cfg bk now c l0 pw)))).
Proof.
  intros cfg bk now c l0 pw ND. rewrite login_fix_unfold by exact ND.
  destruct (negb (c_cache cfg)); [exact ND|].
  apply after_sweep_nodup_failed. apply sweepf_NoDup. exact ND.
Qed.

(* State-level independence: run the attempt on the whole cache or on the entries of its own login only *)
Theorem login_restrict : forall cfg bk now c l0 pw,
  NoDup (map fst (failed c)) ->
  let m := map_login cfg l0 in
  let r := login_body Vfix cfg bk now c l0 pw in
  let r' := login_body Vfix cfg bk now (restrict m c) l0 pw in
  r_out r = r_out r' /\ r_called r = r_called r' /\ restrict m (r_cache r) = r_cache r'.
Proof.
  intros cfg bk now c l0 pw ND m r r'. subst r r'.
  rewrite !login_fix_unfold; [|apply filter_NoDup; exact ND|exact ND].
  destruct (negb (c_cache cfg)); [cbn; auto|].
  fold m. cbn [succ failed restrict].
  replace (sweepf (c_exp_f cfg) now (filter (ff m) (failed c)))
    with (filter (ff m) (sweepf (c_exp_f cfg) now (failed c))) by apply filter_comm.
  apply after_sweep_restrict.
Qed.

(* an attempt sees the failed cache only through the sweep *)
Lemma login_presweep : forall cfg bk now c l0 pw,
  NoDup (map fst (failed c)) -> c_cache cfg = true ->
  login_body Vfix cfg bk now (sw cfg now c) l0 pw = login_body Vfix cfg bk now c l0 pw.
Proof.
  intros cfg bk now c l0 pw ND Hc.
  rewrite !login_fix_unfold; [|exact ND|apply sweepf_NoDup; exact ND].
  rewrite Hc. cbn [negb sw succ failed]. rewrite sweepf_idem. reflexivity.
Qed.

Lemma norm_of_restrict : forall cfg m now c, norm cfg m now (restrict m c) = norm cfg m now c.
Proof. intros. unfold norm. rewrite restrict_idem. reflexivity. Qed.

Lemma norm_sw : forall cfg m now c, norm cfg m now (sw cfg now c) = norm cfg m now c.
Proof.
  intros. unfold norm. rewrite !sw_restrict. unfold sw at 1. unfold sw at 1.
  cbn [succ failed restrict sw]. unfold restrict. cbn [succ failed]. rewrite sweepf_idem. reflexivity.
Qed.

(* an attempt under login m: outcome and m's view afterwards are functions of m's view before *)
Lemma login_view : forall cfg bk now c l0 pw,
  NoDup (map fst (failed c)) -> c_cache cfg = true ->
  let m := map_login cfg l0 in
  let r := login_body Vfix cfg bk now c l0 pw in
  let r' := login_body Vfix cfg bk now (norm cfg m now c) l0 pw in
  r_out r = r_out r' /\ r_called r = r_called r' /\ norm cfg m now (r_cache r) = norm cfg m now (r_cache r').
Proof.
  intros cfg bk now c l0 pw ND Hc m r r'. subst r r'.
  assert (ND' : NoDup (map fst (failed (restrict m c)))) by (apply filter_NoDup; exact ND).
  assert (E : login_body Vfix cfg bk now (norm cfg m now c) l0 pw = login_body Vfix cfg bk now (restrict m c) l0 pw)
    by (unfold norm; apply login_presweep; assumption).
  rewrite E.
  destruct (login_restrict cfg bk now c l0 pw ND) as (Ho & Hcl & Hr). fold m in Ho, Hcl, Hr.
  split; [exact Ho|]. split; [exact Hcl|].
  rewrite <- Hr. rewrite norm_of_restrict. reflexivity.
Qed.

Lemma login_frame : forall cfg bk now c l0 pw m,
  NoDup (map fst (failed c)) ->
  eqs (map_login cfg l0) m = false ->
  norm cfg m now (r_cache (login_body Vfix cfg bk now c l0 pw)) = norm cfg m now c.
Proof.
  intros cfg bk now c l0 pw m ND Hne. rewrite login_fix_unfold by exact ND.
  destruct (negb (c_cache cfg)); [reflexivity|].
  unfold norm at 1. rewrite after_sweep_frame by exact Hne.
  fold (sw cfg now c). fold (norm cfg m now (sw cfg now c)). apply norm_sw.
Qed.

Lemma norm_later : forall cfg m now now' c, now <= now' ->
  norm cfg m now' c = sw cfg now' (norm cfg m now c).
Proof.
  intros cfg m now now' c Hle. unfold norm, sw. cbn [succ failed].
  rewrite sweepf_later by exact Hle. reflexivity.
Qed.

(* ---------------------------------------------------------------- histories *)
Section Hist.
  Context {B : Type} (backend : B -> pystr -> pystr -> pystr) (cfg : config) (m : pystr).
  Notation runF := (run backend Vfix cfg).

  Definition relevant (e : @event B) : bool :=
    match e with Attempt l _ => eqs (map_login cfg l) m | _ => true end.
  Definition proj (h : list (@event B)) : list (@event B) := filter relevant h.
  Definition mine (o : list obs) : list obs := filter (fun x => eqs (o_login x) m) o.

  Fixpoint monotone (h : list (@event B)) : bool :=
    match h with
    | [] => true
    | Tick dt :: r => (0 <=? dt) && monotone r
    | _ :: r => monotone r
    end.

  (* two states agree on what login m can see *)
  Definition sim (s1 s2 : @state B) : Prop :=
    s_now s1 = s_now s2 /\ s_bk s1 = s_bk s2
    /\ NoDup (map fst (failed (s_cache s1))) /\ NoDup (map fst (failed (s_cache s2)))
    /\ norm cfg m (s_now s1) (s_cache s1) = norm cfg m (s_now s1) (s_cache s2).

  Lemma sim_attempt_mine : forall s1 s2 l p, sim s1 s2 -> eqs (map_login cfg l) m = true ->
    let r1 := login_body Vfix cfg (backend (s_bk s1)) (s_now s1) (s_cache s1) l p in
    let r2 := login_body Vfix cfg (backend (s_bk s2)) (s_now s2) (s_cache s2) l p in
    r_out r1 = r_out r2 /\ r_called r1 = r_called r2
    /\ sim (mkState (r_cache r1) (s_now s1) (s_bk s1)) (mkState (r_cache r2) (s_now s2) (s_bk s2)).
  Proof.
    intros s1 s2 l p (Hn & Hb & N1 & N2 & Hv) Hm r1 r2. subst r1 r2.
    apply eqs_eq in Hm. rewrite <- Hn, <- Hb.
    destruct (c_cache cfg) eqn:Hc.
    - destruct (login_view cfg (backend (s_bk s1)) (s_now s1) (s_cache s1) l p N1 Hc) as (O1 & C1 & V1).
      destruct (login_view cfg (backend (s_bk s1)) (s_now s1) (s_cache s2) l p N2 Hc) as (O2 & C2 & V2).
      rewrite Hm in O1, C1, V1, O2, C2, V2. rewrite <- Hv in O2, C2, V2.
      split; [congruence|]. split; [congruence|].
      unfold sim. cbn [s_now s_bk s_cache].
      split; [reflexivity|]. split; [reflexivity|].
      split; [apply login_fix_nodup; exact N1|]. split; [apply login_fix_nodup; exact N2|].
      congruence.
    - unfold login_body. rewrite Hc. cbn [negb r_out r_called r_cache].
      split; [reflexivity|]. split; [reflexivity|].
      unfold sim. cbn [s_now s_bk s_cache]. auto.
  Qed.

  Lemma sim_attempt_other : forall s1 s2 l p, sim s1 s2 -> eqs (map_login cfg l) m = false ->
    sim (mkState (r_cache (login_body Vfix cfg (backend (s_bk s1)) (s_now s1) (s_cache s1) l p)) (s_now s1) (s_bk s1)) s2.
  Proof.
    intros s1 s2 l p (Hn & Hb & N1 & N2 & Hv) Hm.
    unfold sim. cbn [s_now s_bk s_cache].
    split; [exact Hn|]. split; [exact Hb|]. split; [apply login_fix_nodup; exact N1|]. split; [exact N2|].
    rewrite login_frame by assumption. exact Hv.
  Qed.

  Lemma sim_tick : forall s1 s2 dt, sim s1 s2 -> 0 <= dt ->
    sim (mkState (s_cache s1) (s_now s1 + dt) (s_bk s1)) (mkState (s_cache s2) (s_now s2 + dt) (s_bk s2)).
  Proof.
    intros s1 s2 dt (Hn & Hb & N1 & N2 & Hv) Hdt.
    unfold sim. cbn [s_now s_bk s_cache].
    split; [congruence|]. split; [exact Hb|]. split; [exact N1|]. split; [exact N2|].
    rewrite !(norm_later cfg m (s_now s1) (s_now s1 + dt)) by lia. rewrite Hv. reflexivity.
  Qed.

  Lemma sim_change : forall s1 s2 b, sim s1 s2 ->
    sim (mkState (s_cache s1) (s_now s1) b) (mkState (s_cache s2) (s_now s2) b).
  Proof. intros s1 s2 b (Hn & Hb & N1 & N2 & Hv). unfold sim. cbn [s_now s_bk s_cache]. auto. Qed.

  (* leaving out the attempts made under other logins does not change what m's attempts return *)
  Theorem indep_sim : forall h s1 s2, sim s1 s2 -> monotone h = true ->
    mine (snd (runF s1 h)) = snd (runF s2 (proj h)) /\ sim (fst (runF s1 h)) (fst (runF s2 (proj h))).
  Proof.
    induction h as [|e h IH]; intros s1 s2 Hs Hmono.
    - cbn. auto.
    - destruct e as [l p|dt|b]; cbn [monotone] in Hmono.
      + cbn [proj filter relevant]. destruct (eqs (map_login cfg l) m) eqn:Hm.
        * destruct (sim_attempt_mine s1 s2 l p Hs Hm) as (Ho & Hc & Hs').
          specialize (IH _ _ Hs' Hmono). fold (proj h). cbn [run step].
          destruct (runF _ h) as [s1' o1] eqn:E1. destruct (runF _ (proj h)) as [s2' o2] eqn:E2.
          cbn [fst snd] in *. destruct IH as [IHo IHs]. split; [|exact IHs].
          unfold mine. cbn [app filter o_login]. rewrite Hm. fold (mine o1). rewrite IHo, Ho, Hc. reflexivity.
        * pose proof (sim_attempt_other s1 s2 l p Hs Hm) as Hs'.
          specialize (IH _ _ Hs' Hmono). fold (proj h). cbn [run step].
          destruct (runF _ h) as [s1' o1] eqn:E1. cbn [fst snd] in *. destruct IH as [IHo IHs].
          split; [|exact IHs]. unfold mine. cbn [app filter o_login]. rewrite Hm. exact IHo.
      + apply andb_prop in Hmono as [Hdt Hmono]. apply Z.leb_le in Hdt.
        cbn [proj filter relevant]. fold (proj h). cbn [run step].
        specialize (IH _ _ (sim_tick s1 s2 dt Hs Hdt) Hmono).
        destruct (runF _ h) as [s1' o1] eqn:E1. destruct (runF _ (proj h)) as [s2' o2] eqn:E2.
        cbn [fst snd app] in *. exact IH.
      + cbn [proj filter relevant]. fold (proj h). cbn [run step].
        specialize (IH _ _ (sim_change s1 s2 b Hs) Hmono).
        destruct (runF _ h) as [s1' o1] eqn:E1. destruct (runF _ (proj h)) as [s2' o2] eqn:E2.
        cbn [fst snd app] in *. exact IH.
  Qed.

  Lemma sim_refl_init : forall t0 b0, sim (init t0 b0) (init t0 b0).
  Proof. intros. unfold sim, init. cbn. repeat split; constructor. Qed.

  Theorem independent_history : forall t0 b0 h, monotone h = true ->
    mine (snd (runF (init t0 b0) h)) = snd (runF (init t0 b0) (proj h)).
  Proof. intros t0 b0 h Hm. apply (indep_sim h _ _ (sim_refl_init t0 b0) Hm). Qed.

  (* two histories that differ only in what happens under other logins *)
  Corollary independent_two : forall t0 b0 h1 h2, monotone h1 = true -> monotone h2 = true ->
    proj h1 = proj h2 ->
    mine (snd (runF (init t0 b0) h1)) = mine (snd (runF (init t0 b0) h2)).
  Proof.
    intros t0 b0 h1 h2 M1 M2 E. rewrite !independent_history by assumption. rewrite E. reflexivity.
  Qed.
End Hist.
