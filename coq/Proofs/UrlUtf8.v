(* C18: the UTF-8 codec model: decode (errors='replace') after encode (errors='strict') is the identity *)
From Coq Require Import List NArith Bool Lia ZifyBool ZArith.
Import ListNotations.
Require Import RV.Lib.PyStr RV.Model.Url.
Open Scope N_scope.
Ltac Zify.zify_post_hook ::= Z.to_euclidean_division_equations.

Lemma ltb_f : forall a b, b <= a -> (a <? b) = false.
Proof. intros. apply N.ltb_ge. assumption. Qed.
Lemma ltb_t : forall a b, a < b -> (a <? b) = true.
Proof. intros. apply N.ltb_lt. assumption. Qed.

Lemma cont_spec : forall b, cont b = true <-> 128 <= b <= 191.
Proof. intros b. unfold cont. lia. Qed.

Lemma dec1 : forall c rest, c < 128 -> utf8_decode (c :: rest) = c :: utf8_decode rest.
Proof. intros c rest H. cbn [utf8_decode]. rewrite (ltb_t _ _ H). reflexivity. Qed.

Lemma dec2 : forall b1 b2 rest, 194 <= b1 < 224 -> cont b2 = true ->
  utf8_decode (b1 :: b2 :: rest) = ((b1 - 192) * 64 + (b2 - 128)) :: utf8_decode rest.
Proof.
  intros b1 b2 rest H1 H2. cbn [utf8_decode].
  rewrite (ltb_f b1 128) by lia. rewrite (ltb_f b1 194) by lia. rewrite (ltb_t b1 224) by lia.
  rewrite H2. reflexivity.
Qed.

Lemma dec3 : forall b1 b2 b3 rest, 224 <= b1 < 240 -> cont b2 = true -> cont b3 = true ->
  (b1 = 224 -> 160 <= b2) -> (b1 = 237 -> b2 < 160) ->
  utf8_decode (b1 :: b2 :: b3 :: rest) = ((b1 - 224) * 4096 + (b2 - 128) * 64 + (b3 - 128)) :: utf8_decode rest.
Proof.
  intros b1 b2 b3 rest H1 H2 H3 Ha Hb. cbn [utf8_decode].
  rewrite (ltb_f b1 128) by lia. rewrite (ltb_f b1 194) by lia. rewrite (ltb_f b1 224) by lia.
  rewrite (ltb_t b1 240) by lia. rewrite H2, H3. cbn [negb orb].
  assert (E : (if b2 <? 160 then b1 =? 224 else b1 =? 237) = false).
  { destruct (b2 <? 160) eqn:E2.
    - apply N.ltb_lt in E2. apply N.eqb_neq. intros ->. specialize (Ha eq_refl). lia.
    - apply N.ltb_ge in E2. apply N.eqb_neq. intros ->. specialize (Hb eq_refl). lia. }
  rewrite E. reflexivity.
Qed.

Lemma dec4 : forall b1 b2 b3 b4 rest, 240 <= b1 < 245 -> cont b2 = true -> cont b3 = true -> cont b4 = true ->
  (b1 = 240 -> 144 <= b2) -> (b1 = 244 -> b2 < 144) ->
  utf8_decode (b1 :: b2 :: b3 :: b4 :: rest)
  = ((b1 - 240) * 262144 + (b2 - 128) * 4096 + (b3 - 128) * 64 + (b4 - 128)) :: utf8_decode rest.
Proof.
  intros b1 b2 b3 b4 rest H1 H2 H3 H4 Ha Hb. cbn [utf8_decode].
  rewrite (ltb_f b1 128) by lia. rewrite (ltb_f b1 194) by lia. rewrite (ltb_f b1 224) by lia.
  rewrite (ltb_f b1 240) by lia. rewrite (ltb_t b1 245) by lia. rewrite H2, H3, H4. cbn [negb orb].
  assert (E : (if b2 <? 144 then b1 =? 240 else b1 =? 244) = false).
  { destruct (b2 <? 144) eqn:E2.
    - apply N.ltb_lt in E2. apply N.eqb_neq. intros ->. specialize (Ha eq_refl). lia.
    - apply N.ltb_ge in E2. apply N.eqb_neq. intros ->. specialize (Hb eq_refl). lia. }
  rewrite E. reflexivity.
Qed.

Lemma valid_cp_spec : forall c, valid_cp c = true <-> (c < 55296 \/ 57343 < c) /\ c <= 1114111.
Proof. intros c. unfold valid_cp, is_surrogate. lia. Qed.

(* one code point *)
Lemma utf8_decode_enc_cp : forall c rest, valid_cp c = true ->
  utf8_decode (utf8_enc_cp c ++ rest) = c :: utf8_decode rest.
Proof.
  intros c rest Hv. apply valid_cp_spec in Hv. unfold utf8_enc_cp.
  destruct (c <? 128) eqn:E1.
  { apply N.ltb_lt in E1. cbn [app]. apply dec1. exact E1. }
  apply N.ltb_ge in E1.
  destruct (c <? 2048) eqn:E2.
  { apply N.ltb_lt in E2. cbn [app]. rewrite dec2.
    - f_equal. lia.
    - lia.
    - apply cont_spec. lia. }
  apply N.ltb_ge in E2.
  destruct (c <? 65536) eqn:E3.
  { apply N.ltb_lt in E3. cbn [app]. rewrite dec3.
    - f_equal. lia.
    - lia.
    - apply cont_spec. lia.
    - apply cont_spec. lia.
    - intros H. lia.
    - intros H. lia. }
  apply N.ltb_ge in E3. cbn [app]. rewrite dec4.
  - f_equal. lia.
  - lia.
  - apply cont_spec. lia.
  - apply cont_spec. lia.
  - apply cont_spec. lia.
  - intros H. lia.
  - intros H. lia.
Qed.

Theorem utf8_roundtrip : forall s b, utf8_encode s = Some b -> utf8_decode b = s.
Proof.
  induction s as [|c s IH]; intros b H; cbn [utf8_encode] in H.
  - inversion H. reflexivity.
  - destruct (valid_cp c) eqn:Hv; [|discriminate].
    destruct (utf8_encode s) as [b'|] eqn:E; [|discriminate]. inversion H; subst.
    rewrite utf8_decode_enc_cp by exact Hv. f_equal. apply IH. reflexivity.
Qed.

Lemma utf8_encode_defined : forall s, forallb valid_cp s = true <-> utf8_encode s <> None.
Proof.
  induction s as [|c s IH]; cbn [forallb utf8_encode]; [split; [discriminate|reflexivity]|].
  destruct (valid_cp c); cbn [andb].
  - rewrite IH. destruct (utf8_encode s); split; congruence.
  - split; [discriminate|congruence].
Qed.

Lemma utf8_encode_valid : forall s b, utf8_encode s = Some b -> forallb valid_cp s = true.
Proof. intros s b H. apply utf8_encode_defined. congruence. Qed.

Lemma utf8_enc_cp_bytes : forall c, valid_cp c = true -> forallb is_byte (utf8_enc_cp c) = true.
Proof.
  intros c Hv. apply valid_cp_spec in Hv. unfold utf8_enc_cp, is_byte.
  destruct (c <? 128) eqn:E1; [cbn [forallb]; lia|].
  destruct (c <? 2048) eqn:E2; [cbn [forallb]; lia|].
  destruct (c <? 65536) eqn:E3; cbn [forallb]; lia.
Qed.

Lemma utf8_encode_bytes : forall s b, utf8_encode s = Some b -> forallb is_byte b = true.
Proof.
  induction s as [|c s IH]; intros b H; cbn [utf8_encode] in H.
  - inversion H. reflexivity.
  - destruct (valid_cp c) eqn:Hv; [|discriminate].
    destruct (utf8_encode s) as [b'|] eqn:E; [|discriminate]. inversion H; subst.
    rewrite forallb_app, (utf8_enc_cp_bytes c Hv), (IH b' eq_refl). reflexivity.
Qed.

Lemma utf8_encode_app : forall a b ea eb, utf8_encode a = Some ea -> utf8_encode b = Some eb ->
  utf8_encode (a ++ b) = Some (ea ++ eb).
Proof.
  induction a as [|c a IH]; intros b ea eb Ha Hb; cbn [utf8_encode app] in *.
  - inversion Ha. exact Hb.
  - destruct (valid_cp c); [|discriminate]. destruct (utf8_encode a) as [ea'|] eqn:E; [|discriminate].
    inversion Ha; subst. rewrite (IH b ea' eb eq_refl Hb), app_assoc. reflexivity.
Qed.

(* ASCII text is its own encoding, and decodes to itself *)
Lemma utf8_decode_ascii : forall s, all_ascii s = true -> utf8_decode s = s.
Proof.
  induction s as [|c s IH]; intros H; [reflexivity|]. unfold all_ascii in *. cbn [forallb] in H.
  apply andb_true_iff in H as [H1 H2]. apply N.ltb_lt in H1. rewrite dec1 by exact H1. f_equal. apply IH. exact H2.
Qed.

(* the first byte of an encoded code point: the code point itself when ASCII, else >= 192 *)
Lemma utf8_enc_cp_head : forall c, exists b0 bs, utf8_enc_cp c = b0 :: bs /\ (c < 128 -> b0 = c) /\ (128 <= c -> 192 <= b0).
Proof.
  intros c. unfold utf8_enc_cp.
  destruct (c <? 128) eqn:E1; [eexists; eexists; split; [reflexivity|split; lia]|].
  destruct (c <? 2048) eqn:E2; [eexists; eexists; split; [reflexivity|split; lia]|].
  destruct (c <? 65536) eqn:E3; eexists; eexists; (split; [reflexivity|split; lia]).
Qed.
