(* C12, part 5: create_collection with props (and n items): everything is built and synced inside a
   staging directory, made visible by one Rename / Exchange, then the parent directory is synced. *)
From Coq Require Import List NArith Bool Lia PeanoNat.
Import ListNotations.
Require Import RV.Lib.Prog RV.Model.Fs RV.Model.StorageOps RV.Proofs.ProgLemmas RV.Proofs.FsLemmas
  RV.Proofs.FsInv RV.Proofs.MonLemmas RV.Proofs.CacheCalm RV.Proofs.C12Mon RV.Proofs.C12Units RV.Proofs.C12Units2
  RV.Proofs.C12Units3.
Open Scope N_scope.

Section Create.
  Variable lay : layout.
  Variables (par : path) (x : name) (k : N).
  Hypothesis Hpar : coll_path par = true.
  Hypothesis Hx : is_safe x = true.

  Let p := par ++ [x].
  Let t0 := par ++ [Tmp k].
  Let tc := t0 ++ [n_collection].

  Lemma tc_nd : forall r, is_data (tc ++ r) = false.
  Proof. intro r. unfold tc, t0. rewrite <- !app_assoc. cbn [app]. apply is_data_tmp. Qed.
  Lemma tc_root : exists r, tc = Root :: r.
  Proof. unfold tc, t0. destruct par as [|y q]; [discriminate|]. destruct y; try discriminate. eexists. reflexivity. Qed.
  Lemma p_coll : coll_path p = true.
  Proof. apply coll_snoc; assumption. Qed.

  (* staging invariants: every dirty record is invisible; below the staging collection only records
     that will still be invisible after the rename -- and (GS) entries of tc awaiting its fsync *)
  Definition GS0 (e : dent) : Prop :=
    is_data (dpath e) = false /\ (under tc e = true -> e = DE tc \/ rel_data (strip tc (dpath e)) = false).
  Definition GS (e : dent) : Prop :=
    is_data (dpath e) = false /\
    (under tc e = true -> e = DE tc \/ rel_data (strip tc (dpath e)) = false \/ exists y, e = DE (tc ++ [y])).

  Lemma GS0_GS : forall e, GS0 e -> GS e.
  Proof. intros e [H1 H2]. split; [exact H1|]. intro Hu. destruct (H2 Hu); auto. Qed.

  Lemma GS0_below : forall r, rel_data r = false -> GS0 (DE (tc ++ r)) /\ GS0 (DW (tc ++ r)).
  Proof. intros r Hr. split; (split; [apply tc_nd | intros _; right; cbn [dpath]; rewrite strip_app; exact Hr]). Qed.

  Lemma GS0_cache : forall r, GS0 (DE (cache_dir lay CItem tc ++ r)) /\ GS0 (DW (cache_dir lay CItem tc ++ r)).
  Proof.
    intro r. unfold cache_dir. destruct (l_item lay).
    - destruct tc_root as [q Hq]. unfold GS0. rewrite Hq. cbn [app dpath].
      split; (split; [reflexivity | intro Hu; cbn in Hu; discriminate]).
    - rewrite <- app_assoc. apply GS0_below. cbn [app]. apply (rel_data_cache []).
  Qed.

  Lemma GS0_tmp : forall k' r, GS0 (DE (tc ++ Tmp k' :: r)) /\ GS0 (DW (tc ++ Tmp k' :: r)).
  Proof. intros. apply GS0_below. apply (rel_data_tmp []). Qed.

  (* Mkdir tc on a monitor with invisible records only *)
  Lemma mkdir_tc : forall m, IG (GX []) m -> IG GS0 (dstep (Mkdir tc) m).
  Proof.
    intros m Hm. cbn [dstep]. apply IG_add.
    - split; [rewrite <- (app_nil_r tc); apply tc_nd | intros _; left; reflexivity].
    - eapply IG_weaken; [|apply IG_drop; exact Hm]. cbn. intros e [[Hn|[]] Hu]. split; [exact Hn | congruence].
  Qed.

  Lemma upload_one_GS : forall it s t, IG GS (mon_of t) ->
    WP (upload_one tc (cache_dir lay CItem tc) it) (TQ (IG GS)) s t.
  Proof.
    intros [h v] s t H. unfold upload_one. cbn [seqs].
    eapply WP_seq with (M := TQ (IG GS)).
    { apply WP_do. intros s' _. unfold TQ. rewrite mon_of_ok. cbn [dstep].
      apply IG_flag; [apply tc_nd|]. apply IG_add; [|exact H].
      split; [apply tc_nd | intros _; right; right; eexists; reflexivity]. }
    intros s1 t1 H1.
    eapply WP_seq with (M := TQ (IG GS)).
    { apply WP_catch_raise; [intro e; eexists; reflexivity|].
      eapply WP_seq with (M := TQ (IG (fun e => GS e \/ e = DW (tc ++ [h])))).
      - apply WP_do. intros s' _. unfold TQ in *. rewrite mon_of_ok. cbn [dstep].
        apply IG_flag; [apply tc_nd|]. apply IG_add; [right; reflexivity|].
        eapply IG_weaken; [|exact H1]. intros; left; assumption.
      - intros s2 t2 H2. apply WP_fsyncF. intros s'. unfold TQ in *. rewrite mon_of_ok. cbn [dstep].
        eapply IG_weaken; [|apply IG_drop; exact H2]. cbn. intros e [[Hg | ->] Hf]; [exact Hg|].
        rewrite path_eqb_refl in Hf. discriminate. }
    intros s2 t2 H2.
    destruct (GS0_cache [h]) as [Gde Gdw].
    eapply WP_seq with (M := TQ (IG GS)).
    { apply WP_do. intros s' _. unfold TQ in *. rewrite mon_of_ok. cbn [dstep].
      apply IG_flag; [apply Gde|]. apply IG_add; [apply GS0_GS; exact Gde | exact H2]. }
    intros s3 t3 H3.
    eapply WP_seq with (M := TQ (IG GS)).
    { apply WP_do. intros s' _. unfold TQ in *. rewrite mon_of_ok. cbn [dstep].
      apply IG_flag; [apply Gdw|]. apply IG_add; [apply GS0_GS; exact Gdw | exact H3]. }
    intros s4 t4 H4.
    apply WP_fsyncF. intros s'. unfold TQ in *. rewrite mon_of_ok. cbn [dstep]. apply IG_drop'. exact H4.
  Qed.

  Lemma upload_each_GS : forall its s t, IG GS (mon_of t) ->
    WP (upload_each tc (cache_dir lay CItem tc) its) (TQ (IG GS)) s t.
  Proof.
    induction its as [|it its IH]; intros s t H; cbn [upload_each]; [exact H|].
    eapply WP_seq; [apply upload_one_GS; exact H|]. intros s1 t1 H1. apply IH. exact H1.
  Qed.

  Lemma upload_all_GS0 : forall its s t, IG GS0 (mon_of t) -> WP (upload_all lay tc its) (TQ (IG GS0)) s t.
  Proof.
    intros its s t H. unfold upload_all. cbn [seqs].
    eapply WP_seq; [apply (md_WP GS0); exact H|]. intros s1 t1 H1.
    eapply WP_seq; [apply upload_each_GS; eapply IG_weaken; [apply GS0_GS | exact H1]|]. intros s2 t2 H2.
    eapply WP_seq with (M := TQ (IG GS)).
    { apply WP_fsyncD. intros s'. unfold TQ in *. rewrite mon_of_ok. cbn [dstep]. apply IG_drop'. exact H2. }
    intros s3 t3 H3.
    apply WP_fsyncD. intros s'. unfold TQ in *. rewrite mon_of_ok. cbn [dstep].
    eapply IG_weaken; [|apply IG_drop; exact H3]. cbn. intros e [[Hn Hu] Hf]. split; [exact Hn|].
    intro Hx'. destruct (Hu Hx') as [E|[E|[y E]]]; auto. subst e. rewrite parent_snoc, path_eqb_refl in Hf. discriminate.
  Qed.

  (* what a staged record becomes under the final name p *)
  Lemma staged_to_p : forall e, GS0 e -> e <> DE tc -> under tc e = true -> is_data (p ++ strip tc (dpath e)) = false.
  Proof.
    intros e [Hn Hu] Hne Hut. destruct (Hu Hut) as [E|E]; [contradiction|].
    destruct (strip tc (dpath e)) as [|y r] eqn:Es; [discriminate|].
    rewrite coll_ext; [exact E | apply p_coll | discriminate].
  Qed.

  Lemma commit_rename : forall m, IG GS0 m -> IG (GX [DE p]) (dstep (Rename tc p) m).
  Proof.
    intros m Hm. eapply IG_rename; [exact Hm | | left; rewrite <- (app_nil_r tc); apply tc_nd | right; left; reflexivity].
    intros d Hg Hu Hne.
    assert (Hnew : is_data (dpath (dmap (rekey tc p) d)) = false).
    { rewrite dpath_dmap. unfold rekey. destruct (prefix tc (dpath d)) eqn:E; [|apply Hg].
      apply staged_to_p; auto. }
    split; [left; exact Hnew | intros _; exact Hnew].
  Qed.

  Lemma commit_exchange : forall m, IG GS0 m -> IG (GX [DE p]) (dstep (Exchange tc p) m).
  Proof.
    intros m Hm. eapply IG_exchange; [exact Hm | | left; rewrite <- (app_nil_r tc); apply tc_nd | right; left; reflexivity].
    intros d Hg Hna Hnb.
    assert (Hnew : is_data (dpath (dmap (fun q => if prefix tc q then p ++ strip tc q else if prefix p q then tc ++ strip p q else q) d)) = false).
    { rewrite dpath_dmap. destruct (prefix tc (dpath d)) eqn:E; [apply staged_to_p; auto|].
      destruct (prefix p (dpath d)); [apply tc_nd | apply Hg]. }
    split; [left; exact Hnew | intros _; exact Hnew].
  Qed.
End Create.

Lemma nd_mkdir_tmp' : forall X d k m, IG (GX X) m -> IG (GX X) (dstep (Mkdir (d ++ [Tmp k])) m).
Proof. intros. apply nd_gstep; [apply nd_mkdir_tmp | assumption]. Qed.
Lemma nd_rmtree_tmp' : forall X d k m, IG (GX X) m -> IG (GX X) (dstep (Rmtree (d ++ [Tmp k])) m).
Proof. intros. apply nd_gstep; [apply nd_rmtree_tmp | assumption]. Qed.

(* Storage.create_collection(par/x, items, props) *)
Lemma create_c12 : forall lay par x items pv s t, coll_path par = true -> is_safe x = true ->
  J12 [] s t -> WP (create_collection lay (par ++ [x]) items (Some pv)) (J12 []) s t.
Proof.
  intros lay par x items pv s t Hpar Hx [Hm _].
  assert (HJ : forall s' t', IG (GX []) (mon_of t') -> J12 [] s' t') by (intros; split; [assumption | intros c0 []]).
  unfold create_collection, create_collection_gen. rewrite parent_snoc.
  eapply WP_seq with (M := TQ (IG (GX []))); [apply (md_WP (GX [])); exact Hm|].
  intros s1 t1 H1. apply WP_catch_raise; [intro e; eexists; reflexivity|].
  unfold with_tmp. apply WP_fresh. intro k.
  eapply WP_seq with (M := TQ (IG (GX []))).
  { apply WP_do. intros s' _. unfold TQ in *. rewrite mon_of_ok. apply nd_mkdir_tmp'. exact H1. }
  intros s2 t2 H2. apply WP_finally. cbn [seqs].
  (* Mkdir tc *)
  eapply WP_seq with (M := TQ (IG (GS0 par k))).
  { apply WP_do. intros s' _. unfold TQ in *. rewrite mon_of_ok. apply mkdir_tc. exact H2. }
  intros s3 t3 H3.
  (* set_meta into the staging collection *)
  eapply WP_seq with (M := TQ (IG (GS0 par k))).
  { unfold set_meta. apply WP_catch_raise; [intros [e| |]; eexists; reflexivity|].
    apply (aw_mon (GS0 par k)); [|exact H3]. intros k' r. apply GS0_tmp. }
  intros s4 t4 H4.
  (* the items *)
  eapply WP_seq with (M := TQ (IG (GS0 par k))).
  { destruct items as [its|]; [apply upload_all_GS0; assumption | exact H4]. }
  intros s5 t5 H5.
  (* commit: Exchange when the target exists, else Rename; then fsync of the parent *)
  eapply WP_seq with (M := fun s' t' => IG (GX [DE (par ++ [x])]) (mon_of t') /\ (forall c, In c (@nil path) -> look s' c = Some D)).
  { apply WP_read. intros [n|]; apply WP_do; intros s' _; (split; [|intros c0 []]); rewrite mon_of_ok;
      [apply commit_exchange | apply commit_rename]; auto. }
  intros s6 t6 H6.
  eapply WP_mono; [|apply (J12_fsyncD [] par [DE (par ++ [x])]); [|exact H6]].
  - intros s7 t7 [H7 _]. apply WP_do. intros s' _. apply HJ. rewrite mon_of_ok. apply nd_rmtree_tmp'. exact H7.
  - intros e Hi. apply in1 in Hi. subst e. eexists. split; [reflexivity | apply parent_snoc].
Qed.
