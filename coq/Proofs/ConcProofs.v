(* C09 -- proofs about Model/Conc.v.
   Part 1: the concurrent machine simulates the section-atomic machine ([sections_atomic]).
   Part 2: one critical section per request => serialisable in lock-acquisition order ([serializable]).
   Part 3: the request gate with a re-check under the exclusive lock ([gate_single_principal], [gate_stable]). *)
From Coq Require Import List Arith Bool Lia Permutation.
Import ListNotations.
Require Import RV.Model.Conc.

(* ------------------------------------------------------------------ lists *)
Lemma upd_length {A} (l : list A) i x : length (upd l i x) = length l.
Proof. revert i; induction l as [|y l IH]; intros [|i]; simpl; auto. Qed.

Lemma nth_upd_same {A} (l : list A) i x : i < length l -> nth_error (upd l i x) i = Some x.
Proof. revert i; induction l as [|y l IH]; intros [|i] H; simpl in *; try lia; auto. apply IH; lia. Qed.

Lemma nth_upd_other {A} (l : list A) i j x : i <> j -> nth_error (upd l i x) j = nth_error l j.
Proof. revert i j; induction l as [|y l IH]; intros [|i] [|j] H; simpl; auto; try congruence. Qed.

Lemma nth_upd {A} (l : list A) i j x y :
  nth_error (upd l i x) j = Some y -> (j = i /\ y = x) \/ (j <> i /\ nth_error l j = Some y).
Proof.
  intro H. destruct (Nat.eq_dec j i) as [->|Hn].
  - left. split; auto. assert (i < length l).
    { apply nth_error_Some. intro E. assert (nth_error (upd l i x) i <> None) by congruence.
      apply nth_error_Some in H0. rewrite upd_length in H0. apply nth_error_None in E. lia. }
    rewrite nth_upd_same in H by auto. congruence.
  - right. split; auto. rewrite nth_upd_other in H by auto. auto.
Qed.

Lemma nth_some_lt {A} (l : list A) i x : nth_error l i = Some x -> i < length l.
Proof. intro H. apply nth_error_Some. congruence. Qed.

Lemma upd_same_id {A} (l : list A) i x : nth_error l i = Some x -> upd l i x = l.
Proof. revert i; induction l as [|y l IH]; intros [|i] H; simpl in *; try congruence. f_equal; auto. Qed.

Lemma existsb_false_nth {A} (f : A -> bool) l i x : existsb f l = false -> nth_error l i = Some x -> f x = false.
Proof.
  intros H Hn. apply nth_error_In in Hn. destruct (f x) eqn:E; auto.
  assert (existsb f l = true) by (apply existsb_exists; eauto). congruence.
Qed.

Lemma NoDup_snoc {A} (l : list A) x : NoDup l -> ~ In x l -> NoDup (l ++ [x]).
Proof.
  induction 1 as [|y l Hy Hn IH]; intros Hx; simpl.
  - constructor; [intros []|constructor].
  - constructor.
    + intro Hin. apply in_app_or in Hin. destruct Hin as [Hin|[E|[]]]; [auto|]. subst. apply Hx. left. reflexivity.
    + apply IH. intro. apply Hx. right. auto.
Qed.

(* ------------------------------------------------------------------ subsequences and real-time order *)
Lemma subseq_refl l : subseq l l.
Proof. induction l; constructor; auto. Qed.

Lemma subseq_trans a b c : subseq a b -> subseq b c -> subseq a c.
Proof.
  intros Hab Hbc. revert a Hab. induction Hbc; intros a0 Hab.
  - inversion Hab; subst; constructor.
  - inversion Hab; subst; [constructor | constructor; auto | apply ss_skip; auto].
  - apply ss_skip; auto.
Qed.

Lemma subseq_In a b x : subseq a b -> In x a -> In x b.
Proof. induction 1; simpl; intros Hi; [destruct Hi | destruct Hi; auto | auto]. Qed.

Lemma subseq_app_r a b c : subseq a b -> subseq a (c ++ b).
Proof. intro H. induction c; simpl; auto. apply ss_skip; auto. Qed.

Lemma subseq_nil_inv a : subseq a [] -> a = [].
Proof. inversion 1; auto. Qed.

(* an element that comes later in a subsequence comes later in the list *)
Lemma subseq_order l sch : subseq l sch ->
  forall l1 b l2 a, l = l1 ++ b :: l2 -> In a l2 ->
  exists i j, i < j /\ nth_error sch i = Some b /\ nth_error sch j = Some a.
Proof.
  induction 1 as [sch|x a0 b0 Hs IH|x a0 b0 Hs IH]; intros l1 b l2 a E Hi.
  - destruct l1; discriminate.
  - destruct l1 as [|y l1]; simpl in E; inversion E; subst.
    + assert (In a b0) by (eapply subseq_In; eauto).
      destruct (In_nth_error _ _ H) as [j Hj]. exists 0, (S j). simpl. repeat split; auto; lia.
    + destruct (IH _ _ _ _ eq_refl Hi) as [i [j [Hlt [Hb Ha]]]].
      exists (S i), (S j). simpl. repeat split; auto; lia.
  - destruct (IH _ _ _ _ E Hi) as [i [j [Hlt [Hb Ha]]]].
    exists (S i), (S j). simpl. repeat split; auto; lia.
Qed.

Lemma In_split_before (l : list nat) a b : NoDup l -> In a l -> In b l -> a <> b -> before a b l \/ before b a l.
Proof.
  intros Hnd Ha Hb Hab. destruct (in_split _ _ Ha) as [l1 [l2 E]]. subst l.
  apply in_app_or in Hb. destruct Hb as [Hb|Hb].
  - right. destruct (in_split _ _ Hb) as [m1 [m2 E]]. subst l1.
    exists m1, m2, l2. rewrite <- app_assoc. reflexivity.
  - destruct Hb as [Hb|Hb]; [congruence|]. left. destruct (in_split _ _ Hb) as [m1 [m2 E]]. subst l2.
    exists l1, m1, m2. reflexivity.
Qed.

(* real-time order is respected by every duplicate-free subsequence of the schedule *)
Lemma realtime_subseq order sch a b :
  subseq order sch -> NoDup order -> In a order -> In b order -> a <> b ->
  precedes sch a b -> before a b order.
Proof.
  intros Hs Hnd Ha Hb Hab Hp.
  destruct (In_split_before _ _ _ Hnd Ha Hb Hab) as [H|[l1 [l2 [l3 E]]]]; auto.
  exfalso. destruct (subseq_order _ _ Hs l1 b (l2 ++ a :: l3) a E) as [i [j [Hlt [Hi Hj]]]].
  { apply in_or_app. right. left. reflexivity. }
  specialize (Hp _ _ Hj Hi). lia.
Qed.

Section Proofs.
  Variables St Resp D : Type.
  Variable obs : St -> D.
  Notation prog := (prog St Resp).
  Notation thread := (thread St Resp).
  Notation config := (config St Resp).
  Notation astate := (astate St Resp).
  Notation wf := (wf obs).

  (* ---------------------------------------------------------------- sections respect obs *)
  Lemma run_sect_obs (p : prog) : forall m s s', wf (Some m) p -> obs s = obs s' ->
    obs (fst (run_sect p s)) = obs (fst (run_sect p s')) /\ snd (run_sect p s) = snd (run_sect p s').
  Proof.
    induction p as [r|k IH|m0 k IH|u k IH|k IH]; intros m s s' Hw Ho; simpl in *.
    - discriminate.
    - eauto.
    - destruct Hw; discriminate.
    - destruct Hw as [_ [Hc Hk]]. destruct (Hc _ _ Ho) as [Hu Hke]. rewrite <- Hke.
      eapply IH; eauto.
    - auto.
  Qed.

  Lemma run_sect_rd (p : prog) : forall s, wf (Some Rd) p -> obs (fst (run_sect p s)) = obs s.
  Proof.
    induction p as [r|k IH|m0 k IH|u k IH|k IH]; intros s Hw; simpl in *; auto.
    destruct Hw as [[m [Hm Hr]] [_ Hk]]. inversion Hm; subst m.
    rewrite IH by auto. auto.
  Qed.

  Lemma run_sect_wf (p : prog) : forall m s, wf (Some m) p -> wf None (snd (run_sect p s)).
  Proof.
    induction p as [r|k IH|m0 k IH|u k IH|k IH]; intros m s Hw; simpl in *.
    - discriminate.
    - eauto.
    - destruct Hw; discriminate.
    - destruct Hw as [_ [_ Hk]]. eauto.
    - tauto.
  Qed.

  Lemma wf_norm h (p : prog) : wf h p -> wf h (norm p).
  Proof. induction p; simpl; auto. Qed.

  Lemma run_prog_obs (p : prog) : forall h s s', wf h p -> obs s = obs s' ->
    obs (fst (run_prog p s)) = obs (fst (run_prog p s')) /\ snd (run_prog p s) = snd (run_prog p s').
  Proof.
    induction p as [r|k IH|m0 k IH|u k IH|k IH]; intros h s s' Hw Ho; simpl in *; auto.
    - eauto.
    - destruct Hw; eauto.
    - destruct Hw as [_ [Hc Hk]]. destruct (Hc _ _ Ho) as [Hu Hke]. rewrite <- Hke. eapply IH; eauto.
    - destruct Hw; eauto.
  Qed.

  Lemma run_prog_norm (p : prog) s : run_prog (norm p) s = run_prog p s.
  Proof. induction p; simpl; auto. Qed.

  Lemma run_prog_sect (p : prog) : forall s, run_prog p s = run_prog (snd (run_sect p s)) (fst (run_sect p s)).
  Proof. induction p as [r|k IH|m0 k IH|u k IH|k IH]; intros s; simpl; auto. Qed.

  Lemma run_prog_ret (p : prog) r s : norm p = Ret r -> run_prog p s = (s, r).
  Proof. intro H. rewrite <- run_prog_norm, H. reflexivity. Qed.

  (* ---------------------------------------------------------------- invariants of the concurrent machine *)
  Definition wfc (ts : list thread) : Prop := forall i t, nth_error ts i = Some t -> wf (held t) (code t).

  Definition lock_ok (ts : list thread) : Prop :=
    forall i j ti tj, i <> j -> nth_error ts i = Some ti -> nth_error ts j = Some tj ->
                      held ti = Some Wr -> held tj = None.

  Definition no_writer (ts : list thread) : Prop := forall i t, nth_error ts i = Some t -> held t <> Some Wr.

  (* the simulation relation between a concurrent configuration and the section-atomic machine *)
  Definition sim (c : config) (a : astate) : Prop :=
    length (snd a) = length (snd c) /\
    (forall i t, nth_error (snd c) i = Some t ->
       exists pa, nth_error (snd a) i = Some pa /\
         norm pa = norm (match held t with None => code t | Some _ => snd (run_sect (code t) (fst c)) end)) /\
    (forall i t, nth_error (snd c) i = Some t -> held t = Some Wr ->
       obs (fst a) = obs (fst (run_sect (code t) (fst c)))) /\
    (no_writer (snd c) -> obs (fst a) = obs (fst c)).

  Lemma admits_rd_no_writer (ts : list thread) : admits Rd ts = true -> no_writer ts.
  Proof.
    unfold admits. intros H i t Hn Hh. apply negb_true_iff in H.
    pose proof (existsb_false_nth _ _ _ _ H Hn) as E. unfold holds_w in E. rewrite Hh in E. discriminate.
  Qed.

  Lemma admits_wr_none (ts : list thread) : admits Wr ts = true -> forall i t, nth_error ts i = Some t -> held t = None.
  Proof.
    unfold admits. intros H i t Hn. apply negb_true_iff in H.
    pose proof (existsb_false_nth _ _ _ _ H Hn) as E. unfold holds_any in E. destruct (held t); [discriminate|auto].
  Qed.

  Lemma admits_no_writer m (ts : list thread) : admits m ts = true -> no_writer ts.
  Proof.
    destruct m; [apply admits_rd_no_writer|]. intros H i t Hn Hh. rewrite (admits_wr_none _ H _ _ Hn) in Hh. discriminate.
  Qed.

  Lemma lock_ok_upd (ts : list thread) i t t' :
    lock_ok ts -> nth_error ts i = Some t ->
    (held t' = Some Wr -> forall j tj, j <> i -> nth_error ts j = Some tj -> held tj = None) ->
    (held t' <> None -> forall j tj, j <> i -> nth_error ts j = Some tj -> held tj <> Some Wr) ->
    lock_ok (upd ts i t').
  Proof.
    intros Hlk Hi C1 C2 j1 j2 t1 t2 Hne H1 H2 Hh.
    apply nth_upd in H1. apply nth_upd in H2.
    destruct H1 as [[-> ->]|[Hn1 H1]], H2 as [[-> ->]|[Hn2 H2]]; try congruence.
    - eapply C1; eauto.
    - destruct (held t') eqn:E; auto. exfalso. eapply (C2 ltac:(congruence) j1 t1); eauto.
    - exact (Hlk j1 j2 t1 t2 Hne H1 H2 Hh).
  Qed.

  Lemma lock_ok_upd_same (ts : list thread) i t t' :
    lock_ok ts -> nth_error ts i = Some t -> held t' = held t -> lock_ok (upd ts i t').
  Proof.
    intros Hlk Hi E. apply (lock_ok_upd ts i t t' Hlk Hi); rewrite E.
    - intros Hh j tj Hne Hj. exact (Hlk i j t tj (not_eq_sym Hne) Hi Hj Hh).
    - intros Hh j tj Hne Hj Hw. apply Hh. exact (Hlk j i tj t Hne Hj Hi Hw).
  Qed.

  Lemma lock_ok_upd_none (ts : list thread) i t t' :
    lock_ok ts -> nth_error ts i = Some t -> held t' = None -> lock_ok (upd ts i t').
  Proof.
    intros Hlk Hi E. apply (lock_ok_upd ts i t t' Hlk Hi); rewrite E; [discriminate|congruence].
  Qed.

  (* one step of the concurrent machine is matched by the section-atomic machine:
     an Acquire by a whole section, every other step by nothing *)
  Lemma step1_sim i (c c' : config) kd (a : astate) :
    step1 i c = Some (c', kd) -> wfc (snd c) -> lock_ok (snd c) -> sim c a ->
    wfc (snd c') /\ lock_ok (snd c') /\
    sim c' (match kd with KAcq => asect i a | _ => a end) /\
    (kd = KAcq -> exists p m k, nth_error (snd a) i = Some p /\ norm p = Acq m k).
  Proof.
    destruct c as [sc ts], a as [sa pas]. unfold step1. intros Hs Hwf Hlk [Hlen [Hth [Hw Hnw]]]; simpl in *.
    destruct (nth_error ts i) as [t|] eqn:Hi; [|discriminate].
    pose proof (nth_some_lt _ _ _ Hi) as Hlt.
    pose proof (Hwf _ _ Hi) as Hwt.
    destruct t as [h p]; simpl in *.
    destruct p as [r|k|m k|u k|k].
    - discriminate.
    - (* Tau *)
      inversion Hs; subst c' kd; clear Hs; simpl.
      split; [|split; [|split; [|discriminate]]].
      + intros j t Hj. apply nth_upd in Hj. destruct Hj as [[-> ->]|[Hne Hj]]; simpl; eauto.
      + eapply lock_ok_upd_same; eauto.
      + unfold sim; simpl. rewrite upd_length. split; [auto|split; [|split]].
        * intros j t Hj. apply nth_upd in Hj. destruct Hj as [[-> ->]|[Hne Hj]]; simpl.
          -- destruct (Hth _ _ Hi) as [pa [Hpa Hn]]. exists pa. split; auto. simpl in Hn. destruct h; auto.
          -- eauto.
        * intros j t Hj Hh. apply nth_upd in Hj. destruct Hj as [[-> ->]|[Hne Hj]]; simpl in *.
          -- apply (Hw _ _ Hi Hh).
          -- eauto.
        * intros Hno. apply Hnw. intros j t Hj.
          destruct (Nat.eq_dec j i) as [->|Hne].
          -- rewrite Hi in Hj. inversion Hj; subst t. simpl.
             apply (Hno i (mkT h k)). apply nth_upd_same; auto.
          -- apply (Hno j t). rewrite nth_upd_other; auto.
    - (* Acq *)
      destruct h as [h|]; [discriminate|].
      destruct (admits m ts) eqn:Had; [|discriminate].
      inversion Hs; subst c' kd; clear Hs; simpl.
      destruct Hwt as [_ Hwk].
      pose proof (admits_no_writer _ _ Had) as Hnow.
      pose proof (Hnw Hnow) as Hobs.
      destruct (Hth _ _ Hi) as [pa [Hpa Hn]]; simpl in Hn.
      destruct (run_sect_obs k m sa sc Hwk Hobs) as [Hro Hrk].
      split; [|split; [|split]].
      + intros j t Hj. apply nth_upd in Hj. destruct Hj as [[-> ->]|[Hne Hj]]; simpl; eauto.
      + apply (lock_ok_upd ts i _ _ Hlk Hi); simpl.
        * intros Hm j tj Hne Hj. inversion Hm; subst m. eapply admits_wr_none; eauto.
        * intros _ j tj Hne Hj. eapply Hnow; eauto.
      + unfold asect; simpl. rewrite Hpa, Hn. unfold sim; simpl. rewrite !upd_length.
        split; [auto|split; [|split]].
        * intros j t Hj. apply nth_upd in Hj. destruct Hj as [[-> ->]|[Hne Hj]]; simpl.
          -- exists (snd (run_sect k sa)). split; [apply nth_upd_same; lia|]. rewrite Hrk. reflexivity.
          -- rewrite nth_upd_other by auto. eauto.
        * intros j t Hj Hh. apply nth_upd in Hj. destruct Hj as [[-> ->]|[Hne Hj]]; simpl in *.
          -- auto.
          -- exfalso. eapply Hnow; eauto.
        * intros Hno. destruct m.
          -- rewrite Hro. apply run_sect_rd; auto.
          -- exfalso. apply (Hno i (mkT (Some Wr) k)); [apply nth_upd_same; auto|reflexivity].
      + intros _. eauto.
    - (* Step *)
      destruct h as [m|]; [|discriminate].
      inversion Hs; subst c' kd; clear Hs; simpl.
      destruct Hwt as [[m' [Hm Hrd]] [Hcong Hwk]]. inversion Hm; subst m'.
      (* every other holder is a reader, and then this step leaves obs unchanged *)
      assert (Hother : forall j t, j <> i -> nth_error ts j = Some t -> held t <> None ->
                                   m = Rd /\ held t = Some Rd).
      { intros j t Hne Hj Hh. destruct m.
        - split; auto. destruct (held t) as [[|]|] eqn:E; auto; [|congruence].
          exfalso. pose proof (Hlk j i _ _ Hne Hj Hi E). simpl in H. discriminate.
        - exfalso. apply Hh. eapply (Hlk i j); eauto. }
      split; [|split; [|split; [|discriminate]]].
      + intros j t Hj. apply nth_upd in Hj. destruct Hj as [[-> ->]|[Hne Hj]]; simpl; eauto.
      + eapply lock_ok_upd_same; eauto.
      + unfold sim; simpl. rewrite upd_length. split; [auto|split; [|split]].
        * intros j t Hj. apply nth_upd in Hj. destruct Hj as [[-> ->]|[Hne Hj]]; simpl.
          -- destruct (Hth _ _ Hi) as [pa [Hpa Hn]]. exists pa. split; auto.
          -- destruct (Hth _ _ Hj) as [pa [Hpa Hn]]. exists pa. split; auto. simpl in Hn.
             destruct (held t) as [mt|] eqn:E; auto.
             destruct (Hother j t Hne Hj) as [-> Ht]; [congruence|].
             pose proof (Hwf _ _ Hj) as Hwj. rewrite Ht in Hwj.
             destruct (run_sect_obs (code t) Rd (u sc) sc Hwj (Hrd eq_refl sc)) as [_ Hk]. rewrite Hk. auto.
        * intros j t Hj Hh. apply nth_upd in Hj. destruct Hj as [[-> ->]|[Hne Hj]]; simpl in *.
          -- apply (Hw _ _ Hi Hh).
          -- destruct (Hother j t Hne Hj) as [_ Ht]; congruence.
        * intros Hno. assert (m = Rd) as ->.
          { destruct m; auto. exfalso. apply (Hno i (mkT (Some Wr) (k sc))); [apply nth_upd_same; auto|reflexivity]. }
          rewrite (Hrd eq_refl). apply Hnw. intros j t Hj.
          destruct (Nat.eq_dec j i) as [->|Hne].
          -- rewrite Hi in Hj. inversion Hj; subst t. simpl. congruence.
          -- apply (Hno j t). rewrite nth_upd_other; auto.
    - (* Rel *)
      destruct h as [m|]; [|discriminate].
      inversion Hs; subst c' kd; clear Hs; simpl.
      destruct Hwt as [_ Hwk].
      split; [|split; [|split; [|discriminate]]].
      + intros j t Hj. apply nth_upd in Hj. destruct Hj as [[-> ->]|[Hne Hj]]; simpl; eauto.
      + eapply lock_ok_upd_none; eauto.
      + unfold sim; simpl. rewrite upd_length. split; [auto|split; [|split]].
        * intros j t Hj. apply nth_upd in Hj. destruct Hj as [[-> ->]|[Hne Hj]]; simpl.
          -- destruct (Hth _ _ Hi) as [pa [Hpa Hn]]. exists pa. split; auto.
          -- eauto.
        * intros j t Hj Hh. apply nth_upd in Hj. destruct Hj as [[-> ->]|[Hne Hj]]; simpl in *.
          -- discriminate.
          -- pose proof (Hlk j i _ _ Hne Hj Hi Hh). simpl in H. discriminate.
        * intros Hno. destruct m.
          -- apply Hnw. intros j t Hj.
             destruct (Nat.eq_dec j i) as [->|Hne].
             ++ rewrite Hi in Hj. inversion Hj; subst t. simpl. congruence.
             ++ apply (Hno j t). rewrite nth_upd_other; auto.
          -- apply (Hw _ _ Hi eq_refl).
  Qed.

  Lemma asect_id_when (a : astate) : forall kd i, kd <> KAcq -> (match kd with KAcq => asect i a | _ => a end) = a.
  Proof. intros [] i H; congruence. Qed.

  (* the whole schedule *)
  Lemma exec_sim : forall sch (c c' : config) (a : astate),
    exec sch c = Some c' -> wfc (snd c) -> lock_ok (snd c) -> sim c a ->
    exists a', areach a (acq_order sch c) a' /\ sim c' a' /\ wfc (snd c') /\ lock_ok (snd c').
  Proof.
    induction sch as [|i rest IH]; intros c c' a He Hwf Hlk Hsim; simpl in *.
    - inversion He; subst. exists a. split; [constructor|]. split; [exact Hsim|]. split; assumption.
    - destruct (step1 i c) as [[c1 kd]|] eqn:Hs; [|discriminate].
      destruct (step1_sim _ _ _ _ _ Hs Hwf Hlk Hsim) as [Hwf1 [Hlk1 [Hsim1 Hacq]]].
      destruct (IH _ _ _ He Hwf1 Hlk1 Hsim1) as [a' [Hr [Hs' [Hw' Hl']]]].
      exists a'. split; [|split; [exact Hs'|split; assumption]].
      destruct kd; auto.
      destruct (Hacq eq_refl) as [p [m [k [Hp Hn]]]]. econstructor; eauto.
  Qed.

  Lemma init_ok (s0 : St) (progs : list prog) :
    Forall (wf None) progs ->
    wfc (snd (init s0 progs)) /\ lock_ok (snd (init s0 progs)) /\ sim (init s0 progs) (s0, progs).
  Proof.
    intro Hf. unfold init; simpl. repeat split.
    - intros i t Hn. rewrite nth_error_map in Hn. destruct (nth_error progs i) eqn:E; inversion Hn; subst; simpl.
      rewrite Forall_forall in Hf. apply Hf. eapply nth_error_In; eauto.
    - intros i j ti tj _ Hi _ Hh. rewrite nth_error_map in Hi. destruct (nth_error progs i); inversion Hi; subst. discriminate.
    - simpl. rewrite map_length. auto.
    - simpl. intros i t Hn. rewrite nth_error_map in Hn. destruct (nth_error progs i) eqn:E; inversion Hn; subst; simpl. eauto.
    - simpl. intros i t Hn Hh. rewrite nth_error_map in Hn. destruct (nth_error progs i); inversion Hn; subst. discriminate.
  Qed.

  Lemma acq_order_subseq : forall sch (c : config), subseq (acq_order sch c) sch.
  Proof.
    induction sch as [|i rest IH]; intros c; simpl; [constructor|].
    destruct (step1 i c) as [[c1 kd]|]; [|constructor].
    destruct kd; [apply ss_skip|apply ss_keep|apply ss_skip|apply ss_skip]; auto.
  Qed.

  (* THEOREM 1.  Every admitted schedule of well-formed requests that runs them to completion is
     matched by the machine that executes whole critical sections one at a time, in the order in which
     the lock was acquired: same data at the end, same responses. *)
  Theorem sections_atomic (progs : list prog) (s0 : St) (sch : list nat) (c' : config) (rs : list Resp) :
    Forall (wf None) progs ->
    exec sch (init s0 progs) = Some c' -> finished c' rs ->
    exists a', areach (s0, progs) (acq_order sch (init s0 progs)) a' /\
               obs (fst a') = obs (fst c') /\
               Forall2 (fun pa r => norm pa = Ret r) (snd a') rs.
  Proof.
    intros Hf He Hfin. destruct (init_ok s0 progs Hf) as [Hwf [Hlk Hsim]].
    destruct (exec_sim _ _ _ _ He Hwf Hlk Hsim) as [a' [Hr [[Hlen [Hth [_ Hnw]]] _]]].
    exists a'. split; auto. unfold finished in Hfin.
    split.
    - apply Hnw. intros i t Hn. rewrite Hfin in Hn. rewrite nth_error_map in Hn.
      destruct (nth_error rs i); inversion Hn; subst; simpl. discriminate.
    - rewrite Hfin in Hlen, Hth. rewrite map_length in Hlen.
      clear - Hlen Hth. destruct a' as [sa pas]; simpl in *. revert rs Hlen Hth.
      induction pas as [|pa pas IH]; intros [|r rs] Hlen Hth; simpl in *; try discriminate; constructor.
      + destruct (Hth 0 (mkT None (Ret r)) eq_refl) as [pa' [E Hn]]. simpl in E. inversion E; subst. auto.
      + apply IH; [lia|]. intros i t Hn. apply (Hth (S i) t Hn).
  Qed.

  (* ---------------------------------------------------------------- Part 2: one critical section per request *)
  Lemma Forall2_nth {A B} (Rl : A -> B -> Prop) l1 l2 i x :
    Forall2 Rl l1 l2 -> nth_error l1 i = Some x -> exists y, nth_error l2 i = Some y /\ Rl x y.
  Proof.
    intro H. revert i. induction H; intros [|i] Hn; simpl in *; try discriminate.
    - inversion Hn; subst. eauto.
    - eauto.
  Qed.

  Lemma Forall2_nth_r {A B} (Rl : A -> B -> Prop) l1 l2 i y :
    Forall2 Rl l1 l2 -> nth_error l2 i = Some y -> exists x, nth_error l1 i = Some x /\ Rl x y.
  Proof.
    intro H. revert i. induction H; intros [|i] Hn; simpl in *; try discriminate.
    - inversion Hn; subst. eauto.
    - eauto.
  Qed.

  Lemma Forall2_len {A B} (Rl : A -> B -> Prop) l1 l2 : Forall2 Rl l1 l2 -> length l1 = length l2.
  Proof. induction 1; simpl; auto. Qed.

  Lemma asect_at (a : astate) i p m k :
    nth_error (snd a) i = Some p -> norm p = Acq m k ->
    asect i a = (fst (run_sect k (fst a)), upd (snd a) i (snd (run_sect k (fst a)))).
  Proof. unfold asect. intros -> ->. reflexivity. Qed.

  Lemma one_section_run (p : prog) m k s r :
    norm p = Acq m k -> norm (snd (run_sect k s)) = Ret r -> run_prog p s = (fst (run_sect k s), r).
  Proof.
    intros Hn Hr. rewrite <- run_prog_norm, Hn. simpl. rewrite run_prog_sect. apply run_prog_ret. auto.
  Qed.

  Lemma serial_from_app (progs : list prog) l1 l2 acc :
    serial_from progs (l1 ++ l2) acc = serial_from progs l2 (serial_from progs l1 acc).
  Proof. unfold serial_from. apply fold_left_app. Qed.

  Section OneSection.
    Variable progs : list prog.
    Variable s0 : St.
    Hypothesis Hone : Forall (one_section (St:=St) (Resp:=Resp)) progs.

    (* what is known after the sections of [done] have run, in this order *)
    Definition J (done : list nat) (a : astate) : Prop :=
      let acc := serial progs done s0 in
      length (snd a) = length progs /\
      NoDup done /\
      map fst (snd acc) = done /\
      (forall i r, In (i, r) (snd acc) -> exists pa, nth_error (snd a) i = Some pa /\ norm pa = Ret r) /\
      (forall i, ~ In i done -> nth_error (snd a) i = nth_error progs i) /\
      fst acc = fst a.

    Lemma J_step done (a : astate) i p m k :
      J done a -> nth_error (snd a) i = Some p -> norm p = Acq m k -> J (done ++ [i]) (asect i a).
    Proof.
      intros [Hlen [Hnd [Hmap [Hres [Hun Hst]]]]] Hi Hn.
      assert (Hni : ~ In i done).
      { intro Hin. rewrite <- Hmap in Hin. apply in_map_iff in Hin. destruct Hin as [[j r] [Ej Hin]]. simpl in Ej; subst j.
        destruct (Hres _ _ Hin) as [pa [Hpa Hr]]. rewrite Hi in Hpa. inversion Hpa; subst pa. congruence. }
      pose proof (Hun _ Hni) as Hpi. rewrite Hi in Hpi. symmetry in Hpi.
      rewrite Forall_forall in Hone. pose proof (Hone p (nth_error_In _ _ Hpi)) as [m' [k' [Hn' Htail]]].
      rewrite Hn in Hn'. inversion Hn'; subst m' k'.
      destruct (Htail (fst a)) as [r Hr].
      rewrite (asect_at _ _ _ _ _ Hi Hn).
      assert (Hser : serial progs (done ++ [i]) s0 =
                     (fst (run_sect k (fst a)), snd (serial progs done s0) ++ [(i, r)])).
      { unfold serial. rewrite serial_from_app. simpl. unfold serial_step. rewrite Hpi.
        fold (serial progs done s0). rewrite Hst. rewrite (one_section_run _ _ _ _ _ Hn Hr). reflexivity. }
      unfold J. rewrite Hser. simpl. rewrite upd_length.
      split; [auto|]. split.
      { apply NoDup_snoc; auto. }
      split. { rewrite map_app, Hmap. reflexivity. }
      split.
      { intros j r' Hin. apply in_app_or in Hin. destruct Hin as [Hin|[Hin|[]]].
        - destruct (Hres _ _ Hin) as [pa [Hpa Hpr]]. exists pa. split; auto.
          rewrite nth_upd_other; auto. intro E; subst j. apply Hni. rewrite <- Hmap.
          apply in_map_iff. exists (i, r'). auto.
        - inversion Hin; subst j r'. exists (snd (run_sect k (fst a))). split; auto.
          apply nth_upd_same. eapply nth_some_lt; eauto. }
      split; [|reflexivity].
      intros j Hnj. rewrite nth_upd_other; [apply Hun|]; intro; apply Hnj; apply in_or_app; [left|right; left]; auto.
    Qed.

    Lemma J_reach : forall (a : astate) order (a' : astate), areach a order a' ->
      forall done, J done a -> J (done ++ order) a'.
    Proof.
      induction 1 as [a|a i p m k rest a' Hi Hn Hr IH]; intros done HJ.
      - rewrite app_nil_r. auto.
      - replace (done ++ i :: rest) with ((done ++ [i]) ++ rest) by (rewrite <- app_assoc; reflexivity).
        apply IH. eapply J_step; eauto.
    Qed.

    Lemma J_init : J [] (s0, progs).
    Proof.
      unfold J, serial, serial_from; simpl. repeat split; auto.
      - constructor.
      - intros i r [].
    Qed.
  End OneSection.

  (* THEOREM 2 (C09_serializable).  If every request has ONE critical section containing all its storage
     steps, and steps under the shared lock leave the data unchanged, then every admitted schedule that
     runs the requests to completion is equivalent to running the requests one at a time in the order in
     which they acquired the lock: same responses, same data at the end; and that order respects
     real-time precedence (a request all of whose steps precede all steps of another one comes first). *)
  Theorem serializable (progs : list prog) (s0 : St) (sch : list nat) (c' : config) (rs : list Resp) :
    Forall (wf None) progs -> Forall (one_section (St:=St) (Resp:=Resp)) progs ->
    exec sch (init s0 progs) = Some c' -> finished c' rs ->
    let order := acq_order sch (init s0 progs) in
    Permutation order (seq 0 (length progs)) /\
    subseq order sch /\
    (forall a b, In a order -> In b order -> a <> b -> precedes sch a b -> before a b order) /\
    obs (fst (serial progs order s0)) = obs (fst c') /\
    map fst (snd (serial progs order s0)) = order /\
    (forall i r, In (i, r) (snd (serial progs order s0)) -> nth_error rs i = Some r).
  Proof.
    intros Hwf Hone He Hfin order.
    destruct (sections_atomic _ _ _ _ _ Hwf He Hfin) as [a' [Hr [Hobs Hf2]]].
    pose proof (J_reach progs s0 Hone _ _ _ Hr [] (J_init progs s0)) as HJ. simpl in HJ. fold order in HJ.
    destruct HJ as [Hlen [Hnd [Hmap [Hres [Hun Hst]]]]].
    assert (Hresp : forall i r, In (i, r) (snd (serial progs order s0)) -> nth_error rs i = Some r).
    { intros i r Hin. destruct (Hres _ _ Hin) as [pa [Hpa Hn]].
      destruct (Forall2_nth _ _ _ _ _ Hf2 Hpa) as [y [Hy Hny]]. rewrite Hn in Hny. inversion Hny; subst. auto. }
    assert (Hperm : Permutation order (seq 0 (length progs))).
    { apply NoDup_Permutation; auto using seq_NoDup. intro x. rewrite in_seq. split.
      - intro Hin. rewrite <- Hmap in Hin. apply in_map_iff in Hin. destruct Hin as [[j r] [Ej Hin]]; simpl in Ej; subst j.
        destruct (Hres _ _ Hin) as [pa [Hpa _]]. apply nth_some_lt in Hpa. lia.
      - intros [_ Hlt]. destruct (in_dec Nat.eq_dec x order) as [|Hni]; auto. exfalso.
        pose proof (Hun _ Hni) as Hx. destruct (nth_error progs x) as [p|] eqn:Ep.
        + destruct (Forall2_nth _ _ _ _ _ Hf2 Hx) as [y [_ Hny]].
          rewrite Forall_forall in Hone. destruct (Hone p (nth_error_In _ _ Ep)) as [m [k [Hn _]]]. congruence.
        + apply nth_error_None in Ep. simpl in Hlt. lia. }
    split; [auto|]. split; [apply acq_order_subseq|]. split.
    { intros a b Ha Hb Hab Hp. eapply realtime_subseq; eauto. apply acq_order_subseq. }
    split; [rewrite Hst; auto|]. split; auto.
  Qed.

  (* ---------------------------------------------------------------- Part 3: the request gate *)
  Lemma wf_of_norm h (p : prog) : wf h (norm p) -> wf h p.
  Proof. induction p; simpl; auto. Qed.

  Lemma repeat_nth {A} (x : A) n i y : nth_error (repeat x n) i = Some y -> y = x /\ i < n.
  Proof. revert i; induction n; intros [|i] H; simpl in *; try discriminate. - inversion H; split; auto; lia. - destruct (IHn _ H); split; auto; lia. Qed.

  Lemma spec_serial_snoc (qs : list (greq St Resp)) done i s0 :
    spec_serial qs (done ++ [i]) s0 = spec_step qs (spec_serial qs done s0) i.
  Proof. unfold spec_serial. rewrite fold_left_app. reflexivity. Qed.

  Inductive phase := Ph0 | PhA | PhH | PhD.

  Section Gate.
    Variable qs : list (greq St Resp).
    Variable progs : list prog.
    Variable s0 : St.
    Variable Inv : St -> Prop.
    (* a request either passes the gate, or (no user) goes straight to its handler *)
    Hypothesis Hprogs : Forall2 (fun p q => norm p = gprog q \/
                                            (norm p = norm (g_H q) /\ forall s, g_absent q s = false)) progs qs.
    Hypothesis HwfH : forall q, In q qs -> wf None (g_H q).
    Hypothesis HoneH : forall q, In q qs -> one_section (g_H q).
    Hypothesis absent_obs : forall q s s', In q qs -> obs s = obs s' -> g_absent q s = g_absent q s'.
    Hypothesis P_obs : forall q s s', In q qs -> obs s = obs s' -> obs (g_P q s) = obs (g_P q s').
    Hypothesis g1_ro : forall q s, In q qs -> obs (g_g1 q s) = obs s.
    Hypothesis Inv_obs : forall s s', obs s = obs s' -> Inv s -> Inv s'.
    Hypothesis Inv_P : forall q s, In q qs -> Inv s -> Inv (g_P q s).
    Hypothesis Inv_H : forall q s, In q qs -> Inv s -> Inv (fst (run_prog (g_H q) s)).
    Hypothesis Inv0 : Inv s0.
    Hypothesis agree : forall q q' s, In q qs -> In q' qs -> Inv s -> g_absent q s = g_absent q' s.
    Hypothesis coher : forall q q' s, In q qs -> In q' qs -> Inv s -> g_absent q s = true -> obs (g_P q s) = obs (g_P q' s).
    Hypothesis P_noop : forall q s, In q qs -> Inv s -> g_absent q s = false -> obs (g_P q s) = obs s.
    Hypothesis P_present : forall q s, In q qs -> Inv s -> g_absent q (g_P q s) = false.
    Hypothesis stable : forall q q' s, In q qs -> In q' qs -> Inv s -> g_absent q s = false ->
                                       g_absent q (fst (run_prog (g_H q') s)) = false.

    Lemma gprog_wf q : In q qs -> wf None (gprog q).
    Proof.
      intro Hq. unfold gprog, gated. simpl. split; [reflexivity|]. split; [|split].
      - exists Rd. split; [reflexivity|]. intros _ s. apply g1_ro; auto.
      - intros s s' Ho. split.
        + rewrite !g1_ro by auto. auto.
        + rewrite (absent_obs q s s' Hq Ho). reflexivity.
      - intros s. split; [discriminate|]. destruct (g_absent q s); [|apply HwfH; auto].
        simpl. split; [reflexivity|]. split; [|split].
        + exists Wr. split; [reflexivity|]. discriminate.
        + intros s1 s2 Ho. split; auto.
        + intros _. split; [discriminate|apply HwfH; auto].
    Qed.

    Lemma progs_wf : Forall (wf None) progs.
    Proof.
      apply Forall_forall. intros p Hp. destruct (In_nth_error _ _ Hp) as [i Hi].
      destruct (Forall2_nth _ _ _ _ _ Hprogs Hi) as [q [Hq [Hn|[Hn _]]]]; apply wf_of_norm; rewrite Hn.
      - apply gprog_wf. eapply nth_error_In; eauto.
      - apply wf_norm. apply HwfH. eapply nth_error_In; eauto.
    Qed.

    Definition G (phs : list phase) (a : astate) (done : list nat) : Prop :=
      let acc := spec_serial qs done s0 in
      length phs = length qs /\ length (snd a) = length qs /\
      Inv (fst a) /\ Inv (fst acc) /\
      (forall i ph, nth_error phs i = Some ph ->
         exists q pa, nth_error qs i = Some q /\ nth_error (snd a) i = Some pa /\
           match ph with
           | Ph0 => norm pa = gprog q
           | PhA => pa = Acq Wr (Step (g_P q) (fun _ => Rel (g_H q)))
           | PhH => norm pa = norm (g_H q) /\ g_absent q (fst a) = false
           | PhD => In i done
           end) /\
      (forall i, In i done -> nth_error phs i = Some PhD) /\
      map fst (snd acc) = done /\ NoDup done /\
      (forall i r, In (i, r) (snd acc) -> exists pa, nth_error (snd a) i = Some pa /\ norm pa = Ret r) /\
      (obs (fst a) = obs (fst acc) \/
       exists i q, nth_error phs i = Some PhH /\ nth_error qs i = Some q /\ obs (fst a) = obs (g_P q (fst acc))).

    Lemma G_init : exists phs, G phs (s0, progs) [].
    Proof.
      assert (Hgen : forall (ps : list prog) (qs' : list (greq St Resp)), Forall2 (fun p q => norm p = gprog q \/
                                            (norm p = norm (g_H q) /\ forall s, g_absent q s = false)) ps qs' ->
              exists phs, length phs = length qs' /\
                (forall i ph, nth_error phs i = Some ph ->
                   exists q pa, nth_error qs' i = Some q /\ nth_error ps i = Some pa /\
                     ((ph = Ph0 /\ norm pa = gprog q) \/
                      (ph = PhH /\ norm pa = norm (g_H q) /\ forall s, g_absent q s = false)))).
      { induction 1 as [|p q ps qs' Hpq _ [phs [Hl Hp]]].
        - exists []. split; auto. intros [|i] ph H; discriminate.
        - destruct Hpq as [H|H]; [exists (Ph0 :: phs)|exists (PhH :: phs)];
            (split; [simpl; auto|]); intros [|i] ph Hn; simpl in *; eauto;
            inversion Hn; subst ph; exists q, p; auto. }
      pose proof (Hgen _ _ Hprogs) as Hphs.
      destruct Hphs as [phs [Hl Hp]]. exists phs.
      unfold G, spec_serial; simpl.
      split; [auto|]. split; [eapply Forall2_len; eauto|]. split; [auto|]. split; [auto|]. split.
      { intros i ph Hn. destruct (Hp _ _ Hn) as [q [pa [Eq [Epa [[-> H]|[-> [H Hab]]]]]]]; exists q, pa; auto. }
      split; [intros i []|]. split; [auto|]. split; [constructor|]. split; [intros i r []|]. left; auto.
    Qed.

    Lemma G_step phs (a : astate) done i pa m k :
      G phs a done -> nth_error (snd a) i = Some pa -> norm pa = Acq m k ->
      exists phs' done', G phs' (asect i a) done' /\ (done' = done \/ done' = done ++ [i]).
    Proof.
      intros [Hlp [Hla [Hia [His [Hth [Hdone [Hmap [Hnd [Hres Hrel]]]]]]]]] Hi Hn.
      destruct a as [sa pas]; simpl in *.
      set (acc := spec_serial qs done s0) in *.
      assert (Hlt : i < length pas) by (eapply nth_some_lt; eauto).
      destruct (nth_error phs i) as [ph|] eqn:Eph; [|apply nth_error_None in Eph; lia].
      destruct (Hth _ _ Eph) as [q [pa' [Eq [Epa Hph]]]]. rewrite Hi in Epa. inversion Epa; subst pa'; clear Epa.
      assert (Hq : In q qs) by (eapply nth_error_In; eauto).
      rewrite (asect_at (sa, pas) _ _ _ _ Hi Hn); simpl.
      destruct ph.
      - (* Ph0: the check under the shared lock *)
        rewrite Hph in Hn. unfold gprog, gated in Hn. inversion Hn; subst m k; clear Hn. simpl.
        exists (upd phs i (if g_absent q sa then PhA else PhH)), done. split; [|left; reflexivity].
        assert (Hog : obs (g_g1 q sa) = obs sa) by (apply g1_ro; auto).
        unfold G; simpl. fold acc. rewrite !upd_length.
        split; [auto|]. split; [auto|]. split; [eapply Inv_obs; [symmetry; exact Hog|auto]|]. split; [auto|]. split.
        { intros j ph Hj. apply nth_upd in Hj. destruct Hj as [[-> ->]|[Hne Hj]].
          - exists q. rewrite nth_upd_same by auto. eexists. split; [auto|]. split; [reflexivity|].
            destruct (g_absent q sa) eqn:Eab; [reflexivity|]. split; auto.
            rewrite (absent_obs q _ _ Hq Hog). auto.
          - destruct (Hth _ _ Hj) as [q' [pa' [Eq' [Epa' Hph']]]]. exists q', pa'. rewrite nth_upd_other by auto.
            split; auto. split; auto. destruct ph; auto. destruct Hph' as [Hnn Hab]. split; auto.
            rewrite (absent_obs q' _ _ (nth_error_In _ _ Eq') Hog). auto. }
        split.
        { intros j Hj. rewrite nth_upd_other; auto. intro E; subst j. rewrite (Hdone _ Hj) in Eph. discriminate. }
        split; [auto|]. split; [auto|]. split.
        { intros j r Hin. destruct (Hres _ _ Hin) as [pa' [Hpa' Hr]]. exists pa'. split; auto.
          rewrite nth_upd_other; auto. intro E; subst j.
          assert (In i done) by (rewrite <- Hmap; apply in_map_iff; exists (i, r); auto).
          rewrite (Hdone _ H) in Eph. discriminate. }
        destruct Hrel as [Hl|[w [qw [Hw [Eqw Ho]]]]].
        + left. congruence.
        + right. exists w, qw. split; [|split; [auto|congruence]].
          rewrite nth_upd_other; auto. intro E; subst w. congruence.
      - (* PhA: provisioning under the exclusive lock *)
        subst pa. simpl in Hn. inversion Hn; subst m k; clear Hn. simpl.
        exists (upd phs i PhH), done. split; [|left; reflexivity].
        assert (HiP : Inv (g_P q sa)) by (apply Inv_P; auto).
        unfold G; simpl. fold acc. rewrite !upd_length.
        split; [auto|]. split; [auto|]. split; [auto|]. split; [auto|]. split.
        { intros j ph Hj. apply nth_upd in Hj. destruct Hj as [[-> ->]|[Hne Hj]].
          - exists q. rewrite nth_upd_same by auto. eexists. split; [auto|]. split; [reflexivity|]. split; auto.
          - destruct (Hth _ _ Hj) as [q' [pa' [Eq' [Epa' Hph']]]]. exists q', pa'. rewrite nth_upd_other by auto.
            split; auto. split; auto. destruct ph; auto. destruct Hph' as [Hnn Hab]. split; auto.
            rewrite (agree q' q _ (nth_error_In _ _ Eq') Hq HiP). auto. }
        split.
        { intros j Hj. rewrite nth_upd_other; auto. intro E; subst j. rewrite (Hdone _ Hj) in Eph. discriminate. }
        split; [auto|]. split; [auto|]. split.
        { intros j r Hin. destruct (Hres _ _ Hin) as [pa' [Hpa' Hr]]. exists pa'. split; auto.
          rewrite nth_upd_other; auto. intro E; subst j.
          assert (In i done) by (rewrite <- Hmap; apply in_map_iff; exists (i, r); auto).
          rewrite (Hdone _ H) in Eph. discriminate. }
        right. destruct Hrel as [Hl|[w [qw [Hw [Eqw Ho]]]]].
        + exists i, q. split; [apply nth_upd_same; lia|]. split; auto.
        + assert (Hqw : In qw qs) by (eapply nth_error_In; eauto).
          exists w, qw. split; [rewrite nth_upd_other; auto; intro E; subst w; congruence|]. split; auto.
          rewrite <- Ho. apply P_noop; auto.
          rewrite (absent_obs q _ _ Hq Ho). rewrite (agree q qw _ Hq Hqw (Inv_P _ _ Hqw His)). apply P_present; auto.
      - (* PhH: the handler's own section *)
        destruct Hph as [Hnn Hab].
        destruct (HoneH q Hq) as [m' [k' [Hn' Htail]]]. rewrite <- Hnn, Hn in Hn'. inversion Hn'; subst m' k'.
        destruct (Htail sa) as [r Hr].
        assert (HnH : norm (g_H q) = Acq m k) by congruence.
        pose proof (one_section_run _ _ _ _ _ HnH Hr) as Hrun.
        assert (Hkey : obs sa = obs (g_P q (fst acc))).
        { destruct Hrel as [Hl|[w [qw [Hw [Eqw Ho]]]]].
          - rewrite Hl. symmetry. apply P_noop; auto. rewrite <- (absent_obs q _ _ Hq Hl). auto.
          - assert (Hqw : In qw qs) by (eapply nth_error_In; eauto).
            rewrite Ho. destruct (g_absent qw (fst acc)) eqn:Eaw.
            + apply coher; auto.
            + rewrite (P_noop qw _ Hqw His Eaw). symmetry. apply P_noop; auto.
              rewrite (agree q qw _ Hq Hqw His). auto. }
        destruct (run_prog_obs (g_H q) None _ _ (HwfH q Hq) Hkey) as [Hofst Hosnd].
        rewrite Hrun in Hofst, Hosnd. simpl in Hofst, Hosnd.
        assert (Hni : ~ In i done) by (intro Hin; rewrite (Hdone _ Hin) in Eph; discriminate).
        exists (upd phs i PhD), (done ++ [i]). split; [|right; reflexivity].
        assert (Hsa' : fst (run_sect k sa) = fst (run_prog (g_H q) sa)) by (rewrite Hrun; reflexivity).
        unfold G. rewrite spec_serial_snoc. fold acc. unfold spec_step. rewrite Eq. simpl. rewrite !upd_length.
        split; [auto|]. split; [auto|]. split; [rewrite Hsa'; apply Inv_H; auto|]. split; [apply Inv_H; auto|]. split.
        { intros j ph Hj. apply nth_upd in Hj. destruct Hj as [[-> ->]|[Hne Hj]].
          - exists q. rewrite nth_upd_same by auto. eexists. split; [auto|]. split; [reflexivity|].
            apply in_or_app. right. left. reflexivity.
          - destruct (Hth _ _ Hj) as [q' [pa' [Eq' [Epa' Hph']]]]. exists q', pa'. rewrite nth_upd_other by auto.
            split; auto. split; auto. destruct ph; auto.
            + destruct Hph' as [Hnn' Hab']. split; auto. rewrite Hsa'. apply stable; auto. eapply nth_error_In; eauto.
            + apply in_or_app. left. auto. }
        split.
        { intros j Hj. apply in_app_or in Hj. destruct Hj as [Hj|[<-|[]]].
          - rewrite nth_upd_other; auto. intro E; subst j. auto.
          - apply nth_upd_same. lia. }
        split; [rewrite map_app, Hmap; reflexivity|]. split; [apply NoDup_snoc; auto|]. split.
        { intros j r' Hin. apply in_app_or in Hin. destruct Hin as [Hin|[Hin|[]]].
          - destruct (Hres _ _ Hin) as [pa' [Hpa' Hr']]. exists pa'. split; auto.
            rewrite nth_upd_other; auto. intro E; subst j. apply Hni. rewrite <- Hmap. apply in_map_iff. exists (i, r'). auto.
          - inversion Hin; subst j r'. exists (snd (run_sect k sa)). split; [apply nth_upd_same; auto|].
            rewrite Hr. f_equal. auto. }
        left. auto.
      - (* PhD: a finished request does not acquire again *)
        exfalso. assert (Hin : In i (map fst (snd acc))) by (rewrite Hmap; auto).
        apply in_map_iff in Hin. destruct Hin as [[j r] [Ej Hin]]; simpl in Ej; subst j.
        destruct (Hres _ _ Hin) as [pa' [Hpa' Hr]]. rewrite Hi in Hpa'. inversion Hpa'; subst pa'. congruence.
    Qed.

    Lemma G_reach : forall (a : astate) order (a' : astate), areach a order a' ->
      forall phs done, G phs a done ->
      exists phs' ext, G phs' a' (done ++ ext) /\ subseq ext order.
    Proof.
      induction 1 as [a|a i p m k rest a' Hi Hn Hr IH]; intros phs done HG.
      - exists phs, []. rewrite app_nil_r. split; auto. constructor.
      - destruct (G_step _ _ _ _ _ _ _ HG Hi Hn) as [phs1 [done1 [HG1 Hd]]].
        destruct (IH _ _ HG1) as [phs' [ext [HG' Hss]]].
        destruct Hd as [->| ->].
        + exists phs', ext. split; auto. apply ss_skip. auto.
        + exists phs', (i :: ext). rewrite <- app_assoc in HG'. split; auto. apply ss_keep. auto.
    Qed.

    (* THEOREM 3.  Requests that pass the gate (check under r, provisioning under w WITH a re-check, then the
       handler's section) are equivalent to one-at-a-time execution of "provision ; handler" transactions,
       in the order in which the handlers' sections acquired the lock. *)
    Theorem gate_serializable (sch : list nat) (c' : config) (rs : list Resp) :
      exec sch (init s0 progs) = Some c' -> finished c' rs ->
      exists order,
        Permutation order (seq 0 (length progs)) /\
        subseq order sch /\
        (forall a b, In a order -> In b order -> a <> b -> precedes sch a b -> before a b order) /\
        obs (fst (spec_serial qs order s0)) = obs (fst c') /\
        map fst (snd (spec_serial qs order s0)) = order /\
        (forall i r, In (i, r) (snd (spec_serial qs order s0)) -> nth_error rs i = Some r).
    Proof.
      intros He Hfin.
      destruct (sections_atomic _ _ _ _ _ progs_wf He Hfin) as [a' [Hr [Hobs Hf2]]].
      destruct G_init as [phs0 HG0].
      destruct (G_reach _ _ _ Hr _ _ HG0) as [phs [order [HG Hss]]]. simpl in HG.
      destruct HG as [Hlp [Hla [Hia [His [Hth [Hdone [Hmap [Hnd [Hres Hrel]]]]]]]]].
      assert (Hlen : length progs = length qs) by (eapply Forall2_len; eauto).
      assert (Hall : forall i ph, nth_error phs i = Some ph -> ph = PhD).
      { intros i ph Hn. destruct (Hth _ _ Hn) as [q [pa [Eq [Epa Hph]]]].
        destruct (Forall2_nth _ _ _ _ _ Hf2 Epa) as [r [_ Hret]].
        assert (Hq : In q qs) by (eapply nth_error_In; eauto).
        destruct ph; auto; exfalso.
        - rewrite Hph in Hret. discriminate.
        - subst pa. discriminate.
        - destruct Hph as [Hnn _]. destruct (HoneH q Hq) as [m [k [Hn' _]]]. congruence. }
      assert (Hsub : subseq order sch) by (eapply subseq_trans; [eauto|apply acq_order_subseq]).
      exists order. split.
      { apply NoDup_Permutation; auto using seq_NoDup. intro x. rewrite in_seq. split.
        - intro Hin. pose proof (Hdone _ Hin) as Hx. apply nth_some_lt in Hx. lia.
        - intros [_ Hlt]. simpl in Hlt. destruct (nth_error phs x) as [ph|] eqn:E; [|apply nth_error_None in E; lia].
          pose proof (Hall _ _ E); subst ph. destruct (Hth _ _ E) as [q [pa [_ [_ Hin]]]]. auto. }
      split; [auto|]. split.
      { intros a b Ha Hb Hab Hp. eapply realtime_subseq; eauto. }
      split.
      { rewrite <- Hobs. destruct Hrel as [Hl|[w [qw [Hw _]]]]; [auto|]. pose proof (Hall _ _ Hw). discriminate. }
      split; [auto|].
      intros i r Hin. destruct (Hres _ _ Hin) as [pa [Hpa Hn]].
      destruct (Forall2_nth _ _ _ _ _ Hf2 Hpa) as [y [Hy Hny]]. rewrite Hn in Hny. inversion Hny; subst. auto.
    Qed.
  End Gate.
End Proofs.
