(* End-to-end refinement for the remaining handlers (MKCOL, MKCALENDAR, PROPPATCH) and for a whole request as
   dispatched by H.handle: the gate's home creation followed by the method.  Continues Proofs/ReprE2E.v. *)
From Coq Require Import List NArith Bool Lia.
Import ListNotations.
Require RV.Model.Store RV.Model.Handlers RV.Proofs.StoreLemmas RV.Proofs.HandlersInv.
Require Import RV.Lib.Prog RV.Model.Fs RV.Model.StorageOps RV.Model.Repr RV.Proofs.FsLemmas RV.Proofs.FsInv
  RV.Proofs.C02Units RV.Proofs.C02Final RV.Proofs.ReprProofs RV.Proofs.ReprUnits RV.Proofs.ReprFinal RV.Proofs.ReprE2E.
Open Scope N_scope.

(* a step of the ideal store is either no change or served by one storage operation *)
Definition step_ok (sigma sigma' : ST.store) (s : fs) : Prop := sigma' = sigma \/ served sigma sigma' s.

Lemma root_resolves : forall sigma, HI.store_inv sigma -> ST.resolve sigma [] <> ST.NNothing.
Proof.
  intros sigma (_ & (rc & Hr & _) & _). unfold ST.resolve. rewrite Hr. discriminate.
Qed.

(* creation of an empty collection at an absent path whose parent is a collection *)
Lemma served_new_coll : forall s sigma p pc tg props,
  R s sigma -> HI.store_inv sigma -> fs_inv_weak s ->
  ST.resolve sigma p = ST.NNothing -> ST.resolve sigma (ST.parent p) = ST.NColl pc ->
  served sigma (ST.set_coll sigma p (ST.mkColl tg props [])) s.
Proof.
  intros s sigma p pc tg props HR Hinv Hfs Hn Hpar.
  assert (Hne : p <> []) by (intros ->; apply (root_resolves sigma Hinv); exact Hn).
  apply HI.resolve_coll in Hpar. pose proof (HI.resolve_nothing_lookup _ _ Hn) as Hl.
  pose proof (spath_split p Hne) as Hp.
  exists (UCreate (fp p) None (pcode tg props)). intros lay o.
  rewrite Hp. eapply refine_mkcoll; eauto. rewrite <- Hp. exact Hl.
Qed.

Lemma e2e_mkcol : forall pol s sigma p x sigma' resp,
  R s sigma -> HI.store_inv sigma -> fs_inv_weak s ->
  H.do_mkcol pol sigma p x = (sigma', resp) -> step_ok sigma sigma' s.
Proof.
  intros pol s sigma p x sigma' resp HR Hinv Hfs Hm. unfold H.do_mkcol in Hm.
  repeat (match type of Hm with context [match ?y with _ => _ end] => destruct y eqn:? end;
          try (inversion Hm; subst; left; reflexivity)).
  all: inversion Hm; subst; clear Hm; right; eapply served_new_coll; eauto.
Qed.

Lemma e2e_mkcalendar : forall pol s sigma p x sigma' resp,
  R s sigma -> HI.store_inv sigma -> fs_inv_weak s ->
  H.do_mkcalendar pol sigma p x = (sigma', resp) -> step_ok sigma sigma' s.
Proof.
  intros pol s sigma p x sigma' resp HR Hinv Hfs Hm. unfold H.do_mkcalendar in Hm.
  repeat (match type of Hm with context [match ?y with _ => _ end] => destruct y eqn:? end;
          try (inversion Hm; subst; left; reflexivity)).
  all: inversion Hm; subst; clear Hm; right; eapply served_new_coll; eauto.
Qed.

Lemma served_props : forall s sigma p c props',
  R s sigma -> HI.store_inv sigma -> fs_inv_weak s -> ST.lookup sigma p = Some c ->
  served sigma (ST.set_coll sigma p (ST.mkColl (ST.c_tag c) props' (ST.c_items c))) s.
Proof.
  intros s sigma p c props' HR Hinv Hfs Hl.
  exists (USetMeta (fp p) (pcode (ST.c_tag c) props')). intros lay o. eapply refine_proppatch; eauto.
Qed.

Lemma e2e_proppatch : forall pol s sigma p x sigma' resp,
  R s sigma -> HI.store_inv sigma -> fs_inv_weak s ->
  H.do_proppatch pol sigma p x = (sigma', resp) -> step_ok sigma sigma' s.
Proof.
  intros pol s sigma p x sigma' resp HR Hinv Hfs Hm. unfold H.do_proppatch in Hm.
  repeat (match type of Hm with context [match ?y with _ => _ end] => destruct y eqn:? end;
          try (inversion Hm; subst; left; reflexivity)).
  all: inversion Hm; subst; clear Hm; right.
  all: match goal with Hres : ST.resolve _ _ = ST.NColl ?c |- _ => apply HI.resolve_coll in Hres end.
  all: try (eapply served_props; eauto; fail).
  all: match goal with Hl : ST.lookup _ _ = Some ?c |- _ =>
         destruct c as [t0 pr0 it0]; apply (served_props _ _ _ (ST.mkColl t0 pr0 it0) pr0); auto end.
Qed.

(* the three handlers of ReprE2E.v in the same shape *)
Lemma e2e_put' : forall cfg pol s sigma p ct b im inm sigma' resp,
  R s sigma -> HI.store_inv sigma -> fs_inv_weak s ->
  H.do_put cfg pol sigma p ct b im inm = (sigma', resp) -> step_ok sigma sigma' s.
Proof.
  intros cfg pol s sigma p ct b im inm sigma' resp HR Hinv Hfs Hput.
  destruct (HI.do_put_uo cfg pol sigma p ct b im inm) as [Hu | Hok]; rewrite Hput in *; cbn [fst snd] in *.
  - left. exact Hu.
  - right. eapply e2e_put; eauto.
Qed.

Lemma e2e_move' : forall pol s sigma p dr dout to ow sigma' resp,
  R s sigma -> HI.store_inv sigma -> fs_inv_weak s -> p <> to ->
  H.do_move pol sigma p dr dout to ow = (sigma', resp) -> step_ok sigma sigma' s.
Proof.
  intros pol s sigma p dr dout to ow sigma' resp HR Hinv Hfs Hne Hm.
  destruct (HI.do_move_uo pol sigma p dr dout to ow) as [Hu | Hok]; rewrite Hm in *; cbn [fst snd] in *.
  - left. exact Hu.
  - right. eapply e2e_move; eauto.
Qed.

Lemma e2e_delete' : forall cfg pol s sigma p im sigma' resp,
  R s sigma -> HI.store_inv sigma -> fs_inv_weak s -> p <> [] ->
  H.do_delete cfg pol sigma p im = (sigma', resp) -> step_ok sigma sigma' s.
Proof.
  intros cfg pol s sigma p im sigma' resp HR Hinv Hfs Hne Hd.
  destruct (HI.do_delete_uo cfg pol sigma p im) as [Hu | Hok]; rewrite Hd in *; cbn [fst snd] in *.
  - left. exact Hu.
  - right. eapply e2e_delete; eauto.
Qed.

(* requests outside the two exclusions: DELETE of the root collection, MOVE of a path onto itself *)
Definition covered (r : H.request) : Prop :=
  match r with
  | H.RDelete p _ => p <> []
  | H.RMove p _ to _ => p <> to
  | _ => True
  end.

(* A whole request: the gate first creates the user's home when it is missing and permitted (one storage operation
   or none), then the method runs on the resulting store (one storage operation or none).  Both stages refine:
   from every tree representing the store before the stage, under every fault oracle, the operation ends in a
   tree representing the store before or after the stage, and after it on a normal end. *)
Theorem handle_refines : forall cfg pol user s sigma r sigma' resp,
  R s sigma -> HI.store_inv sigma -> fs_inv_weak s -> covered r ->
  H.handle cfg pol user sigma r = (sigma', resp) ->
  let sigma1 := H.ensure_home pol sigma user in
  step_ok sigma sigma1 s /\
  HI.store_inv sigma1 /\
  (forall s1, R s1 sigma1 -> fs_inv_weak s1 -> step_ok sigma1 sigma' s1) /\
  HI.store_inv sigma'.
Proof.
  intros cfg pol user s sigma r sigma' resp HR Hinv Hfs Hcov Hh sigma1.
  assert (Hinv1 : HI.store_inv sigma1) by (apply HI.ensure_home_inv; exact Hinv).
  split; [destruct (e2e_home pol s sigma user HR Hinv Hfs) as [He | Hs]; [left; exact He | right; exact Hs]|].
  split; [exact Hinv1|].
  split.
  - intros s1 HR1 Hfs1. unfold H.handle in Hh. fold sigma1 in Hh.
    destruct r; cbn [covered] in Hcov.
    + eapply e2e_put'; eauto.
    + eapply e2e_delete'; eauto.
    + eapply e2e_move'; eauto.
    + eapply e2e_mkcol; eauto.
    + eapply e2e_mkcalendar; eauto.
    + eapply e2e_proppatch; eauto.
    + inversion Hh; subst. left. reflexivity.
    + inversion Hh; subst. left. reflexivity.
    + inversion Hh; subst. left. reflexivity.
    + inversion Hh; subst. left. reflexivity.
  - pose proof (HI.handle_inv cfg pol user sigma r Hinv) as Hi. rewrite Hh in Hi. exact Hi.
Qed.
