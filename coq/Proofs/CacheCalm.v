(* The cache / history side effects of the storage operations never disturb an invariant J that is
   preserved by every step outside the client-visible paths.  Shared by C02 (J: same visible store,
   weak invariant) and C12 (J: the durability monitor is clean).  "calm J p": J holds at every end of p
   (normal, exceptional, killed), whatever fails. *)
From Coq Require Import List NArith Bool Lia PeanoNat.
Import ListNotations.
Require Import RV.Lib.Prog RV.Model.Fs RV.Model.StorageOps RV.Proofs.ProgLemmas RV.Proofs.FsLemmas.
Open Scope N_scope.

Definition asrt := assertion step fs.
Definition calm (J : asrt) (p : P) : Prop := forall s t, J s t -> machine_wp p J (fun _ => J) J s t.

Lemma calm_intro : forall (J : asrt) p, (forall s t, J s t -> machine_wp p J (fun _ => J) J s t) -> calm J p.
Proof. intros J p H. exact H. Qed.
Lemma calm_elim : forall (J : asrt) p, calm J p -> forall s t, J s t -> machine_wp p J (fun _ => J) J s t.
Proof. intros J p H. exact H. Qed.

Lemma calm_ret : forall J, calm J Ret.
Proof. intros J. apply calm_intro. intros s t H. exact H. Qed.
Lemma calm_raise : forall J e, calm J (Raise e).
Proof. intros J e. apply calm_intro. intros s t H. exact H. Qed.
Lemma calm_seq : forall J p q, calm J p -> calm J q -> calm J (Seq p q).
Proof.
  intros J p q Hp Hq. apply calm_intro. intros s t H. unfold machine_wp. cbn [wp].
  eapply wp_mono; [ | | | apply (Hp s t H) ]; cbn beta; auto.
Qed.
Lemma calm_catch : forall J p h, calm J p -> (forall e, calm J (h e)) -> calm J (Catch p h).
Proof.
  intros J p h Hp Hh. apply calm_intro. intros s t H. unfold machine_wp. cbn [wp].
  eapply wp_mono; [ | | | apply (Hp s t H) ]; cbn beta; auto.
  all: try (intros e s' t' H'; apply (calm_elim _ _ (Hh e)); exact H').
Qed.
Lemma calm_read : forall J pa k, (forall r, calm J (k r)) -> calm J (Read pa k).
Proof. intros J pa k Hk. apply calm_intro. intros s t H. unfold machine_wp. cbn [wp]. apply (calm_elim _ _ (Hk _)). exact H. Qed.
Lemma calm_ls : forall J pa k, (forall r, calm J (k r)) -> calm J (Ls pa k).
Proof. intros J pa k Hk. apply calm_intro. intros s t H. unfold machine_wp. cbn [wp]. apply (calm_elim _ _ (Hk _)). exact H. Qed.
Lemma calm_fresh : forall J k, (forall id, calm J (k id)) -> calm J (Fresh k).
Proof. intros J k Hk. apply calm_intro. intros s t H. unfold machine_wp. cbn [wp]. intro id. apply (calm_elim _ _ (Hk _)). exact H. Qed.
Lemma calm_seqs : forall J l, Forall (calm J) l -> calm J (seqs l).
Proof.
  intros J l H. induction H as [|p l Hp Hl IH]; [apply calm_ret|].
  destruct l as [|q l]; [exact Hp|]. cbn [seqs]. apply calm_seq; [exact Hp | exact IH].
Qed.
Lemma calm_finally : forall J p c, calm J p -> calm J c -> calm J (Finally p c).
Proof.
  intros J p c Hp Hc. unfold Finally. apply calm_seq; [|exact Hc].
  apply calm_catch; [exact Hp|]. intro e. apply calm_seq; [exact Hc | apply calm_raise].
Qed.

Global Opaque calm.

Ltac forall_split := repeat match goal with |- Forall _ (_ :: _) => apply Forall_cons | |- Forall _ [] => apply Forall_nil end.

Section Calm.
  Variable J : asrt.
  (* J survives every successful step that leaves the visible paths alone, and every failed step *)
  Hypothesis J_ok : forall st s s' t, nondata_step st = true -> J s t -> apply st s = inl s' -> J s' (t ++ [(st, true)]).
  Hypothesis J_fail : forall st s t, J s t -> J s (t ++ [(st, false)]).

  Lemma calm_try : forall st kok kerr, nondata_step st = true -> calm J kok -> (forall e, calm J (kerr e)) ->
    calm J (Try st kok kerr).
  Proof.
    intros st kok kerr Hnd Hok Herr. apply calm_intro. intros s t H. unfold machine_wp. cbn [wp]. split; [exact H|]. split.
    - intro e. apply (calm_elim _ _ (Herr e)). apply J_fail. exact H.
    - intros s' Hs'. apply (calm_elim _ _ Hok). eapply J_ok; eauto.
  Qed.

  Lemma calm_do : forall st, nondata_step st = true -> calm J (Do st).
  Proof. intros st H. unfold Do. apply calm_try; [exact H | apply calm_ret | intro e; apply calm_raise]. Qed.
  Lemma calm_fsyncD : forall q, calm J (fsyncD q).
  Proof. intro q. unfold fsyncD. apply calm_try; [reflexivity | apply calm_ret | intro e; apply calm_raise]. Qed.
  Lemma calm_fsyncF : forall q, calm J (fsyncF q).
  Proof. intro q. unfold fsyncF. apply calm_try; [reflexivity | apply calm_ret | intro e; apply calm_raise]. Qed.

  Lemma calm_suppress : forall p, calm J p -> calm J (suppress_perm p).
  Proof.
    intros p Hp. unfold suppress_perm. apply calm_catch; [exact Hp|].
    intros [[]| |]; cbn; match goal with |- calm _ Ret => apply calm_ret | |- calm _ (Raise _) => apply calm_raise end.
  Qed.

  Lemma nd_tmp : forall d k r, nd_path (d ++ Tmp k :: r) = true.
  Proof. intros. unfold nd_path. rewrite is_data_tmp. destruct d; reflexivity. Qed.

  (* _atomic_write into a directory d whose entries are not client-visible *)
  Lemma calm_AW : forall d x v, nd_path (d ++ [x]) = true -> calm J (AW d x v).
  Proof.
    intros d x v Hnd. unfold AW, with_tmp. apply calm_seq; [|apply calm_fsyncD].
    apply calm_fresh. intro k.
    assert (Ht : nd_path (d ++ [Tmp k]) = true) by apply nd_tmp.
    assert (Htx : nd_path ((d ++ [Tmp k]) ++ [x]) = true) by (rewrite <- app_assoc; apply nd_tmp).
    apply calm_seq; [apply calm_do; exact Ht|].
    apply calm_finally; [|apply calm_do; exact Ht].
    apply calm_seqs. forall_split.
    - apply calm_do. exact Htx.
    - apply calm_do. exact Htx.
    - apply calm_fsyncF.
    - apply calm_do. cbn [nondata_step]. rewrite Htx, Hnd. reflexivity.
  Qed.

  Lemma calm_clean_list : forall d l m, (forall x, nd_path (d ++ [x]) = true) -> calm J (clean_list d l m).
  Proof.
    intros d l. induction l as [|x l IH]; intros m Hd; cbn [clean_list].
    - destruct m; [apply calm_fsyncD | apply calm_ret].
    - apply calm_try; [apply Hd | apply IH; exact Hd |].
      intro e. destruct e; cbn; match goal with |- calm _ (Raise _) => apply calm_raise | _ => apply IH; exact Hd end.
  Qed.

  (* the cache folder of collection c for sub-folder sub, and everything in it, is never client-visible *)
  Lemma cache_dir_shape : forall lay sub c, exists a, cache_dir lay sub c = a ++ [Cache; sub].
  Proof. intros. unfold cache_dir. eexists. reflexivity. Qed.

  Lemma nd_cache : forall lay sub c r, nd_path (cache_dir lay sub c ++ r) = true.
  Proof.
    intros. destruct (cache_dir_shape lay sub c) as [a ->]. unfold nd_path.
    rewrite <- app_assoc. cbn [app]. rewrite is_data_cache. destruct a; reflexivity.
  Qed.
  Lemma nd_cache0 : forall lay sub c, nd_path (cache_dir lay sub c) = true.
  Proof. intros. rewrite <- (app_nil_r (cache_dir lay sub c)). apply nd_cache. Qed.

  (* all levels of the path are invisible (the separate cache area) *)
  Lemma calm_md_rev_nd : forall rp, (forall k, nd_path (rev (skipn k rp)) = true \/ skipn k rp = []) -> calm J (md_rev rp).
  Proof.
    induction rp as [|x rest IH]; intro Hnd; cbn [md_rev]; [apply calm_ret|].
    apply calm_read. intros [[|v]|]; try apply calm_ret;
      (apply calm_seqs; forall_split;
       [ apply IH; intro k; apply (Hnd (S k))
       | apply calm_do; destruct (Hnd 0%nat) as [H|H]; [exact H | discriminate]
       | apply calm_fsyncD ]).
  Qed.

  Section Coll.
    Variable c : path.
    (* the collection exists as long as J holds *)
    Hypothesis J_dir : forall s t, J s t -> look s c = Some D.
    Hypothesis c_ne : c <> [].

    Lemma md_rev_existing : calm J (md_rev (rev c)).
    Proof.
      apply calm_intro. intros s t H. destruct (path_snoc_cases c) as [->|[q [x Hc]]]; [congruence|].
      rewrite Hc. rewrite rev_app_distr. cbn [rev app md_rev]. unfold machine_wp. cbn [wp].
      rewrite rev_involutive. rewrite <- Hc.
      rewrite (J_dir s t H). exact H.
    Qed.

    (* _makedirs_synced of a cache folder below an existing collection: at most two new, invisible levels *)
    Lemma calm_MD_below : forall sub, calm J (MD (c ++ [Cache; sub])).
    Proof.
      intros sub. unfold MD. rewrite rev_app_distr. cbn [rev app md_rev].
      rewrite rev_involutive.
      assert (N1 : nd_path ((c ++ [Cache]) ++ [sub]) = true).
      { unfold nd_path. rewrite <- app_assoc. cbn [app]. rewrite is_data_cache. destruct c; [congruence | reflexivity]. }
      assert (N2 : nd_path (c ++ [Cache]) = true).
      { unfold nd_path. rewrite is_data_cache. destruct c; [congruence | reflexivity]. }
      apply calm_read. intros [[|v]|]; try apply calm_ret;
        (apply calm_seqs; forall_split;
         [ apply calm_read; intros [[|v']|]; try apply calm_ret;
           (apply calm_seqs; forall_split;
            [ apply md_rev_existing | apply calm_do; exact N2 | apply calm_fsyncD ])
         | apply calm_do; exact N1 | apply calm_fsyncD ]).
    Qed.

    Hypothesis c_data : is_data c = true.

    Lemma rev_skipn_prefix : forall (p : path) k, exists r, p = rev (skipn k (rev p)) ++ r.
    Proof.
      intros p k. exists (rev (firstn k (rev p))).
      rewrite <- rev_app_distr, firstn_skipn, rev_involutive. reflexivity.
    Qed.

    Lemma calm_MD_cache : forall lay sub, calm J (MD (cache_dir lay sub c)).
    Proof.
      intros lay sub. unfold cache_dir.
      destruct (match sub with CItem => l_item lay | CHist => l_hist lay | _ => false end); [|apply calm_MD_below].
      destruct c as [|x r] eqn:Ec; [congruence|]. cbn in c_data. destruct x; try discriminate.
      unfold MD. apply calm_md_rev_nd. intro k.
      destruct (rev_skipn_prefix ((CRoot :: r) ++ [Cache; sub]) k) as [r' Hr'].
      destruct (rev (skipn k (rev ((CRoot :: r) ++ [Cache; sub])))) as [|y q] eqn:Eq.
      - right. apply (f_equal (@rev name)) in Eq. rewrite rev_involutive in Eq. exact Eq.
      - left. cbn in Hr'. inversion Hr'; subst y. reflexivity.
    Qed.

    Lemma calm_store_cache : forall lay x v, calm J (store_cache lay c x v).
    Proof.
      intros. unfold store_cache. apply calm_seq; [apply calm_MD_cache|].
      apply calm_suppress. apply calm_AW. apply nd_cache.
    Qed.

    Lemma calm_update_history : forall lay x ov, calm J (update_history lay c x ov).
    Proof.
      intros. unfold update_history. apply calm_read. intro n.
      match goal with |- calm _ (if ?b then _ else _) => destruct b end; [apply calm_ret|].
      apply calm_seq; [apply calm_MD_cache|]. apply calm_suppress. apply calm_AW. apply nd_cache.
    Qed.

    Lemma calm_clean_history : forall lay exp, calm J (clean_history lay c exp).
    Proof. intros. unfold clean_history. apply calm_clean_list. intro x. apply nd_cache. Qed.

    Lemma calm_stale_names : forall qs k, (forall l, calm J (k l)) -> calm J (stale_names c qs k).
    Proof.
      induction qs as [|q qs IH]; intros k Hk; cbn [stale_names]; [apply Hk|].
      apply calm_read. intros [[|v]|]; try (apply IH; exact Hk);
        (destruct (is_safe (last_name q)); apply IH; intro l; apply Hk).
    Qed.

    Lemma calm_clean_item_cache : forall lay, calm J (clean_item_cache lay c).
    Proof.
      intros. unfold clean_item_cache. apply calm_read. intros [[|v]|]; try apply calm_raise.
      apply calm_ls. intro qs. apply calm_stale_names.
      intro l. apply calm_clean_list. intro x. apply nd_cache.
    Qed.

    Lemma calm_get_many : forall lay xs cleaned, calm J (get_many lay c xs cleaned).
    Proof.
      intros lay xs. induction xs as [|x xs IH]; intro cleaned; cbn [get_many]; [apply calm_ret|].
      assert (Hmiss : forall v, calm J (seqs [Catch (store_cache lay c x v) os_ignored;
                                               (if cleaned then Ret else clean_item_cache lay c); get_many lay c xs true])).
      { intro v. apply calm_seqs. forall_split.
        - apply calm_catch; [apply calm_store_cache | intros [e| |]; cbn [os_ignored]; first [apply calm_ret | apply calm_raise]].
        - destruct cleaned; [apply calm_ret | apply calm_clean_item_cache].
        - apply IH. }
      apply calm_read. intros [[|v]|]; try apply IH.
      apply calm_read. intros [[|cv]|]; try apply Hmiss.
      destruct (N.eqb cv (cache_code v)); [apply IH | apply Hmiss].
    Qed.

    Lemma calm_get_target : forall lay x, calm J (get_target lay c x).
    Proof. intros lay x. unfold get_target. apply calm_get_many. Qed.
  End Coll.

End Calm.

(* The same rules for an invariant J that is only known to survive the steps of a class qs
   (used inside the staging directory of create_collection, where J also tracks the staged files). *)
Section CalmQ.
  Variable J : asrt.
  Variable qs : step -> Prop.
  Hypothesis J_okq : forall st s s' t, qs st -> J s t -> apply st s = inl s' -> J s' (t ++ [(st, true)]).
  Hypothesis J_failq : forall st s t, J s t -> J s (t ++ [(st, false)]).
  Hypothesis qs_fsyncD : forall q, qs (FsyncD q).
  Hypothesis qs_fsyncF : forall q, qs (FsyncF q).

  Lemma calm_try_q : forall st kok kerr, qs st -> calm J kok -> (forall e, calm J (kerr e)) -> calm J (Try st kok kerr).
  Proof.
    intros st kok kerr Hq Hok Herr. apply calm_intro. intros s t H. unfold machine_wp. cbn [wp]. split; [exact H|]. split.
    - intro e. apply (calm_elim _ _ (Herr e)). apply J_failq. exact H.
    - intros s' Hs'. apply (calm_elim _ _ Hok). eapply J_okq; eauto.
  Qed.
  Lemma calm_do_q : forall st, qs st -> calm J (Do st).
  Proof. intros st H. unfold Do. apply calm_try_q; [exact H | apply calm_ret | intro e; apply calm_raise]. Qed.
  Lemma calm_fsyncD_q : forall q, calm J (fsyncD q).
  Proof. intro q. unfold fsyncD. apply calm_try_q; [apply qs_fsyncD | apply calm_ret | intro e; apply calm_raise]. Qed.
  Lemma calm_fsyncF_q : forall q, calm J (fsyncF q).
  Proof. intro q. unfold fsyncF. apply calm_try_q; [apply qs_fsyncF | apply calm_ret | intro e; apply calm_raise]. Qed.

  Lemma calm_MD_below_q : forall c sub, c <> [] -> (forall s t, J s t -> look s c = Some D) ->
    qs (Mkdir (c ++ [Cache])) -> qs (Mkdir ((c ++ [Cache]) ++ [sub])) -> calm J (MD (c ++ [Cache; sub])).
  Proof.
    intros c sub c_ne J_dir Q1 Q2. unfold MD. rewrite rev_app_distr. cbn [rev app md_rev]. rewrite rev_involutive.
    assert (Hex : calm J (md_rev (rev c))).
    { apply calm_intro. intros s t H. destruct (path_snoc_cases c) as [->|[q [x Hc]]]; [congruence|].
      rewrite Hc. rewrite rev_app_distr. cbn [rev app md_rev]. unfold machine_wp. cbn [wp].
      rewrite rev_involutive. rewrite <- Hc. rewrite (J_dir s t H). exact H. }
    apply calm_read. intros [[|v]|]; try apply calm_ret;
      (apply calm_seqs; forall_split;
       [ apply calm_read; intros [[|v']|]; try apply calm_ret;
         (apply calm_seqs; forall_split; [ exact Hex | apply calm_do_q; exact Q1 | apply calm_fsyncD_q ])
       | apply calm_do_q; exact Q2 | apply calm_fsyncD_q ]).
  Qed.

  Lemma calm_md_rev_q : forall rp, (forall k, qs (Mkdir (rev (skipn k rp))) \/ skipn k rp = []) -> calm J (md_rev rp).
  Proof.
    induction rp as [|x rest IH]; intro Hq; cbn [md_rev]; [apply calm_ret|].
    apply calm_read. intros [[|v]|]; try apply calm_ret;
      (apply calm_seqs; forall_split;
       [ apply IH; intro k; apply (Hq (S k))
       | apply calm_do_q; destruct (Hq 0%nat) as [H|H]; [exact H | discriminate]
       | apply calm_fsyncD_q ]).
  Qed.
End CalmQ.
