(* Algebra of the ideal store (Model/Store.v): lookup / set_coll / del_subtree / assoc *)
From Coq Require Import List NArith Bool Lia.
Import ListNotations.
Require Import RV.Model.Store.
Open Scope N_scope.

Lemma path_eqb_refl : forall p, path_eqb p p = true.
Proof. induction p as [|x p IH]; cbn; [reflexivity|]. rewrite N.eqb_refl. exact IH. Qed.

Lemma path_eqb_eq : forall a b, path_eqb a b = true <-> a = b.
Proof.
  induction a as [|x a IH]; destruct b as [|y b]; cbn; split; intros H; try congruence; try discriminate.
  - apply andb_true_iff in H as [H1 H2]. apply N.eqb_eq in H1. apply IH in H2. congruence.
  - inversion H; subst. rewrite N.eqb_refl. apply IH. reflexivity.
Qed.

Lemma path_eqb_neq : forall a b, path_eqb a b = false <-> a <> b.
Proof.
  intros a b. split.
  - intros H E. apply path_eqb_eq in E. congruence.
  - intros H. destruct (path_eqb a b) eqn:E; [apply path_eqb_eq in E; contradiction|reflexivity].
Qed.

Lemma path_eqb_sym : forall a b, path_eqb a b = path_eqb b a.
Proof.
  intros a b. destruct (path_eqb a b) eqn:E.
  - apply path_eqb_eq in E. subst. symmetry. apply path_eqb_refl.
  - symmetry. apply path_eqb_neq. apply path_eqb_neq in E. congruence.
Qed.

Lemma is_prefix_refl : forall p, is_prefix p p = true.
Proof. induction p as [|x p IH]; cbn; [reflexivity|]. rewrite N.eqb_refl. exact IH. Qed.

Lemma is_prefix_spec : forall a b, is_prefix a b = true <-> exists r, b = a ++ r.
Proof.
  induction a as [|x a IH]; intros b; cbn.
  - split; [intros _; exists b; reflexivity|reflexivity].
  - destruct b as [|y b]; [split; [discriminate|intros [r H]; discriminate]|].
    rewrite andb_true_iff, N.eqb_eq, IH. split.
    + intros [-> [r ->]]. exists r. reflexivity.
    + intros [r H]. inversion H; subst. split; [reflexivity|exists r; reflexivity].
Qed.

(* ---- lookup / set_coll ---- *)
Lemma lookup_set_same : forall s p c, lookup (set_coll s p c) p = Some c.
Proof.
  induction s as [|[q c'] s IH]; intros p c; cbn.
  - rewrite path_eqb_refl. reflexivity.
  - destruct (path_eqb q p) eqn:E; cbn.
    + rewrite path_eqb_refl. reflexivity.
    + rewrite E. apply IH.
Qed.

Lemma lookup_set_other : forall s p c q, p <> q -> lookup (set_coll s p c) q = lookup s q.
Proof.
  induction s as [|[r c'] s IH]; intros p c q Hne; cbn.
  - apply path_eqb_neq in Hne. rewrite Hne. reflexivity.
  - destruct (path_eqb r p) eqn:E; cbn.
    + apply path_eqb_eq in E. subst r. apply path_eqb_neq in Hne. rewrite Hne. reflexivity.
    + destruct (path_eqb r q); [reflexivity|]. apply IH. exact Hne.
Qed.

Lemma lookup_set : forall s p c q,
  lookup (set_coll s p c) q = if path_eqb p q then Some c else lookup s q.
Proof.
  intros s p c q. destruct (path_eqb p q) eqn:E.
  - apply path_eqb_eq in E. subst. apply lookup_set_same.
  - apply lookup_set_other. apply path_eqb_neq. exact E.
Qed.

Lemma lookup_del_subtree : forall s p q,
  lookup (del_subtree s p) q = if is_prefix p q then None else lookup s q.
Proof.
  unfold del_subtree. induction s as [|[r c] s IH]; intros p q; cbn [filter lookup fst].
  - destruct (is_prefix p q); reflexivity.
  - destruct (is_prefix p r) eqn:Epr; cbn [negb lookup].
    + rewrite IH. destruct (is_prefix p q) eqn:Epq; [reflexivity|].
      destruct (path_eqb r q) eqn:E; [|reflexivity].
      apply path_eqb_eq in E. subst. congruence.
    + destruct (path_eqb r q) eqn:E.
      * apply path_eqb_eq in E. subst. rewrite Epr. reflexivity.
      * apply IH.
Qed.

Lemma lookup_In : forall s p c, lookup s p = Some c -> In (p, c) s.
Proof.
  induction s as [|[q c'] s IH]; intros p c H; cbn in H; [discriminate|].
  destruct (path_eqb q p) eqn:E.
  - apply path_eqb_eq in E. inversion H; subst. left. reflexivity.
  - right. apply IH. exact H.
Qed.

Lemma In_lookup : forall s p c, NoDup (map fst s) -> In (p, c) s -> lookup s p = Some c.
Proof.
  induction s as [|[q c'] s IH]; intros p c Hnd Hin; [contradiction|].
  cbn in *. inversion Hnd as [|? ? Hni Hnd']; subst. destruct Hin as [Heq|Hin].
  - inversion Heq; subst. rewrite path_eqb_refl. reflexivity.
  - destruct (path_eqb q p) eqn:E.
    + apply path_eqb_eq in E. subst. exfalso. apply Hni. apply (in_map fst) in Hin. exact Hin.
    + apply IH; assumption.
Qed.

Lemma set_coll_keys : forall s p c q, In q (map fst (set_coll s p c)) <-> q = p \/ In q (map fst s).
Proof.
  induction s as [|[r c'] s IH]; intros p c q; cbn.
  - intuition congruence.
  - destruct (path_eqb r p) eqn:E; cbn.
    + apply path_eqb_eq in E. subst. intuition congruence.
    + rewrite IH. intuition congruence.
Qed.

Lemma set_coll_NoDup : forall s p c, NoDup (map fst s) -> NoDup (map fst (set_coll s p c)).
Proof.
  induction s as [|[r c'] s IH]; intros p c H; cbn.
  - constructor; [intros []|constructor].
  - inversion H as [|? ? Hni Hnd]; subst. destruct (path_eqb r p) eqn:E; cbn.
    + apply path_eqb_eq in E. subst. constructor; assumption.
    + constructor; [|apply IH; exact Hnd].
      intros Hin. apply set_coll_keys in Hin. destruct Hin as [->|Hin]; [|contradiction].
      rewrite path_eqb_refl in E. discriminate.
Qed.

Lemma del_subtree_NoDup : forall s p, NoDup (map fst s) -> NoDup (map fst (del_subtree s p)).
Proof.
  unfold del_subtree. induction s as [|[r c] s IH]; intros p H; cbn [filter map fst]; [constructor|].
  inversion H as [|? ? Hni Hnd]; subst. destruct (is_prefix p r); cbn [negb map fst]; [apply IH; exact Hnd|].
  constructor; [|apply IH; exact Hnd].
  intros Hin. apply Hni. apply in_map_iff in Hin as [[q c'] [Hq Hin]].
  apply filter_In in Hin as [Hin _]. cbn in Hq. subst. apply (in_map fst) in Hin. exact Hin.
Qed.

(* ---- assoc lists (items, props) ---- *)
Lemma assoc_set_same : forall {A} (l : list (N * A)) k v, assoc (assoc_set l k v) k = Some v.
Proof.
  induction l as [|[k' v'] l IH]; intros k v; cbn.
  - rewrite N.eqb_refl. reflexivity.
  - destruct (N.eqb k' k) eqn:E; cbn; [rewrite N.eqb_refl; reflexivity|rewrite E; apply IH].
Qed.

Lemma assoc_set_other : forall {A} (l : list (N * A)) k v k', k <> k' -> assoc (assoc_set l k v) k' = assoc l k'.
Proof.
  induction l as [|[k0 v0] l IH]; intros k v k' Hne; cbn.
  - apply N.eqb_neq in Hne. rewrite Hne. reflexivity.
  - destruct (N.eqb k0 k) eqn:E; cbn.
    + apply N.eqb_eq in E. subst. apply N.eqb_neq in Hne. rewrite Hne. reflexivity.
    + destruct (N.eqb k0 k'); [reflexivity|]. apply IH. exact Hne.
Qed.

Lemma assoc_del_same : forall {A} (l : list (N * A)) k, assoc (assoc_del l k) k = None.
Proof.
  induction l as [|[k' v'] l IH]; intros k; cbn; [reflexivity|].
  destruct (N.eqb k' k) eqn:E; cbn; [apply IH|rewrite E; apply IH].
Qed.

Lemma assoc_del_other : forall {A} (l : list (N * A)) k k', k <> k' -> assoc (assoc_del l k) k' = assoc l k'.
Proof.
  induction l as [|[k0 v0] l IH]; intros k k' Hne; cbn; [reflexivity|].
  destruct (N.eqb k0 k) eqn:E; cbn.
  - apply N.eqb_eq in E. subst. apply N.eqb_neq in Hne. rewrite Hne. apply IH. apply N.eqb_neq. exact Hne.
  - destruct (N.eqb k0 k'); [reflexivity|]. apply IH. exact Hne.
Qed.
