(* C02, part 2: the ideal effect of each storage operation on the client-visible store, and the proof that
   under EVERY fault oracle (any steps failing, the process killed anywhere) the visible store is either
   untouched or shows exactly that effect; a normal end means the effect took place. *)
From Coq Require Import List NArith Bool Lia PeanoNat.
Import ListNotations.
Require Import RV.Lib.Prog RV.Model.Fs RV.Model.StorageOps RV.Proofs.ProgLemmas RV.Proofs.FsLemmas
  RV.Proofs.FsInv RV.Proofs.CacheCalm RV.Proofs.C12Units RV.Proofs.C12Units2 RV.Proofs.C02Base.
Open Scope N_scope.
Local Transparent machine_wp.

Definition data (q : path) : Prop := is_data q = true.
(* the visible store of s' is given by f *)
Definition dpost (f : path -> option node) (s' : fs) : Prop := forall q, data q -> look s' q = f q.

Lemma dpost_abs : forall f s1 s', dpost f s1 -> abs_eq s' s1 -> dpost f s'.
Proof. intros f s1 s' H Ha q Hq. rewrite (Ha q Hq). apply H. exact Hq. Qed.

(* whole-collection content staged by create_collection: the props file and the items, later items win *)
Definition stage0 (pv : N) (r : path) : option node :=
  match r with [] => Some D | [Props] => Some (F pv) | _ => None end.
Definition stage_put (M : path -> option node) (it : name * N) (r : path) : option node :=
  if path_eqb r [fst it] then Some (F (snd it)) else M r.
Definition stage (its : list (name * N)) (pv : N) : path -> option node := fold_left stage_put its (stage0 pv).

(* ideal effect on the visible store *)
Definition ideal (u : unit_op) (s0 : fs) (q : path) : option node :=
  match u with
  | UUpload c h v _ => if path_eqb q (c ++ [h]) then Some (F v) else if prefix (c ++ [h]) q then None else look s0 q
  | USetMeta c pv => if path_eqb q (c ++ [Props]) then Some (F pv) else if prefix (c ++ [Props]) q then None else look s0 q
  | UDeleteItem c h _ => if prefix (c ++ [h]) q then None else look s0 q
  | UDeleteColl c => if prefix c q then None else look s0 q
  | UMove c h c' h' _ _ _ => if prefix (c' ++ [h']) q then look s0 ((c ++ [h]) ++ strip (c' ++ [h']) q)
                             else if prefix (c ++ [h]) q then None else look s0 q
  | UMkdir p => if path_eqb q p then Some D else look s0 q
  | UCreate p items pv => if prefix p q then stage (match items with Some its => its | None => [] end) pv (strip p q) else look s0 q
  end.

Definition AFT (u : unit_op) (s0 : fs) : asrt := fun s' _ => fs_inv_weak s' /\ dpost (ideal u s0) s'.
Definition OUT (u : unit_op) (s0 : fs) : asrt := fun s' _ => fs_inv_weak s' /\ (abs_eq s' s0 \/ dpost (ideal u s0) s').

Lemma AFT_OUT : forall u s0 s t, AFT u s0 s t -> OUT u s0 s t.
Proof. intros u s0 s t [H1 H2]. split; auto. Qed.

(* invariant of the cache / history tails: weak invariant, same visible store as s1, collections exist *)
Definition J02 (s1 : fs) (cs : list path) : asrt :=
  fun s _ => fs_inv_weak s /\ abs_eq s s1 /\ forall c, In c cs -> look s c = Some D.

Section J02.
  Variables (s1 : fs) (cs : list path).
  Hypothesis cs_data : forall c, In c cs -> is_data c = true.
  Lemma J02_ok : forall st s s' t, nondata_step st = true -> J02 s1 cs s t -> apply st s = inl s' -> J02 s1 cs s' (t ++ [(st, true)]).
  Proof.
    intros st s s' t Hnd (Hi & Ha & Hd) Hap. split; [eapply apply_inv; eauto|]. split.
    - eapply abs_eq_trans; [eapply nondata_abs; eauto | exact Ha].
    - intros c Hc. rewrite (frame _ _ _ _ Hap); [auto|]. apply nondata_no_touch; auto.
  Qed.
  Lemma J02_fail : forall st s t, J02 s1 cs s t -> J02 s1 cs s (t ++ [(st, false)]).
  Proof. intros st s t H. exact H. Qed.
End J02.

(* a tail that is calm for J02 keeps the outcome "after" *)
Lemma tail_after : forall u s0 s1 cs (p : P) t, calm (J02 s1 cs) p ->
  fs_inv_weak s1 -> dpost (ideal u s0) s1 -> (forall c, In c cs -> look s1 c = Some D) ->
  machine_wp p (AFT u s0) (fun _ => OUT u s0) (OUT u s0) s1 t.
Proof.
  intros u s0 s1 cs p t Hc Hi Hp Hd.
  assert (HJ : J02 s1 cs s1 t) by (split; [exact Hi | split; [apply abs_eq_refl | exact Hd]]).
  assert (Himp : forall s' t', J02 s1 cs s' t' -> AFT u s0 s' t').
  { intros s' t' (Hi' & Ha' & _). split; [exact Hi' | eapply dpost_abs; eauto]. }
  unfold machine_wp. eapply wp_mono; [ | | | apply (calm_elim _ _ Hc s1 t HJ) ]; cbn beta.
  - exact Himp.
  - intros e s' t' H. apply AFT_OUT. apply Himp. exact H.
  - intros s' t' H. apply AFT_OUT. apply Himp. exact H.
Qed.

(* a tail that is calm for J02 started before the change keeps the outcome "before" *)
Lemma tail_before : forall u s0 cs (p : P) s t, calm (J02 s0 cs) p -> J02 s0 cs s t ->
  machine_wp p (J02 s0 cs) (fun _ => OUT u s0) (OUT u s0) s t.
Proof.
  intros u s0 cs p s t Hc HJ.
  assert (Himp : forall s' t', J02 s0 cs s' t' -> OUT u s0 s' t') by (intros s' t' (Hi' & Ha' & _); split; [exact Hi' | left; exact Ha']).
  unfold machine_wp. eapply wp_mono; [ | | | apply (calm_elim _ _ Hc s t HJ) ]; cbn beta; auto.
Qed.

Lemma data_not_tmp : forall d q k, data q -> prefix (d ++ [Tmp k]) q = false.
Proof.
  intros d q k Hq. destruct (prefix (d ++ [Tmp k]) q) eqn:E; [|reflexivity].
  apply prefix_spec in E. destruct E as [r ->]. unfold data in Hq. rewrite <- app_assoc in Hq. cbn in Hq.
  rewrite is_data_tmp in Hq. discriminate.
Qed.

(* _atomic_write of a visible file d/x, with the collections cs (d or ancestors) tracked *)
Lemma aw_unit : forall cs d x v s0, d <> [] -> fs_inv_weak s0 -> (forall c, In c cs -> prefix c d = true) ->
  (forall c, In c cs -> look s0 c = Some D) ->
  forall t, machine_wp (AW d x v)
    (fun s' _ => (fs_inv_weak s' /\ aw_after data d x v s0 s') /\ forall c, In c cs -> look s' c = Some D)
    (fun _ s' _ => fs_inv_weak s' /\ (abs_eq s' s0 \/ aw_after data d x v s0 s'))
    (fun s' _ => fs_inv_weak s' /\ (abs_eq s' s0 \/ aw_after data d x v s0 s')) s0 t.
Proof.
  intros cs d x v s0 Hd Hi Hcs Hdirs t.
  pose proof (aw_c02 data d x v s0 (fun q k Hq => data_not_tmp d q k Hq) s0 t Hi (agree_refl _ _)) as H1.
  pose proof (aw_dirs cs d x v s0 t Hcs Hdirs) as H2.
  unfold machine_wp in *.
  eapply wp_mono; [ | | | apply (wp_conj _ _ _ _ _ _ _ _ _ _ _ _ _ _ _ _ _ H1 H2) ]; cbn beta.
  - intros s' t' [A B]. split; [exact A | exact B].
  - intros e s' t' [A _]. exact A.
  - intros s' t' [A _]. exact A.
Qed.

Section Units.
  Variable lay : layout.

  Lemma upload_c02 : forall c h v exp s0 t, coll_path c = true -> is_safe h = true -> fs_inv_weak s0 -> look s0 c = Some D ->
    machine_wp (upload lay c h v exp) (AFT (UUpload c h v exp) s0) (fun _ => OUT (UUpload c h v exp) s0) (OUT (UUpload c h v exp) s0) s0 t.
  Proof.
    intros c h v exp s0 t Hc Hh Hi Hd. set (u := UUpload c h v exp).
    assert (Hcd : forall c0, In c0 [c] -> is_data c0 = true) by (intros c0 Hin; apply in1 in Hin; subst; apply coll_is_data; exact Hc).
    pose proof (coll_ne c Hc) as Hne. pose proof (coll_is_data c Hc) as Hdat.
    unfold upload. cbn [seqs]. unfold machine_wp. cbn [wp].
    pose proof (aw_unit [c] c h v s0 Hne Hi) as Haw.
    eapply wp_mono; [ | | | apply (Haw (fun c0 Hin => eq_ind _ (fun z => prefix z c = true) (prefix_refl c) _ (in1 _ _ _ Hin))
                                       (fun c0 Hin => eq_ind _ (fun z => look s0 z = Some D) Hd _ (in1 _ _ _ Hin)) t) ]; cbn beta.
    - (* after the atomic write: the tail *)
      intros s1 t1 [[Hi1 Hp1] Hd1].
      assert (Hdir : forall s t, J02 s1 [c] s t -> look s c = Some D) by (intros s2 t2 (_ & _ & Hx); apply Hx; left; reflexivity).
      pose proof (J02_ok s1 [c] Hcd) as Jok. pose proof (J02_fail s1 [c]) as Jf.
      change (machine_wp (seqs [Catch (store_cache lay c h v) (fun _ => Raise EVal); update_history lay c h (Some v);
                                clean_history lay c exp; get_many lay c [h] false]) (AFT u s0) (fun _ => OUT u s0) (OUT u s0) s1 t1).
      apply (tail_after u s0 s1 [c]); [ | exact Hi1 | exact Hp1 | exact Hd1].
      apply calm_seqs. forall_split.
      + apply calm_catch; [apply (calm_store_cache _ Jok Jf c Hdir Hne Hdat) | intro e; apply calm_raise].
      + apply (calm_update_history _ Jok Jf c Hdir Hne Hdat).
      + apply (calm_clean_history _ Jok Jf c).
      + apply (calm_get_many _ Jok Jf c Hdir Hne Hdat).
    - intros e s1 t1 H1. exact H1.
    - intros s1 t1 H1. exact H1.
  Qed.

  Lemma set_meta_c02 : forall c pv s0 t, coll_path c = true -> fs_inv_weak s0 ->
    machine_wp (set_meta c pv) (AFT (USetMeta c pv) s0) (fun _ => OUT (USetMeta c pv) s0) (OUT (USetMeta c pv) s0) s0 t.
  Proof.
    intros c pv s0 t Hc Hi. pose proof (coll_ne c Hc) as Hne.
    unfold set_meta, machine_wp. cbn [wp].
    pose proof (aw_unit [] c Props pv s0 Hne Hi (fun c0 (H : In c0 []) => match H with end) (fun c0 (H : In c0 []) => match H with end) t) as Haw.
    unfold machine_wp in Haw.
    eapply wp_mono; [ | | | exact Haw ]; cbn beta.
    - intros s1 t1 [[Hi1 Hp1] _]. split; assumption.
    - intros e s1 t1 H1. destruct e as [e| |]; cbn [wp]; exact H1.
    - intros s1 t1 H1. exact H1.
  Qed.
End Units.
