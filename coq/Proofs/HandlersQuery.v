(* C03 for the REPORTs other than multiget (Model/Handlers.v, do_query): calendar-query, addressbook-query,
   sync-collection, free-busy-query.  What the policy must grant for an item to flow into the answer. *)
From Coq Require Import List NArith Bool Lia.
Import ListNotations.
Require Import RV.Lib.PyStr RV.Lib.Item RV.Model.Store RV.Model.Access RV.Model.Handlers
               RV.Proofs.StoreLemmas RV.Proofs.HandlersInv RV.Proofs.HandlersStore RV.Proofs.HandlersRights.
Open Scope N_scope.

Lemma last_name_snoc : forall (p : path) h, last_name (p ++ [h]) = h.
Proof. intros p h. unfold last_name. apply last_last. Qed.

(* observers: the store is not an output of do_query at all; as a request it leaves the store as the gate left it *)
Theorem query_pure : forall cfg pol u s p k flt,
  fst (handle cfg pol u s (RQuery p k flt)) = ensure_home pol s u.
Proof. reflexivity. Qed.

Lemma PListing_inj : forall a b, PListing a = PListing b -> a = b.
Proof. intros a b H. injection H. auto. Qed.

(* every item a query report answers with is a stored member of a collection on which the policy grants r,
   and passes the request's filter *)
Theorem query_entries_need_r : forall pol s p k flt l,
  do_query pol s p k flt = (S207, PListing l) ->
  forall q o w, In (EItemE q o w) l ->
    has lr (pol (parent q)) = true
    /\ (exists c, lookup s (parent q) = Some c /\ In (last_name q, o) (c_items c) /\ q = parent q ++ [last_name q])
    /\ (forall sel, flt = Some sel -> sel o = true).
Proof.
  intros pol s p k flt l H q o w He. unfold do_query in H.
  destruct (negb (check pol p lr NoItem)); [discriminate|].
  destruct (resolve s p) as [c|pc o'|] eqn:Er; try discriminate.
  - destruct (negb (check pol p lr (kind_of (NColl c)))) eqn:Ec; [discriminate|].
    apply negb_false_iff in Ec. cbn [kind_of] in Ec. rewrite check_r_coll in Ec.
    pose proof (resolve_coll s p c Er) as Hl.
    destruct k, flt as [sel|], (c_tag c) eqn:Et; cbn in H, Ec; try discriminate;
      try (destruct (c_items c) eqn:Ei; cbn in H; [|discriminate]);
      inversion H; subst l; clear H; try (cbn in He; contradiction);
      apply in_map_iff in He as [[n o0] [E Hin]]; inversion E; subst q o w; cbn [fst snd];
      rewrite parent_snoc, last_name_snoc;
      (split; [exact Ec|]); (split; [exists c; split; [exact Hl|]; split; [|reflexivity]|]);
      try (apply filter_In in Hin as [Hin Hs]; cbn [snd] in Hs);
      try exact Hin; try (rewrite Ei in *; assumption);
      intros sel' E'; inversion E'; subst; try assumption.
  - destruct (negb (check pol p lr (kind_of (NItem pc o')))) eqn:Ec; [discriminate|].
    apply negb_false_iff in Ec. cbn [kind_of] in Ec. rewrite check_r_item in Ec. apply andb_true_iff in Ec as [R W].
    apply negb_true_iff in R. rewrite pperms_nonroot in W by exact R.
    destruct (resolve_item s p pc o' Er) as (_ & Hp & Hl & Ha). apply assoc_In in Ha.
    destruct k, flt as [sel|], (c_tag pc) eqn:Et; cbn -[map filter] in H; try discriminate;
      try (destruct (c_items pc) eqn:Ei; cbn -[map filter] in H; [|discriminate]);
      apply pair_equal_spec in H as [_ H]; apply PListing_inj in H; subst l; try (cbn in He; contradiction);
      apply in_map_iff in He as [[n o0] [E Hin]]; inversion E; subst q o w; cbn [fst snd];
      rewrite parent_snoc, last_name_snoc;
      (split; [exact W|]); (split; [exists pc; split; [exact Hl|]; split; [|reflexivity]|]);
      try (apply filter_In in Hin as [Hin Hs]; cbn [snd] in Hs);
      try (destruct Hin as [Hin|[]]; inversion Hin; subst n o0);
      try exact Hin; try exact Ha; try (rewrite Ei in *; assumption);
      intros sel' E'; inversion E'; subst; try assumption.
Qed.

(* a free-busy answer is computed from events of ONE calendar, on which the policy grants r, that pass the time range *)
Theorem freebusy_needs_r : forall pol s p flt l,
  do_query pol s p QFreeBusy flt = (S200, PBusy l) ->
  exists cp c sel, (cp = p \/ cp = parent p /\ is_root p = false) /\ lookup s cp = Some c /\ c_tag c = TCal
    /\ has lr (pol cp) = true /\ flt = Some sel
    /\ forall o, In o l -> In o (map snd (c_items c)) /\ is_event o = true /\ sel o = true.
Proof.
  intros pol s p flt l H. unfold do_query in H.
  destruct (negb (check pol p lr NoItem)); [discriminate|].
  destruct (resolve s p) as [c|pc o'|] eqn:Er; try discriminate.
  - destruct (negb (check pol p lr (kind_of (NColl c)))) eqn:Ec; [discriminate|].
    apply negb_false_iff in Ec. cbn [kind_of] in Ec. rewrite check_r_coll in Ec.
    destruct (c_tag c) eqn:Et; cbn -[filter] in H, Ec; try discriminate. destruct flt as [sel|]; [|discriminate].
    injection H as <-. exists p, c, sel.
    split; [left; reflexivity|]. split; [exact (resolve_coll s p c Er)|]. split; [exact Et|].
    split; [exact Ec|]. split; [reflexivity|].
    intros o Ho. apply filter_In in Ho as [Hi Hb]. apply andb_true_iff in Hb as [Hb1 Hb2]. repeat split; assumption.
  - destruct (negb (check pol p lr (kind_of (NItem pc o')))) eqn:Ec; [discriminate|].
    apply negb_false_iff in Ec. cbn [kind_of] in Ec. rewrite check_r_item in Ec. apply andb_true_iff in Ec as [R W].
    apply negb_true_iff in R. rewrite pperms_nonroot in W by exact R.
    destruct (resolve_item s p pc o' Er) as (_ & Hp & Hl & Ha).
    destruct (c_tag pc) eqn:Et; cbn -[filter] in H; try discriminate. destruct flt as [sel|]; [|discriminate].
    injection H as <-. exists (parent p), pc, sel.
    split; [right; split; [reflexivity|exact R]|]. split; [exact Hl|]. split; [exact Et|].
    split; [exact W|]. split; [reflexivity|].
    intros o Ho. apply filter_In in Ho as [Hi Hb]. apply andb_true_iff in Hb as [Hb1 Hb2]. repeat split; assumption.
Qed.

(* the status codes of the rights decisions, in report.py's order: no r at all -> 403 before anything is looked up *)
Theorem query_denied_first : forall pol s p k flt,
  check pol p lr NoItem = false -> do_query pol s p k flt = (S403NA, PNone).
Proof. intros pol s p k flt H. unfold do_query. rewrite H. reflexivity. Qed.

(* non-vacuity: a calendar-query with a filter that answers one of two stored items *)
Example query_nonvacuous :
  let pol : policy := fun q => match q with [10; 20] => [114] | _ => [] end in
  let s : store := [([], mkColl TNone [] []); ([10], mkColl TNone [] []);
                    ([10; 20], mkColl TCal [] [(100, mkObj 0 CEvent 1); (101, mkObj 1 CTodo 2)])] in
  do_query pol s [10; 20] QCal (Some is_event) = (S207, PListing [EItemE [10; 20; 100] (mkObj 0 CEvent 1) false])
  /\ do_query pol s [10; 20] QFreeBusy (Some (fun _ => true)) = (S200, PBusy [mkObj 0 CEvent 1])
  /\ do_query (fun _ => []) s [10; 20] QCal None = (S403NA, PNone).
Proof. repeat split. Qed.
