(* C05 with [auth] cache_logins = True: the login cache (Model/LoginCache.v, property C17) sits between the gate and
   the htpasswd back-end (Model/Htpasswd.v).  Composition of C17's soundness theorem with C05's htpasswd theorem: a
   user identity comes out of BaseAuth.login only if a version of the htpasswd file -- the present one, or one the
   history passed through not longer ago than cache_successful_logins_expiry -- has an entry for exactly the mapped
   login that verifies exactly the presented password; and the identity is exactly that mapped login.

   In particular two pairs with equal login ++ password concatenations cut at different places are kept apart:
   nothing in the statement mentions the concatenation, only the pair.

   The htpasswd back-end enters as a pure function of the file version (htpasswd_cache off: a login does not change
   the back-end's state, c05_htpasswd_nocache_state); a back-end exception is no verdict and is outside the
   history-level model of the cache (theorems C17_backend_fault_outcome, C17_backend_fault_records_nothing), so it is mapped to rejected here, which cannot make the
   SUCCESS statement below true for the wrong reason (the conclusion is about a non-empty u). *)
From Coq Require Import List NArith ZArith Bool String.
Import ListNotations.
Require Import RV.Lib.PyStr RV.Model.C05Text RV.Model.Htpasswd.
Require RV.Model.LoginCache RV.Proofs.LoginCacheSound.
Require Import RV.Proofs.C05Htpasswd.

Module LC := RV.Model.LoginCache.

Section HtpasswdBehindLoginCache.
  Variable ext_verify : scheme -> pystr -> pystr -> vres.
  Variable hcfg : hconfig.
  Variable st : hstate.

  (* a version of the htpasswd file: text, size, mtime_ns *)
  Definition ht_fversion : Type := (pystr * N * N)%type.

  (* what htpasswd.Auth._login answers for that version (the empty string = rejected) *)
  Definition ht_file_backend (f : ht_fversion) (l pw : pystr) : pystr :=
    let '(t, sz, mt) := f in
    match snd (hlogin ext_verify hcfg st (present t sz mt) l pw) with
    | LUser u => u
    | _ => []
    end.

  (* the C05 reading of "the back-end accepts (l, pw) for the file text t" *)
  Definition ht_entry_verifies (t l pw : pystr) : Prop :=
    exists h, first_entry (h_has_bcrypt st) (file_lines t) l = Some h /\ h <> [] /\
              verify_as ext_verify (detect (h_enc hcfg) h) h pw = VTrue.

  Lemma ht_file_backend_accepts : forall f l pw u,
    h_cache hcfg = false -> flags_ok hcfg st ->
    ht_file_backend f l pw = u -> u <> [] ->
    u = l /\ ht_entry_verifies (fst (fst f)) l pw.
  Proof.
    intros [[t sz] mt] l pw u Hc Hf Hb Hu. unfold ht_file_backend in Hb.
    destruct (snd (hlogin ext_verify hcfg st (present t sz mt) l pw)) eqn:E.
    - subst u. apply (c05_htpasswd_nocache ext_verify hcfg st t sz mt l pw) in E; [ | exact Hc | exact Hf ].
      destruct E as [E1 E2]. split; [exact E1 | exact E2].
    - subst u. exfalso. apply Hu. reflexivity.
    - subst u. exfalso. apply Hu. reflexivity.
  Qed.

  Theorem c05_htpasswd_login_cache : forall (cfg : LC.config) (t0 : Z) (f0 : ht_fversion)
      (h : list (@LC.event ht_fversion)) (l pw u : pystr) (cached : bool),
    h_cache hcfg = false -> flags_ok hcfg st ->
    let s := fst (LC.run ht_file_backend LC.Vfix cfg (LC.init t0 f0) h) in
    let m := LC.map_login cfg l in
    LC.r_out (LC.login_body LC.Vfix cfg (ht_file_backend (LC.s_bk s)) (LC.s_now s) (LC.s_cache s) l pw) = LC.ORet u cached ->
    u <> [] ->
    u = m /\
    (ht_entry_verifies (fst (fst (LC.s_bk s))) m pw \/
     exists tm f, In (tm, f) (LC.moments ht_file_backend LC.Vfix cfg (LC.init t0 f0) h)
                  /\ (LC.age_s (LC.s_now s) tm <= LC.c_exp_s cfg)%Z
                  /\ ht_entry_verifies (fst (fst f)) m pw).
  Proof.
    intros cfg t0 f0 h l pw u cached Hc Hf s m Hr Hu.
    destruct (@LoginCacheSound.success_sound ht_fversion ht_file_backend cfg t0 f0 h l pw u cached Hr Hu) as [Hnow | [tm [f [Hin [Hage Hb]]]]].
    - destruct (ht_file_backend_accepts _ _ _ _ Hc Hf Hnow Hu) as [E1 E2]. split; [exact E1 | left; exact E2].
    - destruct (ht_file_backend_accepts _ _ _ _ Hc Hf Hb Hu) as [E1 E2]. split; [exact E1 | right; exists tm, f; auto].
  Qed.
End HtpasswdBehindLoginCache.

(* ---- non-vacuity: plain file "alice:xyz", htpasswd_cache off, login cache on (15 s / 90 s).  alice/xyz is accepted,
   one second later the cache answers for alice/xyz (hypotheses of the theorem hold with a CACHED success), while the pairs
   with the same concatenation cut elsewhere -- alic/exyz, alicex/yz -- are rejected by the model of the cache as well. *)
Definition ex_lc_hcfg : hconfig := {| h_enc := EPlain; h_cache := false; h_module := true |}.
Definition ex_lc_file : ht_fversion := (str "alice:xyz" ++ [LF] ++ str "bo:bby" ++ [LF], 17%N, 1000%N).
Definition ex_lc_cfg : LC.config := LC.mkConfig false false false true 15 90 1700000000000000000.
Definition ex_lc_verify (s : scheme) (h pw : pystr) : vres := VFalse.

Example ex_login_cache_hyps :
  exists st, init ex_lc_hcfg (present (fst (fst ex_lc_file)) 17 1000) = Some st /\ flags_ok ex_lc_hcfg st /\
    let bk := ht_file_backend ex_lc_verify ex_lc_hcfg st in
    let s := fst (LC.run bk LC.Vfix ex_lc_cfg (LC.init 1700000000000000000 ex_lc_file)
                         [LC.Attempt (str "alice") (str "xyz"); LC.Tick 1000000000]) in
    let out l pw := LC.r_out (LC.login_body LC.Vfix ex_lc_cfg (bk (LC.s_bk s)) (LC.s_now s) (LC.s_cache s) l pw) in
    out (str "alice") (str "xyz") = LC.ORet (str "alice") true /\
    out (str "alic") (str "exyz") = LC.ORet [] false /\
    out (str "alicex") (str "yz") = LC.ORet [] false /\
    out (str "bo") (str "bby") = LC.ORet (str "bo") false.
Proof.
  eexists. split; [vm_compute; reflexivity|]. split; [intros H; vm_compute in H; discriminate|].
  vm_compute. repeat split; reflexivity.
Qed.
