(* C01 -- "nothing else appears", over whole histories: a name under which nothing is stored stays free until a
   request addresses it (PUT of it or of a collection above it, MOVE onto it, MKCOL / MKCALENDAR on it) -- the
   automatic home collection of the requesting user aside. *)
From Coq Require Import List NArith Bool Lia.
Import ListNotations.
Require Import RV.Lib.PyStr RV.Lib.Item RV.Model.Store RV.Model.Access RV.Model.Handlers
               RV.Proofs.StoreLemmas RV.Proofs.HandlersInv RV.Proofs.HandlersStore RV.Proofs.C01Stable.
Open Scope N_scope.

Definition absent (s : store) (p : path) : Prop := resolve s p = NNothing.

Lemma absent_lookups : forall s p,
  absent s p <->
  lookup s p = None /\ (p = [] \/ lookup s (parent p) = None
                        \/ exists pc, lookup s (parent p) = Some pc /\ assoc (c_items pc) (last_name p) = None).
Proof.
  intros s p. unfold absent, resolve. split.
  - intros H. destruct (lookup s p) eqn:E; [discriminate|]. split; [reflexivity|].
    destruct p as [|n p]; [left; reflexivity|]. right.
    destruct (lookup s (parent (n :: p))) as [pc|] eqn:E2; [|left; reflexivity]. right. exists pc. split; [reflexivity|].
    destruct (assoc (c_items pc) (last_name (n :: p))); [discriminate|reflexivity].
  - intros (H1 & H2). rewrite H1. destruct p as [|n p]; [reflexivity|].
    destruct H2 as [H2|[H2|(pc & H2 & H3)]]; [discriminate|rewrite H2; reflexivity|rewrite H2, H3; reflexivity].
Qed.

(* a change of one collection q other than p, which does not give p's parent an item under p's name *)
Lemma absent_set : forall s p q c',
  absent s p -> q <> p ->
  (q = parent p -> p <> [] -> assoc (c_items c') (last_name p) = None) ->
  absent (set_coll s q c') p.
Proof.
  intros s p q c' Ha Hqp Hit. apply absent_lookups in Ha. destruct Ha as (H1 & H2). apply absent_lookups.
  split; [rewrite lookup_set_other by exact Hqp; exact H1|].
  destruct p as [|n p]; [left; reflexivity|]. right.
  destruct (list_eq_dec N.eq_dec q (parent (n :: p))) as [Heq|Hne].
  - right. exists c'. split; [rewrite Heq; apply lookup_set_same|]. apply Hit; [exact Heq|discriminate].
  - rewrite lookup_set_other by exact Hne.
    destruct H2 as [H2|[H2|(pc & H2 & H3)]]; [discriminate|left; exact H2|right; exists pc; split; assumption].
Qed.

Lemma absent_del_subtree : forall s p q, absent s p -> absent (del_subtree s q) p.
Proof.
  intros s p q Ha. apply absent_lookups in Ha. destruct Ha as (H1 & H2). apply absent_lookups.
  split; [rewrite lookup_del_subtree; destruct (is_prefix q p); [reflexivity|exact H1]|].
  destruct p as [|n p]; [left; reflexivity|]. right. rewrite lookup_del_subtree.
  destruct (is_prefix q (parent (n :: p))); [left; reflexivity|].
  destruct H2 as [H2|[H2|(pc & H2 & H3)]]; [discriminate|left; exact H2|right; exists pc; split; assumption].
Qed.

Lemma is_prefix_parent_self : forall p : path, p <> [] -> is_prefix (parent p) p = true.
Proof. intros p Hp. apply is_prefix_spec. exists [last_name p]. apply parent_last. exact Hp. Qed.

(* the item list of an EXISTING collection q changes at names other than p's *)
Lemma absent_set_items : forall s p q c',
  absent s p -> q <> p ->
  (forall pc, lookup s (parent p) = Some pc -> q = parent p -> assoc (c_items c') (last_name p) = assoc (c_items pc) (last_name p)) ->
  lookup s q <> None ->
  absent (set_coll s q c') p.
Proof.
  intros s p q c' Ha Hqp Hsame Hex. apply absent_set; [exact Ha|exact Hqp|].
  intros Heq Hp. apply absent_lookups in Ha. destruct Ha as (_ & [H2|[H2|(pc & H2 & H3)]]).
  - contradiction.
  - rewrite <- Heq in H2. contradiction.
  - rewrite (Hsame pc H2 Heq). exact H3.
Qed.

Lemma absent_home : forall pol s u p, absent s p -> u <> Some (last_name p) \/ parent p <> [] \/ p = [] -> absent (ensure_home pol s u) p.
Proof.
  intros pol s u p Ha Hu. unfold ensure_home. destruct u as [n|]; [|exact Ha].
  destruct (resolve s [n]) eqn:E; try exact Ha. destruct (has lW (pol [n])); [|exact Ha].
  apply absent_set; [exact Ha| |reflexivity].
  intros Heq. subst p. cbn in Hu. destruct Hu as [Hu|[Hu|Hu]]; [apply Hu; reflexivity|apply Hu; reflexivity|discriminate].
Qed.

Section Absent.
  Variables (cfg : config) (pol : policy).

  Lemma put_absent : forall s q ct b im inm p,
    absent s p -> is_prefix q p = false -> absent (fst (do_put cfg pol s q ct b im inm)) p.
  Proof.
    intros s q ct b im inm p Ha Hpre.
    destruct (do_put cfg pol s q ct b im inm) as [s' r] eqn:E. cbn [fst]. apply do_put_cases in E.
    assert (Hqp : q <> p) by (intros ->; rewrite is_prefix_refl in Hpre; discriminate).
    destruct E as [[-> _]|[(pc & tg & objs & _ & _ & _ & _ & -> & _)|(pc & o' & Hpar & _ & _ & _ & _ & -> & _ & _ & Hroot)]];
      [exact Ha| |].
    - apply absent_set; [apply absent_del_subtree; exact Ha|exact Hqp|].
      intros Heq Hp. subst q. rewrite (is_prefix_parent_self p Hp) in Hpre. discriminate.
    - apply resolve_coll in Hpar.
      assert (Hqne : q <> []) by (destruct q; [discriminate|discriminate]).
      apply absent_set_items; [exact Ha| | |congruence].
      + intros Heq. apply absent_lookups in Ha. destruct Ha as (H1 & _). rewrite <- Heq, Hpar in H1. discriminate.
      + intros pp Hpp Heq. cbn [c_items]. rewrite Heq, Hpp in Hpar. inversion Hpar; subst pp.
        apply assoc_set_other. intros Hl. apply Hqp.
        destruct p as [|n p]; [exfalso; apply absent_lookups in Ha; destruct Ha as (H1 & _); unfold parent in Hpp; cbn [removelast] in Hpp; congruence|].
        apply same_parent_last; [exact Hqne|discriminate|exact Heq|exact Hl].
  Qed.

  Lemma delete_absent : forall s q im p,
    absent s p -> is_prefix q p = false -> absent (fst (do_delete cfg pol s q im)) p.
  Proof.
    intros s q im p Ha Hpre.
    assert (Hqp : q <> p) by (intros ->; rewrite is_prefix_refl in Hpre; discriminate).
    unfold do_delete.
    destruct (negb (check pol q lw NoItem)); [exact Ha|].
    destruct (resolve s q) as [c|pc oq|] eqn:Er; [| |exact Ha].
    - destruct (negb (check pol q lw (kind_of (NColl c)))); [exact Ha|].
      destruct (negb match im with CNone | CStar => true | CTag e => etag_eqb_current (NColl c) e end); [exact Ha|].
      destruct (if permit_delete cfg then has ld (pol q) else negb (has lD (pol q))); [exact Ha|]. cbn [fst].
      destruct (is_root q) eqn:Eroot; [destruct q; [discriminate Hpre|discriminate Eroot]|].
      apply absent_del_subtree. exact Ha.
    - destruct (negb (check pol q lw (kind_of (NItem pc oq)))); [exact Ha|].
      destruct (negb match im with CNone | CStar => true | CTag e => etag_eqb_current (NItem pc oq) e end); [exact Ha|]. cbn [fst].
      apply resolve_item in Er. destruct Er as (_ & Hqne & Hpar & _).
      apply absent_set_items; [exact Ha| | |congruence].
      + intros Heq. apply absent_lookups in Ha. destruct Ha as (H1 & _). rewrite <- Heq, Hpar in H1. discriminate.
      + intros pp Hpp Heq. cbn [c_items]. rewrite Heq, Hpp in Hpar. inversion Hpar; subst pp.
        apply assoc_del_other. intros Hl. apply Hqp.
        destruct p as [|n p]; [exfalso; apply absent_lookups in Ha; destruct Ha as (H1 & _); unfold parent in Hpp; cbn [removelast] in Hpp; congruence|].
        apply same_parent_last; [exact Hqne|discriminate|exact Heq|exact Hl].
  Qed.

  Lemma mkcol_absent : forall s q x p, absent s p -> q <> p -> absent (fst (do_mkcol pol s q x)) p.
  Proof.
    intros s q x p Ha Hqp. destruct (do_mkcol pol s q x) as [s' r] eqn:E. cbn [fst].
    unfold do_mkcol in E. brk_in E; inversion E; subst; try exact Ha.
    all: apply absent_set; [exact Ha|exact Hqp|reflexivity].
  Qed.

  Lemma mkcalendar_absent : forall s q x p, absent s p -> q <> p -> absent (fst (do_mkcalendar pol s q x)) p.
  Proof.
    intros s q x p Ha Hqp. destruct (do_mkcalendar pol s q x) as [s' r] eqn:E. cbn [fst].
    unfold do_mkcalendar in E. brk_in E; inversion E; subst; try exact Ha.
    all: apply absent_set; [exact Ha|exact Hqp|reflexivity].
  Qed.

  Lemma proppatch_absent : forall s q x p, absent s p -> absent (fst (do_proppatch pol s q x)) p.
  Proof.
    intros s q x p Ha. destruct (do_proppatch pol s q x) as [s' r] eqn:E. cbn [fst].
    unfold do_proppatch in E. brk_in E; inversion E; subst; try exact Ha.
    all: match goal with Hc : resolve _ _ = NColl ?c |- _ => apply resolve_coll in Hc end.
    all: apply absent_set_items; [exact Ha| | |congruence].
    all: try (intros Heq; subst q; apply absent_lookups in Ha; destruct Ha as (H1 & _); congruence).
    all: intros pp Hpp Heq; subst q; cbn [c_items]; congruence.
  Qed.

  Lemma move_absent : forall s q dr dout to ow p,
    absent s p -> to <> p -> absent (fst (do_move pol s q dr dout to ow)) p.
  Proof.
    intros s q dr dout to ow p Ha Htp.
    destruct (do_move pol s q dr dout to ow) as [s' r] eqn:E. cbn [fst]. apply do_move_cases in E.
    destruct E as [[-> _]|(fc & oq & toc & tc & Hi & Htc & _ & _ & Hcf & Hl & -> & _)]; [exact Ha|].
    pose proof Hi as Hi0. apply resolve_item in Hi. destruct Hi as (Hql & Hqne & Hqpar & Hqa).
    apply resolve_coll in Htc.
    assert (Hqp : q <> p) by (intros ->; unfold absent in Ha; rewrite Ha in Hi0; discriminate).
    assert (Htone : to <> []).
    { intros ->. cbn in Hcf. destruct (resolve s []) eqn:Er; try contradiction.
      - unfold resolve in Er. destruct (lookup s []); discriminate.
      - unfold resolve in Er. cbn in Htc. rewrite Htc in Er. discriminate. }
    set (fc' := mkColl (c_tag fc) (c_props fc) (assoc_del (c_items fc) (last_name q))) in *.
    assert (Ha1 : absent (set_coll s (parent q) fc') p).
    { apply absent_set_items; [exact Ha| | |congruence].
      - intros Heq. apply absent_lookups in Ha. destruct Ha as (H1 & _). rewrite <- Heq, Hqpar in H1. discriminate.
      - intros pp Hpp Heq. cbn [c_items fc']. rewrite Heq, Hpp in Hqpar. inversion Hqpar; subst pp.
        apply assoc_del_other. intros Hlq. apply Hqp.
        destruct p as [|n p]; [exfalso; apply absent_lookups in Ha; destruct Ha as (H1 & _); unfold parent in Hpp; cbn [removelast] in Hpp; congruence|].
        apply same_parent_last; [exact Hqne|discriminate|exact Heq|exact Hlq]. }
    apply absent_set_items; [exact Ha1| | |congruence].
    - intros Heq. apply absent_lookups in Ha1. destruct Ha1 as (H1 & _). rewrite <- Heq, Hl in H1. discriminate.
    - intros pp Hpp Heq. cbn [c_items]. rewrite Heq, Hpp in Hl. inversion Hl; subst pp.
      apply assoc_set_other. intros Hlt. apply Htp.
      destruct p as [|n p]; [exfalso; apply absent_lookups in Ha1; destruct Ha1 as (H1 & _); change (parent []) with (@nil name) in Hpp; unfold fc' in *; rewrite Hpp in H1; discriminate|].
      apply same_parent_last; [exact Htone|discriminate|exact Heq|exact Hlt].
  Qed.

  (* the request does not create p: as [leaves], except that a MOVE away from p is irrelevant *)
  Theorem handle_absent : forall user s r p,
    absent s p -> leaves p r = true -> user <> Some (last_name p) \/ parent p <> [] \/ p = [] ->
    absent (fst (handle cfg pol user s r)) p.
  Proof.
    intros user s r p Ha Hl Hu. pose proof (absent_home pol s user p Ha Hu) as Hh. unfold handle.
    destruct r as [q ct b im inm|q im|q dok to ow|q x|q x|q x|q|q d|q cal hs|q k flt]; cbn [leaves] in Hl; cbn [fst]; try exact Hh.
    - apply put_absent; [exact Hh|apply negb_true_iff; exact Hl].
    - apply delete_absent; [exact Hh|apply negb_true_iff; exact Hl].
    - apply andb_true_iff in Hl. destruct Hl as [_ H2]. apply negb_true_iff in H2.
      apply move_absent; [exact Hh|apply path_eqb_neq; exact H2].
    - apply mkcol_absent; [exact Hh|apply path_eqb_neq; apply negb_true_iff; exact Hl].
    - apply mkcalendar_absent; [exact Hh|apply path_eqb_neq; apply negb_true_iff; exact Hl].
    - apply proppatch_absent; exact Hh.
  Qed.

  Theorem history_absent : forall user rs s p,
    absent s p -> forallb (leaves p) rs = true -> user <> Some (last_name p) \/ parent p <> [] \/ p = [] ->
    absent (fst (run_history cfg pol user s rs)) p.
  Proof.
    induction rs as [|r rs IH]; intros s p Ha Hl Hu; cbn [run_history]; [exact Ha|].
    cbn [forallb] in Hl. apply andb_true_iff in Hl. destruct Hl as [Hr Hrs].
    pose proof (handle_absent user s r p Ha Hr Hu) as H1.
    destruct (handle cfg pol user s r) as [s1 out]. cbn [fst] in H1.
    pose proof (IH s1 p H1 Hrs Hu) as H2.
    destruct (run_history cfg pol user s1 rs) as [s2 outs]. exact H2.
  Qed.
End Absent.
