(* C09 -- static facts about the current source (tie T, Gen/C09Static.v regenerated on every run) and why they
   matter for concurrent servers. *)
From Coq Require Import List String NArith Bool.
Import ListNotations.
Require Import RV.Model.StaticFacts.
Require RV.Gen.C09Static.
Open Scope string_scope.

(* ---------------------------------------------------------------- 1. the lock file *)
(* the lock file is <filesystem_folder>/.Radicale.lock -- a function of the storage folder only *)
Lemma Gen_lock_path_eq : C09Static.lock_path = LJoin (LF FStorage) ".Radicale.lock".
Proof. reflexivity. Qed.
(* and nothing in the storage layer removes, renames or replaces it *)
Lemma Gen_lock_never_unlinked : C09Static.lock_unlink_sites = [].
Proof. reflexivity. Qed.

(* two server instances that share the storage folder lock the same file, whatever their cache folders are *)
Theorem lock_file_identity : forall c1 c2,
  storage_folder c1 = storage_folder c2 ->
  lock_file c1 C09Static.lock_path = lock_file c2 C09Static.lock_path /\
  lock_file c1 C09Static.lock_path = Some (storage_folder c1, ".Radicale.lock").
Proof. intros c1 c2 H. rewrite Gen_lock_path_eq. cbn. rewrite H. split; reflexivity. Qed.

(* what goes wrong otherwise: with the lock next to the cache, host-local cache folders give different lock files *)
Example lock_in_cache_folder_refuted :
  exists c1 c2, storage_folder c1 = storage_folder c2 /\
    lock_file c1 (LJoin (LOr (LF FCache) (LF FStorage)) ".Radicale.lock") <>
    lock_file c2 (LJoin (LOr (LF FCache) (LF FStorage)) ".Radicale.lock").
Proof. exists (mkFolders "/srv/dav" "/var/cache/a"), (mkFolders "/srv/dav" "/var/cache/b"). split; [reflexivity|]. cbn. discriminate. Qed.

(* ---------------------------------------------------------------- 2. temporary names *)
Lemma Gen_atomic_write_fresh : C09Static.atomic_write_tmp = TmpFreshDir.
Proof. reflexivity. Qed.
(* every place of the storage back-end that opens a file for writing (reviewed: the mtime probe at start-up, the
   atomic writer, the whole-collection upload into a fresh temporary collection) *)
Lemma Gen_write_sites : C09Static.write_sites = ["__init__._analyse_mtime"; "base._atomic_write"; "upload._upload_all_nonatomic"].
Proof. reflexivity. Qed.

(* two concurrent atomic writes of one target through FRESH temporary names: under every interleaving both
   complete and the target holds exactly one writer's content *)
Theorem atomic_write_fresh_ok : forall sch, In sch aw_merges -> aw_good "token" ".tmp-a/token" ".tmp-b/token" sch = true.
Proof. apply forallb_forall. vm_compute. reflexivity. Qed.

(* through ONE fixed temporary name: an interleaving in which the second rename fails (the request answers 500),
   and one in which a truncated (empty) file is published: the other writer re-opened the name before the rename *)
Theorem atomic_write_fixed_refuted :
  (exists sch, In sch aw_merges /\ aw_run "token" sch aw_empty (new_writer ".tmp-token" 1) (new_writer ".tmp-token" 2) = None) /\
  (exists sch fs a b, In sch aw_merges /\ aw_run "token" (firstn 4 sch) aw_empty (new_writer ".tmp-token" 1) (new_writer ".tmp-token" 2) = Some (fs, a, b) /\
     target_content "token" (Some (fs, a, b)) = Some 0%N).
Proof.
  split.
  - exists [false; true; false; true; false; true]. split; [vm_compute; tauto|vm_compute; reflexivity].
  - exists [false; false; true; false; true; true]. eexists. eexists. eexists.
    split; [vm_compute; tauto|]. split; vm_compute; reflexivity.
Qed.

Example aw_merges_count : List.length aw_merges = 20.
Proof. reflexivity. Qed.

(* ---------------------------------------------------------------- 3. state shared by the serving threads *)
(* radicale/app: no attribute of the Application (shared by all threads) is assigned outside __init__, no mutable
   object created in __init__ is mutated later.  The two entries are reviewed: Access is a per-request object
   (lazy parent_permissions); _extra_headers is filled in __init__ and only read (headers.update(self._extra_headers)). *)
Lemma Gen_no_shared_mutation :
  C09Static.shared_mutations = ["assign:Access.parent_permissions:_parent_permissions";
                                "escape:Application._handle_request:_extra_headers"].
Proof. reflexivity. Qed.

(* ---------------------------------------------------------------- 4. a failed acquisition fails the request *)
(* RwLock.acquire and acquire_lock have no except clause that swallows a failure to obtain the lock: when flock()
   (or the condition wait) fails, the exception propagates and the critical section is NOT entered. *)
Lemma Gen_lock_failure_propagates : C09Static.lock_swallow_sites = [].
Proof. reflexivity. Qed.
